mod m1;
mod m3;
mod gen;
mod proj;
mod m5;
mod util;
use util::*;

fn main() {
    let args = Args::parse();
    let rep = match (args.cmd.as_str(), &args.replay) {
        ("c15", None) => m1::run(&args),
        ("c15", Some(p)) => m1::replay(&args, p),
        ("c14", None) => m3::run(&args),
        ("c14", Some(p)) => m3::replay(&args, p),
        ("c01", None) => m5::run_c01(&args),
        ("c01", Some(p)) => m5::replay(&args, "C01", p),
        ("c12", None) => m5::run_c12(&args),
        ("c13", None) => m5::run_c13(&args),
        ("c16", None) => m5::run_c16(&args),
        ("c12", Some(p)) => m5::replay(&args, "C12", p),
        ("c13", Some(p)) => m5::replay(&args, "C13", p),
        ("c16", Some(p)) => m5::replay(&args, "C16", p),
        (other, _) => {
            eprintln!("unknown command {other}");
            std::process::exit(2);
        }
    };
    rep.write(&args.result);
    for k in &rep.known {
        println!("KNOWN-FINDING: property={} {}", rep.property, k);
    }
    for v in &rep.violations {
        eprintln!("violation[{}]: {}", v.kind, v.what);
    }
    std::process::exit(if rep.violations.is_empty() { 0 } else { 1 });
}

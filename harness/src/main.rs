mod m1;
mod m3;
mod gen;
mod proj;
mod m5;
mod sched;
mod m6;
mod m7;
mod hist;
mod m8;
mod m9;
mod m10;
mod cli;
mod corner;
mod m11;
mod m5p;
mod util;
use util::*;

fn main() {
    let args = Args::parse();
    let rep = match (args.cmd.as_str(), &args.replay) {
        ("c15", None) => m1::run(&args),
        ("c15e", None) => m5::run_c15e(&args),
        ("c15e", Some(p)) => m5::replay(&args, "C15", p),
        ("c15", Some(p)) => m1::replay(&args, p),
        ("c14", None) => m3::run(&args),
        ("c14e", None) => m5::run_c14e(&args),
        ("c14e", Some(p)) => m5::replay(&args, "C14", p),
        ("c14", Some(p)) => m3::replay(&args, p),
        ("c01", None) => m5::run_c01(&args),
        ("c01", Some(p)) => m5::replay(&args, "C01", p),
        ("c12", None) => m5::run_c12(&args),
        ("c13", None) => m5::run_c13(&args),
        ("c16", None) => m5::run_c16(&args),
        ("c12", Some(p)) => m5::replay(&args, "C12", p),
        ("c13", Some(p)) => m5::replay(&args, "C13", p),
        ("c16", Some(p)) => m5::replay(&args, "C16", p),
        ("c02", None) => m6::run(&args, "C02"),
        ("c03", None) => m6::run(&args, "C03"),
        ("c04s", None) => m6::run(&args, "C04"),
        ("c05", None) => m6::run(&args, "C05"),
        ("c03d", None) => m6::run_scan(&args, "C03"),
        ("c03d", Some(p)) => m6::replay(&args, "C03", p),
        ("c02", Some(p)) => m6::replay(&args, "C02", p),
        ("c03", Some(p)) => m6::replay(&args, "C03", p),
        ("c04s", Some(p)) => m6::replay(&args, "C04", p),
        ("c05", Some(p)) => m6::replay(&args, "C05", p),
        ("c04f", None) => m7::run_c04f(&args),
        ("c04f", Some(p)) => m5::replay(&args, "C04", p),
        ("c06", None) => hist::run_c06(&args),
        ("c07", None) => hist::run_c07(&args),
        ("c08", None) => hist::run_c08(&args),
        ("c09", None) => hist::run_c09(&args),
        ("c10", None) => hist::run_c10(&args),
        ("c06", Some(p)) => m5::replay(&args, "C06", p),
        ("c07", Some(p)) => m5::replay(&args, "C07", p),
        ("c08", Some(p)) => m5::replay(&args, "C08", p),
        ("c09", Some(p)) => m5::replay(&args, "C09", p),
        ("c10", Some(p)) => m5::replay(&args, "C10", p),
        ("c11", None) => m8::run_c11(&args),
        ("c11", Some(p)) => m5::replay(&args, "C11", p),
        ("c17", None) => m9::run_c17(&args),
        ("c17", Some(p)) => m5::replay(&args, "C17", p),
        ("c18", None) => m10::run_c18(&args),
        ("trace", None) => m11::run_trace(&args),
        ("trace", Some(p)) => m5::replay(&args, &args.property.clone(), p),
        ("big", None) => m10::run_big(&args),
        ("corner", None) => m5::run_corner_job(&args),
        ("corner", Some(p)) => m5::replay(&args, &args.property.clone(), p),
        ("big", Some(p)) => m5::replay(&args, &args.property.clone(), p),
        ("c18", Some(p)) => m5::replay(&args, "C18", p),
        ("cli09", None) => cli::run_cli_flags(&args, "C09"),
        ("cli10", None) => cli::run_cli_flags(&args, "C10"),
        ("cli04", None) => cli::run_cli_flags(&args, "C04"),
        ("cli06", None) => cli::run_cli_flags(&args, "C06"),
        ("cli07", None) => cli::run_cli_flags(&args, "C07"),
        ("cli11", None) => cli::run_cli_flags(&args, "C11"),
        ("cli13", None) => cli::run_cli_flags(&args, "C13"),
        ("cli09", Some(p)) => m5::replay(&args, "C09", p),
        ("cli10", Some(p)) => m5::replay(&args, "C10", p),
        ("cli04", Some(p)) => m5::replay(&args, "C04", p),
        ("cli06", Some(p)) => m5::replay(&args, "C06", p),
        ("cli07", Some(p)) => m5::replay(&args, "C07", p),
        ("cli11", Some(p)) => m5::replay(&args, "C11", p),
        ("cli13", Some(p)) => m5::replay(&args, "C13", p),
        ("c01p", None) => m5p::run_c01p(&args),
        ("c01p", Some(p)) => m5::replay(&args, "C01", p),
        (other, _) => {
            eprintln!("unknown command {other}");
            std::process::exit(2);
        }
    };
    rep.write(&args.result);
    for k in &rep.known {
        println!("KNOWN-FINDING: property={} {}", rep.property, k);
    }
    for v in &rep.violations {
        eprintln!("violation[{}]: {}", v.kind, v.what);
    }
    std::process::exit(if rep.violations.is_empty() { 0 } else { 1 });
}

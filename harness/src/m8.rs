//! M8 (C11): which sources are processed and how outputs are named - `resolve_inputs`, `scan_dir`,
//! `fs/path/*` end to end on generated trees and input lists, vs the model and vs an independent
//! restatement of the rule in the harness.
use crate::gen::*;
use crate::m5::*;
use crate::proj::*;
use crate::util::*;
use std::collections::BTreeSet;

/// independent restatement of "is a txtpp source name" (property C11, not the code's algorithm)
fn is_source_name(name: &str) -> bool {
    if let Some(stem) = name.strip_suffix(".txtpp") {
        return !stem.is_empty();
    }
    // foo.txtpp.ext with a dot-free ext
    if let Some(i) = name.rfind('.') {
        let (head, ext) = (&name[..i], &name[i + 1..]);
        if let Some(stem) = head.strip_suffix(".txtpp") {
            return !stem.is_empty() && !ext.contains('.');
        }
    }
    false
}

fn expected_output(src: &str) -> String {
    output_name(src)
}

pub fn run_c11(args: &Args) -> Report {
    let mut rep = Report::new("C11", "M8", &args.replay_dir);
    let model = Model::new(&args.model, &args.work);
    let mut rng = Rng::new(args.seed.wrapping_mul(1000).wrapping_add(args.shard as u64).wrapping_add(0xC11));
    let mut raw_includes = 0usize;
    let total = if args.thorough() { 6000 } else { 480 };
    let n = total / args.shards.max(1);
    rep.rule = "generated directory trees (depth <= 3; sources of the shapes foo.ext.txtpp, foo.txtpp.ext, foo.txtpp, foo.min.js.txtpp, foo.bar.txtpp.ext; look-alikes `txtpp`, `.txtpp`, `a.txtpp.b.c`, `a.txtpp~`, `a.txt`) x input lists (`.`, directories, sources by source name or by output name, `./x`, `dir/../x`, absolute paths, duplicates, missing targets, look-alikes) x recursive on/off x build/clean, base directory different from the process cwd. Oracle (independent restatement of the rule in the harness): on success the set of outputs that exist afterwards = outputs of {named sources} + {sources directly in named directories} + (recursive: in all sub-directories) + (build: their transitive .txtpp dependencies); each output beside its source under the documented name; a named target without source is an error. Also compared with the model.".to_string();
    let mut runner = Runner::new(args, "c11");
    let bin = args.bin.clone().unwrap_or_default();
    for i in 0..n {
        let opts = GenOpts { error_pct: 0, max_sources: 4, allow_run: false, ..GenOpts::default() };
        let _ = Act { kind: "true", arg: String::new() };
        let mut p = gen_project(&mut rng, &opts);
        // more name shapes: rename some sources
        // look-alikes
        let looks = ["txtpp", ".txtpp", "a.txtpp.b.c", "a.txtpp~", "a.txt", "notes.txtpp.d/keep.txt"];
        for l in looks {
            if rng.chance(1, 2) {
                let d = if !p.dirs.is_empty() && rng.chance(1, 2) { format!("{}/", rng.pick(&p.dirs)) } else { String::new() };
                let path = format!("{d}{l}");
                if !p.files.iter().any(|f| f.0 == path) {
                    p.files.push((path, b"look-alike\n".to_vec()));
                }
            }
        }
        // a directory whose own name looks like a source name, with a real source inside
        if rng.chance(1, 2) {
            p.dirs.push("pages.txtpp".to_string());
            p.files.push(("pages.txtpp/x.txt.txtpp".to_string(), b"in a directory called pages.txtpp\n".to_vec()));
            p.sources.push("pages.txtpp/x.txt.txtpp".to_string());
        }
        // an extra source with a dotted stem in the foo.txtpp.ext shape (finding F6)
        if rng.chance(1, 2) {
            p.files.push(("lib.min.txtpp.js".to_string(), b"dotted stem\n".to_vec()));
            p.sources.push("lib.min.txtpp.js".to_string());
        }
        // a raw include of another *source file* (`include x.txt.txtpp`, as docs/README.md.txtpp does): its text is
        // copied, it is not a dependency and must not be processed because of this
        if rng.chance(1, 2) && p.sources.len() >= 2 {
            let tops: Vec<String> = p.sources.iter().filter(|s| !s.contains('/')).cloned().collect();
            if !tops.is_empty() {
                let host = rng.pick(&tops).clone();
                let guest = rng.pick(&p.sources).clone();
                if host != guest {
                    let c = p.file_mut(&host).unwrap();
                    if !c.is_empty() && !c.ends_with(b"\n") {
                        c.extend_from_slice(b"\n");
                    }
                    c.extend_from_slice(format!("~\nTXTPP#include {guest}\n~\n").as_bytes());
                    raw_includes += 1;
                }
            }
        }
        // one marker command per source, after everything else: runs exactly once per (final) pass
        for (k, src) in p.sources.clone().iter().enumerate() {
            let cmd = format!("echo mk{k} >> \"$VERIF_LOG\"");
            let c = p.file_mut(src).unwrap();
            if !c.is_empty() && !c.ends_with(b"\n") {
                c.extend_from_slice(b"\n");
            }
            c.extend_from_slice(format!("~\n@@@TXTPP#run {cmd}\n~\n").as_bytes());
            p.add_cmd(&cmd, vec![Act { kind: "mark", arg: format!("mk{k}") }]);
        }
        materialize(&p, &runner.dir);
        let all_sources: Vec<String> = p.sources.clone();
        // dependency edges known from the generator: source i may include outputs of later sources; recover them
        // by looking for include/after lines naming an output (independent of txtpp's parser: plain substring scan)
        let mut deps: Vec<Vec<usize>> = vec![vec![]; all_sources.len()];
        for (i, s) in all_sources.iter().enumerate() {
            let content = String::from_utf8_lossy(&p.files.iter().find(|f| &f.0 == s).unwrap().1).to_string();
            for (j, t) in all_sources.iter().enumerate() {
                if i == j {
                    continue;
                }
                let out = output_name(t);
                let base = out.rsplit('/').next().unwrap();
                if content.lines().any(|l| (l.contains("TXTPP#include ") || l.contains("TXTPP#after ")) && (l.trim_end().ends_with(&format!("/{base}")) || l.trim_end().ends_with(&format!(" {base}")))) {
                    deps[i].push(j);
                }
            }
        }
        // inputs
        let mut inputs: Vec<String> = vec![];
        let mut named: BTreeSet<usize> = BTreeSet::new();
        let mut dirs_named: Vec<String> = vec![];
        let mut expect_err = false;
        let k = 1 + rng.below(3);
        let abs_base = runner.base_abs.clone();
        for _ in 0..k {
            match rng.below(10) {
                0 | 1 => {
                    inputs.push(".".into());
                    dirs_named.push(String::new());
                }
                2 if !p.dirs.is_empty() => {
                    let d = rng.pick(&p.dirs).clone();
                    inputs.push(if rng.chance(1, 2) { d.clone() } else { format!("./{d}/") });
                    dirs_named.push(d);
                }
                3 | 4 => {
                    let j = rng.below(all_sources.len());
                    inputs.push(all_sources[j].clone());
                    named.insert(j);
                }
                5 => {
                    let j = rng.below(all_sources.len());
                    inputs.push(expected_output(&all_sources[j]));
                    named.insert(j);
                }
                6 => {
                    let j = rng.below(all_sources.len());
                    let s = &all_sources[j];
                    let alias = match s.rfind('/') {
                        Some(i) => format!("{}/../{}/{}", &s[..i], s[..i].rsplit('/').next().unwrap(), &s[i + 1..]),
                        // a top-level source spelled through some directory: `d/../s` (lexically below `d`, really beside it)
                        None if !p.dirs.is_empty() && rng.chance(1, 2) => {
                            let d = rng.pick(&p.dirs).clone();
                            let ups = "../".repeat(d.matches('/').count() + 1);
                            if rng.chance(1, 2) && !inputs.contains(&d) {
                                inputs.push(d.clone());
                                dirs_named.push(d.clone());
                            }
                            format!("{d}/{ups}{s}")
                        }
                        None => format!("./{s}"),
                    };
                    inputs.push(alias);
                    named.insert(j);
                }
                7 => {
                    let j = rng.below(all_sources.len());
                    inputs.push(format!("{abs_base}/{}", all_sources[j]));
                    named.insert(j);
                }
                8 => {
                    // no source stands behind any of these (missing, or a look-alike that is not a txtpp name)
                    if !p.dirs.is_empty() && rng.chance(1, 3) {
                        // a missing target spelled through a directory that is itself an input
                        let d = rng.pick(&p.dirs).clone();
                        if !inputs.contains(&d) {
                            inputs.push(d.clone());
                            dirs_named.push(d.clone());
                        }
                        inputs.push(format!("{d}/nosuch.txt"));
                    } else {
                        inputs.push((*rng.pick(&["missing.txt", "missing.txtpp", "nodir/x.txt", "a.txt", ".txtpp", "txtpp", "./.txtpp"])).to_string());
                    }
                    expect_err = true;
                }
                _ => {
                    if let Some(&j) = named.iter().next() {
                        inputs.push(all_sources[j].clone()); // duplicate
                    } else {
                        inputs.push(".".into());
                        dirs_named.push(String::new());
                    }
                }
            }
        }
        // `a.txt` exists only as a look-alike file without source
        let mut cfg = RunCfg::build_all();
        cfg.inputs = inputs.clone();
        cfg.recursive = rng.chance(1, 2);
        cfg.threads = 1 + rng.below(4);
        cfg.mode = match rng.below(10) {
            0 | 1 => "clean",
            2 | 3 => "verify",
            _ => "build",
        };
        if cfg.mode != "build" {
            // pre-build everything so that clean has something to remove and verify something to compare with
            let _ = run_impl(&runner.dir, &RunCfg::build_all(), &runner.log);
        }
        let idx = runner.run_here(&cfg, &p.cmds, vec![format!("{}|rec={}|k={}|err={}", cfg.mode, cfg.recursive, k, expect_err)], &format!("tree #{i} inputs {:?}", inputs));
        // a third of the cases once more through the CLI binary (argument parsing, flag mapping, exit status)
        if bin.exists() && rng.chance(1, 3) {
            let c = &runner.cases[idx];
            rep.count("also-through-the-CLI");
            if let Some(what) = crate::cli::cli_agrees(&bin, &c.before, &c.cfg, &c.imp, &runner.base_abs, &args.work.join(format!("c11cli-{}-{}", std::process::id(), args.shard))) {
                viol(&mut rep, &runner, idx, format!("C11: inputs {:?} (recursive={}, mode {}): {what}", inputs, cfg.recursive, cfg.mode));
            }
        }
        let c = &runner.cases[idx];
        // expected processed set (independent restatement)
        let mut processed: BTreeSet<usize> = named.clone();
        for d in &dirs_named {
            for (j, s) in all_sources.iter().enumerate() {
                let sdir = dir_of(s);
                let direct = &sdir == d;
                let below = d.is_empty() || sdir.starts_with(&format!("{d}/")) || &sdir == d;
                if direct || (cfg.recursive && below) {
                    processed.insert(j);
                }
            }
        }
        if cfg.mode != "clean" {
            let mut stack: Vec<usize> = processed.iter().cloned().collect();
            while let Some(x) = stack.pop() {
                for d in &deps[x] {
                    if processed.insert(*d) {
                        stack.push(*d);
                    }
                }
            }
        }
        if expect_err {
            if c.imp.verdict == "ok" {
                viol(&mut rep, &runner, idx, format!("C11: a named target without source must be an error, inputs {:?} gave ok", inputs));
            }
        } else if c.imp.verdict != "ok" {
            viol(&mut rep, &runner, idx, format!("C11: run over inputs {:?} fails with `{}`", inputs, c.imp.verdict));
        } else {
            for (j, s) in all_sources.iter().enumerate().filter(|_| cfg.mode != "verify") {
                let out = expected_output(s);
                let exists = c.imp.after.files.contains_key(&out);
                let want = if cfg.mode == "build" { processed.contains(&j) } else { !processed.contains(&j) && c.before.files.contains_key(&out) };
                if exists != want {
                    viol(&mut rep, &runner, idx, format!(
                        "C11: {} over inputs {:?} (recursive={}): output `{out}` of source `{s}` {} but the source {} in the requested set",
                        cfg.mode, inputs, cfg.recursive, if exists { "exists" } else { "does not exist" }, if processed.contains(&j) { "is" } else { "is not" }));
                }
            }
            // naming the same file several ways (source / output name, ./, dir/../, absolute, duplicates, scanned and
            // named) processes it once: its command ran exactly once
            if cfg.mode != "clean" {
                for (j, s) in all_sources.iter().enumerate() {
                    let cnt = c.imp.log.iter().filter(|l| **l == format!("mk{j}")).count();
                    let want = if processed.contains(&j) { 1 } else { 0 };
                    if cnt != want {
                        viol(&mut rep, &runner, idx, format!("C11: source `{s}` was processed {cnt} time(s), expected {want} (inputs {:?}, recursive={})", inputs, cfg.recursive));
                    }
                }
            }
            // no other file appears: names of every new file must be an expected output or temp target
            for f in c.imp.after.files.keys() {
                if !c.before.files.contains_key(f) {
                    let is_out = all_sources.iter().any(|s| &expected_output(s) == f);
                    let name = f.rsplit('/').next().unwrap();
                    if !is_out && !name.starts_with('t') {
                        viol(&mut rep, &runner, idx, format!("C11: unexpected new file `{f}` (not the documented output name of any source)"));
                    }
                }
            }
            // look-alikes are never processed
            for (f, _) in &p.files {
                let name = f.rsplit('/').next().unwrap();
                if !all_sources.contains(f) && is_source_name(name) && name != "keep.txt" {
                    rep.count("generator-made-extra-source");
                }
            }
        }
        if i == 0 {
            rep.sample(format!("sources {:?}, inputs {:?}, recursive={} => {} ; processed {:?}", all_sources, inputs, cfg.recursive, c.imp.verdict, processed));
        }
    }
    // a scanned directory whose entries are symbolic links: to a source file elsewhere, and (recursive) to a directory with
    // sources - both are scanned like ordinary entries; the outputs appear beside the real sources
    if args.shard == 0 {
        let d = runner.dir.clone();
        let _ = std::fs::remove_dir_all(&d);
        std::fs::create_dir_all(d.join("shared/more")).unwrap();
        std::fs::create_dir_all(d.join("site")).unwrap();
        std::fs::write(d.join("shared/footer.txt.txtpp"), "footer\n").unwrap();
        std::fs::write(d.join("shared/more/extra.txt.txtpp"), "extra\n").unwrap();
        std::fs::write(d.join("site/index.html.txtpp"), "index\n").unwrap();
        let _ = std::os::unix::fs::symlink("../shared/footer.txt.txtpp", d.join("site/footer.txt.txtpp"));
        let _ = std::os::unix::fs::symlink("../shared/more", d.join("site/more"));
        for (recursive, want) in [(true, vec!["site/index.html", "shared/footer.txt", "shared/more/extra.txt"]), (false, vec!["site/index.html", "shared/footer.txt"])] {
            for o in ["site/index.html", "shared/footer.txt", "shared/more/extra.txt"] {
                let _ = std::fs::remove_file(d.join(o));
            }
            let mut cfg = RunCfg::build_all();
            cfg.inputs = vec!["site".to_string()];
            cfg.recursive = recursive;
            cfg.threads = 2;
            let o = run_impl(&d, &cfg, &runner.log);
            rep.count("symlinked-directory-entries");
            let missing: Vec<&str> = want.iter().filter(|w| !d.join(w).exists()).cloned().collect();
            if o.verdict != "ok" || !missing.is_empty() {
                let what = format!("C11: directory `site` with a symbolic link to a source (`site/footer.txt.txtpp` -> ../shared/footer.txt.txtpp) and to a directory of sources (`site/more` -> ../shared/more), recursive={recursive}: verdict `{}`, outputs that were not produced: {:?}", o.verdict, missing);
                rep.violation("oracle", &what, &format!("# {what}\n"));
            }
        }
    }
    rep.countn("raw-include-of-a-source-file", raw_includes as u64);
    compare_all(&mut rep, &runner, &model, "C11", "C11.out_txtpp, out_ext_txtpp, out_txtpp_ext, named_by_output_finds_its_source");
    runner.cleanup();
    rep
}

fn viol(rep: &mut Report, runner: &Runner, idx: usize, what: String) {
    let c = &runner.cases[idx];
    rep.violation("oracle", &what, &replay_body(&c.before, &c.cfg, &c.cmds, &format!("# {what}\n")));
}

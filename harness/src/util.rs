//! Shared helpers: PRNG, hex codec, JSON writing, model driver, result report.
use std::collections::{BTreeMap, BTreeSet};
use std::io::Write;
use std::path::{Path, PathBuf};
use std::process::{Command, Stdio};

#[derive(Clone)]
pub struct Rng(pub u64);
impl Rng {
    pub fn new(seed: u64) -> Self {
        let mut r = Rng(seed.wrapping_mul(0x9E3779B97F4A7C15) ^ 0xD1B54A32D192ED03);
        if r.0 == 0 {
            r.0 = 1;
        }
        for _ in 0..4 {
            r.next();
        }
        r
    }
    pub fn next(&mut self) -> u64 {
        let mut x = self.0;
        x ^= x >> 12;
        x ^= x << 25;
        x ^= x >> 27;
        self.0 = x;
        x.wrapping_mul(0x2545F4914F6CDD1D)
    }
    pub fn below(&mut self, n: usize) -> usize {
        if n == 0 {
            0
        } else {
            (self.next() % n as u64) as usize
        }
    }
    pub fn chance(&mut self, num: usize, den: usize) -> bool {
        self.below(den) < num
    }
    pub fn pick<'a, T>(&mut self, v: &'a [T]) -> &'a T {
        &v[self.below(v.len())]
    }
    pub fn fork(&mut self) -> Rng {
        Rng::new(self.next())
    }
}

pub fn hex(b: &[u8]) -> String {
    if b.is_empty() {
        return "_".to_string();
    }
    let mut s = String::with_capacity(b.len() * 2);
    for x in b {
        s.push_str(&format!("{:02x}", x));
    }
    s
}
pub fn hexs(s: &str) -> String {
    hex(s.as_bytes())
}
pub fn unhex(s: &str) -> Option<Vec<u8>> {
    if s == "_" {
        return Some(vec![]);
    }
    if s.len() % 2 != 0 {
        return None;
    }
    let b = s.as_bytes();
    let mut out = Vec::with_capacity(b.len() / 2);
    for i in (0..b.len()).step_by(2) {
        let h = (b[i] as char).to_digit(16)?;
        let l = (b[i + 1] as char).to_digit(16)?;
        out.push((h * 16 + l) as u8);
    }
    Some(out)
}

pub fn jstr(s: &str) -> String {
    let mut o = String::from("\"");
    for c in s.chars() {
        match c {
            '"' => o.push_str("\\\""),
            '\\' => o.push_str("\\\\"),
            '\n' => o.push_str("\\n"),
            '\r' => o.push_str("\\r"),
            '\t' => o.push_str("\\t"),
            c if (c as u32) < 0x20 => o.push_str(&format!("\\u{:04x}", c as u32)),
            c => o.push(c),
        }
    }
    o.push('"');
    o
}

/// The compiled Lean model driver (line protocol).
pub struct Model {
    pub exe: PathBuf,
    pub work: PathBuf,
    counter: std::cell::Cell<u64>,
}
impl Model {
    pub fn new(exe: &Path, work: &Path) -> Self {
        Self {
            exe: exe.to_path_buf(),
            work: work.to_path_buf(),
            counter: std::cell::Cell::new(0),
        }
    }
    /// run all requests through one driver process; one response per request
    pub fn batch(&self, reqs: &[String]) -> Vec<String> {
        if reqs.is_empty() {
            return vec![];
        }
        let n = self.counter.get();
        self.counter.set(n + 1);
        let pid = std::process::id();
        let inp = self.work.join(format!("model-{pid}-{n}.in"));
        let outp = self.work.join(format!("model-{pid}-{n}.out"));
        {
            let mut f = std::io::BufWriter::new(std::fs::File::create(&inp).expect("model in"));
            for r in reqs {
                debug_assert!(!r.contains('\n'));
                f.write_all(r.as_bytes()).unwrap();
                f.write_all(b"\n").unwrap();
            }
            f.flush().unwrap();
        }
        let st = Command::new(&self.exe)
            .stdin(Stdio::from(std::fs::File::open(&inp).unwrap()))
            .stdout(Stdio::from(std::fs::File::create(&outp).unwrap()))
            .stderr(Stdio::inherit())
            .status()
            .expect("cannot run model driver");
        let text = std::fs::read_to_string(&outp).unwrap_or_default();
        let _ = std::fs::remove_file(&inp);
        let _ = std::fs::remove_file(&outp);
        let v: Vec<String> = text.lines().map(|s| s.to_string()).collect();
        if !st.success() || v.len() != reqs.len() {
            eprintln!(
                "HARNESS-ERROR: model driver status {:?}, {} responses for {} requests",
                st.code(),
                v.len(),
                reqs.len()
            );
            let mut v = v;
            v.resize(reqs.len(), "driver-died".to_string());
            return v;
        }
        v
    }
}

#[derive(Clone)]
pub struct Violation {
    /// "oracle" (property fails on the implementation), "divergence" (model != impl, no failing input found)
    pub kind: String,
    pub what: String,
    pub replay: PathBuf,
}

pub struct Report {
    pub property: String,
    pub corr: String,
    pub evaluations: u64,
    pub sigs: BTreeSet<String>,
    pub distinct: Option<u64>,
    pub samples: Vec<String>,
    pub dist: BTreeMap<String, u64>,
    pub violations: Vec<Violation>,
    pub known: Vec<String>,
    pub notes: Vec<String>,
    pub exhaustive: bool,
    pub rule: String,
    pub replay_dir: PathBuf,
}
impl Report {
    pub fn new(property: &str, corr: &str, replay_dir: &Path) -> Self {
        Self {
            property: property.to_string(),
            corr: corr.to_string(),
            evaluations: 0,
            sigs: BTreeSet::new(),
            distinct: None,
            samples: vec![],
            dist: BTreeMap::new(),
            violations: vec![],
            known: vec![],
            notes: vec![],
            exhaustive: false,
            rule: String::new(),
            replay_dir: replay_dir.to_path_buf(),
        }
    }
    pub fn count(&mut self, key: &str) {
        *self.dist.entry(key.to_string()).or_insert(0) += 1;
    }
    pub fn countn(&mut self, key: &str, n: u64) {
        *self.dist.entry(key.to_string()).or_insert(0) += n;
    }
    pub fn sample(&mut self, s: String) {
        if self.samples.len() < 6 {
            self.samples.push(s);
        }
    }
    /// record a violation; writes the replay file; at most 5 are kept
    pub fn violation(&mut self, kind: &str, what: &str, replay_body: &str) {
        let short: String = if what.chars().count() > 900 { what.chars().take(900).collect::<String>() + " …" } else { what.to_string() };
        let what = short.as_str();
        if self.violations.len() >= 5 {
            self.count("violations_not_listed");
            return;
        }
        let _ = std::fs::create_dir_all(&self.replay_dir);
        let name = format!(
            "{}-{}-{}-{}-{}.replay",
            self.property,
            self.corr,
            kind,
            std::process::id(),
            self.violations.len()
        );
        let path = self.replay_dir.join(name);
        let mut body = format!(
            "# property={} correspondence={} kind={}\n# {}\n",
            self.property,
            self.corr,
            kind,
            what.replace('\n', " ")
        );
        body.push_str(replay_body);
        if !body.ends_with('\n') {
            body.push('\n');
        }
        std::fs::write(&path, body).expect("write replay");
        self.violations.push(Violation {
            kind: kind.to_string(),
            what: what.to_string(),
            replay: path,
        });
    }
    pub fn write(&self, path: &Path) {
        let mut o = String::from("{\n");
        o.push_str(&format!(" \"property\": {},\n", jstr(&self.property)));
        o.push_str(&format!(" \"corr\": {},\n", jstr(&self.corr)));
        o.push_str(&format!(" \"evaluations\": {},\n", self.evaluations));
        o.push_str(&format!(" \"distinct_nontrivial\": {},\n", self.distinct.unwrap_or(self.sigs.len() as u64)));
        o.push_str(&format!(" \"exhaustive\": {},\n", self.exhaustive));
        o.push_str(&format!(
            " \"sigs\": [{}],\n",
            self.sigs.iter().map(|s| jstr(s)).collect::<Vec<_>>().join(", ")
        ));
        o.push_str(&format!(" \"distinct_is_sigs\": {},\n", self.distinct.is_none()));
        o.push_str(&format!(" \"rule\": {},\n", jstr(&self.rule)));
        o.push_str(" \"samples\": [");
        o.push_str(
            &self
                .samples
                .iter()
                .map(|s| jstr(s))
                .collect::<Vec<_>>()
                .join(", "),
        );
        o.push_str("],\n \"dist\": {");
        o.push_str(
            &self
                .dist
                .iter()
                .map(|(k, v)| format!("{}: {}", jstr(k), v))
                .collect::<Vec<_>>()
                .join(", "),
        );
        o.push_str("},\n \"notes\": [");
        o.push_str(
            &self
                .notes
                .iter()
                .map(|s| jstr(s))
                .collect::<Vec<_>>()
                .join(", "),
        );
        o.push_str("],\n \"known\": [");
        o.push_str(
            &self
                .known
                .iter()
                .map(|s| jstr(s))
                .collect::<Vec<_>>()
                .join(", "),
        );
        o.push_str("],\n \"violations\": [");
        o.push_str(
            &self
                .violations
                .iter()
                .map(|v| {
                    format!(
                        "{{\"kind\": {}, \"what\": {}, \"replay\": {}}}",
                        jstr(&v.kind),
                        jstr(&v.what),
                        jstr(&v.replay.display().to_string())
                    )
                })
                .collect::<Vec<_>>()
                .join(", "),
        );
        o.push_str("]\n}\n");
        std::fs::write(path, o).expect("write result");
    }
}

pub struct Args {
    pub cmd: String,
    pub tier: String,
    pub seed: u64,
    pub model: PathBuf,
    pub work: PathBuf,
    pub result: PathBuf,
    pub replay_dir: PathBuf,
    pub replay: Option<PathBuf>,
    pub bin: Option<PathBuf>,
    pub known: Option<PathBuf>,
    pub property: String,
    pub shard: usize,
    pub shards: usize,
    pub extra: Vec<String>,
}
impl Args {
    pub fn parse() -> Args {
        let mut a = Args {
            cmd: String::new(),
            tier: "quick".into(),
            seed: 1,
            model: PathBuf::from("/verif/lean/.lake/build/bin/txtpp_model"),
            work: PathBuf::from("/verif/work"),
            result: PathBuf::from("/verif/work/result.json"),
            replay_dir: PathBuf::from("/verif/replays"),
            replay: None,
            bin: None,
            known: None,
            property: String::new(),
            shard: 0,
            shards: 1,
            extra: vec![],
        };
        let mut it = std::env::args().skip(1);
        a.cmd = it.next().unwrap_or_default();
        while let Some(x) = it.next() {
            match x.as_str() {
                "--tier" => a.tier = it.next().unwrap(),
                "--seed" => a.seed = it.next().unwrap().parse().unwrap_or(1),
                "--model" => a.model = it.next().unwrap().into(),
                "--work" => a.work = it.next().unwrap().into(),
                "--result" => a.result = it.next().unwrap().into(),
                "--replay-dir" => a.replay_dir = it.next().unwrap().into(),
                "--replay" => a.replay = Some(it.next().unwrap().into()),
                "--bin" => a.bin = Some(it.next().unwrap().into()),
                "--known" => a.known = Some(it.next().unwrap().into()),
                "--property" => a.property = it.next().unwrap(),
                "--shard" => a.shard = it.next().unwrap().parse().unwrap_or(0),
                "--shards" => a.shards = it.next().unwrap().parse().unwrap_or(1),
                other => a.extra.push(other.to_string()),
            }
        }
        let _ = std::fs::create_dir_all(&a.work);
        a
    }
    pub fn thorough(&self) -> bool {
        self.tier == "thorough"
    }
}

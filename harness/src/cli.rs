//! CLI flag mapping (main.rs): `-N` = needed (in-memory) build, `-n` = no trailing newline, `verify`,
//! `clean`, `-r`: the binary run with a flag must behave like the library with the corresponding Config.
use crate::gen::*;
use crate::proj::*;
use crate::util::*;
use std::process::Command;

pub fn run_cli_flags(args: &Args, property: &str) -> Report {
    let mut rep = Report::new(property, "CLI-flags", &args.replay_dir);
    let bin = args.bin.clone().unwrap_or_default();
    rep.rule = "generated projects run once through the library with a Config and once through the CLI binary with the corresponding flags (-n / -N / verify / clean / -r / -j), from identical trees; compared: exit status vs verdict, every byte of the tree, and for -N on an up-to-date tree that no generated file is touched".to_string();
    if !bin.exists() {
        rep.notes.push("CLI binary not built".into());
        rep.evaluations = 0;
        return rep;
    }
    let model = Model::new(&args.model, &args.work);
    // (argv as run, request to the Lean model of the flag mapping, configuration the library was run with)
    let mut mapping: Vec<(String, String, String)> = vec![];
    let mut rng = Rng::new(args.seed.wrapping_mul(31).wrapping_add(args.shard as u64).wrapping_add(0xC11));
    let n = (if args.thorough() { 600 } else { 60 }) / args.shards.max(1);
    let dir = args.work.join(format!("cli-{}-{}", std::process::id(), args.shard));
    let _ = std::fs::remove_dir_all(&dir);
    std::fs::create_dir_all(&dir).unwrap();
    let dir = dir.canonicalize().unwrap();
    let (pa, pb, log) = (dir.join("a"), dir.join("b"), dir.join("markers.log"));
    for i in 0..n {
        // each property exercises the part of the flag mapping it depends on
        let opts = GenOpts { error_pct: if property == "C04" { 50 } else { 10 }, ..GenOpts::default() };
        let mut p = gen_project(&mut rng, &opts);
        if property == "C13" {
            // a source that certainly ends with a text line: the trailing-newline setting is visible in its output
            p.files.push(("zz_plain.txt.txtpp".to_string(), b"the last line is text\n".to_vec()));
            p.sources.push("zz_plain.txt.txtpp".to_string());
        }
        let variants: &[usize] = match property {
            "C06" => &[3],
            "C07" => &[4],
            "C09" => &[1, 2],
            "C13" => &[0, 0, 1, 2, 3],
            _ => &[0, 1, 2, 3, 4],
        };
        let mut variant = *rng.pick(variants);
        // the first two cases of the first two shards are fixed: `-N verify` over a stale output and `-N clean` over a built
        // tree (a top-level flag in front of a sub-command means nothing for it) - not left to the draw
        let forced = i < 2 && args.shard < 2 && (variants.contains(&3) || variants.contains(&4)) && property != "C13";
        if forced {
            variant = if variants.contains(&4) && (i == 1 || !variants.contains(&3)) { 4 } else { 3 };
        }
        // C13: the first case of every shard is `verify -n` of a tree built without the final line ending
        let forced_n = property == "C13" && i == 0;
        if forced_n {
            variant = 3;
        }
        let mut cfg = RunCfg::build_all();
        cfg.threads = 1 + rng.below(4);
        cfg.recursive = rng.chance(2, 3);
        // flags in varying order, with and without -q (neither changes what is computed)
        let mut flags: Vec<String> = vec![];
        // -q, nothing, or -v: the verbosity changes what is printed, never what is computed
        let verb = rng.below(6);
        let quiet = verb < 4;
        if verb == 5 {
            flags.push(if rng.chance(1, 2) { "-v".into() } else { "--verbose".into() });
        }
        let jflag = vec!["-j".to_string(), cfg.threads.to_string()];
        match rng.below(3) {
            0 => {
                if quiet { flags.push("-q".into()); }
                flags.extend(jflag);
                if cfg.recursive { flags.push("-r".into()); }
            }
            1 => {
                if cfg.recursive { flags.push("--recursive".into()); }
                flags.extend(jflag);
                if quiet { flags.push("--quiet".into()); }
            }
            _ => {
                flags.extend(jflag);
                if cfg.recursive { flags.push("-r".into()); }
                if quiet { flags.push("-q".into()); }
            }
        }
        // what may stand in front of a sub-command without meaning anything for it: the sub-command has its own flags
        let mut top: Vec<String> = vec![];
        // inputs: the whole tree, a sub-directory, or some sources by name (source name or output name)
        if rng.chance(1, 2) {
            let mut inputs: Vec<String> = vec![];
            if !p.dirs.is_empty() && rng.chance(1, 2) {
                inputs.push(rng.pick(&p.dirs).clone());
            }
            for s in &p.sources {
                if rng.chance(1, 3) {
                    inputs.push(if rng.chance(1, 2) { s.clone() } else { output_name(s) });
                }
            }
            if !inputs.is_empty() {
                cfg.inputs = inputs;
            }
        }
        let mut sub: Option<&str> = None;
        let mut changed_output: Option<String> = None;
        // the no-touch check below is about a tree that a successful build left behind (a failed build leaves partial outputs)
        let mut built_ok = false;
        match variant {
            0 => {
                cfg.trailing = false;
                flags.push("-n".into());
            }
            1 | 2 => {
                cfg.mode = "needed";
                flags.push(if rng.chance(1, 2) { "-N".into() } else { "--needed".into() });
                if rng.chance(1, 2) {
                    cfg.trailing = false;
                    flags.push("-n".into());
                }
            }
            3 => {
                cfg.mode = "verify";
                sub = Some("verify");
                if forced_n || rng.chance(1, 2) {
                    cfg.trailing = false;
                    flags.push(if rng.chance(1, 2) { "-n".into() } else { "--no-trailing-newline".into() });
                }
                if forced || rng.chance(1, 3) {
                    top.push("-N".into());
                }
            }
            _ => {
                cfg.mode = "clean";
                sub = Some("clean");
                if forced || rng.chance(1, 3) {
                    top.push("-N".into());
                }
            }
        }
        // both start from the same tree; for needed/verify/clean from a built tree
        materialize(&p, &pa);
        if variant != 0 {
            let mut b0 = RunCfg::build_all();
            if variant != 4 {
                b0.trailing = cfg.trailing;
            }
            built_ok = run_impl(&pa, &b0, &log).verdict == "ok";
            if variant == 2 || (variant == 3 && !forced_n && (forced || rng.chance(1, 2))) {
                // make one output stale or (needed only) missing; verify must then fail, also through the exit status
                let o = output_name(&p.sources[rng.below(p.sources.len())]);
                if variant == 2 && rng.chance(1, 2) {
                    let _ = std::fs::remove_file(pa.join(&o));
                } else {
                    let _ = std::fs::write(pa.join(&o), b"stale\n");
                }
                changed_output = Some(o);
            }
            if variant == 4 && rng.chance(1, 3) {
                // an output that is already gone, possibly named as an input: its temp files must still be cleaned
                let s0 = p.sources[rng.below(p.sources.len())].clone();
                let _ = std::fs::remove_file(pa.join(output_name(&s0)));
                if rng.chance(1, 2) {
                    cfg.inputs = vec![output_name(&s0)];
                }
            }
        }
        let (start, _) = snapshot(&pa);
        write_tree(&start, &pb);
        let lib = run_impl(&pa, &cfg, &log);
        set_sentinel_mtimes(&pb, &start);
        let (_, meta_before) = snapshot(&pb);
        let mut c = Command::new(&bin);
        c.current_dir(&pb).env_remove("TXTPP_FILE").env("VERIF_LOG", &log);
        if let Some(s) = sub {
            c.args(&top).arg(s);
        }
        c.args(&flags).args(&cfg.inputs);
        let out = c.output().expect("cli");
        let (after, meta_after) = snapshot(&pb);
        rep.evaluations += 1;
        {
            // the parsed form of this command line, for the Lean model of `Cli::apply_to` (Model/Cli.lean)
            let has = |v: &Vec<String>, a: &str, b: &str| v.iter().any(|x| x == a || x == b);
            let t = |x: bool| if x { "t" } else { "f" };
            let part = format!(
                "{} {} {} {} {} {}",
                t(has(&flags, "-q", "--quiet")),
                t(has(&flags, "-v", "--verbose")),
                t(has(&flags, "-r", "--recursive")),
                cfg.threads,
                t(has(&flags, "-n", "--no-trailing-newline")),
                cfg.inputs.iter().map(|i| hexs(i)).collect::<Vec<_>>().join(",")
            );
            let req = match sub {
                None => format!("cli none {} {part} f f f 4 f -", t(has(&flags, "-N", "--needed"))),
                Some(sc) => format!("cli {sc} {} f f f 4 f - {part}", t(has(&top, "-N", "--needed"))),
            };
            let verb_s = if has(&flags, "-q", "--quiet") { "q" } else if has(&flags, "-v", "--verbose") { "v" } else { "n" };
            let ran = format!("{} {} {} {} {} {}", cfg.mode, t(cfg.trailing), t(cfg.recursive), cfg.threads, verb_s, cfg.inputs.iter().map(|i| hexs(i)).collect::<Vec<_>>().join(","));
            mapping.push((format!("{} {} {} {:?}", top.join(" "), sub.unwrap_or(""), flags.join(" "), cfg.inputs), req, ran));
        }
        rep.sigs.insert(format!("variant{variant}|{}|rec={}", lib.verdict, cfg.recursive));
        let cli_ok = out.status.success();
        rep.count(&format!("cli-case:{}{}{}|lib={}", match variant { 0 => "build -n", 1 | 2 => "needed", 3 => "verify", _ => "clean" }, if flags.iter().any(|x| x == "-n" || x == "--no-trailing-newline") { " -n" } else { "" }, if top.is_empty() { "" } else { " (top -N)" }, lib.verdict));
        let mut bad: Option<String> = None;
        if cli_ok != (lib.verdict == "ok") {
            bad = Some(format!("CLI exit success={cli_ok}, library verdict `{}`", lib.verdict));
        } else if cli_ok && after.files != lib.after.files {
            let diff: Vec<&String> = after.files.keys().filter(|k| after.files.get(*k) != lib.after.files.get(*k)).collect();
            bad = Some(format!("files differ between the CLI run and the library run: {:?}", diff));
        } else if (variant == 1 || variant == 2) && cli_ok && built_ok {
            // -N: what was already correct may not be touched (everything on an up-to-date tree; everything
            // but the one stale / missing output otherwise)
            for (f, m) in &meta_after {
                if Some(f) != changed_output.as_ref() && meta_before.get(f) != Some(m) && meta_before.contains_key(f) {
                    bad = Some(format!("`-N` rewrote `{f}` although its content was already correct (inode or mtime changed): -N is not the only-if-needed mode"));
                }
            }
        }
        if let Some(what) = bad {
            rep.violation("oracle", &format!("{property}: CLI `{} {} {} {:?}`: {what}", top.join(" "), sub.unwrap_or(""), flags.join(" "), cfg.inputs), &replay_body(&start, &cfg, &p.cmds, &format!("# CLI flags: {:?} {:?}\n# {what}\n", sub, flags)));
        }
        if i == 0 {
            rep.sample(format!("CLI `{} {} {:?}` vs library {} => exit ok={cli_ok}, verdict {}", sub.unwrap_or(""), flags.join(" "), cfg.inputs, cfg.describe(), lib.verdict));
        }
    }
    // the configuration the library ran with must be the one the Lean model of the flag mapping computes for the command line
    let reqs: Vec<String> = mapping.iter().map(|m| m.1.clone()).collect();
    for ((argv, _, ran), resp) in mapping.iter().zip(model.batch(&reqs).iter()) {
        rep.count("flag-mapping-vs-lean-model");
        if resp.trim() != ran {
            rep.violation(
                "divergence",
                &format!("{property}: flag mapping: for the command line `txtpp {argv}` the Lean model of Cli::apply_to gives the configuration `{}`, the library was run with `{ran}` (mode trailing recursive threads verbosity inputs)", resp.trim()),
                &format!("# argv: {argv}\ncfg: build true false 1\n"),
            );
        }
    }
    let _ = std::fs::remove_dir_all(&dir);
    rep
}

/// The same case once more through the CLI binary: the tree `before` is written to `scratch`, the binary is run
/// there with the flags that correspond to `cfg`, and exit status and resulting files are compared with what
/// the library produced (`lib`). `None` = they agree.
pub fn cli_agrees(bin: &std::path::Path, before: &Tree, cfg: &RunCfg, lib: &Obs, lib_base: &str, scratch: &std::path::Path) -> Option<String> {
    let _ = std::fs::remove_dir_all(scratch);
    std::fs::create_dir_all(scratch).ok()?;
    let scratch = scratch.canonicalize().ok()?;
    let tree_dir = scratch.join("t");
    std::fs::create_dir_all(&tree_dir).ok()?;
    write_tree(before, &tree_dir);
    let mut c = Command::new(bin);
    c.current_dir(&tree_dir).env_remove("TXTPP_FILE").env("VERIF_LOG", scratch.join("markers.log"));
    match cfg.mode {
        "needed" => { c.arg("-N"); }
        "verify" => { c.arg("verify"); }
        "clean" => { c.arg("clean"); }
        _ => {}
    }
    c.arg("-q").arg("-j").arg(cfg.threads.to_string());
    if cfg.recursive {
        c.arg("-r");
    }
    if !cfg.trailing && cfg.mode != "clean" {
        c.arg("-n");
    }
    let tree_abs = tree_dir.to_string_lossy().to_string();
    for i in &cfg.inputs {
        // absolute inputs of the library case point into its own base directory
        if let Some(rest) = i.strip_prefix(lib_base) {
            c.arg(format!("{tree_abs}{rest}"));
        } else {
            c.arg(i);
        }
    }
    let out = c.output().ok()?;
    let (after, _) = snapshot(&tree_dir);
    let cli_ok = out.status.success();
    let res = if cli_ok != (lib.verdict == "ok") {
        Some(format!("the CLI binary exits with success={cli_ok} where the library run of the same case gives `{}`", lib.verdict))
    } else if cli_ok && after.files != lib.after.files {
        let diff: Vec<&String> = after.files.keys().chain(lib.after.files.keys()).filter(|k| after.files.get(*k) != lib.after.files.get(*k)).collect();
        Some(format!("after the CLI run the tree differs from the tree after the library run of the same case: {:?}", diff))
    } else {
        None
    };
    let _ = std::fs::remove_dir_all(&scratch);
    res
}


//! CLI flag mapping (main.rs): `-N` = needed (in-memory) build, `-n` = no trailing newline, `verify`,
//! `clean`, `-r`: the binary run with a flag must behave like the library with the corresponding Config.
use crate::gen::*;
use crate::proj::*;
use crate::util::*;
use std::process::Command;

pub fn run_cli_flags(args: &Args, property: &str) -> Report {
    let mut rep = Report::new(property, "CLI-flags", &args.replay_dir);
    let bin = args.bin.clone().unwrap_or_default();
    rep.rule = "generated projects run once through the library with a Config and once through the CLI binary with the corresponding flags (-n / -N / verify / clean / -r / -j), from identical trees; compared: exit status vs verdict, every byte of the tree, and for -N on an up-to-date tree that no generated file is touched".to_string();
    if !bin.exists() {
        rep.notes.push("CLI binary not built".into());
        rep.evaluations = 0;
        return rep;
    }
    let mut rng = Rng::new(args.seed.wrapping_mul(31).wrapping_add(args.shard as u64).wrapping_add(0xC11));
    let n = (if args.thorough() { 600 } else { 60 }) / args.shards.max(1);
    let dir = args.work.join(format!("cli-{}-{}", std::process::id(), args.shard));
    let _ = std::fs::remove_dir_all(&dir);
    std::fs::create_dir_all(&dir).unwrap();
    let dir = dir.canonicalize().unwrap();
    let (pa, pb, log) = (dir.join("a"), dir.join("b"), dir.join("markers.log"));
    for i in 0..n {
        // each property exercises the part of the flag mapping it depends on
        let opts = GenOpts { error_pct: if property == "C04" { 50 } else { 10 }, ..GenOpts::default() };
        let p = gen_project(&mut rng, &opts);
        let variants: &[usize] = match property {
            "C06" => &[3],
            "C07" => &[4],
            "C09" => &[1, 2],
            "C13" => &[0],
            _ => &[0, 1, 2, 3, 4],
        };
        let variant = *rng.pick(variants);
        let mut cfg = RunCfg::build_all();
        cfg.threads = 1 + rng.below(4);
        cfg.recursive = rng.chance(2, 3);
        let mut flags: Vec<String> = vec!["-q".into(), "-j".into(), cfg.threads.to_string()];
        if cfg.recursive {
            flags.push("-r".into());
        }
        // inputs: the whole tree, a sub-directory, or some sources by name (source name or output name)
        if !matches!(property, "C09" | "C13") && rng.chance(1, 2) {
            let mut inputs: Vec<String> = vec![];
            if !p.dirs.is_empty() && rng.chance(1, 2) {
                inputs.push(rng.pick(&p.dirs).clone());
            }
            for s in &p.sources {
                if rng.chance(1, 3) {
                    inputs.push(if rng.chance(1, 2) { s.clone() } else { output_name(s) });
                }
            }
            if !inputs.is_empty() {
                cfg.inputs = inputs;
            }
        }
        let mut sub: Option<&str> = None;
        match variant {
            0 => {
                cfg.trailing = false;
                flags.push("-n".into());
            }
            1 | 2 => {
                cfg.mode = "needed";
                flags.push("-N".into());
            }
            3 => {
                cfg.mode = "verify";
                sub = Some("verify");
            }
            _ => {
                cfg.mode = "clean";
                sub = Some("clean");
            }
        }
        // both start from the same tree; for needed/verify/clean from a built tree
        materialize(&p, &pa);
        if variant != 0 {
            let _ = run_impl(&pa, &RunCfg::build_all(), &log);
            if variant == 2 {
                // make one output stale
                let o = output_name(&p.sources[0]);
                let _ = std::fs::write(pa.join(&o), b"stale\n");
            }
        }
        let (start, _) = snapshot(&pa);
        write_tree(&start, &pb);
        let lib = run_impl(&pa, &cfg, &log);
        set_sentinel_mtimes(&pb, &start);
        let (_, meta_before) = snapshot(&pb);
        let mut c = Command::new(&bin);
        c.current_dir(&pb).env_remove("TXTPP_FILE").env("VERIF_LOG", &log);
        if let Some(s) = sub {
            c.arg(s);
        }
        c.args(&flags).args(&cfg.inputs);
        let out = c.output().expect("cli");
        let (after, meta_after) = snapshot(&pb);
        rep.evaluations += 1;
        rep.sigs.insert(format!("variant{variant}|{}|rec={}", lib.verdict, cfg.recursive));
        let cli_ok = out.status.success();
        let mut bad: Option<String> = None;
        if cli_ok != (lib.verdict == "ok") {
            bad = Some(format!("CLI exit success={cli_ok}, library verdict `{}`", lib.verdict));
        } else if cli_ok && after.files != lib.after.files {
            let diff: Vec<&String> = after.files.keys().filter(|k| after.files.get(*k) != lib.after.files.get(*k)).collect();
            bad = Some(format!("files differ between the CLI run and the library run: {:?}", diff));
        } else if variant == 1 && cli_ok {
            // -N on an up-to-date tree: nothing may be touched
            for (f, m) in &meta_after {
                if meta_before.get(f) != Some(m) {
                    bad = Some(format!("`-N` on an up-to-date tree rewrote `{f}` (inode or mtime changed): -N is not the only-if-needed mode"));
                }
            }
        }
        if let Some(what) = bad {
            rep.violation("oracle", &format!("{property}: CLI `{} {} {:?}`: {what}", sub.unwrap_or(""), flags.join(" "), cfg.inputs), &replay_body(&start, &cfg, &p.cmds, &format!("# CLI flags: {:?} {:?}\n# {what}\n", sub, flags)));
        }
        if i == 0 {
            rep.sample(format!("CLI `{} {} {:?}` vs library {} => exit ok={cli_ok}, verdict {}", sub.unwrap_or(""), flags.join(" "), cfg.inputs, cfg.describe(), lib.verdict));
        }
    }
    let _ = std::fs::remove_dir_all(&dir);
    rep
}

//! Running the real txtpp (library, in process) on a materialised project and encoding the same
//! situation as a `project` request for the Lean model; comparison of the two observations.
use crate::gen::*;
use crate::util::*;
use std::collections::{BTreeMap, BTreeSet};
use std::os::unix::fs::MetadataExt;
use std::path::{Path, PathBuf};
use txtpp::{Config, Mode, Txtpp, Verbosity};

#[derive(Clone, Debug)]
pub struct RunCfg {
    pub mode: &'static str, // build | needed | clean | verify
    pub trailing: bool,
    pub recursive: bool,
    pub threads: usize,
    pub inputs: Vec<String>,
}
impl RunCfg {
    pub fn build_all() -> Self {
        RunCfg {
            mode: "build",
            trailing: true,
            recursive: true,
            threads: 4,
            inputs: vec![".".to_string()],
        }
    }
    pub fn describe(&self) -> String {
        format!(
            "mode={} trailing={} recursive={} threads={} inputs={:?}",
            self.mode, self.trailing, self.recursive, self.threads, self.inputs
        )
    }
}

#[derive(Clone, Debug, Default, PartialEq)]
pub struct Tree {
    pub files: BTreeMap<String, Vec<u8>>,
    pub dirs: BTreeSet<String>,
}

#[derive(Clone, Debug, Default)]
pub struct Obs {
    pub verdict: String,
    pub after: Tree,
    pub touched: BTreeSet<String>,
    pub log: Vec<String>,
    pub message: String,
}

pub fn materialize(p: &Project, dir: &Path) {
    let _ = std::fs::remove_dir_all(dir);
    std::fs::create_dir_all(dir).unwrap();
    for d in &p.dirs {
        std::fs::create_dir_all(dir.join(d)).unwrap();
    }
    for (f, c) in &p.files {
        if let Some(parent) = dir.join(f).parent() {
            std::fs::create_dir_all(parent).unwrap();
        }
        std::fs::write(dir.join(f), c).unwrap();
    }
}

pub fn write_tree(t: &Tree, dir: &Path) {
    let _ = std::fs::remove_dir_all(dir);
    std::fs::create_dir_all(dir).unwrap();
    for d in &t.dirs {
        std::fs::create_dir_all(dir.join(d)).unwrap();
    }
    for (f, c) in &t.files {
        std::fs::write(dir.join(f), c).unwrap();
    }
}

fn walk(dir: &Path, rel: &str, t: &mut Tree, meta: &mut BTreeMap<String, (u64, i64, i64)>) {
    let mut entries: Vec<_> = match std::fs::read_dir(dir) {
        Ok(e) => e.filter_map(|x| x.ok()).collect(),
        Err(_) => return,
    };
    entries.sort_by_key(|e| e.file_name());
    for e in entries {
        let name = e.file_name().to_string_lossy().to_string();
        let r = if rel.is_empty() { name.clone() } else { format!("{rel}/{name}") };
        let ft = match e.file_type() {
            Ok(f) => f,
            Err(_) => continue,
        };
        if ft.is_dir() {
            t.dirs.insert(r.clone());
            walk(&e.path(), &r, t, meta);
        } else if ft.is_file() {
            let c = std::fs::read(e.path()).unwrap_or_default();
            if let Ok(m) = e.metadata() {
                meta.insert(r.clone(), (m.ino(), m.mtime(), m.mtime_nsec()));
            }
            t.files.insert(r, c);
        } else {
            // symlinks etc.: record as a file with a marker content
            t.files.insert(r, b"<special>".to_vec());
        }
    }
}

pub fn snapshot(dir: &Path) -> (Tree, BTreeMap<String, (u64, i64, i64)>) {
    let mut t = Tree::default();
    let mut m = BTreeMap::new();
    walk(dir, "", &mut t, &mut m);
    (t, m)
}

pub fn set_sentinel_mtimes(dir: &Path, t: &Tree) {
    for f in t.files.keys() {
        let p = dir.join(f);
        let c = std::ffi::CString::new(p.to_string_lossy().as_bytes()).unwrap();
        let times = [
            libc::timespec { tv_sec: 1_000_000_000, tv_nsec: 0 },
            libc::timespec { tv_sec: 1_000_000_000, tv_nsec: 0 },
        ];
        unsafe {
            libc::utimensat(libc::AT_FDCWD, c.as_ptr(), times.as_ptr(), 0);
        }
    }
}

pub fn mode_of(m: &str) -> Mode {
    match m {
        "build" => Mode::Build,
        "needed" => Mode::InMemoryBuild,
        "clean" => Mode::Clean,
        _ => Mode::Verify,
    }
}

/// run the library in process on `dir`
pub fn run_impl(dir: &Path, cfg: &RunCfg, log: &Path) -> Obs {
    let (before, _) = snapshot(dir);
    set_sentinel_mtimes(dir, &before);
    let (_, meta_before) = snapshot(dir);
    let _ = std::fs::remove_file(log);
    std::env::set_var("VERIF_LOG", log);
    std::env::remove_var("TXTPP_FILE");
    let config = Config {
        base_dir: dir.to_path_buf(),
        shell_cmd: String::new(),
        inputs: cfg.inputs.clone(),
        recursive: cfg.recursive,
        num_threads: cfg.threads,
        mode: mode_of(cfg.mode),
        verbosity: Verbosity::Quiet,
        trailing_newline: cfg.trailing,
    };
    let r = std::panic::catch_unwind(|| Txtpp::run(config));
    let (verdict, message) = match r {
        Ok(Ok(())) => ("ok".to_string(), String::new()),
        Ok(Err(e)) => {
            let m = format!("{:?}", e);
            if m.contains("Circular dependencies are found") {
                ("circular".to_string(), m)
            } else {
                ("err".to_string(), m)
            }
        }
        Err(_) => ("panic".to_string(), "panic in Txtpp::run".to_string()),
    };
    let (after, meta_after) = snapshot(dir);
    let mut touched = BTreeSet::new();
    for (f, m) in &meta_after {
        match meta_before.get(f) {
            Some(b) if b == m => {}
            _ => {
                touched.insert(f.clone());
            }
        }
    }
    for f in meta_before.keys() {
        if !meta_after.contains_key(f) {
            touched.insert(f.clone());
        }
    }
    let mut logv: Vec<String> = std::fs::read_to_string(log)
        .unwrap_or_default()
        .lines()
        .map(|s| s.to_string())
        .collect();
    logv.sort();
    Obs {
        verdict,
        after,
        touched,
        log: logv,
        message,
    }
}

pub fn encode_request(before: &Tree, cfg: &RunCfg, cmds: &[(String, Vec<Act>)], base_abs: &str) -> String {
    let mut tree: Vec<String> = vec![];
    for d in &before.dirs {
        tree.push(format!("d:{}", hexs(d)));
    }
    for (f, c) in &before.files {
        tree.push(format!("f:{}:{}", hexs(f), hex(c)));
    }
    let cm: Vec<String> = cmds
        .iter()
        .map(|(t, acts)| {
            format!(
                "{}={}",
                hexs(t),
                if acts.is_empty() {
                    "-".to_string()
                } else {
                    acts.iter().map(|a| format!("{}:{}", a.kind, hexs(&a.arg))).collect::<Vec<_>>().join(";")
                }
            )
        })
        .collect();
    format!(
        "project {} {} {} {} {} {} {}",
        cfg.mode,
        if cfg.trailing { "t" } else { "f" },
        if cfg.recursive { "t" } else { "f" },
        hexs(base_abs),
        if cfg.inputs.is_empty() { "-".to_string() } else { cfg.inputs.iter().map(|i| hexs(i)).collect::<Vec<_>>().join(",") },
        if tree.is_empty() { "-".to_string() } else { tree.join(",") },
        if cm.is_empty() { "-".to_string() } else { cm.join(",") },
    )
}

/// `safe <mode> <base> <tree> <cmds>`: asks the model on how many txtpp sources of the tree the side condition
/// of the pass-level theorems (C06/C08/C09: no block reads a path while it is stale) holds
pub fn encode_safe_request(before: &Tree, mode: &str, cmds: &[(String, Vec<Act>)], base_abs: &str) -> String {
    let cfg = RunCfg { mode: "build", trailing: true, recursive: false, threads: 1, inputs: vec![] };
    let full = encode_request(before, &cfg, cmds, base_abs);
    let f: Vec<&str> = full.split(' ').collect();
    // project mode tr rec base inputs tree cmds
    format!("safe {} {} {} {}", mode, f[4], f[6], f[7])
}

/// `projsafe <tr> <rec> <base> <inputs> <tree> <cmds>`: asks the model for the executable side conditions of the
/// whole-project theorems (C08 `whole_project_build_twice_eq_once`, C09 `needed_project_eq_build_project`) on this tree,
/// and whether their conclusions hold in the model
pub fn encode_projsafe_request(before: &Tree, cfg: &RunCfg, cmds: &[(String, Vec<Act>)], base_abs: &str) -> String {
    let full = encode_request(before, cfg, cmds, base_abs);
    let f: Vec<&str> = full.split(' ').collect();
    format!("projsafe {} {} {} {} {} {}", f[2], f[3], f[4], f[5], f[6], f[7])
}

/// key=value pairs of a `projsafe` answer
pub fn parse_projsafe_response(s: &str) -> Option<std::collections::BTreeMap<String, String>> {
    let mut m = std::collections::BTreeMap::new();
    for kv in s.trim().split(' ') {
        let (k, v) = kv.split_once('=')?;
        m.insert(k.to_string(), v.to_string());
    }
    if m.contains_key("needed") && m.contains_key("twice") { Some(m) } else { None }
}

/// (safe, unsafe, skipped, names of the unsafe sources)
pub fn parse_safe_response(s: &str) -> Option<(usize, usize, usize, Vec<String>)> {
    let f: Vec<&str> = s.trim().split(' ').collect();
    if f.len() != 4 {
        return None;
    }
    let n = |x: &str, k: &str| x.strip_prefix(k).and_then(|v| v.parse::<usize>().ok());
    let names = if f[3] == "-" { vec![] } else { f[3].split(',').filter_map(|h| unhex(h).map(|b| String::from_utf8_lossy(&b).to_string())).collect() };
    Some((n(f[0], "safe=")?, n(f[1], "unsafe=")?, n(f[2], "skip=")?, names))
}

/// `<verdict> F=<path:content,...> T=<paths> L=<markers>`
pub fn parse_response(s: &str, before: &Tree) -> Option<Obs> {
    let f: Vec<&str> = s.split(' ').collect();
    if f.len() != 4 {
        return None;
    }
    let mut o = Obs { verdict: f[0].to_string(), ..Default::default() };
    o.after.dirs = before.dirs.clone();
    let body = f[1].strip_prefix("F=")?;
    if body != "-" {
        for e in body.split(',') {
            let (p, c) = e.split_once(':')?;
            o.after.files.insert(String::from_utf8(unhex(p)?).ok()?, unhex(c)?);
        }
    }
    let t = f[2].strip_prefix("T=")?;
    if t != "-" {
        for e in t.split(',') {
            o.touched.insert(String::from_utf8(unhex(e)?).ok()?);
        }
    }
    let l = f[3].strip_prefix("L=")?;
    if l != "-" {
        for e in l.split(',') {
            o.log.push(String::from_utf8(unhex(e)?).ok()?);
        }
    }
    o.log.sort();
    Some(o)
}

fn show_bytes(b: &[u8]) -> String {
    format!("{:?}", String::from_utf8_lossy(b))
}

/// differences between implementation and model observations (empty = agree)
/// the model driver found a `run` block whose command is not in the case's vocabulary (it cannot know what `sh` does with it):
/// the generator left its domain - e.g. a line it did not intend as a continuation became part of a command -
/// and the case says nothing about the code; it is counted and skipped, never reported
pub fn left_vocabulary(model: &Obs) -> bool {
    model.verdict == "vocab"
}

pub fn diff_obs(imp: &Obs, model: &Obs) -> Vec<String> {
    let mut d = vec![];
    // the kind of failure (circular dependency vs other) is carried by a message only: not compared
    let norm = |v: &str| if v == "circular" { "err".to_string() } else { v.to_string() };
    if norm(&imp.verdict) != norm(&model.verdict) {
        d.push(format!("verdict: implementation `{}`, model `{}` ({})", imp.verdict, model.verdict, imp.message.lines().rev().take(3).collect::<Vec<_>>().join(" | ")));
        return d;
    }
    if imp.verdict != "ok" {
        return d;
    }
    for (f, c) in &imp.after.files {
        match model.after.files.get(f) {
            None => d.push(format!("file `{f}` exists after the run, the model has no such file")),
            Some(m) if m != c => d.push(format!("file `{f}`: implementation {} model {}", show_bytes(c), show_bytes(m))),
            _ => {}
        }
    }
    for f in model.after.files.keys() {
        if !imp.after.files.contains_key(f) {
            d.push(format!("file `{f}` is missing after the run, the model has it"));
        }
    }
    if imp.log != model.log {
        d.push(format!("executed command markers: implementation {:?}, model {:?}", imp.log, model.log));
    }
    for f in &imp.touched {
        if !model.touched.contains(f) {
            d.push(format!("path `{f}` was written/removed (inode or mtime changed) but the model leaves it untouched"));
        }
    }
    d
}

pub fn replay_body(before: &Tree, cfg: &RunCfg, cmds: &[(String, Vec<Act>)], extra: &str) -> String {
    let mut s = String::new();
    s.push_str(&format!("cfg: {} {} {} {} {}\n", cfg.mode, cfg.trailing, cfg.recursive, cfg.threads,
        cfg.inputs.iter().map(|i| hexs(i)).collect::<Vec<_>>().join(",")));
    for d in &before.dirs {
        s.push_str(&format!("dir: {}\n", hexs(d)));
    }
    for (f, c) in &before.files {
        s.push_str(&format!("file: {} {}\n", hexs(f), hex(c)));
    }
    for (t, acts) in cmds {
        s.push_str(&format!("cmd: {} {}\n", hexs(t), acts.iter().map(|a| format!("{}:{}", a.kind, hexs(&a.arg))).collect::<Vec<_>>().join(";")));
    }
    s.push_str("# ---- human readable\n");
    s.push_str(&format!("# {}\n", cfg.describe()));
    for (f, c) in &before.files {
        s.push_str(&format!("# {f}: {}\n", show_bytes(c)));
    }
    s.push_str(extra);
    s
}

pub struct ReplayCase {
    pub cfg: RunCfg,
    pub tree: Tree,
    pub cmds: Vec<(String, Vec<Act>)>,
}

fn static_kind(k: &str) -> &'static str {
    match k {
        "lit" => "lit",
        "cat" => "cat",
        "mark" => "mark",
        "pwd" => "pwd",
        "file" => "file",
        "true" => "true",
        _ => "fail",
    }
}

pub fn parse_replay(text: &str) -> Option<ReplayCase> {
    let mut cfg = RunCfg::build_all();
    let mut tree = Tree::default();
    let mut cmds = vec![];
    let us = |s: &str| String::from_utf8(unhex(s).unwrap_or_default()).unwrap_or_default();
    for l in text.lines() {
        if let Some(r) = l.strip_prefix("cfg: ") {
            let f: Vec<&str> = r.split(' ').collect();
            if f.len() < 4 {
                return None;
            }
            cfg.mode = match f[0] {
                "build" => "build",
                "needed" => "needed",
                "clean" => "clean",
                _ => "verify",
            };
            cfg.trailing = f[1] == "true";
            cfg.recursive = f[2] == "true";
            cfg.threads = f[3].parse().unwrap_or(4);
            cfg.inputs = if f.len() > 4 && !f[4].is_empty() { f[4].split(',').map(us).collect() } else { vec![] };
        } else if let Some(r) = l.strip_prefix("dir: ") {
            tree.dirs.insert(us(r));
        } else if let Some(r) = l.strip_prefix("file: ") {
            let (p, c) = r.split_once(' ')?;
            tree.files.insert(us(p), unhex(c)?);
        } else if let Some(r) = l.strip_prefix("cmd: ") {
            let (t, a) = r.split_once(' ').unwrap_or((r, ""));
            let acts: Vec<Act> = a
                .split(';')
                .filter(|x| !x.is_empty())
                .filter_map(|x| x.split_once(':').map(|(k, v)| Act { kind: static_kind(k), arg: us(v) }))
                .collect();
            cmds.push((us(t), acts));
        }
    }
    Some(ReplayCase { cfg, tree, cmds })
}

pub fn canonical(dir: &Path) -> PathBuf {
    dir.canonicalize().unwrap_or_else(|_| dir.to_path_buf())
}

//! M10 (C18): no panic, no hang. (a) function-level fuzz of the panic-capable functions in process,
//! (b) whole-run fuzz (byte-level and structural mutation of generated projects, random existing
//! generated files) x four modes x 0..16 threads x recursive, under a watchdog.
use crate::gen::*;
use crate::proj::*;
use crate::util::*;
use std::sync::atomic::{AtomicU64, Ordering};
use std::sync::{Arc, Mutex};
use txtpp::verif::{Directive, DirectiveType, GetLineEnding, ReplaceLineEnding, TagState};

static PANICS: AtomicU64 = AtomicU64::new(0);

fn rand_string(rng: &mut Rng, max: usize) -> String {
    let toks = ["TXTPP#", "TXTPP", "#", "run", "include", "temp", "tag", "write", "after", " ", "  ", "\t", "\u{3000}", "\u{a0}", "é", "日本", "\u{1F600}", "-", "//", "\r", "\0", "x", "\u{85}", "\u{2028}", "a.txtpp", "\u{fffd}"];
    let n = rng.below(max + 1);
    let mut s = String::new();
    for _ in 0..n {
        if rng.chance(1, 8) {
            if let Some(c) = char::from_u32(rng.below(0x11_0000) as u32) {
                s.push(c);
                continue;
            }
        }
        s.push_str(*rng.pick(&toks));
    }
    s
}

fn guarded<F: FnOnce() + std::panic::UnwindSafe>(f: F) -> bool {
    std::panic::catch_unwind(f).is_ok()
}


/// run the CLI binary in `cwd` with a watchdog; `Some(text)` if it hangs (killed after `secs`) or panics
pub fn cli_watchdog(bin: &std::path::Path, cwd: &std::path::Path, args: &[&str], secs: u64) -> (Option<i32>, Option<String>) {
    cli_watchdog_stdin(bin, cwd, args, secs, false)
}

/// `open_stdin`: txtpp's own stdin is a pipe that stays open (nothing is ever written to it) while it runs
pub fn cli_watchdog_stdin(bin: &std::path::Path, cwd: &std::path::Path, args: &[&str], secs: u64, open_stdin: bool) -> (Option<i32>, Option<String>) {
    let mut c = std::process::Command::new(bin);
    c.current_dir(cwd).env_remove("TXTPP_FILE").args(args).stdout(std::process::Stdio::null()).stderr(std::process::Stdio::piped());
    c.stdin(if open_stdin { std::process::Stdio::piped() } else { std::process::Stdio::null() });
    let Ok(mut child) = c.spawn() else { return (None, Some("cannot start the CLI binary".to_string())) };
    let t0 = std::time::Instant::now();
    let mut errpipe = child.stderr.take().unwrap();
    let reader = std::thread::spawn(move || {
        let mut s = Vec::new();
        let _ = std::io::Read::read_to_end(&mut errpipe, &mut s);
        String::from_utf8_lossy(&s).to_string()
    });
    let mut status = None;
    while t0.elapsed() < std::time::Duration::from_secs(secs) {
        if let Ok(Some(st)) = child.try_wait() {
            status = Some(st);
            break;
        }
        std::thread::sleep(std::time::Duration::from_millis(20));
    }
    if status.is_none() {
        let _ = child.kill();
        let _ = child.wait();
        let _ = reader.join();
        return (None, Some(format!("`txtpp {}` did not return within {secs} s (hang)", args.join(" "))));
    }
    let err = reader.join().unwrap_or_default();
    let st = status.unwrap();
    if st.code() == Some(101) || err.contains("panicked at") {
        let line = err.lines().find(|l| l.contains("panicked at")).unwrap_or("").to_string();
        return (st.code(), Some(format!("`txtpp {}` panics: {line}", args.join(" "))));
    }
    (st.code(), None)
}

/// scenarios a sampling generator does not reach (seed round 11), through the CLI binary with a watchdog: the corner
/// projects of `corner.rs`, a command that writes far more than a pipe buffer to stderr, hundreds of files with
/// failing ones among them (an early error while hundreds of results are still to be delivered)
fn big_scenarios(rep: &mut Report, bin: &std::path::Path, dir: &std::path::Path) {
    let flags: [&[&str]; 4] = [&["-q", "-j", "2", "."], &["-N", "-q", "-j", "4", "."], &["verify", "-q", "-j", "1", "."], &["clean", "-q", "."]];
    for (label, p, _) in crate::corner::corner_projects() {
        for f in flags.iter() {
            let d = dir.join("corner");
            materialize(&p, &d);
            rep.count("big:corner-scenario-runs");
            if let (_, Some(what)) = cli_watchdog(bin, &d, f, 30) {
                rep.violation("oracle", &format!("C18: corner scenario `{label}`: {what}"), &replay_body(&snapshot(&d).0, &RunCfg::build_all(), &p.cmds, &format!("# C18 corner scenario {label}: {what}\n")));
            }
        }
    }
    // a command that fills the stderr pipe before it writes its result
    {
        let d = dir.join("stderr");
        let _ = std::fs::remove_dir_all(&d);
        std::fs::create_dir_all(&d).unwrap();
        std::fs::write(d.join("gen.txt.txtpp"), "before\n# TXTPP#run head -c 400000 /dev/zero | tr '\\0' w >&2; echo result\nafter\n").unwrap();
        for f in [&["-q", "-j", "1", "."][..], &["-N", "-q", "."][..], &["verify", "-q", "."][..]] {
            rep.count("big:stderr-heavy-command-runs");
            let (code, what) = cli_watchdog(bin, &d, f, 30);
            if let Some(what) = what {
                rep.violation("oracle", &format!("C18: a command writing 400 KB to stderr: {what}"), &format!("# C18: {what}\n# source gen.txt.txtpp: `# TXTPP#run head -c 400000 /dev/zero | tr '\\0' w >&2; echo result`\n"));
            } else if code != Some(0) {
                rep.notes.push(format!("stderr-heavy command: exit {:?} with {:?}", code, f));
            }
        }
    }
    many_files_scenario(rep, bin, dir);
    non_utf8_names_scenario(rep, bin, dir, "C18");
    // a command that reads its standard input while txtpp's own stdin is an open pipe: commands get no input (EOF at once)
    {
        let d = dir.join("stdin");
        let _ = std::fs::remove_dir_all(&d);
        std::fs::create_dir_all(&d).unwrap();
        std::fs::write(d.join("in.txt.txtpp"), "before\n# TXTPP#run cat -; echo done\n# TXTPP#run wc -l\nafter\n").unwrap();
        for f in [&["-q", "-j", "1", "."][..], &["verify", "-q", "."][..]] {
            rep.count("big:command-reads-stdin-runs");
            if let (_, Some(what)) = cli_watchdog_stdin(bin, &d, f, 20, true) {
                rep.violation("oracle", &format!("C18: a command that reads stdin (`cat -`, `wc -l`) while txtpp's stdin is an open pipe: {what}"), &format!("# C18: {what}\n# source: `# TXTPP#run cat -; echo done` / `# TXTPP#run wc -l`; txtpp started with an open, silent pipe as stdin\n"));
            }
        }
    }
    // status lines with the progress display on: relative paths of 90..150 bytes made of two- and three-byte characters,
    // every length (so that any byte offset a shortening might cut at falls inside a character for some of them)
    {
        let d = dir.join("longpaths");
        let _ = std::fs::remove_dir_all(&d);
        std::fs::create_dir_all(&d).unwrap();
        let mut made = 0;
        for extra in 0..12usize {
            for unit in ["д", "名"] {
                let dir1 = unit.repeat(18);
                let dir2 = format!("{}{}", unit.repeat(16), "x".repeat(extra));
                let p = d.join(&dir1).join(&dir2);
                if std::fs::create_dir_all(&p).is_ok() {
                    let _ = std::fs::write(p.join(format!("{}.txt.txtpp", unit.repeat(6))), "long path\n");
                    made += 1;
                }
            }
        }
        rep.countn("big:long-multibyte-paths", made);
        for f in [&["-r", "-j", "2", "."][..], &["-v", "-r", "-j", "1", "."][..], &["verify", "-r", "."][..], &["clean", "-r", "."][..]] {
            rep.count("big:long-multibyte-path-runs");
            if let (_, Some(what)) = cli_watchdog(bin, &d, f, 40) {
                rep.violation("oracle", &format!("C18: progress display over relative paths of 90-150 bytes of multi-byte characters: {what}"), &format!("# C18: {what}\n# 24 sources below two directory levels named with 16-18 Cyrillic / CJK characters plus 0..11 ASCII characters\n"));
            }
        }
    }
}

/// hundreds of files, every 7th failing: the error arrives while hundreds of tasks are outstanding; the run must end
/// (non-zero) under every thread count
pub fn many_files_scenario(rep: &mut Report, bin: &std::path::Path, dir: &std::path::Path) {
    {
        let d = dir.join("many");
        let _ = std::fs::remove_dir_all(&d);
        std::fs::create_dir_all(d.join("pages")).unwrap();
        std::fs::write(d.join("tpl.html.txtpp"), "<header>\n").unwrap();
        for i in 0..700 {
            let body = if i % 7 == 3 { format!("page {i}\nTXTPP#include ../missing_{i}.html\n") } else { format!("page {i}\nTXTPP#include ../tpl.html\n") };
            std::fs::write(d.join(format!("pages/p{i:03}.html.txtpp")), body).unwrap();
        }
        for f in [&["-q", "-r", "-j", "4", "."][..], &["-N", "-q", "-r", "-j", "16", "."][..], &["verify", "-q", "-r", "-j", "0", "."][..], &["-q", "-r", "-j", "1", "pages"][..]] {
            rep.count("big:many-files-with-errors-runs");
            let (code, what) = cli_watchdog(bin, &d, f, 60);
            if let Some(what) = what {
                rep.violation("oracle", &format!("C03/C18: 700 sources, 100 of them failing: {what}"), &format!("# C18: {what}\n# 700 files pages/pNNN.html.txtpp including ../tpl.html (every 7th includes a missing file), flags {:?}\n", f));
            } else if code == Some(0) {
                rep.violation("oracle", &format!("C04: 700 sources, 100 of them failing: `txtpp {}` exits 0", f.join(" ")), &format!("# 700 files, every 7th includes a missing file, flags {:?}: exit 0\n", f));
            }
        }
    }
}

/// file names that are not UTF-8 (Latin-1 bytes), in both txtpp name shapes, with a decoy at the lossy spelling of the
/// output name: every source in a scanned directory is processed, the output is the byte-exact name, the decoy is
/// never touched; clean removes exactly the outputs
pub fn non_utf8_names_scenario(rep: &mut Report, bin: &std::path::Path, dir: &std::path::Path, property: &str) {
    use std::os::unix::ffi::OsStrExt;
    let os = |b: &[u8]| std::ffi::OsStr::from_bytes(b).to_os_string();
    let d = dir.join("nonutf8");
    let _ = std::fs::remove_dir_all(&d);
    std::fs::create_dir_all(d.join("menu")).unwrap();
    let m = d.join("menu");
    std::fs::write(m.join(os(b"caf\xe9.txt.txtpp")), "plat du jour\n").unwrap();
    std::fs::write(m.join(os(b"cr\xe8me.txtpp.md")), "dessert\nTXTPP#include plain.txt\n").unwrap();
    std::fs::write(m.join("plain.txt"), "plain\n").unwrap();
    std::fs::write(m.join("cr\u{fffd}me.md"), "decoy\n").unwrap();
    std::fs::write(m.join("caf\u{fffd}.txt"), "decoy\n").unwrap();
    let outs: [(Vec<u8>, &str); 2] = [(b"caf\xe9.txt".to_vec(), "plat du jour\n"), (b"cr\xe8me.md".to_vec(), "dessert\nplain\n\n")];
    for flags in [&["-q", "-r", "."][..], &["-q", "menu"][..], &["-N", "-q", "-r", "."][..]] {
        for (o, _) in &outs {
            let _ = std::fs::remove_file(m.join(os(o)));
        }
        rep.count("big:non-utf8-file-name-runs");
        let (code, what) = cli_watchdog(bin, &d, flags, 30);
        let mut problems = vec![];
        if let Some(w) = what {
            problems.push(w);
        }
        if code != Some(0) {
            problems.push(format!("exit status {code:?}"));
        }
        for (o, want) in &outs {
            match std::fs::read(m.join(os(o))) {
                Ok(b) if b == want.as_bytes() => {}
                Ok(b) => problems.push(format!("output {:?} holds {:?}", String::from_utf8_lossy(o), String::from_utf8_lossy(&b))),
                Err(_) => problems.push(format!("output {:?} (byte-exact name) was not created: the source was not processed", String::from_utf8_lossy(o))),
            }
        }
        for decoy in ["cr\u{fffd}me.md", "caf\u{fffd}.txt"] {
            if std::fs::read(m.join(decoy)).ok().as_deref() != Some(b"decoy\n".as_ref()) {
                problems.push(format!("the unrelated file {decoy:?} was changed or removed"));
            }
        }
        if !problems.is_empty() {
            let what = format!("{property}: sources with non-UTF-8 file names (menu/caf\\xe9.txt.txtpp, menu/cr\\xe8me.txtpp.md), `txtpp {}`: {}", flags.join(" "), problems.join("; "));
            rep.violation("oracle", &what, &format!("# {what}\n"));
        }
    }
    // clean removes the outputs and nothing else
    let (_, what) = cli_watchdog(bin, &d, &["clean", "-q", "-r", "."], 30);
    let mut problems = vec![];
    if let Some(w) = what {
        problems.push(w);
    }
    for (o, _) in &outs {
        if m.join(os(o)).exists() {
            problems.push(format!("clean left the output {:?}", String::from_utf8_lossy(o)));
        }
    }
    for keep in ["cr\u{fffd}me.md", "caf\u{fffd}.txt", "plain.txt"] {
        if !m.join(keep).exists() {
            problems.push(format!("clean removed {keep:?}"));
        }
    }
    if !problems.is_empty() {
        let what = format!("{property}: non-UTF-8 file names, `txtpp clean -r .`: {}", problems.join("; "));
        rep.violation("oracle", &what, &format!("# {what}\n"));
    }
}

/// job `big` (one shard): the scenarios above that belong to the property named by `--property`, through the CLI binary
pub fn run_big(args: &Args) -> Report {
    let property = args.property.clone();
    let mut rep = Report::new(&property, "M11-big", &args.replay_dir);
    rep.rule = "explicit scenarios a sampling generator of small projects does not reach, through the CLI binary with a watchdog: 700 sources with 100 failing ones among them (every thread count; must end, non-zero), sources whose file names are not UTF-8 in both txtpp name shapes with decoys at the lossy spelling (processed, byte-exact output name, decoys untouched, clean removes exactly the outputs), the corner projects of corner.rs (no hang, no panic)".to_string();
    let bin = args.bin.clone().unwrap_or_default();
    let dir = args.work.join(format!("big-{}-{}", property, std::process::id()));
    let _ = std::fs::remove_dir_all(&dir);
    std::fs::create_dir_all(&dir).unwrap();
    if !bin.exists() {
        rep.notes.push("CLI binary not built: nothing run".to_string());
        return rep;
    }
    if property == "C03" || property == "C04" {
        many_files_scenario(&mut rep, &bin, &dir);
    }
    if property == "C03" || property == "C10" || property == "C11" {
        non_utf8_names_scenario(&mut rep, &bin, &dir, &property);
    }
    rep.evaluations = rep.dist.values().sum::<u64>();
    let _ = std::fs::remove_dir_all(&dir);
    rep
}

pub fn run_c18(args: &Args) -> Report {
    let mut rep = Report::new("C18", "M10", &args.replay_dir);
    let bin = args.bin.clone().unwrap_or_default();
    let last_panic: Arc<Mutex<String>> = Arc::new(Mutex::new(String::new()));
    {
        let lp = last_panic.clone();
        std::panic::set_hook(Box::new(move |info| {
            PANICS.fetch_add(1, Ordering::SeqCst);
            *lp.lock().unwrap() = format!("{info}");
        }));
    }
    let mut rng = Rng::new(args.seed.wrapping_mul(1000).wrapping_add(args.shard as u64).wrapping_add(0xC18));
    rep.rule = "(a) function level, in process, every call under catch_unwind: detect_from on random strings over directive tokens + arbitrary Unicode scalars (NUL, CR, U+0085, U+2028, astral), add_line with the detected directive (and with hand-made whitespace/prefix incl. multi-byte) on random and derived lines, TagState create/try_store/inject_tags sequences with random names/contents, replace_line_ending, get_line_ending on files of random bytes; (b) whole runs (library, in process, watchdog thread: a run that does not return within 30 s is a hang; a panicking worker leaves the coordinator waiting, which the watchdog reports): generated projects mutated at byte level (invalid UTF-8, NUL, lone CR, 1 MB lines, empty lines, truncation) or structurally (lines duplicated / dropped / swapped), random bytes at existing output / temp paths, x {build, needed, verify, clean} x threads 0..16 x recursive on/off. Oracle: no panic in any thread, every run returns Ok or Err in bounded time. distinct_nontrivial = distinct (mutation kind, mode, thread class, verdict) + function-level outcome classes.".to_string();
    // ---------------- (a) function level
    let nfun = if args.thorough() { 400_000 } else { 40_000 } / args.shards.max(1);
    for i in 0..nfun {
        let line = rand_string(&mut rng, 8);
        let l2 = line.clone();
        let mut det: Option<(String, String, bool)> = None;
        let ok = guarded(|| {
            let _ = Directive::detect_from(&l2);
        });
        if !ok {
            rep.violation("oracle", &format!("C18: detect_from({:?}) panics: {}", line, last_panic.lock().unwrap()), &format!("fn: detect {}\n", hexs(&line)));
        }
        if let Some(d) = Directive::detect_from(&line) {
            det = Some((d.whitespaces.clone(), d.prefix.clone(), d.directive_type.supports_multi_line()));
            rep.sigs.insert(format!("detect:{}", d.directive_type));
        }
        // add_line with detected or hand-made heads
        let (ws, pre) = match &det {
            Some((w, p, _)) if rng.chance(1, 2) => (w.clone(), p.clone()),
            _ => ((*rng.pick(&["", " ", "\t", "\u{3000}", "  "])).to_string(), (*rng.pick(&["", "-", "é", "日本 ", "\u{1F600}", "//", "- ", "│ ", "§"])).to_string()),
        };
        let cand = match rng.below(5) {
            0 => format!("{ws}{pre}{}", rand_string(&mut rng, 3)),
            1 => format!("{ws}{}{}", " ".repeat(pre.len()), rand_string(&mut rng, 3)),
            2 => format!("{ws}{}{}", " ".repeat(pre.chars().count()), rand_string(&mut rng, 2)),
            3 => format!("{ws}{}", pre.trim_end()),
            _ => rand_string(&mut rng, 6),
        };
        for ty in [DirectiveType::Run, DirectiveType::Write] {
            let (w2, p2, c2) = (ws.clone(), pre.clone(), cand.clone());
            let ok = guarded(move || {
                let mut d = Directive::new(&w2, &p2, ty, vec!["a".to_string()]);
                let _ = d.add_line(&c2);
                let _ = format!("{d}");
            });
            if !ok {
                rep.violation("oracle", &format!("C18: Directive{{ws:{:?},prefix:{:?}}}.add_line({:?}) panics: {}", ws, pre, cand, last_panic.lock().unwrap()), &format!("fn: addline {} {} {}\n", hexs(&ws), hexs(&pre), hexs(&cand)));
            }
        }
        // tags
        if i % 4 == 0 {
            let names: Vec<String> = (0..3).map(|_| rand_string(&mut rng, 2)).collect();
            let contents: Vec<String> = (0..3).map(|_| rand_string(&mut rng, 4) + *rng.pick(&["", "\n", "\r\n", "\r"])).collect();
            let target = rand_string(&mut rng, 8).trim_end_matches('\n').to_string();
            let (n2, c2, t2) = (names.clone(), contents.clone(), target.clone());
            let ok = guarded(move || {
                let mut t = TagState::new();
                for k in 0..3 {
                    let _ = t.create(&n2[k]);
                    let _ = t.try_store(&c2[k]);
                }
                let _ = t.inject_tags(&t2, "\r\n");
                let _ = t.inject_tags(&t2, "\n");
                let _ = t.has_tags();
                let _ = format!("{t}");
            });
            if !ok {
                rep.violation("oracle", &format!("C18: tag store panics for names {:?} contents {:?} line {:?}: {}", names, contents, target, last_panic.lock().unwrap()), "fn: tags\n");
            }
            // the same over a tiny alphabet, so that stored names overlap each other inside the line
            // (`ab` / `bc` in `abc`, `__V` / `V__` in `__V__`): leftmost wins, nothing may panic
            let small = |rng: &mut Rng, max: usize| -> String {
                let n = 1 + rng.below(max);
                (0..n).map(|_| *rng.pick(&["a", "b", "_", "V", "é"])).collect::<Vec<_>>().concat()
            };
            let names: Vec<String> = (0..3).map(|_| small(&mut rng, 3)).collect();
            let target = small(&mut rng, 9);
            let (n2, t2) = (names.clone(), target.clone());
            let ok = guarded(move || {
                let mut t = TagState::new();
                for k in 0..3 {
                    let _ = t.create(&n2[k]);
                    let _ = t.try_store(&format!("<{k}>"));
                }
                let _ = t.inject_tags(&t2, "\n");
                let _ = t.inject_tags(&t2, "\n");
            });
            if !ok {
                rep.violation("oracle", &format!("C18: tag injection panics for stored names {:?} on line {:?}: {}", names, target, last_panic.lock().unwrap()), "fn: tags\n");
            }
            let c3 = contents[0].clone();
            if !guarded(move || {
                let _ = c3.replace_line_ending("\r\n", false);
                let _ = c3.replace_line_ending("\n", true);
            }) {
                rep.violation("oracle", &format!("C18: replace_line_ending panics on {:?}", contents[0]), "fn: rle\n");
            }
        }
        rep.evaluations += 1;
    }
    // get_line_ending on random byte files
    let tmp = args.work.join(format!("c18-{}-{}", std::process::id(), args.shard));
    let _ = std::fs::create_dir_all(&tmp);
    for _ in 0..200 {
        let n = rng.below(6);
        let bytes: Vec<u8> = (0..n).map(|_| *rng.pick(&[b'\n', b'\r', b'a', 0u8, 0xff])).collect();
        let f = tmp.join("le.bin");
        std::fs::write(&f, &bytes).unwrap();
        let f2 = f.clone();
        if !guarded(move || {
            let _ = f2.get_line_ending();
        }) {
            rep.violation("oracle", &format!("C18: get_line_ending panics on bytes {:?}", bytes), "fn: le\n");
        }
        rep.evaluations += 1;
    }
    let _ = std::fs::remove_dir_all(&tmp);
    // ---------------- (b) whole runs
    let nrun = if args.thorough() { 30_000 } else { 1400 } / args.shards.max(1);
    let dir = args.work.join(format!("c18run-{}-{}", std::process::id(), args.shard));
    let _ = std::fs::remove_dir_all(&dir);
    std::fs::create_dir_all(&dir).unwrap();
    let dir = dir.canonicalize().unwrap();
    let pdir = dir.join("p");
    let log = dir.join("markers.log");
    // watchdog
    let current: Arc<Mutex<(std::time::Instant, String, bool)>> = Arc::new(Mutex::new((std::time::Instant::now(), String::new(), false)));
    {
        let cur = current.clone();
        let result = args.result.clone();
        let replay_dir = args.replay_dir.clone();
        let lp = last_panic.clone();
        std::thread::spawn(move || loop {
            std::thread::sleep(std::time::Duration::from_millis(200));
            let g = cur.lock().unwrap();
            if g.2 && g.0.elapsed() > std::time::Duration::from_secs(30) {
                let mut rep = Report::new("C18", "M10", &replay_dir);
                rep.evaluations = 1;
                let why = if PANICS.load(Ordering::SeqCst) > 0 {
                    format!("a thread panicked ({}) and the run never returned", lp.lock().unwrap())
                } else {
                    "the run did not return within 30 s (hang)".to_string()
                };
                rep.violation("oracle", &format!("C18: {why}"), &g.1);
                rep.write(&result);
                eprintln!("violation[oracle]: C18 {why}");
                std::process::exit(1);
            }
        });
    }
    // commands with a lot of output on stdout / stderr (pipe capacity is 64 KiB): the run must still return
    if args.shard == 0 {
        for (k, cmdline) in [
            "head -c 300000 /dev/zero | tr '\\0' 'e' >&2; echo done",
            "head -c 300000 /dev/zero | tr '\\0' 'o'; echo; echo done",
            "head -c 100000 /dev/zero | tr '\\0' 'e' >&2; head -c 100000 /dev/zero | tr '\\0' 'o'; echo; echo done",
        ]
        .iter()
        .enumerate()
        {
            let src = format!("-- TXTPP#run {cmdline}\n~\n");
            let p = Project { files: vec![("noisy.txt.txtpp".into(), src.into_bytes())], dirs: vec![], cmds: vec![], sources: vec!["noisy.txt.txtpp".into()], sig: vec![], expect_error: false };
            for mode in ["build", "verify"] {
                materialize(&p, &pdir);
                let cfg = RunCfg { mode, trailing: true, recursive: false, threads: 2, inputs: vec![".".to_string()] };
                let body = format!("# {} ; source: -- TXTPP#run {cmdline}\n", cfg.describe());
                *current.lock().unwrap() = (std::time::Instant::now(), body.clone(), true);
                let obs = run_impl(&pdir, &cfg, &log);
                current.lock().unwrap().2 = false;
                rep.evaluations += 1;
                rep.sigs.insert(format!("noisy-command-{k}|{mode}|{}", obs.verdict));
                let out = obs.after.files.get("noisy.txt").map(|b| b.len()).unwrap_or(0);
                if mode == "build" && (obs.verdict != "ok" || out < 5) {
                    rep.violation("oracle", &format!("C18: a terminating command with large output makes the run fail or lose output: verdict {}, {} output bytes", obs.verdict, out), &body);
                }
            }
        }
    }
    // many files, one of them failing early, few threads: the error must be reported while many results are still
    // outstanding (nothing may block on them); and verify against outputs that differ from the fresh output in the
    // middle of a multi-byte character (the mismatch report must not slice there)
    if args.shard == 1 % args.shards.max(1) {
        for threads in [0usize, 1, 2, 4] {
            for mode in ["build", "needed", "verify"] {
                let mut files: Vec<(String, Vec<u8>)> = vec![("bad.txt.txtpp".into(), b"x\nTXTPP#include missing-file.txt\n".to_vec())];
                let mut sources = vec!["bad.txt.txtpp".to_string()];
                for k in 0..40 {
                    files.push((format!("g{k:02}.txt.txtpp"), format!("good {k}\n").into_bytes()));
                    sources.push(format!("g{k:02}.txt.txtpp"));
                }
                let p = Project { files, dirs: vec![], cmds: vec![], sources: sources.clone(), sig: vec![], expect_error: true };
                materialize(&p, &pdir);
                let cfg = RunCfg { mode, trailing: true, recursive: false, threads, inputs: sources.clone() };
                let body = format!("# {} ; 1 failing source (include of a missing file) named first + 40 good ones, each named as an input\n", cfg.describe());
                *current.lock().unwrap() = (std::time::Instant::now(), body.clone(), true);
                let before_panics = PANICS.load(Ordering::SeqCst);
                let obs = run_impl(&pdir, &cfg, &log);
                current.lock().unwrap().2 = false;
                rep.evaluations += 1;
                rep.sigs.insert(format!("early-error-many-files|{mode}|{threads}|{}", obs.verdict));
                if obs.verdict == "panic" || PANICS.load(Ordering::SeqCst) > before_panics || obs.verdict == "ok" {
                    rep.violation("oracle", &format!("C18: early error with many files outstanding: verdict `{}` ({})", obs.verdict, cfg.describe()), &body);
                }
            }
        }
        for (k, (fresh, stale)) in [("café au lait\n", "cafè au lait\n"), ("日本\n", "日木\n"), ("naïve é\n", "naïve è\n"), ("é\n", "\u{00e8}\n")].iter().enumerate() {
            let p = Project { files: vec![("m.txt.txtpp".into(), fresh.as_bytes().to_vec()), ("m.txt".into(), stale.as_bytes().to_vec())], dirs: vec![], cmds: vec![], sources: vec!["m.txt.txtpp".into()], sig: vec![], expect_error: true };
            for cut in [false, true] {
                materialize(&p, &pdir);
                if cut {
                    // the existing output ends inside a multi-byte character
                    let b = fresh.as_bytes();
                    let pos = b.iter().position(|x| *x >= 0x80).unwrap_or(0) + 1;
                    let _ = std::fs::write(pdir.join("m.txt"), &b[..pos]);
                }
                let cfg = RunCfg { mode: "verify", trailing: true, recursive: false, threads: 2, inputs: vec![".".to_string()] };
                let body = format!("# {} ; m.txt.txtpp = {:?}, existing m.txt = {:?} (cut inside a character: {cut})\n", cfg.describe(), fresh, stale);
                *current.lock().unwrap() = (std::time::Instant::now(), body.clone(), true);
                let before_panics = PANICS.load(Ordering::SeqCst);
                let obs = run_impl(&pdir, &cfg, &log);
                current.lock().unwrap().2 = false;
                rep.evaluations += 1;
                rep.sigs.insert(format!("verify-mismatch-inside-char|{k}|{cut}|{}", obs.verdict));
                if obs.verdict != "err" || PANICS.load(Ordering::SeqCst) > before_panics {
                    rep.violation("oracle", &format!("C18: verify of an output that differs inside a multi-byte character: verdict `{}` (expected a reported mismatch) {}", obs.verdict, last_panic.lock().unwrap()), &body);
                }
            }
        }
    }
    for i in 0..nrun {
        let structural = rng.chance(1, 3);
        let opts = GenOpts { allow_run: structural, error_pct: 10, ..GenOpts::default() };
        let mut p = gen_project(&mut rng, &opts);
        let mut kind = String::new();
        // mutate a few files
        let nmut = 1 + rng.below(3);
        for _ in 0..nmut {
            let k = rng.below(p.files.len());
            let data = &mut p.files[k].1;
            if structural {
                let mut lines: Vec<Vec<u8>> = data.split_inclusive(|b| *b == b'\n').map(|l| l.to_vec()).collect();
                if !lines.is_empty() {
                    match rng.below(3) {
                        0 => {
                            let j = rng.below(lines.len());
                            let l = lines[j].clone();
                            lines.insert(j, l);
                            kind.push_str("dup-line,");
                        }
                        1 => {
                            let j = rng.below(lines.len());
                            lines.remove(j);
                            kind.push_str("drop-line,");
                        }
                        _ => {
                            let a = rng.below(lines.len());
                            let b = rng.below(lines.len());
                            lines.swap(a, b);
                            kind.push_str("swap-lines,");
                        }
                    }
                }
                *data = lines.concat();
            } else {
                let pos = rng.below(data.len() + 1);
                match rng.below(8) {
                    0 => {
                        data.insert(pos, 0xff);
                        kind.push_str("invalid-utf8,");
                    }
                    1 => {
                        data.insert(pos, 0);
                        kind.push_str("nul,");
                    }
                    2 => {
                        data.insert(pos, b'\r');
                        kind.push_str("lone-cr,");
                    }
                    3 => {
                        let big = vec![b'x'; 1_000_000];
                        data.splice(pos..pos, big);
                        kind.push_str("huge-line,");
                    }
                    4 => {
                        data.splice(pos..pos, b"\n\n\n".to_vec());
                        kind.push_str("empty-lines,");
                    }
                    5 => {
                        data.truncate(pos);
                        kind.push_str("truncate,");
                    }
                    6 => {
                        data.splice(pos..pos, "é TXTPP#write x\n  y\n".as_bytes().to_vec());
                        kind.push_str("multibyte-prefix-block,");
                    }
                    _ => {
                        let n = rng.below(12);
                        let r: Vec<u8> = (0..n).map(|_| (rng.next() & 0xff) as u8).collect();
                        data.splice(pos..pos, r);
                        kind.push_str("random-bytes,");
                    }
                }
            }
        }
        // random bytes at generated paths
        if rng.chance(1, 3) {
            for s in p.sources.clone() {
                if rng.chance(1, 2) {
                    let n = rng.below(20);
                    let r: Vec<u8> = (0..n).map(|_| (rng.next() & 0xff) as u8).collect();
                    p.files.push((output_name(&s), r));
                    kind.push_str("random-existing-output,");
                }
            }
        }
        materialize(&p, &pdir);
        let mode = *rng.pick(&["build", "needed", "verify", "clean"]);
        let threads = *rng.pick(&[0usize, 0, 1, 2, 3, 4, 8, 16]);
        // inputs: the base directory, also repeated, spelled differently, or together with one of its sub-directories
        let inputs: Vec<String> = match rng.below(6) {
            0 | 1 => vec![".".to_string()],
            2 => vec![".".to_string(), ".".to_string()],
            3 => vec!["./".to_string(), ".".to_string()],
            4 if !p.dirs.is_empty() => {
                let d = rng.pick(&p.dirs).clone();
                vec![".".to_string(), d]
            }
            _ if !p.dirs.is_empty() => {
                let d = rng.pick(&p.dirs).clone();
                vec![d.clone(), format!("{d}/../{d}"), format!("./{d}")]
            }
            _ => vec![".".to_string()],
        };
        kind.push_str(&format!("inputs{},", inputs.len()));
        let cfg = RunCfg { mode, trailing: rng.chance(1, 2), recursive: rng.chance(2, 3), threads, inputs };
        let (before, _) = snapshot(&pdir);
        // keep the replay small: huge lines are described, not stored
        let body = if kind.contains("huge-line") { format!("# {} with a 1 MB line inserted; {}\n", cfg.describe(), kind) } else { replay_body(&before, &cfg, &p.cmds, &format!("# mutations: {kind}\n")) };
        *current.lock().unwrap() = (std::time::Instant::now(), body.clone(), true);
        let before_panics = PANICS.load(Ordering::SeqCst);
        let obs = run_impl(&pdir, &cfg, &log);
        current.lock().unwrap().2 = false;
        // the same configuration through the CLI binary with the progress display on (default or verbose):
        // the display code only runs there
        if bin.exists() && !kind.contains("huge-line") && rng.chance(1, 4) {
            let cdir = dir.join("cli");
            let _ = std::fs::remove_dir_all(&cdir);
            std::fs::create_dir_all(&cdir).unwrap();
            write_tree(&before, &cdir);
            // what only the entry layer and the display code see: a very long non-ASCII file name (status lines are
            // shortened), a directory whose name is not UTF-8 with a failing source inside (error values carry paths)
            let mut extra = String::new();
            if rng.chance(1, 3) {
                let name = format!("{}.txt.txtpp", "é".repeat(30 + rng.below(30)));
                let _ = std::fs::write(cdir.join(&name), "long name\nTXTPP#include nope.txt\n");
                extra.push_str("long-non-ascii-name,");
            }
            if rng.chance(1, 3) {
                use std::os::unix::ffi::OsStrExt;
                let d = cdir.join(std::ffi::OsStr::from_bytes(b"sub\xff\xfe"));
                let _ = std::fs::create_dir_all(&d);
                let _ = std::fs::write(d.join("bad.txt.txtpp"), "x\nTXTPP#include missing-file.txt\n");
                let _ = std::fs::write(d.join("good.txt.txtpp"), "fine\n");
                extra.push_str("non-utf8-directory,");
            }
            let mut c = std::process::Command::new(&bin);
            c.current_dir(&cdir).env_remove("TXTPP_FILE").env("VERIF_LOG", dir.join("cli-markers.log"));
            match mode {
                "needed" => { c.arg("-N"); }
                "verify" => { c.arg("verify"); }
                "clean" => { c.arg("clean"); }
                _ => {}
            }
            let verbose = rng.chance(1, 2);
            if verbose {
                c.arg("-v");
            }
            c.arg("-j").arg(threads.to_string());
            if cfg.recursive || extra.contains("non-utf8") {
                c.arg("-r");
            }
            // the shell setting: blank, padded, unknown (an error, never a panic); clean has no such flag
            if mode != "clean" && rng.chance(1, 3) {
                let sh = *rng.pick(&["", " ", "\t", "  sh   -c  ", "sh -c", "no-such-shell-xyz -c", "sh"]);
                c.arg("-s").arg(sh);
                extra.push_str(&format!("shell={sh:?},"));
            }
            for k in extra.split(',').filter(|x| !x.is_empty()) {
                rep.count(&format!("cli-extra:{}", k.split('=').next().unwrap()));
            }
            c.args(&cfg.inputs).stdout(std::process::Stdio::null()).stderr(std::process::Stdio::piped());
            rep.count(if verbose { "cli-verbose-runs" } else { "cli-default-verbosity-runs" });
            if let Ok(mut child) = c.spawn() {
                let t0 = std::time::Instant::now();
                // drain stderr in a thread so that a full pipe cannot block the child
                let mut errpipe = child.stderr.take().unwrap();
                let reader = std::thread::spawn(move || {
                    let mut s = Vec::new();
                    let _ = std::io::Read::read_to_end(&mut errpipe, &mut s);
                    String::from_utf8_lossy(&s).to_string()
                });
                let mut status = None;
                while t0.elapsed() < std::time::Duration::from_secs(40) {
                    if let Ok(Some(st)) = child.try_wait() {
                        status = Some(st);
                        break;
                    }
                    std::thread::sleep(std::time::Duration::from_millis(20));
                }
                if status.is_none() {
                    let _ = child.kill();
                    let _ = child.wait();
                    rep.violation("oracle", &format!("C18: the CLI binary (verbose={verbose}) did not return within 40 s on {} ({}{})", cfg.describe(), kind, extra), &body);
                }
                let err = reader.join().unwrap_or_default();
                if let Some(st) = status {
                    if st.code() == Some(101) || err.contains("panicked at") {
                        let line = err.lines().find(|l| l.contains("panicked at")).unwrap_or("").to_string();
                        rep.violation("oracle", &format!("C18: the CLI binary (verbose={verbose}) panics on {} ({}{}): {}", cfg.describe(), kind, extra, line), &body);
                    }
                }
            }
        }
        rep.evaluations += 1;
        rep.count(&format!("mode:{mode}"));
        rep.count(&format!("verdict:{}", obs.verdict));
        let tclass = if threads == 0 { "0" } else if threads == 1 { "1" } else { "n" };
        for k in kind.split(',').filter(|x| !x.is_empty()) {
            rep.sigs.insert(format!("{k}|{mode}|{tclass}|{}", obs.verdict));
            rep.count(&format!("mutation:{k}"));
        }
        if obs.verdict == "panic" || PANICS.load(Ordering::SeqCst) > before_panics {
            rep.violation("oracle", &format!("C18: panic during {} ({}): {}", cfg.describe(), kind, last_panic.lock().unwrap()), &body);
        }
        if i == 0 {
            rep.sample(format!("{} with mutations [{}] => {}", cfg.describe(), kind, obs.verdict));
        }
    }
    if args.shard == 0 && bin.exists() {
        big_scenarios(&mut rep, &bin, &dir);
    }
    let _ = std::fs::remove_dir_all(&dir);
    rep
}

//! Corner scenarios that a sampling generator of small projects does not produce (seed round 11): inputs larger than
//! any I/O buffer, multi-byte characters at buffer boundaries, stray carriage returns, empty outputs over stale ones,
//! repeated temp targets. Each is a small explicit project; the calling job runs it (several modes) and compares it
//! with the model like every other case.
use crate::gen::*;

fn proj(files: Vec<(&str, Vec<u8>)>, sources: Vec<&str>, cmds: Vec<(String, Vec<Act>)>, sig: &str) -> Project {
    Project {
        files: files.into_iter().map(|(a, b)| (a.to_string(), b)).collect(),
        dirs: vec![],
        cmds,
        sources: sources.into_iter().map(|s| s.to_string()).collect(),
        sig: vec![format!("corner:{sig}")],
        expect_error: false,
    }
}

/// (label, project, modes to run)
pub fn corner_projects() -> Vec<(String, Project, Vec<&'static str>)> {
    let mut v = vec![];
    // 1. the first line is longer than the 8 KiB reader buffer, CRLF / LF: the line ending is that of the first line
    //    (round 15: also longer than 16 KiB and 64 KiB - a probe window of any such size must not decide the ending)
    for (le, tag, len) in [("\r\n", "crlf", 9000usize), ("\n", "lf", 9000), ("\r\n", "crlf-17k", 17000), ("\r\n", "crlf-70k", 70000)] {
        let mut s = Vec::new();
        s.extend(std::iter::repeat(b'a').take(len));
        s.extend_from_slice(le.as_bytes());
        s.extend_from_slice(format!("second{le}-TXTPP#temp long_t.tmp{le}-b1{le}-b2{le}~{le}# TXTPP#write w1{le}last{le}").as_bytes());
        v.push((format!("long-first-line-{tag}"), proj(vec![("long.txt.txtpp", s)], vec!["long.txt.txtpp"], vec![], "long-first-line"), vec!["build", "needed"]));
    }
    // 1b. CRLF first lines whose terminator lies exactly at / across the 8 KiB boundary of the reader buffer
    for n in [8190usize, 8191, 8192] {
        let mut s = Vec::new();
        s.extend(std::iter::repeat(b'b').take(n));
        s.extend_from_slice(b"\r\nsecond\r\n# TXTPP#write w\r\nlast\r\n");
        v.push((format!("crlf-at-buffer-boundary-{n}"), proj(vec![("edge.txt.txtpp", s)], vec!["edge.txt.txtpp"], vec![], "crlf-at-boundary"), vec!["build"]));
    }
    // 2. an included file larger than the buffer with a two-byte character across byte 8192, and across 16384
    {
        let mut inc = Vec::new();
        inc.extend(std::iter::repeat(b'x').take(8191));
        inc.extend_from_slice("é".as_bytes());
        inc.extend(std::iter::repeat(b'y').take(8190));
        inc.extend_from_slice("→".as_bytes());
        inc.extend_from_slice(b"\nsecond line of the included file\n");
        let src = b"head\nTXTPP#include big_inc.txt\ntail\n  TXTPP#include big_inc.txt\n".to_vec();
        v.push(("include-multibyte-at-buffer-boundary".to_string(), proj(vec![("inc.txt.txtpp", src), ("big_inc.txt", inc)], vec!["inc.txt.txtpp"], vec![], "include-buffer-boundary"), vec!["build"]));
    }
    // 3. a temp target written twice in one file, the second content a proper prefix of the first (and empty), read back
    for (second, tag) in [("-alpha", "prefix"), ("", "empty")] {
        let body2 = if second.is_empty() { String::new() } else { format!("{second}\n") };
        let src = format!("-TXTPP#temp twice.tmp\n-alpha\n-beta\n~\n# TXTPP#run cat twice.tmp\n-TXTPP#temp twice.tmp\n{body2}~\n# TXTPP#run cat twice.tmp\nend\n");
        v.push((
            format!("temp-rewritten-with-{tag}"),
            proj(vec![("tw.txt.txtpp", src.into_bytes())], vec!["tw.txt.txtpp"], vec![("cat twice.tmp".to_string(), vec![Act { kind: "cat", arg: "twice.tmp".into() }])], "temp-twice"),
            vec!["build", "needed"],
        ));
    }
    // 4. a temp target that already exists with the new content plus a tail
    {
        let src = b"-TXTPP#temp left.tmp\n-one\n~\n# TXTPP#run cat left.tmp\n".to_vec();
        v.push((
            "temp-leftover-longer".to_string(),
            proj(vec![("lo.txt.txtpp", src), ("left.tmp", b"one\ntwo\n".to_vec())], vec!["lo.txt.txtpp"], vec![("cat left.tmp".to_string(), vec![Act { kind: "cat", arg: "left.tmp".into() }])], "temp-leftover"),
            vec!["build", "needed"],
        ));
    }
    // 5. stray carriage returns: before the line ending of the first line, a lone CR at the end of a one-line file, CRs inside
    for (k, bytes) in [b"text\r\r\nnext\r\n".to_vec(), b"only line\r".to_vec(), b"a\rb\r\n\r\r\nlast".to_vec(), b"\r\n\r\n".to_vec(), b"x\r\r\n".to_vec()].into_iter().enumerate() {
        v.push((format!("stray-cr-{k}"), proj(vec![("cr.txt.txtpp", bytes)], vec!["cr.txt.txtpp"], vec![], "stray-cr"), vec!["build", "needed"]));
    }
    // 6. the fresh output is empty: over a stale output (must be emptied), over no output (must be created, also only-if-needed)
    for (k, src) in [b"".to_vec(), b"# TXTPP#\n".to_vec(), b"-TXTPP#temp e.tmp\n-x\n".to_vec()].into_iter().enumerate() {
        v.push((format!("empty-output-over-stale-{k}"), proj(vec![("em.txt.txtpp", src.clone()), ("em.txt", b"stale content\n".to_vec())], vec!["em.txt.txtpp"], vec![], "empty-over-stale"), vec!["build", "needed", "verify"]));
        v.push((format!("empty-output-over-nothing-{k}"), proj(vec![("em.txt.txtpp", src)], vec!["em.txt.txtpp"], vec![], "empty-over-nothing"), vec!["build", "needed", "verify"]));
    }
    // 7. a multi-line directive with a non-ASCII prefix; continuation lines in the space form (as many spaces as the
    //    prefix has *bytes*), and text lines with fewer spaces (as many as it has characters): those are text
    {
        let src = "« TXTPP#write one\n   two\n  three is text (two spaces: the character count of the prefix)\n→TXTPP#write w\n   x\n ordinary line with one space\n".as_bytes().to_vec();
        v.push(("non-ascii-prefix-space-continuation".to_string(), proj(vec![("na.txt.txtpp", src)], vec!["na.txt.txtpp"], vec![], "non-ascii-prefix"), vec!["build"]));
    }
    // 8. a directive whose first argument is longer than 72 bytes with multi-byte characters around byte 72
    {
        let long = format!("{}é→é→é→ tail of a long argument", "a".repeat(69));
        let src = format!("# TXTPP#write {long}\nTXTPP#tag {}【名前】\n-TXTPP#write stored\nuse {}【名前】 here\n", "T".repeat(70), "T".repeat(70)).into_bytes();
        v.push(("long-first-argument-multibyte".to_string(), proj(vec![("lg.txt.txtpp", src)], vec!["lg.txt.txtpp"], vec![], "long-argument"), vec!["build"]));
    }
    // 9. a stored tag with a multi-byte name used on a line with fewer characters than the tag has bytes
    {
        let src = "TXTPP#tag 【名前】\n-TXTPP#write 太郎\n様:【名前】\n".as_bytes().to_vec();
        v.push(("multibyte-tag-on-short-line".to_string(), proj(vec![("mt.txt.txtpp", src)], vec!["mt.txt.txtpp"], vec![], "multibyte-tag"), vec!["build"]));
    }
    // 10. a waiting tag followed by a directive with empty output, then another output
    {
        let src = b"TXTPP#tag EXTRA\nTXTPP#include empty_inc.txt\n# TXTPP#write generated\nbefore EXTRA after\n".to_vec();
        v.push(("tag-captures-empty-output".to_string(), proj(vec![("te.txt.txtpp", src), ("empty_inc.txt", vec![])], vec!["te.txt.txtpp"], vec![], "tag-empty-output"), vec!["build"]));
    }
    // 11. tags created after a dependency directive: in the first pass (collect mode) nothing after the dependency is
    //     executed - no tag is created, stored or missed there
    {
        let page = b"TXTPP#tag TITLE\n-TXTPP#write the title\nTXTPP#include hdr.txt\nTXTPP#tag AUTHOR\n-TXTPP#write somebody\nTXTPP#tag SECOND\n-TXTPP#write again\nTITLE by AUTHOR (SECOND)\n# TXTPP#\nend\n".to_vec();
        v.push(("tags-after-a-dependency".to_string(), proj(vec![("page.txt.txtpp", page), ("hdr.txt.txtpp", b"header\n".to_vec())], vec!["page.txt.txtpp", "hdr.txt.txtpp"], vec![], "tags-after-dependency"), vec!["build", "needed"]));
    }
    // 12. a command that reads the file's own output path while it is being rebuilt over a longer old output: the build
    //     has truncated it (only-if-needed has not: there the old content is seen - both as the model says)
    {
        let src = b"first\n# TXTPP#run cat own.txt\nlast\n".to_vec();
        v.push((
            "command-reads-own-output".to_string(),
            proj(vec![("own.txt.txtpp", src), ("own.txt", b"OLD1\nOLD2\nOLD3\nOLD4\n".to_vec())], vec!["own.txt.txtpp"], vec![("cat own.txt".to_string(), vec![Act { kind: "cat", arg: "own.txt".into() }])], "reads-own-output"),
            vec!["build"],
        ));
    }
    // 13. two dependencies, the directives with the same prefix, an empty (multi-line capable) directive and a plain line
    //     between them; only the includer is requested, the outputs of the dependencies are stale on disk
    {
        let a = b"top\n// TXTPP#include d1.txt\n// TXTPP#\nbetween\n// TXTPP#include d2.txt\n// TXTPP#run true\nplain again\n// TXTPP#after d3.txt\nbottom\n".to_vec();
        let mut p = proj(
            vec![("a.txt.txtpp", a), ("d1.txt.txtpp", b"one\n".to_vec()), ("d2.txt.txtpp", b"two\n".to_vec()), ("d3.txt.txtpp", b"three\n".to_vec()), ("d1.txt", b"STALE1\n".to_vec()), ("d2.txt", b"STALE2\n".to_vec())],
            vec!["a.txt.txtpp", "d1.txt.txtpp", "d2.txt.txtpp", "d3.txt.txtpp"],
            vec![("true".to_string(), vec![Act { kind: "true", arg: String::new() }])],
            "same-prefix-dependencies",
        );
        p.sig.push("inputs:a.txt".to_string());
        v.push(("same-prefix-dependencies-single-target".to_string(), p, vec!["build", "needed"]));
    }
    // 14. two sources with the same output path (`x.txt.txtpp`, `x.txtpp.txt`); an includer of `x.txt` depends on the
    //     first spelling; the other spelling is named first
    {
        let mut p = proj(
            vec![("x.txt.txtpp", b"from x.txt.txtpp\n".to_vec()), ("x.txtpp.txt", b"from x.txtpp.txt\n".to_vec()), ("inc.out.txtpp", b"top\nTXTPP#include x.txt\nbottom\n".to_vec())],
            vec!["x.txtpp.txt", "inc.out.txtpp", "x.txt.txtpp"],
            vec![],
            "twin-sources",
        );
        p.sig.push("inputs:x.txtpp.txt,inc.out.txtpp".to_string());
        v.push(("twin-sources-one-output".to_string(), p, vec!["build", "needed"]));
    }
    // 15. a tag that is still waiting (or stored and never used) when the file ends is an error - in build, only-if-needed and
    //     verify alike, also when the output on disk already equals what the rest of the file produces
    for (k, src) in [&b"plain\nTXTPP#tag WAIT\n"[..], &b"plain\nTXTPP#tag WAIT\n-TXTPP#temp w.tmp\n-x\n"[..], &b"TXTPP#tag NEVER\n-TXTPP#write stored\nplain\n"[..], &b"plain\nTXTPP#tag W2\nTXTPP#after nothing-there.txt\n"[..]].iter().enumerate() {
        let mut p = proj(vec![("ut.txt.txtpp", src.to_vec()), ("ut.txt", b"plain\n".to_vec())], vec!["ut.txt.txtpp"], vec![], "unused-tag-at-eof");
        p.expect_error = true;
        v.push((format!("tag-unused-at-end-of-file-{k}"), p, vec!["build", "needed", "verify"]));
    }
    // 16. a command whose quoted argument spans two directive lines: the indentation of the continuation line is part of it
    {
        let src = b"before\n# TXTPP#run printf '%s' \"one\n#    two\"\nafter\n".to_vec();
        let cmd = "printf '%s' \"one    two\"".to_string();
        v.push(("command-argument-keeps-continuation-indentation".to_string(), proj(vec![("ind.txt.txtpp", src)], vec!["ind.txt.txtpp"], vec![(cmd, vec![Act { kind: "lit", arg: "one    two".into() }])], "continuation-indentation"), vec!["build"]));
    }
    // 17. a cycle of `after` directives whose outputs on disk are consistent with the sources: build, only-if-needed and
    //     verify all report the cycle
    {
        let mut p = proj(
            vec![("ca.txt.txtpp", b"A\nTXTPP#after cb.txt\n".to_vec()), ("cb.txt.txtpp", b"B\nTXTPP#after ca.txt\n".to_vec()), ("ca.txt", b"A\n".to_vec()), ("cb.txt", b"B\n".to_vec())],
            vec!["ca.txt.txtpp", "cb.txt.txtpp"],
            vec![],
            "after-cycle-consistent-outputs",
        );
        p.expect_error = true;
        // verify twice: the two runs get the two trailing-newline settings, the outputs on disk match one of them
        v.push(("after-cycle-with-consistent-outputs".to_string(), p, vec!["verify", "verify", "build", "needed"]));
    }
    // 18. clean over a source with a prefix-less `temp` line (an error for a build; text for clean): the file it names is
    //     not touched, and the valid temp block after it is still cleaned
    {
        let src = b"TXTPP#temp keepme.txt\nline\n-TXTPP#temp real.tmp\n-body\n~\nend\n".to_vec();
        let mut p = proj(vec![("cl.txt.txtpp", src), ("keepme.txt", b"hand-written\n".to_vec()), ("real.tmp", b"body".to_vec()), ("cl.txt", b"old output\n".to_vec())], vec!["cl.txt.txtpp"], vec![], "clean-after-ignored-error");
        p.expect_error = true;
        v.push(("clean-after-an-ignored-directive-error".to_string(), p, vec!["clean", "build"]));
    }
    // 19. after a dependency, a multi-line write whose continuation line spells an include of the file's own output: in the
    //     first pass (collect mode) it is still an argument, not a directive
    {
        let g = b"TXTPP#include hdr2.md\n-TXTPP#write see:\n-TXTPP#include guide.md\n~\nend\n".to_vec();
        v.push(("continuation-spelling-an-include-after-a-dependency".to_string(), proj(vec![("guide.md.txtpp", g), ("hdr2.md.txtpp", b"H\n".to_vec())], vec!["guide.md.txtpp", "hdr2.md.txtpp"], vec![], "continuation-include"), vec!["build", "needed"]));
    }
    // 21. (round 15) tag names are the whole trimmed argument, inner blanks and comment closers included (README example);
    //     two names sharing their first word are different tags
    {
        let src = b"<!-- TXTPP#tag PRE_CONTENT -->\n<!-- TXTPP#write stored text\n<pre>PRE_CONTENT --></pre>\n".to_vec();
        v.push(("tag-name-with-comment-closer".to_string(), proj(vec![("tn.html.txtpp", src)], vec!["tn.html.txtpp"], vec![], "tag-name-blanks"), vec!["build"]));
        let src = b"TXTPP#tag SECTION A\n-TXTPP#write alpha\nTXTPP#tag SECTION B\n-TXTPP#write beta\n[SECTION B] [SECTION A]\nSECTION stays\n".to_vec();
        v.push(("tag-names-sharing-first-word".to_string(), proj(vec![("ts.txt.txtpp", src)], vec!["ts.txt.txtpp"], vec![], "tag-name-blanks"), vec!["build", "needed"]));
    }
    // 20. (round 15) prefixes longer than 24 / 64 bytes: a following line continues the block only with exactly as many
    //     spaces as the prefix is long (or the prefix itself); fewer spaces end the block and the line is ordinary text
    for plen in [23usize, 25, 28, 66] {
        let prefix = format!("/*{}*/ ", "-".repeat(plen - 5));
        let sp = |k: usize| " ".repeat(k);
        let src = format!(
            "{prefix}TXTPP#write one\n{}two\n{}row | kept as text\n{prefix}TXTPP#write three\n{}x | text\n{prefix}TXTPP#write five\n{}six\n{}seven | text\nend\n",
            sp(plen), sp(plen - 1), sp(24.min(plen - 1)), sp(plen), sp(plen + 1),
        );
        v.push((format!("long-prefix-{plen}"), proj(vec![("lp.txt.txtpp", src.into_bytes())], vec!["lp.txt.txtpp"], vec![], "long-prefix"), vec!["build"]));
    }
    v
}

//! M9 (C17): what `run` hands to the shell - working directory, TXTPP_FILE, the single joined argument,
//! exit status - with real `sh`/`bash`/an argv-logging shell, for sources at depth 0..3 x relation of
//! base directory and process cwd x library and CLI entry points; and the CLI's TXTPP_FILE guard.
use crate::gen::*;
use crate::m5::*;
use crate::proj::*;
use crate::util::*;
use std::os::unix::fs::PermissionsExt;
use std::process::Command;

pub fn run_c17(args: &Args) -> Report {
    let mut rep = Report::new("C17", "M9", &args.replay_dir);
    let model = Model::new(&args.model, &args.work);
    let mut rng = Rng::new(args.seed.wrapping_add(0xC17).wrapping_add(args.shard as u64 * 77));
    rep.rule = "sources at depth 0..3 below the base directory x process cwd {equal to base, parent of base (relative base_dir), unrelated (/)} x entry point {library Txtpp::run, CLI binary} x shell {default sh -c, `bash -c`, an argv-logging wrapper script as --shell} x command shapes {pwd -P, printf %s \"$TXTPP_FILE\", single line, 2-3 argument lines incl. indented and empty continuation lines, exit 3}. Oracles: captured `pwd -P` = canonical directory of the source; base/TXTPP_FILE is the source; the shell receives exactly one extra argument equal to the argument lines joined by single spaces; non-zero exit fails the build; CLI refuses to start iff TXTPP_FILE is set and non-empty. Library runs with the default shell are also compared with the model.".to_string();
    let mut runner = Runner::new(args, "c17");
    let bin = args.bin.clone().unwrap_or_default();
    let work = runner.dir.parent().unwrap().to_path_buf();
    // argv-logging shell
    let wrapper = work.join("argvsh");
    std::fs::write(&wrapper, "#!/bin/sh\nprintf 'argc=%s\\n' \"$#\" >> \"$VERIF_ARGV\"\nfor a in \"$@\"; do printf '[%s]\\n' \"$a\" >> \"$VERIF_ARGV\"; done\nexec sh \"$@\"\n").unwrap();
    std::fs::set_permissions(&wrapper, std::fs::Permissions::from_mode(0o755)).unwrap();
    let argv_log = work.join("argv.log");
    let orig_cwd = std::env::current_dir().unwrap();
    let depths = ["", "a", "a/b", "a/b/c"];
    let mut case_no = 0;
    let mut argv_cases: Vec<(String, String, String)> = vec![];
    for depth in 0..4 {
        for cwd_rel in ["equal", "parent", "unrelated"] {
            for entry in ["lib", "cli"] {
                for shell in ["default", "bash", "wrapper"] {
                    for shape in 0..7 {
                        case_no += 1;
                        if case_no % args.shards.max(1) != args.shard {
                            continue;
                        }
                        if entry == "cli" && cwd_rel != "equal" {
                            continue; // the CLI's base directory is always its cwd
                        }
                        let sdir = depths[depth];
                        let src = if sdir.is_empty() { "s.txt.txtpp".to_string() } else { format!("{sdir}/s.txt.txtpp") };
                        // command as argument lines
                        let (arg_lines, acts, fails): (Vec<&str>, Vec<Act>, bool) = match shape {
                            0 => (vec!["pwd -P"], vec![Act { kind: "pwd", arg: String::new() }], false),
                            1 => (vec!["printf %s \"$TXTPP_FILE\""], vec![Act { kind: "file", arg: String::new() }], false),
                            2 => (vec!["printf 'a';", "printf 'b'"], vec![Act { kind: "lit", arg: "a".into() }, Act { kind: "lit", arg: "b".into() }], false),
                            3 => (vec!["printf '%s|'  x", "  \"two  spaces\"", "", "z"], vec![Act { kind: "lit", arg: "x|two  spaces|z|".into() }], false),
                            4 => (vec!["exit 3"], vec![Act { kind: "fail", arg: String::new() }], true),
                            // the shell itself dies from a signal: no exit code at all - still a failure
                            6 => (vec!["printf partial; kill -KILL $$"], vec![Act { kind: "lit", arg: "partial".into() }, Act { kind: "fail", arg: String::new() }], true),
                            _ => (vec!["pwd -P;", "printf %s \"$TXTPP_FILE\""], vec![Act { kind: "pwd", arg: String::new() }, Act { kind: "file", arg: String::new() }], false),
                        };
                        let mut text = format!("head\n// TXTPP#run {}\n", arg_lines[0]);
                        for a in &arg_lines[1..] {
                            if a.is_empty() {
                                text.push_str("//\n");
                            } else {
                                text.push_str(&format!("// {a}\n"));
                            }
                        }
                        text.push_str("tail\n");
                        let joined = arg_lines.iter().map(|a| a.trim_end()).collect::<Vec<_>>().join(" ");
                        let joined = joined.trim_start().to_string();
                        let mut dirs: Vec<String> = vec![];
                        let mut acc = String::new();
                        for part in sdir.split('/').filter(|x| !x.is_empty()) {
                            acc = if acc.is_empty() { part.to_string() } else { format!("{acc}/{part}") };
                            dirs.push(acc.clone());
                        }
                        // every other case: the directory txtpp is started in has entries named like the shell (`sh/`, `bash/`):
                        // the shell is looked up on PATH, never taken from the working directory
                        let mut files = vec![(src.clone(), text.clone().into_bytes())];
                        let mut dirs = dirs;
                        if case_no % 2 == 1 {
                            dirs.push("sh".to_string());
                            dirs.push("bash".to_string());
                            files.push(("sh/hello.sh".to_string(), b"echo hello\n".to_vec()));
                            files.push(("bash/x.txt".to_string(), b"x\n".to_vec()));
                        }
                        let p = Project { files, dirs, cmds: vec![(joined.clone(), acts)], sources: vec![src.clone()], sig: vec![], expect_error: fails };
                        materialize(&p, &runner.dir);
                        let _ = std::fs::remove_file(&argv_log);
                        std::env::set_var("VERIF_ARGV", &argv_log);
                        let shell_cmd = match shell {
                            "bash" => "bash -c".to_string(),
                            "wrapper" => format!("{} -c", wrapper.display()),
                            _ => String::new(),
                        };
                        let out_path = runner.dir.join(output_name(&src));
                        let verdict;
                        rep.evaluations += 1;
                        rep.sigs.insert(format!("d{depth}|{cwd_rel}|{entry}|{shell}|s{shape}"));
                        if entry == "lib" {
                            let base_dir: std::path::PathBuf = match cwd_rel {
                                "equal" => {
                                    std::env::set_current_dir(&runner.dir).unwrap();
                                    ".".into()
                                }
                                "parent" => {
                                    std::env::set_current_dir(runner.dir.parent().unwrap()).unwrap();
                                    "p".into()
                                }
                                _ => {
                                    std::env::set_current_dir("/").unwrap();
                                    runner.dir.clone()
                                }
                            };
                            if shell == "default" {
                                // model comparison needs the canonical absolute base; run through the common runner
                                let mut cfg = RunCfg::build_all();
                                cfg.threads = 2;
                                cfg.inputs = vec![src.clone()];
                                let _ = base_dir;
                                std::env::set_current_dir(match cwd_rel { "equal" => runner.dir.clone(), "parent" => runner.dir.parent().unwrap().to_path_buf(), _ => "/".into() }).unwrap();
                                let idx = runner.run_here(&cfg, &p.cmds, vec![format!("d{depth}|{cwd_rel}|s{shape}")], &format!("depth {depth} cwd {cwd_rel} shape {shape}"));
                                verdict = runner.cases[idx].imp.verdict.clone();
                                rep.evaluations -= 1; // counted by compare_all
                            } else {
                                let config = txtpp::Config {
                                    base_dir,
                                    shell_cmd: shell_cmd.clone(),
                                    inputs: vec![src.clone()],
                                    recursive: false,
                                    num_threads: 2,
                                    mode: txtpp::Mode::Build,
                                    verbosity: txtpp::Verbosity::Quiet,
                                    trailing_newline: true,
                                };
                                std::env::remove_var("TXTPP_FILE");
                                verdict = match txtpp::Txtpp::run(config) { Ok(()) => "ok".to_string(), Err(_) => "err".to_string() };
                            }
                            std::env::set_current_dir(&orig_cwd).unwrap();
                        } else {
                            if !bin.exists() {
                                rep.notes.push("CLI binary not built".into());
                                continue;
                            }
                            let mut c = Command::new(&bin);
                            c.current_dir(&runner.dir).env_remove("TXTPP_FILE").env("VERIF_ARGV", &argv_log).arg("-q");
                            // every other time the shell is given relative to the directory txtpp is started in:
                            // it must still be that file when the command runs in the (deeper) directory of the source
                            let mut shell_cli = shell_cmd.clone();
                            if shell == "wrapper" && case_no % 2 == 0 {
                                let rel = runner.dir.join("argvsh-rel");
                                let _ = std::fs::copy(&wrapper, &rel);
                                let _ = std::fs::set_permissions(&rel, std::fs::Permissions::from_mode(0o755));
                                shell_cli = "./argvsh-rel -c".to_string();
                                rep.count("cli-shell-relative-path");
                            }
                            if !shell_cli.is_empty() {
                                c.arg("-s").arg(&shell_cli);
                            }
                            c.arg(&src);
                            let o = c.output().expect("cli");
                            verdict = if o.status.success() { "ok".to_string() } else { "err".to_string() };
                        }
                        let label = format!("depth {depth}, cwd {cwd_rel}, {entry}, shell {shell}, command lines {:?}", arg_lines);
                        let mut fail = |what: String| {
                            let (before, _) = snapshot(&runner.dir);
                            let cfg = RunCfg { mode: "build", trailing: true, recursive: false, threads: 2, inputs: vec![src.clone()] };
                            rep.violation("oracle", &format!("C17: {what} [{label}]"), &replay_body(&before, &cfg, &p.cmds, &format!("# {what}\n# {label}\n")));
                        };
                        if fails {
                            if verdict == "ok" {
                                fail("a command exiting with status 3 did not fail the build".to_string());
                            }
                            continue;
                        }
                        if verdict != "ok" {
                            fail(format!("build failed (`{verdict}`)"));
                            continue;
                        }
                        let out = std::fs::read_to_string(&out_path).unwrap_or_default();
                        let body = out.strip_prefix("head\n").unwrap_or(&out).strip_suffix("tail\n").unwrap_or(&out).to_string();
                        let src_dir_abs = if sdir.is_empty() { runner.base_abs.clone() } else { format!("{}/{}", runner.base_abs, sdir) };
                        match shape {
                            0 => {
                                if body != format!("{src_dir_abs}\n") {
                                    fail(format!("`pwd -P` printed {:?}, the directory of the source is {:?}", body, src_dir_abs));
                                }
                            }
                            1 => {
                                let designated = std::path::Path::new(&runner.base_abs).join(&body);
                                let same = designated.canonicalize().ok() == runner.dir.join(&src).canonicalize().ok();
                                if !same {
                                    fail(format!("TXTPP_FILE is {:?}; relative to the base directory it does not designate the source {src}", body));
                                }
                            }
                            2 => {
                                if body != "ab" {
                                    fail(format!("stdout of the two-line command is {:?}, expected \"ab\"", body));
                                }
                            }
                            3 => {
                                if body != "x|two  spaces|z|" {
                                    fail(format!("argument lines are not joined by single spaces: output {:?}", body));
                                }
                            }
                            _ => {
                                if !body.starts_with(&format!("{src_dir_abs}\n")) {
                                    fail(format!("`pwd -P` printed {:?}, expected {:?}", body, src_dir_abs));
                                }
                            }
                        }
                        if shell == "wrapper" {
                            let log = std::fs::read_to_string(&argv_log).unwrap_or_default();
                            let want = format!("argc=2\n[-c]\n[{joined}]\n");
                            if log != want {
                                fail(format!("the shell received {:?}, expected exactly one argument after -c: {:?}", log, want));
                            }
                            // ... and what the Lean model of Shell::new / Shell::run says for this shell setting and command
                            argv_cases.push((shell_cmd.clone(), joined.clone(), log));
                        }
                    }
                }
            }
        }
    }
    // the argument vectors the wrapper shell logged vs the Lean model of Shell::new / Shell::run (Model/Shell.lean)
    {
        let reqs: Vec<String> = argv_cases.iter().map(|(sh, cmd, _)| format!("shell {} {}", hexs(sh), hexs(cmd))).collect();
        for ((sh, cmd, log), resp) in argv_cases.iter().zip(model.batch(&reqs).iter()) {
            rep.count("argv-vs-lean-shell-model");
            let args: Vec<String> = resp.trim().split(',').filter_map(|h| unhex(h).map(|b| String::from_utf8_lossy(&b).to_string())).collect();
            let want = format!("argc={}\n{}", args.len(), args.iter().map(|a| format!("[{a}]\n")).collect::<String>());
            if *log != want {
                rep.violation("divergence", &format!("C17: shell setting {:?}, command {:?}: the child received {:?}, the Lean model of Shell::new/run gives {:?}", sh, cmd, log, want), &format!("# shell {sh:?} command {cmd:?}\ncfg: build true false 1\n"));
            }
        }
    }
    // a source OUTSIDE the base directory whose absolute path merely starts with the text of the base path
    // (`<base>-docs/...`): TXTPP_FILE must still designate it (it is the absolute path then)
    if args.shard == 0 {
        let base = runner.dir.clone();
        let sib = std::path::PathBuf::from(format!("{}-docs", base.display()));
        let _ = std::fs::remove_dir_all(&sib);
        std::fs::create_dir_all(&sib).unwrap();
        let _ = std::fs::remove_dir_all(&base);
        std::fs::create_dir_all(&base).unwrap();
        let text = "head\n// TXTPP#run printf %s \"$TXTPP_FILE\"\ntail\n";
        let rel_input = format!("../{}/g.txt.txtpp", sib.file_name().unwrap().to_string_lossy());
        for entry in ["lib", "cli"] {
            std::fs::write(sib.join("g.txt.txtpp"), text).unwrap();
            let _ = std::fs::remove_file(sib.join("g.txt"));
            let ok = if entry == "lib" {
                std::env::set_current_dir(&base).unwrap();
                let config = txtpp::Config { base_dir: ".".into(), shell_cmd: String::new(), inputs: vec![rel_input.clone()], recursive: false, num_threads: 2, mode: txtpp::Mode::Build, verbosity: txtpp::Verbosity::Quiet, trailing_newline: true };
                std::env::remove_var("TXTPP_FILE");
                let r = txtpp::Txtpp::run(config).is_ok();
                std::env::set_current_dir(&orig_cwd).unwrap();
                r
            } else if bin.exists() {
                Command::new(&bin).current_dir(&base).env_remove("TXTPP_FILE").arg("-q").arg(&rel_input).output().map(|o| o.status.success()).unwrap_or(false)
            } else {
                continue;
            };
            rep.evaluations += 1;
            rep.sigs.insert(format!("outside-base-textual-prefix|{entry}"));
            let out = std::fs::read_to_string(sib.join("g.txt")).unwrap_or_default();
            let body = out.strip_prefix("head\n").unwrap_or(&out).strip_suffix("tail\n").unwrap_or(&out).to_string();
            let designated = base.join(&body);
            let same = designated.canonicalize().ok() == sib.join("g.txt.txtpp").canonicalize().ok();
            if !ok || !same {
                rep.violation(
                    "oracle",
                    &format!("C17: source `{rel_input}` outside the base directory {:?} ({entry}): run ok={ok}, TXTPP_FILE = {:?} - joined to the base directory it does not designate the source", base, body),
                    &format!("# base {:?}, input {rel_input}, source text {:?}\ncfg: build true false 2\n", base, text),
                );
            }
        }
        let _ = std::fs::remove_dir_all(&sib);
    }
    // the same command text in sibling files / twice in one file: every execution is a real execution
    if args.shard == 0 {
        for depth in 0..3 {
            let sdir = depths[depth];
            let pre = if sdir.is_empty() { String::new() } else { format!("{sdir}/") };
            let mut dirs: Vec<String> = vec![];
            let mut acc = String::new();
            for part in sdir.split('/').filter(|x| !x.is_empty()) {
                acc = if acc.is_empty() { part.to_string() } else { format!("{acc}/{part}") };
                dirs.push(acc.clone());
            }
            let fa = format!("{pre}a.txt.txtpp");
            let fb = format!("{pre}b.txt.txtpp");
            let fc = format!("{pre}c.txt.txtpp");
            let cmd = "printf %s \"$TXTPP_FILE\"";
            let files = vec![
                (fa.clone(), format!("// TXTPP#run {cmd}\n~\n").into_bytes()),
                (fb.clone(), format!("TXTPP#after a.txt\n// TXTPP#run {cmd}\n~\n").into_bytes()),
                (fc.clone(), b"// TXTPP#temp tc_0.tmp\n// one\n# TXTPP#run cat tc_0.tmp\n~\n// TXTPP#temp tc_0.tmp\n// two\n# TXTPP#run cat tc_0.tmp\n~\n".to_vec()),
            ];
            let p = Project {
                files,
                dirs,
                cmds: vec![(cmd.to_string(), vec![Act { kind: "file", arg: String::new() }]), ("cat tc_0.tmp".to_string(), vec![Act { kind: "cat", arg: "tc_0.tmp".into() }])],
                sources: vec![fa.clone(), fb.clone(), fc.clone()],
                sig: vec![],
                expect_error: false,
            };
            for threads in [1usize, 4] {
                materialize(&p, &runner.dir);
                let mut cfg = RunCfg::build_all();
                cfg.threads = threads;
                let idx = runner.run_here(&cfg, &p.cmds, vec![format!("same-command|d{depth}|j{threads}")], &format!("same command text in sibling files, depth {depth}"));
                let c = &runner.cases[idx];
                let get = |n: &str| c.imp.after.files.get(&output_name(n)).map(|b| String::from_utf8_lossy(b).to_string()).unwrap_or_default();
                let (oa, ob, oc) = (get(&fa), get(&fb), get(&fc));
                if c.imp.verdict != "ok" || !oa.starts_with(&fa) || !ob.starts_with(&fb) || oc != "one~\ntwo~\n" {
                    let what = format!("C17: each run command must really be executed with TXTPP_FILE of its own source: a -> {:?}, b -> {:?}, c (cat of a temp file rewritten in between) -> {:?}, verdict {}", oa, ob, oc, c.imp.verdict);
                    rep.violation("oracle", &what, &replay_body(&c.before, &c.cfg, &c.cmds, &format!("# {what}\n")));
                }
            }
        }
    }
    // a source that is reached only as the dependency of an includer in a sub-directory (the includer is the only input):
    // its commands still see TXTPP_FILE relative to the base directory; and a command whose output is far larger than
    // a pipe read (40 KB of two-byte characters) arrives unchanged
    if args.shard == 0 {
        let cmd = "printf %s \"$TXTPP_FILE\"";
        let payload = format!("x{}\n", "é".repeat(20000));
        let files = vec![
            ("gen/a.txt.txtpp".to_string(), format!("TXTPP#include sub/dep.txt\n// TXTPP#run {cmd}\n~\n").into_bytes()),
            ("gen/sub/dep.txt.txtpp".to_string(), format!("// TXTPP#run {cmd}\n~\n").into_bytes()),
            ("gen/big.txt.txtpp".to_string(), b"before\n# TXTPP#run cat payload.txt\nafter\n".to_vec()),
            ("gen/payload.txt".to_string(), payload.clone().into_bytes()),
        ];
        let p = Project {
            files,
            dirs: vec!["gen".into(), "gen/sub".into()],
            cmds: vec![(cmd.to_string(), vec![Act { kind: "file", arg: String::new() }]), ("cat payload.txt".to_string(), vec![Act { kind: "cat", arg: "payload.txt".into() }])],
            sources: vec!["gen/a.txt.txtpp".into(), "gen/sub/dep.txt.txtpp".into(), "gen/big.txt.txtpp".into()],
            sig: vec![],
            expect_error: false,
        };
        for inputs in [vec!["gen/a.txt".to_string(), "gen/big.txt".to_string()], vec!["gen/big.txt.txtpp".to_string(), "gen/a.txt.txtpp".to_string()]] {
            materialize(&p, &runner.dir);
            let mut cfg = RunCfg::build_all();
            cfg.threads = 2;
            cfg.recursive = false;
            cfg.inputs = inputs.clone();
            let idx = runner.run_here(&cfg, &p.cmds, vec!["dependency-in-subdirectory+large-output".to_string()], "dependency reached from an includer in a sub-directory; 40 KB command output");
            let c = &runner.cases[idx];
            let get = |n: &str| c.imp.after.files.get(n).map(|b| String::from_utf8_lossy(b).to_string()).unwrap_or_default();
            let (dep, a, big) = (get("gen/sub/dep.txt"), get("gen/a.txt"), get("gen/big.txt"));
            if c.imp.verdict != "ok" || !dep.starts_with("gen/sub/dep.txt.txtpp") || !a.contains("gen/a.txt.txtpp") || big != format!("before\n{payload}after\n") {
                let what = format!("C17: inputs {:?}: verdict {}, TXTPP_FILE seen by the dependency gen/sub/dep.txt.txtpp = {:?}, by the includer = {:?}; the 40 KB command output arrived {}", inputs, c.imp.verdict, dep.lines().next().unwrap_or(""), a.lines().last().unwrap_or(""), if big == format!("before\n{payload}after\n") { "unchanged" } else { "CHANGED" });
                rep.violation("oracle", &what, &replay_body(&c.before, &c.cfg, &c.cmds, &format!("# {what}\n")));
            }
        }
    }
    // a shell given by bare name and found through a *relative* PATH entry (`PATH=tools:$PATH`, `-s "tracesh -c"`): it is
    // resolved once, against the process cwd - sources in sub-directories run their commands with it as well
    if bin.exists() && args.shard == 0 {
        let root = work.join("relpath");
        let _ = std::fs::remove_dir_all(&root);
        std::fs::create_dir_all(root.join("tools")).unwrap();
        std::fs::create_dir_all(root.join("docs/api")).unwrap();
        std::fs::write(root.join("tools/tracesh"), "#!/bin/sh\nexec sh \"$@\"\n").unwrap();
        std::fs::set_permissions(root.join("tools/tracesh"), std::fs::Permissions::from_mode(0o755)).unwrap();
        std::fs::write(root.join("top.txt.txtpp"), "a\n// TXTPP#run echo top\nz\n").unwrap();
        std::fs::write(root.join("docs/api/deep.txt.txtpp"), "a\n// TXTPP#run echo deep\nz\n").unwrap();
        let path = format!("tools:{}", std::env::var("PATH").unwrap_or_default());
        let o = Command::new(&bin).current_dir(&root).env_remove("TXTPP_FILE").env("PATH", &path).args(["-q", "-r", "-s", "tracesh -c", "."]).output();
        rep.count("shell-through-a-relative-PATH-entry");
        let ok = o.as_ref().map(|x| x.status.success()).unwrap_or(false);
        let deep = std::fs::read_to_string(root.join("docs/api/deep.txt")).unwrap_or_default();
        let top = std::fs::read_to_string(root.join("top.txt")).unwrap_or_default();
        if !ok || deep != "a\ndeep\nz\n" || top != "a\ntop\nz\n" {
            let what = format!("C17: `PATH=tools:$PATH txtpp -q -r -s \"tracesh -c\" .`: exit ok={ok}, top.txt = {:?}, docs/api/deep.txt = {:?} - the shell found through a relative PATH entry must also run the commands of sources in sub-directories", top, deep);
            rep.violation("oracle", &what, &format!("# {what}\n"));
        }
        let _ = std::fs::remove_dir_all(&root);
    }
    // directory names the display string of a path cannot carry faithfully: invalid UTF-8, blanks, quotes, non-ASCII
    if bin.exists() && args.shard == 0 {
        use std::os::unix::ffi::OsStrExt;
        let names: Vec<Vec<u8>> = vec![b"caf\xe9".to_vec(), b"dir with  space".to_vec(), "日本語".as_bytes().to_vec(), b"q'uo\"te".to_vec(), b"a\\b".to_vec(), b"\xff\xfe".to_vec()];
        for (ni, name) in names.iter().enumerate() {
            for nested in [false, true] {
                let root = work.join(format!("odd{ni}{}", nested as u8));
                let _ = std::fs::remove_dir_all(&root);
                let mut d = root.join(std::ffi::OsStr::from_bytes(name));
                if nested {
                    d = d.join("inner");
                }
                std::fs::create_dir_all(&d).unwrap();
                std::fs::write(d.join("items.txt"), b"one\n").unwrap();
                std::fs::write(d.join("m.txt.txtpp"), b"top\n// TXTPP#run cat items.txt; pwd -P | wc -l\nend\n").unwrap();
                // base directory = the odd directory's parent (the source is named through the odd component), or the directory itself
                for from_inside in [false, true] {
                    // inputs are `String`s by type (library and CLI): a name that is not UTF-8 can only be reached from inside
                    if !from_inside && std::str::from_utf8(name).is_err() {
                        continue;
                    }
                    let _ = std::fs::remove_file(d.join("m.txt"));
                    let mut c = Command::new(&bin);
                    c.env_remove("TXTPP_FILE").arg("-q");
                    if from_inside {
                        c.current_dir(&d).arg("m.txt.txtpp");
                    } else {
                        c.current_dir(&root);
                        let mut rel = std::path::PathBuf::from(std::ffi::OsStr::from_bytes(name));
                        if nested {
                            rel = rel.join("inner");
                        }
                        c.arg(rel.join("m.txt.txtpp"));
                    }
                    let o = c.output().expect("cli");
                    rep.evaluations += 1;
                    rep.sigs.insert(format!("odd-dir|{ni}|{nested}|{from_inside}"));
                    let out = std::fs::read(d.join("m.txt")).unwrap_or_default();
                    if !o.status.success() || out != b"top\none\n1\nend\n" {
                        rep.violation(
                            "oracle",
                            &format!(
                                "C17: a source in the directory {:?} (nested={nested}, invoked from inside={from_inside}) running `cat items.txt` (a file next to the source): exit success={}, output {:?}, expected \"top\\none\\n1\\nend\\n\" - the command must run in the source's directory",
                                String::from_utf8_lossy(name), o.status.success(), String::from_utf8_lossy(&out)
                            ),
                            &format!("# directory name bytes {:?}; file m.txt.txtpp = \"top\\n// TXTPP#run cat items.txt; pwd -P | wc -l\\nend\\n\", items.txt = \"one\\n\"; run: (cd <dir> && txtpp -q m.txt.txtpp)\ncfg: build true false 1\n", name),
                        );
                    }
                }
                let _ = std::fs::remove_dir_all(&root);
            }
        }
    }
    // the CLI guard
    if bin.exists() && args.shard == 0 {
        let p = Project { files: vec![("g.txt.txtpp".into(), b"x\n".to_vec())], dirs: vec![], cmds: vec![], sources: vec!["g.txt.txtpp".into()], sig: vec![], expect_error: false };
        for (val, want_ok) in [(Some("foo.txtpp"), false), (Some(""), true), (None, true), (Some(" "), false)] {
            materialize(&p, &runner.dir);
            let mut c = Command::new(&bin);
            c.current_dir(&runner.dir).arg("-q").arg("g.txt.txtpp");
            match val {
                Some(v) => { c.env("TXTPP_FILE", v); }
                None => { c.env_remove("TXTPP_FILE"); }
            }
            let o = c.output().expect("cli");
            rep.evaluations += 1;
            rep.sigs.insert(format!("guard|{:?}", val));
            let produced = runner.dir.join("g.txt").exists();
            if o.status.success() != want_ok || produced != want_ok {
                rep.violation("oracle", &format!("C17: CLI with TXTPP_FILE={:?}: exit success={}, output produced={}, expected both {}", val, o.status.success(), produced, want_ok), "cfg: build true false 1 672e7478742e7478747070\nfile: 672e7478742e7478747070 780a\n");
            }
        }
    }
    // the guard of `main` vs its Lean model (Model/Cli.lean `entry`, theorem C17.refuses_to_start_iff_txtpp_file_set):
    // values of TXTPP_FILE x command lines {build, -N, verify, clean}; and commands that start txtpp themselves
    // (theorem C17.commands_cannot_recurse) at depth 0..2
    if bin.exists() && args.shard == 0 {
        use std::os::unix::ffi::OsStrExt;
        let mut vals: Vec<Option<Vec<u8>>> = vec![None, Some(vec![]), Some(b" ".to_vec()), Some(b"\t".to_vec()), Some(b"0".to_vec()), Some(b"\n".to_vec()),
            Some(b"g.txt.txtpp".to_vec()), Some(b"sub/dir/a.txtpp".to_vec()), Some("\u{e9}\u{4e16}".as_bytes().to_vec()), Some(vec![0xff]), Some(vec![b'a', 0xc3]),
            Some(vec![b'x'; 5000])];
        let mut rng = Rng::new(args.seed ^ 0x9a4d);
        for _ in 0..(if args.thorough() { 40 } else { 8 }) {
            let n = rng.below(6);
            vals.push(Some((0..n).map(|_| *rng.pick(&[b' ', b'a', b'.', b'/', 0xc3, 0xa9, b'\\', b'"', b'$', 0x80])).collect()));
        }
        let reqs: Vec<String> = vals.iter().map(|v| match v {
            None => "guard unset".to_string(),
            Some(b) => match std::str::from_utf8(b) { Ok(_) => format!("guard {}", hex(b)), Err(_) => "guard notunicode".to_string() },
        }).collect();
        let answers = model.batch(&reqs);
        let d = runner.dir.join("guard");
        for (val, ans) in vals.iter().zip(answers.iter()) {
            let want_start = match ans.trim() { "start" => true, "refuse" => false, other => { rep.violation("divergence", &format!("C17: guard request answered {:?}", other), "cfg: build true false 1\n"); continue; } };
            for variant in 0..4 {
                let _ = std::fs::remove_dir_all(&d);
                std::fs::create_dir_all(&d).unwrap();
                std::fs::write(d.join("g.txt.txtpp"), b"x\n").unwrap();
                let mut c = Command::new(&bin);
                c.current_dir(&d);
                match variant {
                    0 => { c.args(["-q", "g.txt.txtpp"]); }
                    1 => { c.args(["-N", "-q", "g.txt.txtpp"]); }
                    2 => { std::fs::write(d.join("g.txt"), b"x\n").unwrap(); c.args(["verify", "-q", "g.txt.txtpp"]); }
                    _ => { std::fs::write(d.join("g.txt"), b"x\n").unwrap(); c.args(["clean", "-q", "g.txt.txtpp"]); }
                }
                match val {
                    Some(v) => { c.env("TXTPP_FILE", std::ffi::OsStr::from_bytes(v)); }
                    None => { c.env_remove("TXTPP_FILE"); }
                }
                // a NUL byte cannot be put into the environment; the generator has none
                let o = c.output().expect("cli");
                rep.evaluations += 1;
                rep.count("guard-vs-lean-entry-model");
                rep.sigs.insert(format!("guardm|{}|{variant}", ans.trim()));
                let out_exists = d.join("g.txt").exists();
                // what a started run does: build / needed create the output, verify succeeds leaving it, clean removes it
                let started = match variant { 0 | 1 => o.status.success() && out_exists, 2 => o.status.success() && out_exists, _ => o.status.success() && !out_exists };
                let refused = !o.status.success() && (out_exists == (variant >= 2));
                if (want_start && !started) || (!want_start && !refused) {
                    rep.violation("divergence", &format!("C17: txtpp started with TXTPP_FILE={:?} (command line variant {variant}: 0 build, 1 -N, 2 verify, 3 clean): exit success={}, g.txt exists afterwards={}; the Lean model of main's guard says {:?} - the binary must refuse to start exactly when TXTPP_FILE is set to a non-empty text, and otherwise run normally", val.as_ref().map(|b| String::from_utf8_lossy(&b[..b.len().min(40)]).to_string()), o.status.success(), out_exists, ans.trim()),
                        &format!("# TXTPP_FILE bytes (hex) {:?}; variant {variant}; file g.txt.txtpp = \"x\\n\"\ncfg: build true false 1\n", val.as_ref().map(|b| hex(&b[..b.len().min(64)]))));
                }
            }
        }
        // a command that starts txtpp again (on another source next to it) must fail, and fail the outer build
        for depth in 0..3usize {
            for (vi, inner_args) in ["-q inner.txt.txtpp", "clean -q inner.txt.txtpp", "verify -q inner.txt.txtpp", "-q -N ."].iter().enumerate() {
                let _ = std::fs::remove_dir_all(&d);
                let mut sd = d.clone();
                for k in 0..depth { sd = sd.join(format!("d{k}")); }
                std::fs::create_dir_all(&sd).unwrap();
                std::fs::write(sd.join("inner.txt.txtpp"), b"inner\n").unwrap();
                // build variants would rewrite a stale output, verify would accept an up-to-date one, clean would remove it
                let pre: &[u8] = if vi == 0 || vi == 3 { b"stale\n" } else { b"inner\n" };
                std::fs::write(sd.join("inner.txt"), pre).unwrap();
                std::fs::write(sd.join("outer.txt.txtpp"), format!("a\nTXTPP#run '{}' {inner_args} 2>/dev/null\nb\n", bin.display())).unwrap();
                let o = Command::new(&bin).current_dir(&d).env_remove("TXTPP_FILE").arg("-q").arg(sd.strip_prefix(&d).unwrap().join("outer.txt.txtpp")).output().expect("cli");
                rep.evaluations += 1;
                rep.count("recursion-refused");
                rep.sigs.insert(format!("recurse|{depth}|{vi}"));
                // (a failing build may leave a partial outer.txt behind: that is not part of this property)
                let inner_left = std::fs::read(sd.join("inner.txt")).map(|b| b == pre).unwrap_or(false);
                if o.status.success() || !inner_left {
                    rep.violation("oracle", &format!("C17: a run command that starts `txtpp {inner_args}` itself (source at depth {depth}): outer exit success={}, inner.txt left as it was={} - the inner txtpp must refuse to start (TXTPP_FILE is set), which fails the command and so the outer build", o.status.success(), inner_left),
                        &format!("# depth {depth}; outer.txt.txtpp = \"a\\nTXTPP#run '<txtpp binary>' {inner_args} 2>/dev/null\\nb\\n\", inner.txt.txtpp = \"inner\\n\", inner.txt = {:?}; run: txtpp -q <dir>/outer.txt.txtpp from the base directory\ncfg: build true true 1\n", String::from_utf8_lossy(pre)));
                }
            }
        }
        let _ = std::fs::remove_dir_all(&d);
    }
    std::env::set_current_dir(&orig_cwd).unwrap();
    rep.sample("depth 2, cwd unrelated, lib, wrapper shell, lines [\"printf '%s|'  x\", \"  \\\"two  spaces\\\"\", \"\", \"z\"] => shell argv [-c][printf '%s|'  x   \"two  spaces\"  z]".to_string());
    compare_all(&mut rep, &runner, &model, "C17", "C17.cmd_join_and_status, txtpp_file_designates, cwd_is_source_dir");
    runner.cleanup();
    rep
}

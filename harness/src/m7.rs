//! C04 fault dimension: real OS-level faults (no injection hook) x position of the faulty file x modes,
//! library in process and CLI binary; verdict compared with the model where the model can express the fault.
use crate::gen::*;
use crate::m5::*;
use crate::proj::*;
use crate::util::*;
use std::process::Command;

const KINDS: [&str; 15] = [
    "bad-directive", "cmd-fails", "cmd-killed", "cmd-killed-term", "missing-include", "include-dir", "include-invalid-utf8", "source-invalid-utf8",
    "output-is-dir", "temp-missing-dir", "temp-is-dir", "tag-unused", "dev-full", "fsize-limit", "fsize-limit-temp",
];

/// chain root -> middle -> leaf, plus an unrelated sibling; `pos` selects the faulty file
fn chain_project(kind: &str, pos: usize, big: bool) -> Project {
    let names = ["root.txt.txtpp", "sub/middle.txt.txtpp", "sub/leaf.txtpp.txt", "sibling.txt.txtpp"];
    let filler = if big { "0123456789abcdef".repeat(80) } else { "x".to_string() };
    let mut files: Vec<(String, Vec<u8>)> = vec![];
    let mut cmds = vec![];
    for (i, n) in names.iter().enumerate() {
        let mut s = format!("begin {i}\n{filler}\n");
        match i {
            0 => s.push_str("TXTPP#include sub/middle.txt\n"),
            1 => s.push_str("TXTPP#include leaf.txt\n"),
            _ => {}
        }
        if i == pos {
            match kind {
                "bad-directive" => s.push_str("TXTPP#run echo no prefix\n"),
                // small outputs, but a temp file whose body exceeds the file-size limit: the short write must be an error
                "fsize-limit-temp" => {
                    s.push_str("-TXTPP#temp big_temp.tmp\n");
                    for _ in 0..6 {
                        s.push_str(&format!("-{}\n", "0123456789abcdef".repeat(40)));
                    }
                    s.push_str("~\n");
                }
                "cmd-fails" => {
                    s.push_str("-TXTPP#run exit 3\n");
                    cmds.push(("exit 3".to_string(), vec![Act { kind: "fail", arg: String::new() }]));
                }
                "cmd-killed" => {
                    // the shell dies from a signal after producing some output: no exit code at all
                    s.push_str("-TXTPP#run echo partial; kill -KILL $$\n");
                    cmds.push(("echo partial; kill -KILL $$".to_string(), vec![Act { kind: "lit", arg: "partial\n".into() }, Act { kind: "fail", arg: String::new() }]));
                }
                "cmd-killed-term" => {
                    s.push_str("-TXTPP#run kill -TERM $$; echo never\n");
                    cmds.push(("kill -TERM $$; echo never".to_string(), vec![Act { kind: "fail", arg: String::new() }]));
                }
                "missing-include" => s.push_str("-TXTPP#include nothing-here.txt\n"),
                "include-dir" => s.push_str("-TXTPP#include ../sub\n".replace("../sub", if i >= 1 && i <= 2 { "../sub" } else { "sub" }).as_str()),
                "include-invalid-utf8" => s.push_str(if i >= 1 && i <= 2 { "-TXTPP#include ../bad.bin\n" } else { "-TXTPP#include bad.bin\n" }),
                "temp-missing-dir" => s.push_str("-TXTPP#temp no/such/dir/t.tmp\n-body\n"),
                "temp-is-dir" => s.push_str(if i >= 1 && i <= 2 { "-TXTPP#temp ../sub\n-body\n" } else { "-TXTPP#temp sub\n-body\n" }),
                "tag-unused" => s.push_str("-TXTPP#tag NEVERUSED\n-TXTPP#write v\n"),
                _ => {}
            }
        }
        s.push_str(&format!("end {i}\n"));
        let mut bytes = s.into_bytes();
        if i == pos && kind == "source-invalid-utf8" {
            bytes.extend_from_slice(b"bad \xff\xfe line\n");
        }
        files.push((n.to_string(), bytes));
    }
    files.push(("bad.bin".to_string(), b"ok\n\xc3\x28 broken\n".to_vec()));
    Project { files, dirs: vec!["sub".to_string()], cmds, sources: names.iter().map(|s| s.to_string()).collect(), sig: vec![], expect_error: true }
}

fn out_of(pos: usize) -> &'static str {
    ["root.txt", "sub/middle.txt", "sub/leaf.txt", "sibling.txt"][pos]
}

pub fn run_c04f(args: &Args) -> Report {
    let mut rep = Report::new("C04", "M7-faults", &args.replay_dir);
    let model = Model::new(&args.model, &args.work);
    let mut rng = Rng::new(args.seed.wrapping_add(0xC04).wrapping_add((args.shard as u64).wrapping_mul(7919)));
    rep.rule = format!("fault kinds {:?} x position of the faulty file (root / middle / leaf of an include chain / unrelated sibling) x modes build, needed, verify (clean separately: it must ignore directive faults) x thread counts {{1,2,8}}; real OS faults: output path occupied by a directory, output path a symlink to /dev/full (ENOSPC at flush), RLIMIT_FSIZE via `ulimit -f` with SIGXFSZ ignored (EFBIG after N bytes; N swept over the chunk boundaries of the outputs), temp target in a missing directory / on a directory, includes of a directory and of invalid UTF-8, invalid UTF-8 in a source; library verdict and CLI exit status. Oracle: fault reached => Err / exit != 0; never `ok` with an incomplete output. Cases the model can express are also compared with it.", KINDS);
    let mut runner = Runner::new(args, "c04f");
    let bin = args.bin.clone().unwrap_or_default();
    let mut idx_kind: Vec<(usize, String, usize, &'static str)> = vec![];
    let mut case_no = 0usize;
    for kind in KINDS {
        for pos in 0..4 {
            for mode in ["build", "needed", "verify", "clean"] {
                case_no += 1;
                if case_no % args.shards.max(1) != args.shard {
                    continue;
                }
                let special = kind == "dev-full" || kind.starts_with("fsize-limit");
                if special && mode != "build" {
                    continue;
                }
                let p = chain_project(kind, pos, kind == "fsize-limit");
                materialize(&p, &runner.dir);
                let mut cfg = RunCfg::build_all();
                cfg.threads = *rng.pick(&[1usize, 2, 8]);
                // the same directory named more than once / through an alias
                let input_variant = rng.below(4);
                // for verify / needed / clean start from a correct build of the fault-free project
                if mode != "build" {
                    let clean_p = chain_project("none", pos, false);
                    materialize(&clean_p, &runner.dir);
                    let b = run_impl(&runner.dir, &cfg, &runner.log);
                    if b.verdict != "ok" {
                        rep.notes.push(format!("setup build failed for {kind}/{pos}/{mode}"));
                        continue;
                    }
                    // now put the faulty sources in place
                    for (f, c) in &p.files {
                        std::fs::write(runner.dir.join(f), c).unwrap();
                    }
                }
                match kind {
                    "output-is-dir" => {
                        let o = runner.dir.join(out_of(pos));
                        let _ = std::fs::remove_file(&o);
                        std::fs::create_dir_all(&o).unwrap();
                    }
                    "dev-full" => {
                        let o = runner.dir.join(out_of(pos));
                        let _ = std::fs::remove_file(&o);
                        std::os::unix::fs::symlink("/dev/full", &o).unwrap();
                    }
                    _ => {}
                }
                cfg.mode = mode;
                cfg.inputs = match input_variant {
                    1 => vec![".".to_string(), ".".to_string()],
                    2 => vec![".".to_string(), "sub/..".to_string(), "sub".to_string()],
                    // only the root of the include chain is requested: a fault in the middle or the leaf is reached as a
                    // dependency only (also in verify / needed over an already built tree)
                    3 if (pos == 1 || pos == 2) && mode != "clean" => vec!["root.txt.txtpp".to_string()],
                    _ => vec![".".to_string()],
                };
                let reached = match (kind, mode) {
                    (_, "clean") => matches!(kind, "source-invalid-utf8" | "output-is-dir"),
                    ("output-is-dir", _) | ("dev-full", _) => true,
                    // the sibling is only processed because the whole directory is requested
                    _ => true,
                };
                if special {
                    // CLI in a child process
                    let limit_blocks = if kind == "fsize-limit" { 1 + rng.below(3) } else if kind == "fsize-limit-temp" { 2 } else { 0 };
                    let script = if kind.starts_with("fsize-limit") {
                        format!("trap '' XFSZ; ulimit -f {limit_blocks}; exec {} -q -r -j {} .", bin.display(), cfg.threads)
                    } else {
                        format!("exec {} -q -r -j {} .", bin.display(), cfg.threads)
                    };
                    if !bin.exists() {
                        rep.notes.push("CLI binary not built".to_string());
                        continue;
                    }
                    let st = Command::new("sh").arg("-c").arg(&script).current_dir(&runner.dir).env_remove("TXTPP_FILE").output();
                    rep.evaluations += 1;
                    rep.count(&format!("fault:{kind}"));
                    let code = st.as_ref().ok().and_then(|o| o.status.code());
                    // with the limit every output of the chain exceeds it (1280+ bytes each), /dev/full fails at flush
                    if code == Some(0) {
                        let what = format!("C04: CLI exits 0 although writing the output of {} must fail ({kind}, limit {} bytes, position {pos})", out_of(pos), limit_blocks * 512);
                        let (before, _) = snapshot(&runner.dir);
                        rep.violation("oracle", &what, &replay_body(&before, &cfg, &p.cmds, &format!("# {what}\n# script: {script}\n")));
                    }
                    rep.sigs.insert(format!("{kind}|{pos}|{mode}"));
                    if kind == "dev-full" {
                        let _ = std::fs::remove_file(runner.dir.join(out_of(pos)));
                    }
                    continue;
                }
                if cfg.inputs.len() == 1 && cfg.inputs[0] == "root.txt.txtpp" {
                    rep.count(&format!("fault-reached-only-as-a-dependency:{mode}"));
                }
                let i = runner.run_here(&cfg, &p.cmds, vec![format!("{kind}|{pos}|{mode}")], &format!("fault {kind} at position {pos} in mode {mode}"));
                idx_kind.push((i, kind.to_string(), pos, mode));
                let c = &runner.cases[i];
                rep.count(&format!("fault:{kind}"));
                if reached && c.imp.verdict == "ok" {
                    let what = format!("C04: the run reports success although file {} has fault `{kind}` (mode {mode}, {} threads)", p.sources[pos], cfg.threads);
                    rep.violation("oracle", &what, &replay_body(&c.before, &c.cfg, &c.cmds, &format!("# {what}\n")));
                }
                if !reached && c.imp.verdict != "ok" {
                    rep.count("clean-fails-on-directive-fault");
                }
                // CLI exit status on a sample
                if rng.chance(1, 2) && !bin.as_os_str().is_empty() {
                    write_tree(&c.before, &runner.dir);
                    let mut cmd = Command::new(&bin);
                    cmd.current_dir(&runner.dir).env_remove("TXTPP_FILE").arg("-q");
                    match mode {
                        "needed" => { cmd.arg("-N"); }
                        "verify" => { cmd.arg("verify").arg("-q"); }
                        "clean" => { cmd.arg("clean").arg("-q"); }
                        _ => {}
                    }
                    cmd.arg("-r").arg("-j").arg(cfg.threads.to_string());
                    // the whole tree as one input, or every source named on its own (the faulty one somewhere in the list)
                    let split_inputs = rng.chance(1, 2);
                    let root_only = cfg.inputs.len() == 1 && cfg.inputs[0] == "root.txt.txtpp";
                    if root_only {
                        cmd.arg("root.txt.txtpp");
                    } else if split_inputs {
                        let mut names: Vec<String> = p.sources.clone();
                        if rng.chance(1, 2) {
                            names.reverse();
                        }
                        cmd.args(&names);
                    } else {
                        cmd.arg(".");
                    }
                    let o = cmd.output();
                    let Ok(o) = o else {
                        rep.notes.push("CLI binary could not be started".to_string());
                        continue;
                    };
                    let code = o.status.code();
                    rep.count("cli-exit-status-checked");
                    let lib_ok = runner.cases[i].imp.verdict == "ok";
                    if (code == Some(0)) != lib_ok {
                        let what = format!("C04: CLI exit status {:?} disagrees with the library verdict `{}` ({kind}/{pos}/{mode}, sources named one by one: {split_inputs})", code, runner.cases[i].imp.verdict);
                        let c = &runner.cases[i];
                        rep.violation("oracle", &what, &replay_body(&c.before, &c.cfg, &c.cmds, &format!("# {what}\n")));
                    }
                }
            }
        }
    }
    // an up-to-date output with something appended must fail verification, whatever the length of the fresh output: empty,
    // exactly one or two reader buffers (8192, 16384), one byte less, larger than the buffer
    if args.shard == 0 {
        for size in [0usize, 1, 8191, 8192, 8193, 16384, 20000] {
            let mut src = Vec::new();
            let mut left = size;
            while left > 0 {
                let line = left.min(8192);
                src.extend(std::iter::repeat(b'a').take(line - 1));
                src.push(b'\n');
                left -= line;
            }
            let p = Project { files: vec![("sized.txt.txtpp".into(), src)], dirs: vec![], cmds: vec![], sources: vec!["sized.txt.txtpp".into()], sig: vec![], expect_error: false };
            materialize(&p, &runner.dir);
            let mut cfg = RunCfg::build_all();
            cfg.threads = 1;
            let b = runner.run_here(&cfg, &p.cmds, vec![format!("verify-tail|{size}|build")], &format!("output of {size} bytes: build"));
            let built = runner.cases[b].imp.after.files.get("sized.txt").cloned();
            if runner.cases[b].imp.verdict != "ok" || built.as_ref().map(|x| x.len()) != Some(size) {
                rep.notes.push(format!("verify-tail setup: build of a {size}-byte output gave {} / {:?} bytes", runner.cases[b].imp.verdict, built.map(|x| x.len())));
                continue;
            }
            for tail in [&b"appended line\n"[..], &b"x"[..], &[0u8; 8192][..]] {
                let mut t = built.clone().unwrap();
                t.extend_from_slice(tail);
                std::fs::write(runner.dir.join("sized.txt"), &t).unwrap();
                let mut vcfg = cfg.clone();
                vcfg.mode = "verify";
                let v = runner.run_here(&vcfg, &p.cmds, vec![format!("verify-tail|{size}|{}", tail.len())], &format!("output of {size} bytes + {} appended: verify", tail.len()));
                rep.count("fault:verify-appended-tail");
                if runner.cases[v].imp.verdict == "ok" {
                    let c = &runner.cases[v];
                    let what = format!("C04: verify reports success although {} byte(s) were appended to the up-to-date output of {size} bytes", tail.len());
                    rep.violation("oracle", &what, &replay_body(&c.before, &c.cfg, &c.cmds, &format!("# {what}\n")));
                }
            }
        }
    }
    rep.sample(format!("fault kinds {:?}; e.g. chain root->middle->leaf + sibling, fault `cmd-fails` in the leaf, mode verify => Err", KINDS));
    compare_all(&mut rep, &runner, &model, "C04", "C04.err_delivered_fails, C04.fails_required_fails, C04.failing_never_finished");
    runner.cleanup();
    rep
}

//! The schedule controller installed through the `verif` hooks: serialises a run of the real
//! coordinator so that the harness decides which in-flight task result is delivered next.
use std::collections::BTreeMap;
use std::sync::{Arc, Condvar, Mutex};
use std::time::{Duration, Instant};
use txtpp::verif::sched::{Controller, TaskKind};

#[derive(Debug, Clone, PartialEq)]
pub enum Ph {
    Queued,
    Begun,
    AtGate,
    Released,
    Sent,
}

#[derive(Debug, Clone)]
pub struct T {
    pub kind: TaskKind,
    pub path: String,
    pub ph: Ph,
    pub ok: bool,
}

#[derive(Debug, Clone)]
pub struct Step {
    pub enabled: Vec<(String, u8)>,
    pub choice: usize,
    pub spawned: Vec<(String, u8)>,
    /// the same tasks in the order in which the coordinator handed them to the pool
    pub spawned_order: Vec<(String, u8)>,
    /// `done_count` / `total_count` of the coordinator when this delivery was chosen
    pub done: usize,
    pub total: usize,
}

#[derive(Default)]
pub struct Inner {
    pub tasks: BTreeMap<u64, T>,
    permitted: Option<u64>,
    pub choices: Vec<usize>,
    pos: usize,
    pub steps: Vec<Step>,
    pub n_threads: usize,
    pub idle_yields: usize,
    pub free_run: bool,
    pub finished: Option<bool>,
    pub outstanding_at_finish: usize,
    pub anomaly: Option<String>,
    spawned_since: Vec<(String, u8)>,
    pub receives: usize,
    /// more deliveries than this in one run is reported (the model proves at most 2 per file)
    pub max_steps: usize,
    pub last_progress: (usize, usize),
}

pub type KeyFn = Box<dyn Fn(&str, u8) -> (u8, usize, u8) + Send + Sync>;

pub struct Ctl {
    pub m: Mutex<Inner>,
    cv: Condvar,
    /// canonical order of the enabled tasks: (class, index, kind) computed from (path, kind)
    pub key: KeyFn,
    /// called when the run cannot continue (hang / stuck worker); must not return
    pub on_stuck: Box<dyn Fn(&Inner, &str) + Send + Sync>,
}

pub fn kind_code(k: &TaskKind) -> u8 {
    match k {
        TaskKind::Scan => 0,
        TaskKind::Pp { first: true } => 1,
        TaskKind::Pp { first: false } => 2,
    }
}

impl Ctl {
    pub fn new(n_threads: usize, choices: Vec<usize>, max_steps: usize, key: KeyFn, on_stuck: Box<dyn Fn(&Inner, &str) + Send + Sync>) -> Arc<Self> {
        Arc::new(Self {
            key,
            m: Mutex::new(Inner {
                n_threads: n_threads.max(1),
                max_steps,
                choices,
                ..Default::default()
            }),
            cv: Condvar::new(),
            on_stuck,
        })
    }
}

const STUCK: Duration = Duration::from_secs(20);

impl Controller for Ctl {
    fn spawned(&self, id: u64, kind: TaskKind, path: String) {
        let mut g = self.m.lock().unwrap();
        let key = (path.clone(), kind_code(&kind));
        g.spawned_since.push(key);
        g.tasks.insert(id, T { kind, path, ph: Ph::Queued, ok: true });
        self.cv.notify_all();
    }
    fn begin(&self, id: u64) {
        let mut g = self.m.lock().unwrap();
        if let Some(t) = g.tasks.get_mut(&id) {
            t.ph = Ph::Begun;
        }
        self.cv.notify_all();
    }
    fn before_send(&self, id: u64, ok: bool) {
        let mut g = self.m.lock().unwrap();
        if let Some(t) = g.tasks.get_mut(&id) {
            t.ph = Ph::AtGate;
            t.ok = ok;
        }
        self.cv.notify_all();
        while g.permitted != Some(id) && !g.free_run {
            g = self.cv.wait(g).unwrap();
        }
        if let Some(t) = g.tasks.get_mut(&id) {
            t.ph = Ph::Released;
        }
    }
    fn sent(&self, id: u64) {
        let mut g = self.m.lock().unwrap();
        if let Some(t) = g.tasks.get_mut(&id) {
            t.ph = Ph::Sent;
        }
        self.cv.notify_all();
    }
    fn progress(&self, done: usize, total: usize) {
        let mut g = self.m.lock().unwrap();
        g.last_progress = (done, total);
    }
    fn main_yield(&self) {
        let mut g = self.m.lock().unwrap();
        if g.free_run {
            return;
        }
        // attribute tasks spawned since the last delivery to that delivery
        if !g.steps.is_empty() {
            let sp = std::mem::take(&mut g.spawned_since);
            let last = g.steps.len() - 1;
            g.steps[last].spawned_order.extend(sp.iter().cloned());
            g.steps[last].spawned.extend(sp);
            g.steps[last].spawned.sort_by(|a, b| (self.key)(&a.0, a.1).cmp(&(self.key)(&b.0, b.1)));
        } else {
            g.spawned_since.clear();
        }
        let t0 = Instant::now();
        loop {
            let unsent = g.tasks.values().filter(|t| t.ph != Ph::Sent).count();
            if unsent == 0 {
                g.idle_yields += 1;
                if g.idle_yields > 3 {
                    // the coordinator keeps polling although nothing is in flight: it will never finish
                    (self.on_stuck)(&g, "hang: nothing in flight, the coordinator keeps waiting (done != total)");
                }
                return;
            }
            let at_gate = g.tasks.values().filter(|t| t.ph == Ph::AtGate).count();
            if at_gate == unsent.min(g.n_threads) {
                break;
            }
            let (ng, to) = self.cv.wait_timeout(g, Duration::from_millis(500)).unwrap();
            g = ng;
            if to.timed_out() && t0.elapsed() > STUCK {
                (self.on_stuck)(&g, "stuck: a started task never produced a result (worker panicked or blocked)");
            }
        }
        g.idle_yields = 0;
        if g.max_steps > 0 && g.steps.len() > g.max_steps {
            (self.on_stuck)(&g, "delivery bound exceeded: more task results delivered than 2 per file + 8 (the run does not terminate in the proved bound)");
        }
        let mut en: Vec<(u64, (String, u8))> = g
            .tasks
            .iter()
            .filter(|(_, t)| t.ph == Ph::AtGate)
            .map(|(i, t)| (*i, (t.path.clone(), kind_code(&t.kind))))
            .collect();
        en.sort_by(|a, b| (self.key)(&a.1 .0, a.1 .1).cmp(&(self.key)(&b.1 .0, b.1 .1)));
        let pos = g.pos;
        let c = if pos < g.choices.len() { g.choices[pos] % en.len() } else { 0 };
        g.pos += 1;
        let id = en[c].0;
        let lp = g.last_progress;
        g.steps.push(Step {
            enabled: en.iter().map(|e| e.1.clone()).collect(),
            choice: c,
            spawned: vec![],
            spawned_order: vec![],
            done: lp.0,
            total: lp.1,
        });
        g.permitted = Some(id);
        self.cv.notify_all();
        let t1 = Instant::now();
        while g.tasks[&id].ph != Ph::Sent {
            let (ng, to) = self.cv.wait_timeout(g, Duration::from_millis(500)).unwrap();
            g = ng;
            if to.timed_out() && t1.elapsed() > STUCK {
                (self.on_stuck)(&g, "stuck: a released task never sent its result");
            }
        }
        g.permitted = None;
    }
    fn received(&self) {
        let mut g = self.m.lock().unwrap();
        g.receives += 1;
    }
    fn finished(&self, ok: bool) {
        let mut g = self.m.lock().unwrap();
        if !g.steps.is_empty() {
            let sp = std::mem::take(&mut g.spawned_since);
            let last = g.steps.len() - 1;
            g.steps[last].spawned_order.extend(sp.iter().cloned());
            g.steps[last].spawned.extend(sp);
            g.steps[last].spawned.sort_by(|a, b| (self.key)(&a.0, a.1).cmp(&(self.key)(&b.0, b.1)));
        }
        g.finished = Some(ok);
        g.outstanding_at_finish = g.tasks.values().filter(|t| t.ph != Ph::Sent).count();
        // let everything still in flight run to completion (Drop joins the pool)
        g.free_run = true;
        self.cv.notify_all();
    }
}

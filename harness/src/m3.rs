//! M3: `TagState::{create, try_store, inject_tags, has_tags}` against the Lean tag-store model.
use crate::util::*;
use std::collections::BTreeSet;
use txtpp::verif::TagState;

#[derive(Clone, Debug)]
pub enum Op {
    Create(String),
    Store(String),
}

fn keys_of(t: &TagState) -> String {
    if !t.has_tags() {
        return "-".to_string();
    }
    let s = t.to_string();
    let mut ks: Vec<String> = s.split(" ,").map(|k| hexs(k)).collect();
    ks.sort();
    ks.join("+")
}

fn setup(ops: &[Op]) -> (TagState, Vec<&'static str>) {
    let mut t = TagState::new();
    let mut rs = vec![];
    for op in ops {
        let ok = match op {
            Op::Create(n) => t.create(n).is_ok(),
            Op::Store(c) => t.try_store(c).is_ok(),
        };
        rs.push(if ok { "ok" } else { "err" });
    }
    (t, rs)
}

pub fn impl_tags(le: &str, seq: bool, ops: &[Op], lines: &[String]) -> String {
    let le_static: &'static str = if le == "\r\n" { "\r\n" } else { "\n" };
    let (t0, rs) = setup(ops);
    let a = if rs.is_empty() { "-".to_string() } else { rs.join(",") };
    let k0 = keys_of(&t0);
    let mut outs = vec![];
    let mut cur = t0;
    for l in lines {
        if !seq {
            cur = setup(ops).0;
        }
        let o = cur.inject_tags(l, le_static);
        outs.push(format!("{}/{}", hexs(&o), keys_of(&cur)));
    }
    format!("{} {} {}", a, k0, if outs.is_empty() { "-".to_string() } else { outs.join(",") })
}

pub fn request(le: &str, seq: bool, ops: &[Op], lines: &[String]) -> String {
    let s: Vec<String> = ops
        .iter()
        .map(|o| match o {
            Op::Create(n) => format!("c{}", hexs(n)),
            Op::Store(c) => format!("s{}", hexs(c)),
        })
        .collect();
    let l: Vec<String> = lines.iter().map(|x| hexs(x)).collect();
    format!(
        "tags {} {} {} {}",
        hexs(le),
        if seq { "seq" } else { "fresh" },
        if s.is_empty() { "-".to_string() } else { s.join(",") },
        if l.is_empty() { "-".to_string() } else { l.join(",") }
    )
}

fn parse_request(req: &str) -> Option<(String, bool, Vec<Op>, Vec<String>)> {
    let f: Vec<&str> = req.split(' ').collect();
    if f.len() != 5 || f[0] != "tags" {
        return None;
    }
    let un = |s: &str| String::from_utf8(unhex(s)?).ok();
    let le = un(f[1])?;
    let seq = f[2] == "seq";
    let mut ops = vec![];
    if f[3] != "-" {
        for o in f[3].split(',') {
            let (k, h) = o.split_at(1);
            let v = un(h)?;
            ops.push(if k == "c" { Op::Create(v) } else { Op::Store(v) });
        }
    }
    let mut lines = vec![];
    if f[4] != "-" {
        for l in f[4].split(',') {
            lines.push(un(l)?);
        }
    }
    Some((le, seq, ops, lines))
}

fn all_strings(alpha: &[char], max: usize) -> Vec<String> {
    let mut out = vec![String::new()];
    let mut cur = vec![String::new()];
    for _ in 0..max {
        let mut next = vec![];
        for s in &cur {
            for c in alpha {
                let mut t = s.clone();
                t.push(*c);
                next.push(t);
            }
        }
        out.extend(next.iter().cloned());
        cur = next;
    }
    out
}

struct Ctx<'a> {
    rep: Report,
    model: &'a Model,
    reqs: Vec<String>,
    impls: Vec<[String; 3]>,
    sig: BTreeSet<String>,
}
impl<'a> Ctx<'a> {
    fn add(&mut self, le: &str, seq: bool, ops: &[Op], lines: &[String]) {
        let r = request(le, seq, ops, lines);
        // three repetitions with fresh TagStates (fresh hash seeds)
        let a = impl_tags(le, seq, ops, lines);
        let b = impl_tags(le, seq, ops, lines);
        let c = impl_tags(le, seq, ops, lines);
        self.reqs.push(r);
        self.impls.push([a, b, c]);
        if self.reqs.len() >= 20_000 {
            self.flush();
        }
    }
    fn flush(&mut self) {
        let ms = self.model.batch(&self.reqs);
        for i in 0..self.reqs.len() {
            let [a, b, c] = &self.impls[i];
            self.rep.evaluations += 1;
            // coverage signature: setup verdict pattern + number of substitutions pattern
            if a != b || a != c {
                self.rep.violation(
                    "oracle",
                    &format!("inject_tags is not deterministic across repetitions (hash order): {} vs {} vs {}", a, b, c),
                    &format!("request: {}\nimpl: {}\nimpl2: {}\nimpl3: {}\nmodel: {}\n", self.reqs[i], a, b, c, ms[i]),
                );
            } else if *a != ms[i] {
                self.rep.violation(
                    "oracle",
                    &format!(
                        "tag store: implementation gives `{}`, the Lean model of the documented tag semantics gives `{}` for `{}`",
                        a, ms[i], self.reqs[i]
                    ),
                    &format!("request: {}\nimpl: {}\nmodel: {}\n", self.reqs[i], a, ms[i]),
                );
            }
        }
        self.reqs.clear();
        self.impls.clear();
    }
}

pub fn run(args: &Args) -> Report {
    let model = Model::new(&args.model, &args.work);
    let mut cx = Ctx {
        rep: Report::new("C14", "M3", &args.replay_dir),
        model: &model,
        reqs: vec![],
        impls: vec![],
        sig: BTreeSet::new(),
    };
    let mut rng = Rng::new(args.seed);
    let names = all_strings(&['a', 'b'], 3); // 15 names incl. ""
    let contents = ["", "X", "a", "ab", "p\nq", "p\r\nq\n", "b-a"];
    let line_len = if args.thorough() { 8 } else { 6 };
    let lines = all_strings(&['a', 'b', '-'], line_len);
    cx.rep.rule = format!(
        "bounded-exhaustive: every ordered tag-name sequence of length <= 2 (all) and 3 (all in thorough, seeded sample in quick) over the {} names of length <= 3 in {{a,b}} (incl. the empty name and prefix-related names), each created and stored with contents from {:?}; every target line over {{a,b,-}} up to length {} injected into a fresh copy of the resulting store; plus seeded op sequences of length <= 6 with sequential injection; LF and CRLF. Each implementation case is evaluated 3 times with fresh TagStates. Non-trivial = at least one tag stored and the line contains a stored name; distinct = distinct (setup, line) pairs.",
        names.len(), contents, line_len
    );
    // name sequences
    let mut seqs: Vec<Vec<usize>> = vec![vec![]];
    for i in 0..names.len() {
        seqs.push(vec![i]);
        for j in 0..names.len() {
            seqs.push(vec![i, j]);
        }
    }
    let n3 = if args.thorough() { usize::MAX } else { 150 };
    let mut triples = vec![];
    for i in 0..names.len() {
        for j in 0..names.len() {
            for k in 0..names.len() {
                triples.push(vec![i, j, k]);
            }
        }
    }
    if n3 == usize::MAX {
        seqs.extend(triples);
    } else {
        for _ in 0..n3 {
            seqs.push(rng.pick(&triples).clone());
        }
    }
    let mut nontrivial: u64 = 0;
    let chunk = 256;
    for (si, sq) in seqs.iter().enumerate() {
        let mut ops = vec![];
        let mut stored_names: Vec<&str> = vec![];
        for (pos, ni) in sq.iter().enumerate() {
            ops.push(Op::Create(names[*ni].clone()));
            let c = contents[(si + pos * 3) % contents.len()];
            ops.push(Op::Store(c.to_string()));
            stored_names.push(&names[*ni]);
        }
        let le = if si % 3 == 0 { "\r\n" } else { "\n" };
        for ch in lines.chunks(chunk) {
            for l in ch {
                if !stored_names.is_empty() && stored_names.iter().any(|n| l.contains(*n)) {
                    nontrivial += 1;
                }
            }
            cx.add(le, false, &ops, ch);
        }
        cx.rep.count(&format!("setup_names={}", sq.len()));
    }
    cx.rep.countn("fresh_inject_lines", (seqs.len() * lines.len()) as u64);
    // random op sequences, sequential injection
    let nseq = if args.thorough() { 200_000 } else { 20_000 };
    let small_lines = all_strings(&['a', 'b', '-'], 5);
    for _ in 0..nseq {
        let n = 1 + rng.below(6);
        let mut ops = vec![];
        for _ in 0..n {
            if rng.chance(3, 5) {
                ops.push(Op::Create(rng.pick(&names).clone()));
            } else {
                ops.push(Op::Store(rng.pick(&contents).to_string()));
            }
        }
        let nl = 1 + rng.below(4);
        let ls: Vec<String> = (0..nl).map(|_| rng.pick(&small_lines).clone()).collect();
        let le = if rng.chance(1, 3) { "\r\n" } else { "\n" };
        nontrivial += 1;
        cx.add(le, true, &ops, &ls);
    }
    cx.rep.countn("random_op_sequences", nseq as u64);
    cx.flush();
    let ex_ops = vec![Op::Create("a".into()), Op::Store("X".into()), Op::Create("b".into()), Op::Store("p\nq".into())];
    let ex_lines = vec!["aab-".to_string()];
    cx.rep.sample(format!("{}  =>  {}", request("\r\n", false, &ex_ops, &ex_lines), impl_tags("\r\n", false, &ex_ops, &ex_lines)));
    let ex_ops2 = vec![Op::Create("ab".into()), Op::Store("a".into()), Op::Create("a".into())];
    cx.rep.sample(format!("{}  =>  {}", request("\n", true, &ex_ops2, &["abab".to_string(), "abab".to_string()]), impl_tags("\n", true, &ex_ops2, &["abab".to_string(), "abab".to_string()])));
    let _ = &cx.sig;
    // one request carries up to `chunk` lines: count line-level evaluations as well
    cx.rep.countn("requests", cx.rep.evaluations);
    cx.rep.evaluations = (seqs.len() * lines.len()) as u64 + nseq as u64;
    cx.rep.distinct = Some(nontrivial);
    cx.rep.exhaustive = args.thorough();
    cx.rep
}

pub fn replay(args: &Args, path: &std::path::Path) -> Report {
    let model = Model::new(&args.model, &args.work);
    let mut cx = Ctx {
        rep: Report::new("C14", "M3", &args.replay_dir),
        model: &model,
        reqs: vec![],
        impls: vec![],
        sig: BTreeSet::new(),
    };
    let text = std::fs::read_to_string(path).unwrap_or_default();
    for l in text.lines() {
        if let Some(r) = l.strip_prefix("request: ") {
            if let Some((le, seq, ops, lines)) = parse_request(r) {
                cx.add(&le, seq, &ops, &lines);
            }
        }
    }
    cx.flush();
    cx.rep
}

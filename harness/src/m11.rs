//! M11-trace: the *sequence of deliveries* of a real single-threaded run (which file's first / final pass was handed
//! to the coordinator, in order - observed through the schedule hooks) against the trace of the Lean reference run
//! (`runProjectT`, the object of the concrete C02/C03/C05 theorems). Sources are named one by one (no scan tasks).
use crate::gen::*;
use crate::proj::*;
use crate::sched::*;
use crate::util::*;
use std::sync::{Arc, Mutex};
use txtpp::{Config, Mode, Txtpp, Verbosity};

fn controlled_run(dir: &std::path::Path, cfg: &RunCfg, log: &std::path::Path, rep_ctx: Arc<Mutex<(String, std::path::PathBuf, std::path::PathBuf, String)>>) -> (String, Vec<(String, u8)>) {
    let _ = std::fs::remove_file(log);
    std::env::set_var("VERIF_LOG", log);
    std::env::remove_var("TXTPP_FILE");
    let ctx = rep_ctx.clone();
    let on_stuck = Box::new(move |inner: &Inner, why: &str| {
        let (case, result_path, replay_dir, property) = ctx.lock().unwrap().clone();
        let mut rep = Report::new(&property, "M11-trace", &replay_dir);
        rep.evaluations = 1;
        let shown: String = crate::m6::show_steps(&inner.steps).chars().take(400).collect();
        rep.violation("oracle", &format!("{property}: the single-threaded run does not terminate: {why}"), &format!("{case}# {why}\n# deliveries so far: {shown}\n"));
        rep.write(&result_path);
        eprintln!("violation[oracle]: run does not terminate ({why})");
        std::process::exit(1);
    });
    let ctl = Ctl::new(1, vec![], 400, Box::new(|p: &str, k: u8| (0u8, p.len(), k)), on_stuck);
    txtpp::verif::sched::install(Some(ctl.clone()));
    let config = Config {
        base_dir: dir.to_path_buf(),
        shell_cmd: String::new(),
        inputs: cfg.inputs.clone(),
        recursive: false,
        num_threads: 1,
        mode: match cfg.mode {
            "needed" => Mode::InMemoryBuild,
            "verify" => Mode::Verify,
            "clean" => Mode::Clean,
            _ => Mode::Build,
        },
        verbosity: Verbosity::Quiet,
        trailing_newline: cfg.trailing,
    };
    let r = Txtpp::run(config);
    txtpp::verif::sched::install(None);
    let verdict = match &r {
        Ok(()) => "ok".to_string(),
        Err(e) => {
            if format!("{:?}", e).contains("Circular dependencies are found") { "circular".to_string() } else { "err".to_string() }
        }
    };
    let g = ctl.m.lock().unwrap();
    let base = dir.canonicalize().unwrap_or_else(|_| dir.to_path_buf()).to_string_lossy().to_string();
    let seq: Vec<(String, u8)> = g
        .steps
        .iter()
        .map(|s| {
            let (p, k) = s.enabled[s.choice].clone();
            let rel = p.strip_prefix(&format!("{base}/")).map(|x| x.to_string()).unwrap_or(p);
            (rel, k)
        })
        .collect();
    (verdict, seq)
}

pub fn run_trace(args: &Args) -> Report {
    let property = if args.property.is_empty() { "C02".to_string() } else { args.property.clone() };
    let mut rep = Report::new(&property, "M11-trace", &args.replay_dir);
    let model = Model::new(&args.model, &args.work);
    let mut rng = Rng::new(args.seed.wrapping_mul(977).wrapping_add(args.shard as u64).wrapping_add(0x7ACE));
    let total = if args.thorough() { 3000 } else { 320 };
    let n = total / args.shards.max(1);
    rep.rule = "generated 1-3-file projects (and the multi-file corner projects), sources named one by one in a random order (also by output name, with duplicates), one worker thread, modes build / needed / verify / clean: the deliveries to the real coordinator (file, first or final pass; observed through the schedule hooks: the first passes in order, all deliveries as a multiset - files released together by one finished dependency are spawned in hash-set order in the real code -, every final pass after the file's first pass) are compared with the trace `runProjectT` of the Lean reference run - the object the concrete theorems of C02/C03/C05 are about; plus the verdict. The model's trace omits the one delivery that fails.".to_string();
    let dir = args.work.join(format!("trace-{}-{}", std::process::id(), args.shard));
    let _ = std::fs::remove_dir_all(&dir);
    std::fs::create_dir_all(&dir).unwrap();
    let dir = dir.canonicalize().unwrap();
    let pdir = dir.join("p");
    let log = dir.join("markers.log");
    let base_abs = pdir.to_string_lossy().to_string();
    let ctx = Arc::new(Mutex::new((String::new(), args.result.clone(), args.replay_dir.clone(), property.clone())));
    crate::m6::install_panic_counter();
    let mut cases: Vec<(String, String, Vec<(String, u8)>, String, RunCfg, Tree, Vec<(String, Vec<Act>)>)> = vec![];
    let mut projects: Vec<Project> = crate::corner::corner_projects().into_iter().filter(|c| c.1.sources.len() > 1).map(|c| c.1).collect();
    if args.shard != 0 {
        projects.clear();
    }
    for _ in 0..n {
        let opts = GenOpts { error_pct: 15, ..GenOpts::default() };
        projects.push(gen_project(&mut rng, &opts));
    }
    for (i, p) in projects.iter().enumerate() {
        for mode in ["build", "needed", "verify", "clean"] {
            if mode != "build" && !rng.chance(1, 3) {
                continue;
            }
            materialize(p, &pdir);
            if mode == "verify" || (mode == "clean" && rng.chance(1, 2)) {
                let _ = run_impl(&pdir, &RunCfg::build_all(), &log);
            }
            let mut inputs: Vec<String> = p.sources.iter().map(|s| if rng.chance(1, 4) { output_name(s) } else { s.clone() }).collect();
            // a random order, sometimes only some of them, sometimes one twice
            for k in (1..inputs.len()).rev() {
                let j = rng.below(k + 1);
                inputs.swap(k, j);
            }
            if inputs.len() > 1 && rng.chance(1, 3) {
                inputs.truncate(1 + rng.below(inputs.len() - 1));
            }
            if rng.chance(1, 5) {
                let d = inputs[0].clone();
                inputs.push(d);
            }
            // a corner project may fix its inputs
            if let Some(t) = p.sig.iter().find_map(|x| x.strip_prefix("inputs:")) {
                inputs = t.split(',').map(|x| x.to_string()).collect();
            }
            let cfg = RunCfg { mode, trailing: rng.chance(2, 3), recursive: false, threads: 1, inputs };
            let (before, _) = snapshot(&pdir);
            let req = encode_request(&before, &cfg, &p.cmds, &base_abs).replacen("project ", "trace ", 1);
            ctx.lock().unwrap().0 = replay_body(&before, &cfg, &p.cmds, "");
            let (verdict, seq) = controlled_run(&pdir, &cfg, &log, ctx.clone());
            cases.push((req, verdict, seq, format!("project #{i} {mode}"), cfg, before, p.cmds.clone()));
        }
    }
    let reqs: Vec<String> = cases.iter().map(|c| c.0.clone()).collect();
    let answers = model.batch(&reqs);
    for (c, a) in cases.iter().zip(answers.iter()) {
        rep.evaluations += 1;
        let f: Vec<&str> = a.trim().split(' ').collect();
        if f.len() != 2 {
            rep.notes.push(format!("model driver: no answer to a `trace` request: {:?}", a.chars().take(80).collect::<String>()));
            continue;
        }
        if f[0] == "vocab" {
            rep.count("skipped:model-met-a-command-outside-the-vocabulary");
            continue;
        }
        let mseq: Vec<(String, u8)> = if f[1] == "-" {
            vec![]
        } else {
            f[1].split(',')
                .filter_map(|it| {
                    let (h, k) = it.split_once(':')?;
                    Some((String::from_utf8_lossy(&unhex(h)?).to_string(), k.parse::<u8>().ok()?))
                })
                .collect()
        };
        let norm = |v: &str| if v == "circular" { "err".to_string() } else { v.to_string() };
        let mut diffs = vec![];
        if norm(&c.1) != norm(f[0]) {
            diffs.push(format!("verdict: implementation `{}`, model `{}`", c.1, f[0]));
        }
        let show = |v: &[(String, u8)]| v.iter().map(|(p, k)| format!("{p}:{}", if *k == 1 { "first" } else { "final" })).collect::<Vec<_>>().join(" ");
        let real = &c.2;
        // several files released by the same finished dependency are spawned in the iteration order of a hash set in the
        // real code: the final passes of one release group may come in any order. Compared: the first passes in order,
        // the deliveries as a multiset (the failing one excepted), every final pass after the same file's first pass.
        let firsts = |v: &[(String, u8)]| v.iter().filter(|x| x.1 == 1).cloned().collect::<Vec<_>>();
        let mut real_cmp: Vec<(String, u8)> = real.clone();
        if c.1 != "ok" && c.1 != "circular" && real_cmp.len() == mseq.len() + 1 {
            real_cmp.pop();
        }
        let (mut a, mut b) = (real_cmp.clone(), mseq.clone());
        a.sort();
        b.sort();
        let order_ok = real.iter().enumerate().all(|(i, (p, k))| *k != 2 || real[..i].iter().any(|(q, kq)| q == p && *kq == 1));
        if a != b || firsts(&real_cmp) != firsts(&mseq) || !order_ok {
            diffs.push(format!("deliveries: implementation [{}], model trace [{}]", show(real), show(&mseq)));
        }
        rep.count(&format!("mode:{}", c.4.mode));
        rep.count(&format!("verdict:{}", c.1));
        rep.count(&format!("deliveries:{}", real.len().min(9)));
        if real.iter().any(|(_, k)| *k == 2) {
            rep.count("runs-with-a-final-pass-after-dependencies");
        }
        rep.sigs.insert(format!("{}|{}|{}", c.4.mode, c.1, real.len().min(9)));
        if !diffs.is_empty() {
            let what = format!("{property}: {} [{}] inputs {:?}", diffs.join("; "), c.3, c.4.inputs);
            rep.violation("oracle", &what, &replay_body(&c.5, &c.4, &c.6, &format!("# {what}\n")));
        }
    }
    let _ = std::fs::remove_dir_all(&dir);
    rep
}

//! M1 / M2: `Directive::detect_from` and `Directive::add_line` against the Lean model
//! (`detectFrom`, `addLine`, proved equal to the declarative grammar of property C15).
use crate::util::*;
use std::collections::HashSet;
use std::hash::{Hash, Hasher};
use txtpp::verif::{Directive, DirectiveType};

fn ty_name(t: &DirectiveType) -> &'static str {
    match t {
        DirectiveType::Empty => "empty",
        DirectiveType::Include => "include",
        DirectiveType::After => "after",
        DirectiveType::Run => "run",
        DirectiveType::Tag => "tag",
        DirectiveType::Temp => "temp",
        DirectiveType::Write => "write",
    }
}
fn ty_of(n: &str) -> DirectiveType {
    match n {
        "empty" => DirectiveType::Empty,
        "include" => DirectiveType::Include,
        "after" => DirectiveType::After,
        "run" => DirectiveType::Run,
        "tag" => DirectiveType::Tag,
        "temp" => DirectiveType::Temp,
        _ => DirectiveType::Write,
    }
}
const TYPES: [&str; 7] = ["empty", "include", "after", "run", "tag", "temp", "write"];

pub fn impl_detect(line: &str) -> String {
    let r = std::panic::catch_unwind(|| Directive::detect_from(line));
    let r = match r {
        Ok(r) => r,
        Err(_) => return "PANIC".to_string(),
    };
    match r {
        None => "N".to_string(),
        Some(d) => format!(
            "D {} {} {} {}",
            hexs(&d.whitespaces),
            hexs(&d.prefix),
            ty_name(&d.directive_type),
            d.args.iter().map(|a| hexs(a)).collect::<Vec<_>>().join(" ")
        ),
    }
}
pub fn impl_addline(ws: &str, pre: &str, ty: &str, line: &str) -> String {
    let mut d = Directive::new(ws, pre, ty_of(ty), vec![]);
    let r = std::panic::catch_unwind(std::panic::AssertUnwindSafe(|| d.add_line(line)));
    let r = match r {
        Ok(r) => r,
        Err(_) => return "PANIC".to_string(),
    };
    match r {
        Err(()) => "N".to_string(),
        Ok(()) => format!(
            "A {}",
            d.args.iter().map(|a| hexs(a)).collect::<Vec<_>>().join(" ")
        ),
    }
}

fn h64(s: &str) -> u64 {
    let mut h = std::collections::hash_map::DefaultHasher::new();
    s.hash(&mut h);
    h.finish()
}

fn sequences(tokens: &[&str], max_len: usize, f: &mut dyn FnMut(&str)) {
    fn rec(tokens: &[&str], left: usize, cur: &mut String, f: &mut dyn FnMut(&str)) {
        f(cur);
        if left == 0 {
            return;
        }
        for t in tokens {
            let l = cur.len();
            cur.push_str(t);
            rec(tokens, left - 1, cur, f);
            cur.truncate(l);
        }
    }
    let mut cur = String::new();
    rec(tokens, max_len, &mut cur, f);
}

const DETECT_TOKENS: [&str; 17] = [
    " ", "\t", "\u{3000}", "-", "//", "TXTPP#", "TXTPP", "#", "include", "after", "run", "temp",
    "tag", "write", "wri", "x", "é",
];

/// evaluate a replay request line on the implementation
pub fn impl_eval(req: &str) -> String {
    let f: Vec<&str> = req.split(' ').collect();
    let un = |s: &str| String::from_utf8(unhex(s).unwrap_or_default()).unwrap_or_default();
    match f.as_slice() {
        ["detect", l] => impl_detect(&un(l)),
        ["addline", ws, pre, ty, l] => impl_addline(&un(ws), &un(pre), ty, &un(l)),
        _ => "bad-op".to_string(),
    }
}

fn describe(req: &str) -> String {
    let f: Vec<&str> = req.split(' ').collect();
    let un = |s: &str| String::from_utf8_lossy(&unhex(s).unwrap_or_default()).to_string();
    match f.as_slice() {
        ["detect", l] => format!("detect_from({:?})", un(l)),
        ["addline", ws, pre, ty, l] => format!(
            "Directive{{ws:{:?},prefix:{:?},type:{}}}.add_line({:?})",
            un(ws),
            un(pre),
            ty,
            un(l)
        ),
        _ => req.to_string(),
    }
}

fn compare(rep: &mut Report, model: &Model, reqs: &[String], impls: &[String]) {
    let ms = model.batch(reqs);
    for i in 0..reqs.len() {
        if ms[i] != impls[i] {
            let what = format!(
                "{} : implementation gives `{}`, the grammar (Lean model, proved equal to the declarative grammar) gives `{}`",
                describe(&reqs[i]), impls[i], ms[i]
            );
            rep.violation(
                "oracle",
                &what,
                &format!("request: {}\nimpl: {}\nmodel: {}\n", reqs[i], impls[i], ms[i]),
            );
        }
    }
}

pub fn run(args: &Args) -> Report {
    std::panic::set_hook(Box::new(|_| {}));
    let mut rep = Report::new("C15", "M1M2", &args.replay_dir);
    let model = Model::new(&args.model, &args.work);
    let mut rng = Rng::new(args.seed);
    let max_len = if args.thorough() { 5 } else { 4 };
    rep.rule = format!(
        "detect: every concatenation of <= {max_len} tokens from {:?} plus seeded random lines of 6..12 tokens; \
         add_line: 315 directive heads (5 whitespace x 9 prefixes x 7 types) x candidate continuation lines \
         (all token sequences over a small alphabet and lines derived from the head's own whitespace/prefix). \
         A case is non-trivial when the line contains `TXTPP#` (detect) or starts with the head's whitespace (add_line); distinct = distinct (head, line) strings.",
        DETECT_TOKENS
    );
    // ---- M1 detect
    let mut seen: HashSet<u64> = HashSet::new();
    let mut nontrivial: u64 = 0;
    let mut reqs: Vec<String> = vec![];
    let mut impls: Vec<String> = vec![];
    let mut lines: Vec<String> = vec![];
    sequences(&DETECT_TOKENS, max_len, &mut |s| {
        if seen.insert(h64(s)) {
            lines.push(s.to_string());
        }
    });
    let nrand = if args.thorough() { 400_000 } else { 40_000 };
    for _ in 0..nrand {
        let n = 6 + rng.below(7);
        let mut s = String::new();
        for _ in 0..n {
            // bias towards marker and names
            let t = if rng.chance(1, 4) {
                *rng.pick(&["TXTPP#", " ", "run", "include", "-"])
            } else {
                *rng.pick(&DETECT_TOKENS)
            };
            s.push_str(t);
        }
        if seen.insert(h64(&s)) {
            lines.push(s);
        }
    }
    for l in &lines {
        let r = impl_detect(l);
        if l.contains("TXTPP#") {
            nontrivial += 1;
        }
        let cls = match r.split(' ').nth(3) {
            Some(t) => format!("detect:{t}"),
            None => "detect:none".to_string(),
        };
        rep.count(&cls);
        reqs.push(format!("detect {}", hexs(l)));
        impls.push(r);
        if reqs.len() >= 500_000 {
            compare(&mut rep, &model, &reqs, &impls);
            rep.evaluations += reqs.len() as u64;
            reqs.clear();
            impls.clear();
        }
    }
    rep.sample(format!("detect_from({:?}) = {}", lines[lines.len() / 3], impl_detect(&lines[lines.len() / 3])));
    rep.sample(format!("detect_from({:?}) = {}", "  -TXTPP#run  a b ", impl_detect("  -TXTPP#run  a b ")));
    compare(&mut rep, &model, &reqs, &impls);
    rep.evaluations += reqs.len() as u64;
    reqs.clear();
    impls.clear();
    let detect_distinct = nontrivial;

    // ---- M2 add_line
    let wss = ["", " ", "\t", "  ", "\u{3000}"];
    // short prefixes, and prefixes longer than any fixed-size scratch buffer (64, 65, 77 and 130 bytes; one with multi-byte characters)
    let long64 = "#".repeat(64);
    let long65 = format!("{} ", "#".repeat(64));
    let long77 = format!("/* {} */ ", "=".repeat(70));
    let long130 = format!("// {} ", "é".repeat(63));
    let pres: Vec<&str> = vec!["", "-", "//", "- ", "// ", "é", "-é ", "#", "x\u{3000}", &long64, &long65, &long77, &long130];
    let cont_tokens = [" ", "\t", "\u{3000}", "-", "//", "é", "x", "#"];
    let cont_len = if args.thorough() { 4 } else { 3 };
    let mut generic: Vec<String> = vec![];
    sequences(&cont_tokens, cont_len, &mut |s| generic.push(s.to_string()));
    let tails = ["", "a", " a ", "a\u{3000}", "\t", " - b", "TXTPP#run x"];
    let mut seen2: HashSet<u64> = HashSet::new();
    let mut nontrivial2: u64 = 0;
    for ws in wss {
        for pre in pres.iter().copied() {
            for ty in TYPES {
                let mut cands: Vec<String> = generic.clone();
                for t in tails {
                    cands.push(format!("{ws}{pre}{t}"));
                    cands.push(format!("{ws}{}{t}", " ".repeat(pre.len())));
                    cands.push(format!("{ws}{}{t}", " ".repeat(pre.chars().count())));
                    cands.push(format!("{ws}{}{t}", pre.trim_end()));
                    if pre.len() > 0 {
                        cands.push(format!("{ws}{}{t}", " ".repeat(pre.len() - 1)));
                        cands.push(format!("{ws}{}{t}", &pre[..pre.char_indices().last().unwrap().0]));
                    }
                    cands.push(format!("{ws} {pre}{t}"));
                    if pre.len() >= 64 {
                        for k in [63usize, 64, 65, pre.len() + 1] {
                            cands.push(format!("{ws}{}{t}", " ".repeat(k)));
                        }
                    }
                }
                for c in cands {
                    if !seen2.insert(h64(&format!("{ws}|{pre}|{ty}|{c}"))) {
                        continue;
                    }
                    let r = impl_addline(ws, pre, ty, &c);
                    if c.starts_with(ws) {
                        nontrivial2 += 1;
                    }
                    rep.count(if r == "N" { "addline:refused" } else { "addline:accepted" });
                    reqs.push(format!("addline {} {} {} {}", hexs(ws), hexs(pre), ty, hexs(&c)));
                    impls.push(r);
                }
            }
        }
        compare(&mut rep, &model, &reqs, &impls);
        rep.evaluations += reqs.len() as u64;
        reqs.clear();
        impls.clear();
    }
    rep.sample(format!(
        "Directive{{ws:\"  \",prefix:\"// \",run}}.add_line(\"  //\") = {}",
        impl_addline("  ", "// ", "run", "  //")
    ));
    rep.sample(format!(
        "Directive{{ws:\"\",prefix:\"é\",write}}.add_line(\"  x \") = {}",
        impl_addline("", "é", "write", "  x ")
    ));
    rep.countn("nontrivial_detect", detect_distinct);
    rep.countn("nontrivial_addline", nontrivial2);
    rep.distinct = Some(detect_distinct + nontrivial2);
    rep.exhaustive = true;
    rep
}

pub fn replay(args: &Args, path: &std::path::Path) -> Report {
    let mut rep = Report::new("C15", "M1M2", &args.replay_dir);
    let model = Model::new(&args.model, &args.work);
    let text = std::fs::read_to_string(path).unwrap_or_default();
    let reqs: Vec<String> = text
        .lines()
        .filter_map(|l| l.strip_prefix("request: ").map(|s| s.to_string()))
        .collect();
    let impls: Vec<String> = reqs.iter().map(|r| impl_eval(r)).collect();
    rep.evaluations = reqs.len() as u64;
    compare(&mut rep, &model, &reqs, &impls);
    rep
}

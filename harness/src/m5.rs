//! M5: `Txtpp::run` on generated projects vs the Lean whole-run model (`runProject`), which runs the
//! proved-equal streaming machine / specification of C01 on every source.
use crate::gen::*;
use crate::proj::*;
use crate::util::*;
use std::path::PathBuf;

pub struct Case {
    pub before: Tree,
    pub cfg: RunCfg,
    pub cmds: Vec<(String, Vec<Act>)>,
    pub imp: Obs,
    pub sig: Vec<String>,
    pub label: String,
}

pub struct Runner<'a> {
    pub args: &'a Args,
    pub dir: PathBuf,
    pub log: PathBuf,
    pub base_abs: String,
    pub cases: Vec<Case>,
}

impl<'a> Runner<'a> {
    pub fn new(args: &'a Args, tag: &str) -> Self {
        let dir = args.work.join(format!("case-{}-{}", tag, std::process::id()));
        let _ = std::fs::remove_dir_all(&dir);
        std::fs::create_dir_all(&dir).unwrap();
        let base = canonical(&dir).join("p");
        let log = canonical(&dir).join("markers.log");
        Runner {
            args,
            base_abs: base.to_string_lossy().to_string(),
            dir: base,
            log,
            cases: vec![],
        }
    }
    /// run the implementation on the tree currently in `self.dir` and remember the case
    pub fn run_here(&mut self, cfg: &RunCfg, cmds: &[(String, Vec<Act>)], sig: Vec<String>, label: &str) -> usize {
        let (before, _) = snapshot(&self.dir);
        let imp = run_impl(&self.dir, cfg, &self.log);
        self.cases.push(Case {
            before,
            cfg: cfg.clone(),
            cmds: cmds.to_vec(),
            imp,
            sig,
            label: label.to_string(),
        });
        self.cases.len() - 1
    }
    pub fn model_all(&self, model: &Model) -> Vec<Option<Obs>> {
        let reqs: Vec<String> = self
            .cases
            .iter()
            .map(|c| encode_request(&c.before, &c.cfg, &c.cmds, &self.base_abs))
            .collect();
        let resp = model.batch(&reqs);
        resp.iter().zip(self.cases.iter()).map(|(r, c)| parse_response(r, &c.before)).collect()
    }
    pub fn cleanup(&self) {
        if let Some(p) = self.dir.parent() {
            let _ = std::fs::remove_dir_all(p);
        }
    }
}

/// compare all cases with the model; divergences are reported by `on_div`
pub fn compare_all(rep: &mut Report, runner: &Runner, model: &Model, property: &str, theorems: &str) {
    let ms = runner.model_all(model);
    for (c, m) in runner.cases.iter().zip(ms.iter()) {
        rep.evaluations += 1;
        rep.count(&format!("verdict:{}", c.imp.verdict));
        rep.count(&format!("mode:{}", c.cfg.mode));
        for s in &c.sig {
            rep.sigs.insert(s.clone());
        }
        match m {
            None => {
                rep.violation(
                    "divergence",
                    &format!("the model driver could not evaluate the case ({})", c.label),
                    &replay_body(&c.before, &c.cfg, &c.cmds, ""),
                );
            }
            Some(m) if left_vocabulary(m) => {
                rep.count("skipped:model-met-a-command-outside-the-vocabulary");
            }
            Some(m) => {
                let d = diff_obs(&c.imp, m);
                if !d.is_empty() {
                    let extra = format!(
                        "# correspondence M5 (Txtpp::run vs Lean runProject); theorems resting on it: {}\n# differences:\n{}",
                        theorems,
                        d.iter().map(|x| format!("#   {x}\n")).collect::<String>()
                    );
                    // The model is the proved-equal README semantics: inside the documented domain a
                    // difference in verdict or bytes IS an output that is not what the semantics prescribe.
                    rep.violation(
                        "oracle",
                        &format!("{property}: {} [{}] {}", d[0], c.label, c.cfg.describe()),
                        &replay_body(&c.before, &c.cfg, &c.cmds, &extra),
                    );
                }
            }
        }
    }
}

/// the corner scenarios of `corner.rs` (shard 0 of the calling job): every scenario in each of its modes, both trailing
/// settings; the cases are compared with the model by the caller's `compare_all`. After a build, a second build and
/// a verify of the tree must succeed and change nothing (oracle).
pub fn run_corners(rep: &mut Report, runner: &mut Runner, property: &str) {
    for (k, (label, p, modes)) in crate::corner::corner_projects().into_iter().enumerate() {
        for (j, mode) in modes.into_iter().enumerate() {
            // both trailing settings are covered across scenarios and modes (each real run costs ~0.2 s of coordinator polling)
            for trailing in [(k + j) % 2 == 0] {
                materialize(&p, &runner.dir);
                let mut cfg = RunCfg::build_all();
                cfg.mode = mode;
                cfg.trailing = trailing;
                cfg.threads = 2;
                // a scenario may name its inputs (`inputs:<name>` in its signature): only that target is requested
                if let Some(t) = p.sig.iter().find_map(|x| x.strip_prefix("inputs:")) {
                    cfg.inputs = t.split(',').map(|x| x.to_string()).collect();
                }
                let idx = runner.run_here(&cfg, &p.cmds, vec![format!("corner|{label}|{mode}")], &format!("corner scenario {label} ({mode}, trailing={trailing})"));
                rep.count("corner-scenarios");
                rep.count(&format!("corner:{label}|{mode}|{}", runner.cases[idx].imp.verdict));
                if mode != "verify" && runner.cases[idx].imp.verdict != "ok" && !p.expect_error {
                    rep.notes.push(format!("corner scenario {label} ({mode}) ends `{}`: only the verdict is compared there", runner.cases[idx].imp.verdict));
                }
                // (a source that reads its own output is not idempotent - the side condition of the C08 theorems excludes it)
                let self_reading = label.contains("reads-own-output") || label.contains("twin-sources");
                if (mode == "build" || mode == "needed") && runner.cases[idx].imp.verdict == "ok" && !self_reading {
                    let after = runner.cases[idx].imp.after.clone();
                    let mut vcfg = cfg.clone();
                    vcfg.mode = "verify";
                    let v = runner.run_here(&vcfg, &p.cmds, vec![format!("corner|{label}|verify-after-{mode}")], &format!("corner scenario {label}: verify after {mode}"));
                    if runner.cases[v].imp.verdict != "ok" {
                        let c = &runner.cases[v];
                        let what = format!("{property}: corner scenario `{label}`: verify right after a successful {mode} gives `{}`", c.imp.verdict);
                        rep.violation("oracle", &what, &replay_body(&c.before, &c.cfg, &c.cmds, &format!("# {what}\n")));
                    }
                    let b2 = runner.run_here(&cfg, &p.cmds, vec![format!("corner|{label}|{mode}-again")], &format!("corner scenario {label}: {mode} again"));
                    let c = &runner.cases[b2];
                    if c.imp.verdict != "ok" || c.imp.after.files != after.files {
                        let what = format!("{property}: corner scenario `{label}`: a second {mode} gives `{}` and {} the tree", c.imp.verdict, if c.imp.after.files != after.files { "changes" } else { "keeps" });
                        rep.violation("oracle", &what, &replay_body(&c.before, &c.cfg, &c.cmds, &format!("# {what}\n")));
                    }
                }
            }
        }
    }
}

/// job `corner`: only the corner scenarios, for the property named by `--property`
pub fn run_corner_job(args: &Args) -> Report {
    let property = args.property.clone();
    let mut rep = Report::new(&property, "M5-corner", &args.replay_dir);
    let model = Model::new(&args.model, &args.work);
    rep.rule = "the explicit corner scenarios of harness/src/corner.rs (inputs larger than the I/O buffers, multi-byte characters at buffer boundaries, stray carriage returns, empty outputs over stale or missing ones, temp targets rewritten with a prefix, non-ASCII directive prefixes, long multi-byte arguments and tag names), each in its modes, followed by verify and a second run; compared with the Lean model".to_string();
    let mut runner = Runner::new(args, "corner");
    run_corners(&mut rep, &mut runner, &property);
    compare_all(&mut rep, &runner, &model, &property, "C01.pp_refines_spec (machine_eq_spec) on the corner scenarios");
    runner.cleanup();
    rep
}

pub fn run_c01(args: &Args) -> Report {
    let mut rep = Report::new("C01", "M5", &args.replay_dir);
    let model = Model::new(&args.model, &args.work);
    let mut rng = Rng::new(args.seed.wrapping_mul(1000).wrapping_add(args.shard as u64));
    let total = if args.thorough() { 60000 } else { 1600 };
    let n = total / args.shards.max(1);
    let opts = GenOpts::default();
    rep.rule = "seeded grammar-aware generator of 1-3-file projects inside the documented domain (DESIGN 4.3): items = text | include static/dep | after | run (vocabulary commands through real sh, 1-3 argument lines in the three continuation forms) | temp (+ read back) | write | tag (+ use) | empty directive, each block followed by EOF / text / near-miss continuation / other directive; LF/CRLF/mixed, final newline or not, 10% error cases; both trailing settings; threads 1-8. Compared with the Lean model: verdict, and on success every byte of every file in the tree, the executed-command markers, and untouched paths. distinct_nontrivial = number of distinct generator coverage signatures (directive kind x argument-line count x continuation forms x terminator x end-of-file shape x error kind) hit.".to_string();
    let mut runner = Runner::new(args, "c01");
    for i in 0..n {
        let p = gen_project(&mut rng, &opts);
        materialize(&p, &runner.dir);
        let mut cfg = RunCfg::build_all();
        cfg.trailing = !rng.chance(1, 3);
        cfg.threads = 1 + rng.below(8);
        if rng.chance(1, 4) {
            // name the first source explicitly (by source or output name) instead of scanning
            let s = &p.sources[0];
            cfg.inputs = vec![if rng.chance(1, 2) { s.clone() } else { output_name(s) }];
        }
        let idx = runner.run_here(&cfg, &p.cmds, p.sig.clone(), &format!("project #{i}"));
        if i < 2 {
            let c = &runner.cases[idx];
            let (f, content) = p.files.last().unwrap();
            rep.sample(format!("{} => {}: source {} = {:?}", cfg.describe(), c.imp.verdict, f, String::from_utf8_lossy(content)));
        }
    }
    if args.shard == 0 {
        run_corners(&mut rep, &mut runner, "C01");
    }
    compare_all(&mut rep, &runner, &model, "C01", "C01.pp_refines_spec (machine_eq_spec)");
    runner.cleanup();
    rep
}

fn sniff(content: &[u8]) -> &'static str {
    match content.iter().position(|b| *b == b'\n') {
        Some(i) if i > 0 && content[i - 1] == b'\r' => "\r\n",
        _ => "\n",
    }
}

/// byte scan: every line terminator in `data` is `le`
fn scan_le(data: &[u8], le: &str) -> Option<usize> {
    for i in 0..data.len() {
        if data[i] == b'\n' {
            let crlf = i > 0 && data[i - 1] == b'\r';
            if crlf != (le == "\r\n") {
                return Some(i);
            }
        } else if data[i] == b'\r' && (i + 1 >= data.len() || data[i + 1] != b'\n') {
            return Some(i);
        }
    }
    None
}

/// C12 oracle: every generated file of every source uses the line ending of that source's first line
fn scan_generated_endings(rep: &mut Report, c: &Case, p: &Project, scans: &mut u64, sig: &mut Vec<String>) {
    for s in &p.sources {
        let content = &p.files.iter().find(|f| &f.0 == s).unwrap().1;
        let le = sniff(content);
        sig.push(format!("le:{}", if le == "\n" { "lf" } else { "crlf" }));
        let srcid = s.replace('/', "_").replace('.', "_");
        let out = output_name(s);
        for (f, data) in &c.imp.after.files {
            let is_gen = *f == out || f.contains(&format!("t{srcid}_"));
            if !is_gen {
                continue;
            }
            *scans += 1;
            if let Some(pos) = scan_le(data, le) {
                let what = format!(
                    "generated file `{f}` of source `{s}` (first line ends in {}) has a different line terminator at byte {pos}: {:?} [{}]",
                    if le == "\n" { "LF" } else { "CRLF" },
                    String::from_utf8_lossy(data),
                    c.label
                );
                rep.violation("oracle", &what, &replay_body(&c.before, &c.cfg, &c.cmds, &format!("# {what}\n")));
            }
        }
    }
}

pub fn run_c12(args: &Args) -> Report {
    let mut rep = Report::new("C12", "M5", &args.replay_dir);
    let model = Model::new(&args.model, &args.work);
    let mut rng = Rng::new(args.seed.wrapping_mul(1000).wrapping_add(args.shard as u64).wrapping_add(0xC12));
    let total = if args.thorough() { 20000 } else { 1200 };
    let n = total / args.shards.max(1);
    let opts = GenOpts { crlf_pct: 50, error_pct: 3, ..GenOpts::default() };
    rep.rule = "projects from the C01 generator with the line ending of every source line, static file, command output (printf with \\n and \\r\\n), temp body and stored tag content chosen independently (50% CRLF first lines, 15% mixed files). Oracle on the implementation: byte scan of every generated file (output of each source, and its temp files): every \\n is preceded by \\r iff the first line of that source ends in CRLF, and no lone \\r. Also compared with the model (M5). distinct_nontrivial = distinct generator signatures x source line ending.".to_string();
    let mut runner = Runner::new(args, "c12");
    let mut scans = 0u64;
    for i in 0..n {
        let mut p = gen_project(&mut rng, &opts);
        if rng.chance(1, 12) {
            // a very long first line: the ending must still be taken from it (std BufReader holds 8 KiB)
            let s0 = p.sources[0].clone();
            let c = p.file_mut(&s0).unwrap();
            let le = if rng.chance(1, 2) { "\r\n" } else { "\n" };
            // (round 15: also around 16 KiB, 64 KiB and 128 KiB - whatever window a probe reads, the first line decides)
            let base_len = *rng.pick(&[8180usize, 8180, 16370, 65520, 131060]);
            let mut first = "x".repeat(base_len + rng.below(40)).into_bytes();
            first.extend_from_slice(le.as_bytes());
            first.extend_from_slice(c);
            *c = first;
            p.sig.push("long-first-line".into());
        }
        materialize(&p, &runner.dir);
        let mut cfg = RunCfg::build_all();
        cfg.threads = 1 + rng.below(4);
        cfg.trailing = !rng.chance(1, 4);
        let mut sig = p.sig.clone();
        let idx = runner.run_here(&cfg, &p.cmds, vec![], &format!("project #{i}"));
        let first_ok = runner.cases[idx].imp.verdict == "ok";
        if first_ok {
            scan_generated_endings(&mut rep, &runner.cases[idx], &p, &mut scans, &mut sig);
        }
        // history: the ending of the first line of every source is flipped and the project is built again (plain or
        // only-if-needed) over the files of the first build: same text, other ending - everything must follow the source
        if first_ok && rng.chance(1, 3) {
            for s in p.sources.clone() {
                let c = p.file_mut(&s).unwrap();
                if let Some(pos) = c.iter().position(|b| *b == b'\n') {
                    if pos > 0 && c[pos - 1] == b'\r' {
                        c.remove(pos - 1);
                    } else {
                        c.insert(pos, b'\r');
                    }
                    let _ = std::fs::write(runner.dir.join(&s), &*c);
                }
            }
            let mut cfg2 = cfg.clone();
            cfg2.mode = if rng.chance(1, 2) { "needed" } else { "build" };
            let idx2 = runner.run_here(&cfg2, &p.cmds, vec!["first-line-ending-flipped".into(), format!("mode:{}", cfg2.mode)], &format!("project #{i} rebuilt ({}) after the first line's ending was flipped", cfg2.mode));
            if runner.cases[idx2].imp.verdict == "ok" {
                let mut sig_ignored = vec![];
                scan_generated_endings(&mut rep, &runner.cases[idx2], &p, &mut scans, &mut sig_ignored);
            }
        }
        let sig2: Vec<String> = sig.iter().filter(|x| x.starts_with("le:") || x.starts_with("long-") || x.contains("tag-store") || x.starts_with("run") || x.starts_with("temp") || x.starts_with("include")).cloned().collect();
        runner.cases[idx].sig = sig2;
        if i == 0 {
            rep.sample(format!("{} => {}: files {:?}", cfg.describe(), runner.cases[idx].imp.verdict, runner.cases[idx].imp.after.files.keys().collect::<Vec<_>>()));
        }
    }
    rep.countn("generated_files_scanned", scans);
    if args.shard == 0 {
        run_corners(&mut rep, &mut runner, "C12");
    }
    compare_all(&mut rep, &runner, &model, "C12", "C12.directive_output_one_ending, tag_content_one_ending, temp_content_one_ending, sniff_first_line");
    runner.cleanup();
    rep
}

pub fn run_c13(args: &Args) -> Report {
    let mut rep = Report::new("C13", "M5", &args.replay_dir);
    let model = Model::new(&args.model, &args.work);
    let mut rng = Rng::new(args.seed.wrapping_mul(1000).wrapping_add(args.shard as u64).wrapping_add(0xC13));
    let total = if args.thorough() { 12000 } else { 900 };
    let n = total / args.shards.max(1);
    // no include/after of *generated* files: the option legitimately changes a dependency's final line
    // ending, which an includer then sees in the middle of its own output (the theorem is per file, same world)
    let opts = GenOpts { error_pct: 5, crlf_pct: 40, deps: false, ..GenOpts::default() };
    rep.rule = "each generated project (sources independent of each other: no include of generated files, see DESIGN C13) is built twice from the same tree, trailing newline on and off (sources ending in a text line, blank line, directive with / without newline-terminated output, no final newline, empty file; LF/CRLF). Oracle on the implementation: same verdict; every file other than the outputs byte-identical (temp files unchanged by the option); each output pair o_on, o_off satisfies o_on = o_off or o_on = o_off ++ le; for sources forced to end in an ordinary text line o_off ends with that line and o_on = o_off ++ le. Both runs are also compared with the model. distinct_nontrivial = distinct (end-of-file shape, line ending, relation observed).".to_string();
    let mut runner = Runner::new(args, "c13");
    for i in 0..n {
        let mut p = gen_project(&mut rng, &opts);
        // half of the cases: force the first source to end with an ordinary text line
        let forced = rng.chance(1, 2);
        let s0 = p.sources[0].clone();
        if forced {
            let c = p.file_mut(&s0).unwrap();
            let le = sniff(c).to_string();
            if !c.is_empty() && !c.ends_with(b"\n") {
                c.extend_from_slice(le.as_bytes());
            }
            c.extend_from_slice(b"~\nEND of file");
            if rng.chance(1, 2) {
                c.extend_from_slice(le.as_bytes());
            }
        }
        let mut outs: Vec<(Obs, RunCfg)> = vec![];
        for trailing in [true, false] {
            materialize(&p, &runner.dir);
            let mut cfg = RunCfg::build_all();
            cfg.trailing = trailing;
            cfg.threads = 1 + rng.below(4);
            let idx = runner.run_here(&cfg, &p.cmds, vec![], &format!("project #{i} trailing={trailing}"));
            outs.push((runner.cases[idx].imp.clone(), cfg));
        }
        let (on, off) = (&outs[0].0, &outs[1].0);
        let case = &runner.cases[runner.cases.len() - 1];
        let mut fail: Option<String> = None;
        let mut rel = vec![];
        if on.verdict != off.verdict {
            fail = Some(format!("verdict differs: trailing on `{}`, off `{}`", on.verdict, off.verdict));
        } else if on.verdict == "ok" {
            let outputs: Vec<String> = p.sources.iter().map(|s| output_name(s)).collect();
            for (f, d_on) in &on.after.files {
                let d_off = off.after.files.get(f);
                if !outputs.contains(f) {
                    if d_off != Some(d_on) {
                        fail = Some(format!("file `{f}` (not an output, e.g. a temp file) differs between the two settings"));
                    }
                    continue;
                }
                let src = p.sources.iter().find(|s| &output_name(s) == f).unwrap();
                let le = sniff(&p.files.iter().find(|x| &x.0 == src).unwrap().1);
                match d_off {
                    None => fail = Some(format!("output `{f}` missing with trailing off")),
                    Some(d_off) => {
                        let mut plus = d_off.clone();
                        plus.extend_from_slice(le.as_bytes());
                        if d_on == d_off {
                            rel.push("same");
                        } else if *d_on == plus {
                            rel.push("plus-le");
                        } else {
                            fail = Some(format!("output `{f}`: on {:?} vs off {:?}: not equal up to one final line ending", String::from_utf8_lossy(d_on), String::from_utf8_lossy(d_off)));
                        }
                        if forced && *src == s0 && fail.is_none() {
                            if !(d_off.ends_with(b"END of file") && *d_on == plus) {
                                fail = Some(format!("source `{src}` ends with the ordinary line `END of file` but output off = {:?}, on = {:?}", String::from_utf8_lossy(d_off), String::from_utf8_lossy(d_on)));
                            }
                        }
                    }
                }
            }
        }
        if let Some(what) = fail {
            rep.violation("oracle", &what, &replay_body(&case.before, &case.cfg, &case.cmds, &format!("# pair check (run with trailing on and off): {what}\n")));
        }
        // the option must mean the same in a `--needed` rebuild over outputs of the other setting
        if on.verdict == "ok" && rng.chance(1, 3) {
            let (on, off) = (outs[0].0.clone(), outs[1].0.clone());
            let first_on = rng.chance(1, 2);
            materialize(&p, &runner.dir);
            let mut last = None;
            for step in 0..2 {
                let mut cfg = RunCfg::build_all();
                cfg.mode = "needed";
                cfg.trailing = if step == 0 { first_on } else { !first_on };
                cfg.threads = 2;
                last = Some(runner.run_here(&cfg, &p.cmds, vec![format!("needed-sequence|first_on={first_on}")], &format!("project #{i} needed step {step}")));
            }
            let c = &runner.cases[last.unwrap()];
            let want = if first_on { &off } else { &on };
            if c.imp.verdict != "ok" || c.imp.after.files != want.after.files {
                let what = format!(
                    "--needed rebuild with trailing={} over a tree built with trailing={} does not give the files of a fresh build with trailing={}",
                    !first_on, first_on, !first_on
                );
                rep.violation("oracle", &what, &replay_body(&c.before, &c.cfg, &c.cmds, &format!("# {what}\n")));
            }
        }
        let endsig: Vec<String> = p.sig.iter().filter(|x| x.starts_with("ends-") || x.starts_with("empty-file")).cloned().collect();
        let n_cases = runner.cases.len();
        runner.cases[n_cases - 1].sig = vec![format!("{:?}|{:?}|forced={forced}", endsig, rel)];
        if i == 0 {
            rep.sample(format!("project #{i}: trailing on/off verdicts {}/{}; relations {:?}", on.verdict, off.verdict, rel));
        }
    }
    // the option is per run, not per role: a source that is built only because another file includes it (it is not an
    // input itself) loses its final line ending with the option off exactly like a requested one
    if args.shard == 0 {
        for crlf in [false, true] {
            let le = if crlf { "\r\n" } else { "\n" };
            for how in ["include", "after"] {
                let p = Project {
                    files: vec![
                        ("main.txt.txtpp".into(), format!("top{le}TXTPP#{how} part.txt{le}bottom{le}").into_bytes()),
                        ("part.txt.txtpp".into(), format!("one{le}END of part{le}").into_bytes()),
                    ],
                    dirs: vec![],
                    cmds: vec![],
                    sources: vec!["main.txt.txtpp".into(), "part.txt.txtpp".into()],
                    sig: vec![],
                    expect_error: false,
                };
                let mut got: Vec<Option<Vec<u8>>> = vec![];
                for trailing in [true, false] {
                    materialize(&p, &runner.dir);
                    let mut cfg = RunCfg::build_all();
                    cfg.trailing = trailing;
                    cfg.threads = 2;
                    cfg.inputs = vec!["main.txt".to_string()];
                    let idx = runner.run_here(&cfg, &p.cmds, vec![format!("dependency-only|{how}|{crlf}|{trailing}")], &format!("dependency-only source, {how}, trailing={trailing}"));
                    got.push(runner.cases[idx].imp.after.files.get("part.txt").cloned());
                }
                let want_off = format!("one{le}END of part").into_bytes();
                let want_on = format!("one{le}END of part{le}").into_bytes();
                if got[0].as_ref() != Some(&want_on) || got[1].as_ref() != Some(&want_off) {
                    let case = &runner.cases[runner.cases.len() - 1];
                    let what = format!(
                        "a source built only as a dependency ({how}): its output with the option on is {:?}, off {:?}; expected {:?} / {:?}",
                        got[0].as_ref().map(|b| String::from_utf8_lossy(b).to_string()), got[1].as_ref().map(|b| String::from_utf8_lossy(b).to_string()),
                        String::from_utf8_lossy(&want_on), String::from_utf8_lossy(&want_off)
                    );
                    rep.violation("oracle", &what, &replay_body(&case.before, &case.cfg, &case.cmds, &format!("# {what}\n")));
                }
            }
        }
    }
    if args.shard == 0 {
        run_corners(&mut rep, &mut runner, "C13");
    }
    compare_all(&mut rep, &runner, &model, "C13", "C13.trailing_only_final, C13.pass_trailing");
    runner.cleanup();
    rep
}

const C16_LINES: [&str; 22] = [
    "TXTPP#runx y", "TXTPP#run\tx", "TXTPP #run x", "txtpp#run x", "-TXTPP#", "  -TXTPP#foo", "XTXTPP#includes a",
    "plain text", "", "  indented", "trailing  ", "é ü 日本", "TXTPP#tagx", "#TXTPP", "// comment", "TAG1", "- item",
    "\ttab\t", "a  b", "TXTPP#Write a", "TXTPP#temporary x", "x TXTPP# run",
];

pub fn run_c16(args: &Args) -> Report {
    let mut rep = Report::new("C16", "M5", &args.replay_dir);
    let model = Model::new(&args.model, &args.work);
    let mut rng = Rng::new(args.seed.wrapping_mul(1000).wrapping_add(args.shard as u64).wrapping_add(0xC16));
    let total = if args.thorough() { 15000 } else { 1000 };
    let n = total / args.shards.max(1);
    rep.rule = "two kinds of single-source cases over an alphabet rich in directive look-alikes. (identity) sources without any directive line (the model's detectFrom rejects every line): oracle = output bytes equal the source lines joined by the source's line ending, final newline per option. (write-escape) a random text L (first line without leading blank, no trailing blanks; may contain real directive lines, tag names in use, look-alikes) escaped as `-TXTPP#write L0 / -L1 / ...`, optionally after a stored tag whose name occurs in L: oracle = output equals L joined by the line ending (+ the rest of the file). LF/CRLF, with/without final newline, both trailing settings. All cases also compared with the model. distinct_nontrivial = distinct (kind, line-set shape, le, final newline, trailing).".to_string();
    let mut runner = Runner::new(args, "c16");
    // which lines of the alphabet are ordinary text is decided by the grammar (the Lean model of `detect_from`,
    // proved equal to the declarative grammar of C15), never by the implementation under test
    let verdicts = model.batch(&C16_LINES.iter().map(|l| format!("detect {}", crate::util::hexs(l))).collect::<Vec<_>>());
    let ordinary: std::collections::HashSet<&str> =
        C16_LINES.iter().zip(verdicts.iter()).filter(|(_, v)| v.trim() == "N").map(|(l, _)| *l).collect();
    assert!(ordinary.len() >= 10, "model driver did not answer the detect requests: {verdicts:?}");
    let esc_extra = ["-TXTPP#run echo no", "TXTPP#include x", "-TXTPP#tag T", "  -TXTPP#write z", "TAG1 here", "-", "TXTPP#"];
    for i in 0..n {
        let crlf = rng.chance(1, 3);
        let le = if crlf { "\r\n" } else { "\n" };
        let final_nl = rng.chance(2, 3);
        let trailing = !rng.chance(1, 3);
        let kind = if rng.chance(1, 2) { "identity" } else { "escape" };
        let nl = rng.below(6);
        let mut lines: Vec<String> = (0..nl).map(|_| (*rng.pick(&C16_LINES)).to_string()).collect();
        let mut src_lines: Vec<String> = vec![];
        let expected_core: String;
        let mut with_tag = false;
        if kind == "identity" {
            lines.retain(|l| ordinary.contains(l.as_str()));
            // "a\n" + "" without final newline is the same text as "a" with one: keep the representation unique
            while !final_nl && lines.last().map(|l| l.is_empty()).unwrap_or(false) {
                lines.pop();
            }
            src_lines = lines.clone();
            expected_core = lines.join(le);
        } else {
            if lines.is_empty() {
                lines.push("x".to_string());
            }
            for l in lines.iter_mut() {
                if rng.chance(1, 4) {
                    *l = (*rng.pick(&esc_extra)).to_string();
                }
                *l = l.trim_end().to_string();
            }
            lines[0] = lines[0].trim_start().to_string();
            with_tag = rng.chance(1, 3);
            let mut exp: Vec<String> = vec![];
            // sometimes a second stored tag whose NAME occurs in the text stored for the first: substituted text is inert too
            let two_tags = with_tag && rng.chance(1, 2);
            if with_tag {
                src_lines.push("@@TXTPP#tag TAG1".to_string());
                src_lines.push(if two_tags { "@@TXTPP#write stored TAG2 end".to_string() } else { "@@TXTPP#write stored".to_string() });
            }
            if two_tags {
                // another prefix: a line starting with `@@` would continue the write block above
                src_lines.push("%%TXTPP#tag TAG2".to_string());
                src_lines.push("%%TXTPP#write two".to_string());
            }
            let pre = *rng.pick(&["-", "-", "//", "# ", "» ", "§", "é"]);
            src_lines.push(format!("{pre}TXTPP#write {}", lines[0]));
            for l in &lines[1..] {
                if l.is_empty() && pre.ends_with(' ') && rng.chance(1, 2) {
                    src_lines.push(pre.trim_end().to_string());
                } else {
                    src_lines.push(format!("{pre}{l}"));
                }
            }
            exp.extend(lines.iter().cloned());
            // what follows the block: an ordinary line that must end the directive and be copied
            let mut follow = String::new();
            if with_tag && two_tags {
                src_lines.push("use TAG1 and TAG2.".to_string());
                follow = "use stored TAG2 end and two.".to_string();
            } else if with_tag {
                src_lines.push("use TAG1.".to_string());
                follow = "use stored.".to_string();
            } else if rng.chance(1, 2) {
                let cands: Vec<String> = vec![" y".into(), "  indented line".into(), "   three".into(), "plain".into(), format!("{}z", " ".repeat(pre.chars().count()))];
                let f = rng.pick(&cands).clone();
                // it must not be a continuation by the documented rule (prefix, or byte-length many spaces)
                if !f.starts_with(pre) && !f.starts_with(&" ".repeat(pre.len())) && f != pre.trim_end() {
                    src_lines.push(f.clone());
                    follow = f;
                }
            }
            // write output has no final line ending of its own: the following text joins it (README splice rule)
            expected_core = exp.join(le) + &follow;
        }
        let mut content = src_lines.join(le).into_bytes();
        if final_nl && !src_lines.is_empty() {
            content.extend_from_slice(le.as_bytes());
        }
        // an empty identity source, or one whose first line is empty with LF, keeps the LF default
        let le_eff = sniff(&content);
        let p = Project { files: vec![("a.txt.txtpp".to_string(), content)], dirs: vec![], cmds: vec![], sources: vec!["a.txt.txtpp".into()], sig: vec![], expect_error: false };
        materialize(&p, &runner.dir);
        let mut cfg = RunCfg::build_all();
        cfg.trailing = trailing;
        cfg.threads = 1 + rng.below(3);
        // expected bytes, computed from the input text directly
        let core = if le_eff == le { expected_core.clone() } else { expected_core.replace(le, le_eff) };
        let mut expected = core.into_bytes();
        let nonempty = if kind == "identity" { !src_lines.is_empty() } else { true };
        if trailing && nonempty {
            expected.extend_from_slice(le_eff.as_bytes());
        }
        // a history: an earlier run left the same text with the other line ending, or with / without the final line
        // ending; the only-if-needed rebuild has to bring the output to the bytes of the source as it is now
        let mut hist = "fresh";
        if rng.chance(1, 3) {
            let text = String::from_utf8_lossy(&expected).to_string();
            let old: Vec<u8> = match rng.below(3) {
                0 => {
                    hist = "other-line-ending";
                    if le_eff == "\n" { text.replace('\n', "\r\n").into_bytes() } else { text.replace("\r\n", "\n").into_bytes() }
                }
                1 => {
                    hist = "final-line-ending-flipped";
                    if text.ends_with(le_eff) { text[..text.len() - le_eff.len()].as_bytes().to_vec() } else { format!("{text}{le_eff}").into_bytes() }
                }
                _ => {
                    hist = "same-bytes";
                    expected.clone()
                }
            };
            let _ = std::fs::write(runner.dir.join("a.txt"), &old);
            cfg.mode = "needed";
        }
        let idx = runner.run_here(&cfg, &p.cmds, vec![format!("{kind}|n={}|crlf={crlf}|fnl={final_nl}|tr={trailing}|tag={with_tag}|{hist}", lines.len().min(4))], &format!("{kind} #{i} ({hist})"));
        let c = &runner.cases[idx];
        let got = c.imp.after.files.get("a.txt");
        if c.imp.verdict != "ok" || got != Some(&expected) {
            let what = format!(
                "{kind}: source {:?} must produce {:?} but the run gave verdict `{}` and output {:?}",
                String::from_utf8_lossy(&p.files[0].1),
                String::from_utf8_lossy(&expected),
                c.imp.verdict,
                got.map(|g| String::from_utf8_lossy(g).to_string())
            );
            rep.violation("oracle", &what, &replay_body(&c.before, &c.cfg, &c.cmds, &format!("# {what}\n")));
        }
        if i < 2 {
            rep.sample(format!("{kind}: source {:?} => {:?}", String::from_utf8_lossy(&p.files[0].1), got.map(|g| String::from_utf8_lossy(g).to_string())));
        }
    }
    if args.shard == 0 {
        run_corners(&mut rep, &mut runner, "C16");
    }
    compare_all(&mut rep, &runner, &model, "C16", "C16.no_directive_identity, C16.directive_output_inert");
    runner.cleanup();
    rep
}

/// replay a stored case: run the implementation and the model again
pub fn replay(args: &Args, property: &str, path: &std::path::Path) -> Report {
    let mut rep = Report::new(property, "M5", &args.replay_dir);
    let model = Model::new(&args.model, &args.work);
    let text = std::fs::read_to_string(path).unwrap_or_default();
    if let Some(rc) = parse_replay(&text) {
        let mut runner = Runner::new(args, "replay");
        write_tree(&rc.tree, &runner.dir);
        runner.run_here(&rc.cfg, &rc.cmds, vec![], "replay");
        compare_all(&mut rep, &runner, &model, property, "(replay)");
        runner.cleanup();
    } else {
        rep.notes.push("replay file has no stored case".to_string());
    }
    rep
}

/// C15 end to end: how the line loop groups lines into directives (`iterate_directive` on top of `detect_from` /
/// `add_line`): every (directive line, candidate continuation line, third line) combination over small alphabets
/// of white space, prefixes and directive-shaped remainders, run through `Txtpp::run` and compared with the model.
pub fn run_c15e(args: &Args) -> Report {
    let mut rep = Report::new("C15", "M5-grouping", &args.replay_dir);
    let model = Model::new(&args.model, &args.work);
    rep.rule = "exhaustive: directive line = {ws}{prefix}TXTPP#{temp t.tmp | write w | (empty) | run echo one} x ws in {\"\", two blanks} x prefix in {//, // , -, e-acute blank, (none for the single-line forms)}; second line = same ws + {prefix, prefix-many blanks, prefix without its trailing blank, prefix without trailing blank + TAB, other prefix, nothing} + {TXTPP#run echo two, TXTPP#temp u.tmp, TXTPP#, TXTPP#tag T, x, (empty)}; third line in {plain, continuation-looking, none}; one source each, Txtpp::run (build) vs the Lean model: verdict, output bytes, temp files. distinct_nontrivial = cases whose second line is directive-shaped.".to_string();
    let mut runner = Runner::new(args, "c15e");
    let cmds: Vec<(String, Vec<Act>)> = vec![
        ("echo one".into(), vec![Act { kind: "lit", arg: "one\n".into() }]),
        ("echo two".into(), vec![Act { kind: "lit", arg: "two\n".into() }]),
    ];
    let heads = ["TXTPP#temp t.tmp", "TXTPP#write w", "TXTPP#", "TXTPP#run echo one"];
    let rests = ["TXTPP#run echo two", "TXTPP#temp u.tmp", "TXTPP#", "TXTPP#tag T", "x", ""];
    let mut n = 0usize;
    let mut nontrivial = 0u64;
    for ws in ["", "  "] {
        for pre in ["//", "// ", "-", "é "] {
            for head in heads {
                let l1 = format!("{ws}{pre}{head}");
                let lead: Vec<String> = vec![
                    format!("{ws}{pre}"),
                    format!("{ws}{}", " ".repeat(pre.len())),
                    format!("{ws}{}", pre.trim_end()),
                    format!("{ws}{}\t", pre.trim_end()),
                    format!("{ws}#"),
                    ws.to_string(),
                ];
                for ld in &lead {
                    for rest in rests {
                        for third in ["", "plain", "cont"] {
                            n += 1;
                            if n % args.shards.max(1) != args.shard {
                                continue;
                            }
                            let l2 = format!("{ld}{rest}");
                            let mut text = format!("{l1}\n{l2}\n");
                            match third {
                                "plain" => text.push_str("plain end\n"),
                                "cont" => text.push_str(&format!("{ws}{pre}more\n")),
                                _ => {}
                            }
                            let p = Project { files: vec![("a.txt.txtpp".into(), text.clone().into_bytes())], dirs: vec![], cmds: cmds.clone(), sources: vec!["a.txt.txtpp".into()], sig: vec![], expect_error: false };
                            materialize(&p, &runner.dir);
                            let mut cfg = RunCfg::build_all();
                            cfg.threads = 1;
                            runner.run_here(&cfg, &p.cmds, vec![format!("{head}|{}|{rest}|{third}", if ws.is_empty() { "nows" } else { "ws" })], &format!("source {:?}", text));
                            if rest.starts_with("TXTPP#") {
                                nontrivial += 1;
                            }
                        }
                    }
                }
            }
        }
    }
    if args.shard == 0 {
        run_corners(&mut rep, &mut runner, "C15");
    }
    compare_all(&mut rep, &runner, &model, "C15", "C15.continuation_iff_grammar, detect_iff_grammar (grouping of lines by the line loop)");
    rep.distinct = Some(nontrivial);
    runner.cleanup();
    rep
}

/// C14 end to end: how the pass feeds a listening tag (`capture the NEXT directive output`, also when that output
/// is empty) and substitutes stored tags in the following lines - small sources through `Txtpp::run` vs the model.
pub fn run_c14e(args: &Args) -> Report {
    let mut rep = Report::new("C14", "M5-tags", &args.replay_dir);
    let model = Model::new(&args.model, &args.work);
    rep.rule = "exhaustive over small sources: `tag T`, then a first output-producing directive in {write with empty argument, include of an empty file, command printing nothing, write x, include of a one-line file, command printing a line}, optionally a second tag U with its own producer, optionally one more producer whose output must stay in place, then use lines in {[T], [T] [U], [U][T], T alone, none}; LF and CRLF; Txtpp::run (build) vs the Lean model: verdict (unused tag = error), output bytes. distinct_nontrivial = cases whose first captured output is empty.".to_string();
    let mut runner = Runner::new(args, "c14e");
    let cmds: Vec<(String, Vec<Act>)> = vec![
        ("true".into(), vec![Act { kind: "true", arg: String::new() }]),
        ("echo one".into(), vec![Act { kind: "lit", arg: "one\n".into() }]),
    ];
    let producers = ["-TXTPP#write", "TXTPP#include empty.txt", "-TXTPP#run true", "-TXTPP#write x", "TXTPP#include one.txt", "-TXTPP#run echo one"];
    let uses = ["[T]", "[T] [U]", "[U][T]", "T", ""];
    let mut n = 0usize;
    let mut nontrivial = 0u64;
    for crlf in [false, true] {
        let le = if crlf { "\r\n" } else { "\n" };
        for (pi, p1) in producers.iter().enumerate() {
            for second in [None, Some(0usize), Some(3), Some(5)] {
                for extra in [None, Some(3usize), Some(4)] {
                    for u in uses {
                        n += 1;
                        if n % args.shards.max(1) != args.shard {
                            continue;
                        }
                        let mut lines: Vec<String> = vec!["top".into(), "-TXTPP#tag T".into(), p1.to_string(), "~".into()];
                        if let Some(k) = second {
                            lines.push("-TXTPP#tag U".into());
                            lines.push(producers[k].to_string());
                            lines.push("~".into());
                        }
                        if let Some(k) = extra {
                            lines.push(producers[k].to_string());
                            lines.push("~".into());
                        }
                        if !u.is_empty() {
                            lines.push(u.to_string());
                        }
                        lines.push("end".into());
                        let text = lines.join(le) + le;
                        let p = Project {
                            files: vec![("a.txt.txtpp".into(), text.clone().into_bytes()), ("empty.txt".into(), vec![]), ("one.txt".into(), b"one\n".to_vec())],
                            dirs: vec![],
                            cmds: cmds.clone(),
                            sources: vec!["a.txt.txtpp".into()],
                            sig: vec![],
                            expect_error: false,
                        };
                        materialize(&p, &runner.dir);
                        let mut cfg = RunCfg::build_all();
                        cfg.threads = 1;
                        runner.run_here(&cfg, &p.cmds, vec![format!("p{pi}|{:?}|{:?}|{u}|{crlf}", second, extra)], &format!("source {:?}", text));
                        if pi < 3 {
                            nontrivial += 1;
                        }
                    }
                }
            }
        }
    }
    if args.shard == 0 {
        run_corners(&mut rep, &mut runner, "C14");
    }
    compare_all(&mut rep, &runner, &model, "C14", "C14.capture_next_output, no_capture_without_tag, eof_unused_is_error, inject_spec (tags through the pass)");
    rep.distinct = Some(nontrivial);
    runner.cleanup();
    rep
}


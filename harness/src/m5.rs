//! M5: `Txtpp::run` on generated projects vs the Lean whole-run model (`runProject`), which runs the
//! proved-equal streaming machine / specification of C01 on every source.
use crate::gen::*;
use crate::proj::*;
use crate::util::*;
use std::path::PathBuf;

pub struct Case {
    pub before: Tree,
    pub cfg: RunCfg,
    pub cmds: Vec<(String, Vec<Act>)>,
    pub imp: Obs,
    pub sig: Vec<String>,
    pub label: String,
}

pub struct Runner<'a> {
    pub args: &'a Args,
    pub dir: PathBuf,
    pub log: PathBuf,
    pub base_abs: String,
    pub cases: Vec<Case>,
}

impl<'a> Runner<'a> {
    pub fn new(args: &'a Args, tag: &str) -> Self {
        let dir = args.work.join(format!("case-{}-{}", tag, std::process::id()));
        let _ = std::fs::remove_dir_all(&dir);
        std::fs::create_dir_all(&dir).unwrap();
        let base = canonical(&dir).join("p");
        let log = canonical(&dir).join("markers.log");
        Runner {
            args,
            base_abs: base.to_string_lossy().to_string(),
            dir: base,
            log,
            cases: vec![],
        }
    }
    /// run the implementation on the tree currently in `self.dir` and remember the case
    pub fn run_here(&mut self, cfg: &RunCfg, cmds: &[(String, Vec<Act>)], sig: Vec<String>, label: &str) -> usize {
        let (before, _) = snapshot(&self.dir);
        let imp = run_impl(&self.dir, cfg, &self.log);
        self.cases.push(Case {
            before,
            cfg: cfg.clone(),
            cmds: cmds.to_vec(),
            imp,
            sig,
            label: label.to_string(),
        });
        self.cases.len() - 1
    }
    pub fn model_all(&self, model: &Model) -> Vec<Option<Obs>> {
        let reqs: Vec<String> = self
            .cases
            .iter()
            .map(|c| encode_request(&c.before, &c.cfg, &c.cmds, &self.base_abs))
            .collect();
        let resp = model.batch(&reqs);
        resp.iter().zip(self.cases.iter()).map(|(r, c)| parse_response(r, &c.before)).collect()
    }
    pub fn cleanup(&self) {
        if let Some(p) = self.dir.parent() {
            let _ = std::fs::remove_dir_all(p);
        }
    }
}

/// compare all cases with the model; divergences are reported by `on_div`
pub fn compare_all(rep: &mut Report, runner: &Runner, model: &Model, property: &str, theorems: &str) {
    let ms = runner.model_all(model);
    for (c, m) in runner.cases.iter().zip(ms.iter()) {
        rep.evaluations += 1;
        rep.count(&format!("verdict:{}", c.imp.verdict));
        rep.count(&format!("mode:{}", c.cfg.mode));
        for s in &c.sig {
            rep.sigs.insert(s.clone());
        }
        match m {
            None => {
                rep.violation(
                    "divergence",
                    &format!("the model driver could not evaluate the case ({})", c.label),
                    &replay_body(&c.before, &c.cfg, &c.cmds, ""),
                );
            }
            Some(m) => {
                let d = diff_obs(&c.imp, m);
                if !d.is_empty() {
                    let extra = format!(
                        "# correspondence M5 (Txtpp::run vs Lean runProject); theorems resting on it: {}\n# differences:\n{}",
                        theorems,
                        d.iter().map(|x| format!("#   {x}\n")).collect::<String>()
                    );
                    // The model is the proved-equal README semantics: inside the documented domain a
                    // difference in verdict or bytes IS an output that is not what the semantics prescribe.
                    rep.violation(
                        "oracle",
                        &format!("{property}: {} [{}] {}", d[0], c.label, c.cfg.describe()),
                        &replay_body(&c.before, &c.cfg, &c.cmds, &extra),
                    );
                }
            }
        }
    }
}

pub fn run_c01(args: &Args) -> Report {
    let mut rep = Report::new("C01", "M5", &args.replay_dir);
    let model = Model::new(&args.model, &args.work);
    let mut rng = Rng::new(args.seed.wrapping_mul(1000).wrapping_add(args.shard as u64));
    let total = if args.thorough() { 60000 } else { 1600 };
    let n = total / args.shards.max(1);
    let opts = GenOpts::default();
    rep.rule = "seeded grammar-aware generator of 1-3-file projects inside the documented domain (DESIGN 4.3): items = text | include static/dep | after | run (vocabulary commands through real sh, 1-3 argument lines in the three continuation forms) | temp (+ read back) | write | tag (+ use) | empty directive, each block followed by EOF / text / near-miss continuation / other directive; LF/CRLF/mixed, final newline or not, 10% error cases; both trailing settings; threads 1-8. Compared with the Lean model: verdict, and on success every byte of every file in the tree, the executed-command markers, and untouched paths. distinct_nontrivial = number of distinct generator coverage signatures (directive kind x argument-line count x continuation forms x terminator x end-of-file shape x error kind) hit.".to_string();
    let mut runner = Runner::new(args, "c01");
    for i in 0..n {
        let p = gen_project(&mut rng, &opts);
        materialize(&p, &runner.dir);
        let mut cfg = RunCfg::build_all();
        cfg.trailing = !rng.chance(1, 3);
        cfg.threads = 1 + rng.below(8);
        if rng.chance(1, 4) {
            // name the first source explicitly (by source or output name) instead of scanning
            let s = &p.sources[0];
            cfg.inputs = vec![if rng.chance(1, 2) { s.clone() } else { output_name(s) }];
        }
        let idx = runner.run_here(&cfg, &p.cmds, p.sig.clone(), &format!("project #{i}"));
        if i < 2 {
            let c = &runner.cases[idx];
            let (f, content) = p.files.last().unwrap();
            rep.sample(format!("{} => {}: source {} = {:?}", cfg.describe(), c.imp.verdict, f, String::from_utf8_lossy(content)));
        }
    }
    compare_all(&mut rep, &runner, &model, "C01", "C01.pp_refines_spec (machine_eq_spec)");
    runner.cleanup();
    rep
}

/// replay a stored case: run the implementation and the model again
pub fn replay(args: &Args, property: &str, path: &std::path::Path) -> Report {
    let mut rep = Report::new(property, "M5", &args.replay_dir);
    let model = Model::new(&args.model, &args.work);
    let text = std::fs::read_to_string(path).unwrap_or_default();
    if let Some(rc) = parse_replay(&text) {
        let mut runner = Runner::new(args, "replay");
        write_tree(&rc.tree, &runner.dir);
        runner.run_here(&rc.cfg, &rc.cmds, vec![], "replay");
        compare_all(&mut rep, &runner, &model, property, "(replay)");
        runner.cleanup();
    } else {
        rep.notes.push("replay file has no stored case".to_string());
    }
    rep
}

//! M7: histories of runs over pre-state trees (build / needed / verify / clean, tampering, edits,
//! stale or corrupt generated files, kills) vs the Lean whole-run model, with the direct oracles of
//! C06 (verify), C07 (clean), C08 (hermetic), C09 (needed), C10 (frame).
use crate::gen::*;
use crate::m5::*;
use crate::proj::*;
use crate::util::*;
use std::collections::BTreeSet;

fn hist_opts() -> GenOpts {
    GenOpts { error_pct: 0, max_sources: 3, ..GenOpts::default() }
}

fn decoys(p: &Project, rng: &mut Rng) -> Vec<(String, Vec<u8>)> {
    let mut d = vec![("README.md".to_string(), b"decoy\n".to_vec()), ("sub_decoy.txt".to_string(), b"x".to_vec())];
    for s in &p.sources {
        let o = output_name(s);
        for suffix in ["~", ".bak", ".orig"] {
            if rng.chance(1, 3) {
                d.push((format!("{o}{suffix}"), b"near miss\n".to_vec()));
            }
        }
        if rng.chance(1, 3) && o.len() > 1 {
            d.push((o[..o.len() - 1].to_string(), b"short name\n".to_vec()));
        }
        if rng.chance(1, 4) {
            // not a txtpp name (`x.txtpp.bak` would be: shape foo.txtpp.ext)
            let name = if s.ends_with(".txtpp") { format!("{s}~") } else { format!("{s}.x.y") };
            d.push((name, b"TXTPP#run echo never\n".to_vec()));
        }
        // the staging name a careless "atomic write" would use
        if rng.chance(1, 2) {
            let stem = match o.rfind('.') {
                Some(i) if i > o.rfind('/').map(|x| x + 1).unwrap_or(0) => o[..i].to_string(),
                _ => o.clone(),
            };
            d.push((format!("{stem}.tmp"), b"user file\n".to_vec()));
        }
    }
    for dir in &p.dirs {
        if rng.chance(1, 2) {
            d.push((format!("{dir}/notes.txt"), b"keep me\n".to_vec()));
        }
    }
    // names that contain `txtpp` without being txtpp names (no stem / wrong position), next to the file that
    // would be their "output" if they were taken for sources
    if rng.chance(1, 2) {
        let dir = if !p.dirs.is_empty() && rng.chance(1, 2) { format!("{}/", rng.pick(&p.dirs)) } else { String::new() };
        match rng.below(4) {
            0 => {
                d.push((format!("{dir}txtpp.md"), b"TXTPP#run echo never\n".to_vec()));
                d.push((format!("{dir}txtpp"), b"a file called txtpp\n".to_vec()));
            }
            1 => d.push((format!("{dir}.txtpp"), b"dotfile, not a source\n".to_vec())),
            2 => d.push((format!("{dir}.txtpp.md"), b"TXTPP#run echo never\n".to_vec())),
            _ => {
                d.push((format!("{dir}notes.txtppx"), b"TXTPP#run echo never\n".to_vec()));
                d.push((format!("{dir}atxtpp.md"), b"TXTPP#run echo never\n".to_vec()));
            }
        }
    }
    d.retain(|(n, _)| !p.files.iter().any(|f| &f.0 == n) && !p.sources.iter().any(|s| &output_name(s) == n));
    d.sort();
    d.dedup_by(|a, b| a.0 == b.0);
    d
}

fn with_decoys(p: &Project, rng: &mut Rng) -> Project {
    let mut q = p.clone();
    for d in decoys(p, rng) {
        q.files.push(d);
    }
    q
}

/// paths txtpp may touch: outputs of the sources and their temp targets (named t<srcid>_…)
fn allowed(p: &Project, path: &str) -> bool {
    if p.sources.iter().any(|s| output_name(s) == path) {
        return true;
    }
    let name = path.rsplit('/').next().unwrap_or(path);
    p.sources.iter().any(|s| {
        let srcid = s.replace('/', "_").replace('.', "_");
        name.starts_with(&format!("t{srcid}_"))
    })
}

fn generated_paths(t0: &Tree, tref: &Tree) -> Vec<String> {
    tref.files.keys().filter(|k| !t0.files.contains_key(*k)).cloned().collect()
}

fn tamper(data: &[u8], how: usize, rng: &mut Rng) -> Option<Vec<u8>> {
    let mut d = data.to_vec();
    let n = d.len();
    match how {
        0 if n > 0 => d[0] ^= 0x01,
        1 if n > 0 => d[n / 2] ^= 0x20,
        2 if n > 0 => d[n - 1] ^= 0x01,
        3 => d.push(b'z'),
        4 => d.insert(0, b' '),
        5 if n > 0 => {
            d.remove(n / 2);
        }
        6 if n > 0 => d.truncate(n - 1),
        7 if n > 1 => d.truncate(rng.below(n)),
        8 => d.insert(n / 2, b'\n'),
        9 => d.clear(),
        10 => d.extend_from_slice(b"\r\n"),
        _ => return None,
    }
    if d == data {
        None
    } else {
        Some(d)
    }
}

/// on how many of the generated sources does the executable side condition (`srcSafeB`) of the pass-level
/// theorems (C06 verify iff, C08 hermetic/idempotent, C09 needed = build) hold? goes into the evidence
fn report_side_condition(rep: &mut Report, model: &Model, safe_reqs: &[String]) {
    let mut tot = (0usize, 0usize, 0usize);
    for (q, r) in safe_reqs.iter().zip(model.batch(safe_reqs).iter()) {
        match parse_safe_response(r) {
            Some((a, b, c, names)) => {
                tot = (tot.0 + a, tot.1 + b, tot.2 + c);
                if !names.is_empty() && rep.notes.len() < 3 {
                    rep.notes.push(format!("side condition `Safe` does not hold for {:?} (the pass-level theorems do not apply there; the oracles do)", names));
                }
            }
            None => rep.notes.push(format!("model driver: no answer to a `safe` request ({} bytes): {:?}", q.len(), r.chars().take(60).collect::<String>())),
        }
    }
    rep.countn("theorem_side_condition_holds_sources", tot.0 as u64);
    rep.countn("theorem_side_condition_fails_sources", tot.1 as u64);
    rep.countn("theorem_side_condition_not_applicable_sources", tot.2 as u64);
}

/// the whole-project theorems: on how many generated projects do their executable side conditions hold, and do their
/// conclusions hold in the model wherever they do (a `false` there would contradict a kernel-checked theorem: driver defect)
fn report_project_condition(rep: &mut Report, model: &Model, reqs: &[String], which: &str) {
    for (q, r) in reqs.iter().zip(model.batch(reqs).iter()) {
        match parse_projsafe_response(r) {
            Some(m) => {
                let deps = if m.get("deps").map(|x| x == "true").unwrap_or(false) { "with-dependencies" } else { "no-dependencies" };
                rep.count(&format!("whole-project-theorem:{which}={}|{deps}", m[which]));
                let concl = match which { "needed" => "nconcl", "twice" => "tconcl", _ => "vconcl" };
                if m.get(concl).map(|x| x != "true").unwrap_or(true) {
                    let what = format!("model self-check: the conclusion of the whole-project theorem ({which}) does not hold in the executable model although its side condition does: {r}");
                    rep.violation("model", &what, &format!("# {what}\n# request to the model driver:\n{q}\n"));
                }
            }
            None => rep.notes.push(format!("model driver: no answer to a `projsafe` request ({} bytes): {:?}", q.len(), r.chars().take(80).collect::<String>())),
        }
    }
}

/// verify is read-only also when it fails: (A) a directive that fails at verify time (an included plain file was removed
/// after the build) must leave the existing output alone; (B) a dependency outside the inputs whose output is stale or
/// missing must not be rewritten or created by the verify of its includer
fn verify_read_only_scenarios(rep: &mut Report, runner: &mut Runner, property: &str) {
    let cat = ("cat numbers.csv".to_string(), vec![Act { kind: "cat", arg: "numbers.csv".into() }]);
    // (A)
    {
        let p = Project {
            files: vec![("page.txt.txtpp".into(), b"head\nTXTPP#include numbers.csv\n# TXTPP#run cat numbers.csv\ntail\n".to_vec()), ("numbers.csv".into(), b"1,2\n".to_vec())],
            dirs: vec![],
            cmds: vec![cat.clone()],
            sources: vec!["page.txt.txtpp".into()],
            sig: vec![],
            expect_error: false,
        };
        materialize(&p, &runner.dir);
        let mut cfg = RunCfg::build_all();
        cfg.threads = 1;
        let b = runner.run_here(&cfg, &p.cmds, vec!["verify-read-only|A|build".into()], "verify read-only A: build");
        if runner.cases[b].imp.verdict == "ok" {
            let _ = std::fs::remove_file(runner.dir.join("numbers.csv"));
            let mut vcfg = cfg.clone();
            vcfg.mode = "verify";
            let v = runner.run_here(&vcfg, &p.cmds, vec!["verify-read-only|A|verify".into()], "verify read-only A: verify after the included file was removed");
            let c = &runner.cases[v];
            let same = c.imp.after.files.get("page.txt") == c.before.files.get("page.txt") && c.before.files.contains_key("page.txt");
            if c.imp.verdict == "ok" || !same || c.imp.touched.contains("page.txt") {
                let what = format!("{property}: verify of a source whose `include numbers.csv` fails (the file was removed after the build): verdict `{}`, the existing output page.txt {}", c.imp.verdict, if same && !c.imp.touched.contains("page.txt") { "was left alone" } else { "WAS CHANGED OR REMOVED" });
                rep.violation("oracle", &what, &replay_body(&c.before, &c.cfg, &c.cmds, &format!("# {what}\n")));
            }
        }
    }
    // (B)
    for missing in [false, true] {
        let p = Project {
            files: vec![("page.txt.txtpp".into(), b"top\nTXTPP#include lib/footer.txt\nbottom\n".to_vec()), ("lib/footer.txt.txtpp".into(), b"footer v1\n".to_vec())],
            dirs: vec!["lib".into()],
            cmds: vec![],
            sources: vec!["page.txt.txtpp".into(), "lib/footer.txt.txtpp".into()],
            sig: vec![],
            expect_error: false,
        };
        materialize(&p, &runner.dir);
        let mut cfg = RunCfg::build_all();
        cfg.threads = 2;
        let b = runner.run_here(&cfg, &p.cmds, vec!["verify-read-only|B|build".into()], "verify read-only B: build");
        if runner.cases[b].imp.verdict == "ok" {
            let _ = std::fs::write(runner.dir.join("lib/footer.txt.txtpp"), b"footer v2\n");
            if missing {
                let _ = std::fs::remove_file(runner.dir.join("lib/footer.txt"));
            }
            let mut vcfg = cfg.clone();
            vcfg.mode = "verify";
            vcfg.inputs = vec!["page.txt.txtpp".to_string()];
            vcfg.recursive = false;
            let v = runner.run_here(&vcfg, &p.cmds, vec![format!("verify-read-only|B|verify|missing={missing}")], "verify read-only B: verify of the includer after the dependency's source was edited");
            let c = &runner.cases[v];
            let unchanged = c.imp.after.files.get("lib/footer.txt") == c.before.files.get("lib/footer.txt") && !c.imp.touched.contains("lib/footer.txt");
            if c.imp.verdict == "ok" || !unchanged {
                let what = format!("{property}: verify of `page.txt.txtpp` alone after its dependency's source changed (output {}): verdict `{}`, lib/footer.txt {}", if missing { "removed" } else { "stale" }, c.imp.verdict, if unchanged { "was left alone" } else { "WAS WRITTEN by verify" });
                rep.violation("oracle", &what, &replay_body(&c.before, &c.cfg, &c.cmds, &format!("# {what}\n")));
            }
        }
    }
}

fn fresh_project(rng: &mut Rng, runner: &mut Runner, want_ok: bool) -> Option<(Project, Tree, Tree, RunCfg)> {
    for _ in 0..6 {
        let p0 = gen_project(rng, &hist_opts());
        let p = with_decoys(&p0, rng);
        materialize(&p, &runner.dir);
        let (t0, _) = snapshot(&runner.dir);
        let mut cfg = RunCfg::build_all();
        cfg.trailing = !rng.chance(1, 4);
        cfg.threads = 1 + rng.below(4);
        let idx = runner.run_here(&cfg, &p.cmds, p.sig.clone(), "reference build");
        let ok = runner.cases[idx].imp.verdict == "ok";
        if ok || !want_ok {
            let tref = runner.cases[idx].imp.after.clone();
            return Some((p, t0, tref, cfg));
        }
    }
    None
}

fn files_diff(a: &Tree, b: &Tree) -> Vec<String> {
    let mut d = vec![];
    for (k, v) in &a.files {
        match b.files.get(k) {
            None => d.push(format!("{k}: only in first")),
            Some(w) if w != v => d.push(format!("{k}: differs")),
            _ => {}
        }
    }
    for k in b.files.keys() {
        if !a.files.contains_key(k) {
            d.push(format!("{k}: only in second"));
        }
    }
    d
}

fn viol(rep: &mut Report, runner: &Runner, idx: usize, what: String) {
    let c = &runner.cases[idx];
    rep.violation("oracle", &what, &replay_body(&c.before, &c.cfg, &c.cmds, &format!("# {what}\n")));
}

// ------------------------------------------------------------------------------------------------ C06

pub fn run_c06(args: &Args) -> Report {
    let mut rep = Report::new("C06", "M7", &args.replay_dir);
    let model = Model::new(&args.model, &args.work);
    let mut rng = Rng::new(args.seed.wrapping_mul(1000).wrapping_add(args.shard as u64).wrapping_add(0xC06));
    let total = if args.thorough() { 2400 } else { 240 };
    let n = total / args.shards.max(1);
    rep.rule = "generated 1-3-file projects (with dependencies between sources), built, then verified: untampered (must pass), and after each single-point tampering of each output incl. outputs of dependencies (flip first/middle/last byte, append, prepend, delete a byte, truncate by one / to a random prefix / to empty, insert a newline, append CRLF, delete the file), with the trailing-newline option flipped, and after a source edit. Oracles: verify ok <=> every output byte-equal to a fresh build of the same tree with the same options; verify never changes (inode, mtime, bytes) of any output; every run also compared with the model. distinct_nontrivial = distinct (tamper kind, position: requested file / dependency, verdict) combinations x project signatures.".to_string();
    let mut runner = Runner::new(args, "c06");
    let mut safe_reqs: Vec<String> = vec![];
    let mut proj_reqs: Vec<String> = vec![];
    for i in 0..n {
        let Some((p, t0, tref, cfg)) = fresh_project(&mut rng, &mut runner, true) else { continue };
        safe_reqs.push(encode_safe_request(&t0, "build", &p.cmds, &runner.base_abs));
        proj_reqs.push(encode_projsafe_request(&tref, &cfg, &p.cmds, &runner.base_abs));
        let outputs: Vec<String> = p.sources.iter().map(|s| output_name(s)).filter(|o| tref.files.contains_key(o)).collect();
        let mut vcfg = cfg.clone();
        vcfg.mode = "verify";
        // inputs: everything, or only the first source (its dependencies must still be verified)
        if rng.chance(1, 2) {
            vcfg.inputs = vec![p.sources[0].clone()];
        }
        // 1. untampered
        write_tree(&tref, &runner.dir);
        let idx = runner.run_here(&vcfg, &p.cmds, vec!["verify|clean-tree".into()], &format!("project #{i} verify untampered"));
        if runner.cases[idx].imp.verdict != "ok" {
            viol(&mut rep, &runner, idx, "C06: verify fails on a tree that was just built with the same options".to_string());
        }
        check_outputs_untouched(&mut rep, &runner, idx, &outputs, "verify");
        // which outputs are covered by this verify (requested + dependencies)? ask by tampering: the oracle is a fresh build
        let hows: Vec<usize> = if args.thorough() { (0..12).collect() } else { (0..4).map(|_| rng.below(12)).collect() };
        for how in hows {
            let o = rng.pick(&outputs).clone();
            let mut t = tref.clone();
            let label;
            if how == 11 {
                t.files.remove(&o);
                label = "delete".to_string();
            } else {
                let Some(nd) = tamper(&tref.files[&o], how, &mut rng) else { continue };
                t.files.insert(o.clone(), nd);
                label = format!("tamper{how}");
            }
            write_tree(&t, &runner.dir);
            let idx = runner.run_here(&vcfg, &p.cmds, vec![], &format!("project #{i} verify after {label} of {o}"));
            // oracle: is `o` among the outputs a build with these inputs would (re)write?
            let mut bcfg = vcfg.clone();
            bcfg.mode = "build";
            write_tree(&t, &runner.dir);
            let b = run_impl(&runner.dir, &bcfg, &runner.log);
            let covered = b.verdict == "ok" && b.after.files.get(&o) != t.files.get(&o);
            let v = runner.cases[idx].imp.verdict.clone();
            let n_cases = runner.cases.len();
            runner.cases[n_cases - 1].sig = vec![format!("verify|{label}|covered={covered}|{v}")];
            if covered && v == "ok" {
                viol(&mut rep, &runner, idx, format!("C06: verify passes although output `{o}` was changed ({label}) and a build would rewrite it"));
            }
            if !covered && b.verdict == "ok" && v != "ok" {
                viol(&mut rep, &runner, idx, format!("C06: verify fails although every output it covers equals a fresh build (changed file `{o}` is not covered by inputs {:?})", vcfg.inputs));
            }
            check_outputs_untouched(&mut rep, &runner, idx, &outputs, "verify");
        }
        // 2. option mismatch
        let mut mcfg = vcfg.clone();
        mcfg.trailing = !vcfg.trailing;
        write_tree(&tref, &runner.dir);
        let idx = runner.run_here(&mcfg, &p.cmds, vec!["verify|option-mismatch".into()], &format!("project #{i} verify with the other trailing setting"));
        let mut bcfg = mcfg.clone();
        bcfg.mode = "build";
        write_tree(&tref, &runner.dir);
        let b = run_impl(&runner.dir, &bcfg, &runner.log);
        if b.verdict == "ok" {
            let same = files_diff(&b.after, &tref).is_empty();
            let v = &runner.cases[idx].imp.verdict;
            if same != (v == "ok") {
                viol(&mut rep, &runner, idx, format!("C06: verify with trailing={} on a tree built with trailing={} gives `{v}` but a fresh build {} the tree", mcfg.trailing, cfg.trailing, if same { "reproduces" } else { "changes" }));
            }
        }
        if i == 0 {
            rep.sample(format!("project with sources {:?}: verify {:?} after tampering one output => {}", p.sources, vcfg.inputs, runner.cases[runner.cases.len() - 2].imp.verdict));
        }
    }
    // a source that reads back its own temp file: after the temp block's body is edited, the output on disk is stale
    // even though the old temp file is still lying there - verify has to compute the fresh output from the fresh temp content
    if args.shard == 0 {
        for (k, reader) in ["TXTPP#include tinc_0.tmp", "# TXTPP#run cat tinc_0.tmp"].iter().enumerate() {
            for crlf in [false, true] {
                let le = if crlf { "\r\n" } else { "\n" };
                let src = |body: &str| format!("head{le}-TXTPP#temp tinc_0.tmp{le}-{body}{le}~{le}{reader}{le}end{le}").into_bytes();
                let p = Project {
                    files: vec![("tinc.txt.txtpp".into(), src("one"))],
                    dirs: vec![],
                    cmds: vec![("cat tinc_0.tmp".into(), vec![Act { kind: "cat", arg: "tinc_0.tmp".into() }])],
                    sources: vec!["tinc.txt.txtpp".into()],
                    sig: vec![],
                    expect_error: false,
                };
                materialize(&p, &runner.dir);
                let mut cfg = RunCfg::build_all();
                cfg.threads = 2;
                let b = runner.run_here(&cfg, &p.cmds, vec![format!("temp-readback|{k}|{crlf}|build")], "temp read back: build");
                let mut vcfg = cfg.clone();
                vcfg.mode = "verify";
                let v0 = runner.run_here(&vcfg, &p.cmds, vec![format!("temp-readback|{k}|{crlf}|verify-fresh")], "temp read back: verify of the fresh tree");
                if runner.cases[b].imp.verdict != "ok" || runner.cases[v0].imp.verdict != "ok" {
                    viol(&mut rep, &runner, v0, format!("C06: build + verify of a source that reads back its temp file ({reader}) gives `{}` / `{}`", runner.cases[b].imp.verdict, runner.cases[v0].imp.verdict));
                }
                let _ = std::fs::write(runner.dir.join("tinc.txt.txtpp"), src("two"));
                let v1 = runner.run_here(&vcfg, &p.cmds, vec![format!("temp-readback|{k}|{crlf}|verify-after-edit")], "temp read back: verify after the temp body was edited");
                if runner.cases[v1].imp.verdict == "ok" {
                    viol(&mut rep, &runner, v1, format!("C06: verify passes after the body of the temp block was edited although the output (which reads the temp file back with `{reader}`) is stale"));
                }
            }
        }
    }
    // an up-to-date output with one byte appended must fail verification at every length of the fresh output, also at exact
    // multiples of the buffer sizes a reader may use (8 KiB, 64 KiB)
    if args.shard == 2 % args.shards.max(1) {
        for size in [0usize, 8192, 65536, 131072, 65537] {
            let mut src = Vec::new();
            let mut left = size;
            while left > 0 {
                let line = left.min(4096);
                src.extend(std::iter::repeat(b'a').take(line - 1));
                src.push(b'\n');
                left -= line;
            }
            let d = runner.dir.clone();
            let _ = std::fs::remove_dir_all(&d);
            std::fs::create_dir_all(&d).unwrap();
            std::fs::write(d.join("sized.txt.txtpp"), &src).unwrap();
            let mut cfg = RunCfg::build_all();
            cfg.threads = 1;
            let b = run_impl(&d, &cfg, &runner.log);
            let built = std::fs::read(d.join("sized.txt")).ok();
            if b.verdict != "ok" || built.as_ref().map(|x| x.len()) != Some(size) {
                rep.notes.push(format!("sized-tail setup: build of a {size}-byte output gave {}", b.verdict));
                continue;
            }
            for tail in [&b"x"[..], &b"appended line\n"[..]] {
                let mut t = built.clone().unwrap();
                t.extend_from_slice(tail);
                std::fs::write(d.join("sized.txt"), &t).unwrap();
                let mut vcfg = cfg.clone();
                vcfg.mode = "verify";
                let v = run_impl(&d, &vcfg, &runner.log);
                rep.count("verify-appended-tail-at-buffer-multiples");
                if v.verdict == "ok" {
                    let what = format!("C06: verify passes although {} byte(s) were appended to the up-to-date output of exactly {size} bytes", tail.len());
                    rep.violation("oracle", &what, &format!("# {what}\n# source: {size} bytes in lines of 4096; output sized.txt + appended tail; txtpp verify .\n"));
                }
            }
        }
    }
    // an output that contains U+FFFD (EF BF BD): changing EF to F0 makes the file invalid UTF-8 whose *lossy* decoding is the
    // same text - verify compares bytes, so it must fail; likewise for a byte changed into an overlong / truncated sequence
    if args.shard == 0 {
        let src = "caf\u{fffd} au lait\nsecond \u{fffd}\u{fffd} line\n".as_bytes().to_vec();
        let p = Project { files: vec![("lossy.txt.txtpp".into(), src)], dirs: vec![], cmds: vec![], sources: vec!["lossy.txt.txtpp".into()], sig: vec![], expect_error: false };
        materialize(&p, &runner.dir);
        let mut cfg = RunCfg::build_all();
        cfg.threads = 1;
        let b = runner.run_here(&cfg, &p.cmds, vec!["lossy|build".into()], "output with U+FFFD: build");
        if let Some(out) = runner.cases[b].imp.after.files.get("lossy.txt").cloned() {
            let mut vcfg = cfg.clone();
            vcfg.mode = "verify";
            let positions: Vec<usize> = out.iter().enumerate().filter(|(_, b)| **b == 0xEF).map(|(i, _)| i).collect();
            for (k, at) in positions.iter().enumerate() {
                for newb in [0xF0u8, 0xE0, 0xFF] {
                    let mut t = out.clone();
                    t[*at] = newb;
                    let _ = std::fs::write(runner.dir.join("lossy.txt"), &t);
                    let v = runner.run_here(&vcfg, &p.cmds, vec![format!("lossy|tamper{k}|{newb:x}")], &format!("output with U+FFFD: byte {at} changed to {newb:#x}"));
                    if runner.cases[v].imp.verdict == "ok" {
                        viol(&mut rep, &runner, v, format!("C06: verify passes although byte {at} of the output was changed from 0xef to {newb:#x} (the file is no longer valid UTF-8; its lossy decoding equals the fresh text)"));
                    }
                }
            }
        }
    }
    // outputs much larger than any I/O buffer (8 KiB BufReader/BufWriter, 64 KiB pipes): lines and included blocks of
    // many sizes, so that compared chunks straddle every buffer boundary; verify right after the build must pass, and
    // one changed byte far into the file must fail
    // (oracle only: the model has no notion of a buffer, and 40 KB cases are slow in it)
    if args.shard == 1 % args.shards.max(1) {
        let mut big = Runner::new(args, "c06big");
        for (k, unit) in [7usize, 61, 509, 4099].iter().enumerate() {
            for crlf in [false, true] {
                let le = if crlf { "\r\n" } else { "\n" };
                let mut src = String::new();
                let mut inc = String::new();
                for l in 0..(40_000 / (unit + 1) + 2) {
                    src.push_str(&"s".repeat(unit + l % 3));
                    src.push_str(le);
                    inc.push_str(&"i".repeat(unit + l % 5));
                    inc.push_str(le);
                    if l % 97 == 5 {
                        src.push_str(&format!("  TXTPP#include big_inc.txt{le}"));
                    }
                }
                src.push_str(&format!("TXTPP#include big_inc.txt{le}last line{le}"));
                let p = Project {
                    files: vec![("big.txt.txtpp".into(), src.into_bytes()), ("big_inc.txt".into(), inc.into_bytes())],
                    dirs: vec![],
                    cmds: vec![],
                    sources: vec!["big.txt.txtpp".into()],
                    sig: vec![],
                    expect_error: false,
                };
                materialize(&p, &big.dir);
                let mut cfg = RunCfg::build_all();
                cfg.threads = 1;
                let b = big.run_here(&cfg, &p.cmds, vec![format!("large-output|{k}|{crlf}|build")], "large output: build");
                let mut vcfg = cfg.clone();
                vcfg.mode = "verify";
                let v0 = big.run_here(&vcfg, &p.cmds, vec![format!("large-output|{k}|{crlf}|verify-fresh")], "large output: verify right after the build");
                if big.cases[b].imp.verdict != "ok" || big.cases[v0].imp.verdict != "ok" {
                    viol(&mut rep, &big, v0, format!("C06: build + verify of a source with a large output (lines of about {unit} bytes, {} bytes in all) gives `{}` / `{}`", big.cases[b].imp.after.files.get("big.txt").map(|x| x.len()).unwrap_or(0), big.cases[b].imp.verdict, big.cases[v0].imp.verdict));
                }
                check_outputs_untouched(&mut rep, &big, v0, &["big.txt".to_string()], "verify");
                if let Some(out) = big.cases[b].imp.after.files.get("big.txt").cloned() {
                    for at in [8191usize, 8192, 16384 + 3, out.len() - 2] {
                        if at < out.len() {
                            let mut t = out.clone();
                            t[at] = if t[at] == b'X' { b'Y' } else { b'X' };
                            let _ = std::fs::write(big.dir.join("big.txt"), &t);
                            let v1 = big.run_here(&vcfg, &p.cmds, vec![format!("large-output|{k}|{crlf}|verify-after-flip")], &format!("large output: verify after byte {at} was changed"));
                            if big.cases[v1].imp.verdict == "ok" {
                                viol(&mut rep, &big, v1, format!("C06: verify passes although byte {at} of the {}-byte output was changed", out.len()));
                            }
                        }
                    }
                }
            }
        }
            rep.countn("large-output-runs (oracle only)", big.cases.len() as u64);
        big.cleanup();
    }
    report_side_condition(&mut rep, &model, &safe_reqs);
    report_project_condition(&mut rep, &model, &proj_reqs, "verify");
    if args.shard == 0 {
        verify_read_only_scenarios(&mut rep, &mut runner, "C06");
    }
    if args.shard == 0 {
        run_corners(&mut rep, &mut runner, "C06");
    }
    compare_all(&mut rep, &runner, &model, "C06", "C06.stream_compare_iff, verify_ok_iff_uptodate, verify_open_readonly, verify_untouched");
    runner.cleanup();
    rep
}

fn check_outputs_untouched(rep: &mut Report, runner: &Runner, idx: usize, outputs: &[String], mode: &str) {
    let c = &runner.cases[idx];
    for o in outputs {
        if c.imp.touched.contains(o) || c.imp.after.files.get(o) != c.before.files.get(o) {
            let what = format!("C06/C10: {mode} created, modified or deleted the output `{o}` (bytes, inode or mtime changed)");
            rep.violation("oracle", &what, &replay_body(&c.before, &c.cfg, &c.cmds, &format!("# {what}\n")));
        }
    }
}

// ------------------------------------------------------------------------------------------------ C07

pub fn run_c07(args: &Args) -> Report {
    let mut rep = Report::new("C07", "M7", &args.replay_dir);
    let model = Model::new(&args.model, &args.work);
    let mut rng = Rng::new(args.seed.wrapping_mul(1000).wrapping_add(args.shard as u64).wrapping_add(0xC07));
    let total = if args.thorough() { 4000 } else { 320 };
    let n = total / args.shards.max(1);
    let known = load_known(args, "C07");
    rep.rule = "histories build -> clean, clean alone, clean twice, build -> remove some generated files -> clean, over generated projects incl. sources with erroneous directives, write-escaped directive text, temp targets in other directories; inputs: whole tree or a single source. Oracles: after build+clean over the same inputs the full tree snapshot (path -> bytes) equals the snapshot before the build; clean's verdict is ok; clean executes no command (marker log empty); clean removes no *.txtpp file and creates nothing. Leftovers that are all generated by dependencies outside clean's resolved inputs are the known finding F5. Every run also compared with the model.".to_string();
    let mut runner = Runner::new(args, "c07");
    for i in 0..n {
        let erroneous = rng.chance(1, 4);
        let opts = GenOpts { error_pct: if erroneous { 100 } else { 0 }, ..hist_opts() };
        let p0 = gen_project(&mut rng, &opts);
        let mut p = with_decoys(&p0, &mut rng);
        // the README escaping idiom: directive text (also a temp directive naming an existing file) inside write
        if rng.chance(1, 3) {
            let s0 = p.sources[0].clone();
            let c = p.file_mut(&s0).unwrap();
            let mut add = b"\n//TXTPP#write how to make a temp file:\n//-TXTPP#temp README.md\n//-content\n//TXTPP#temp sub_decoy.txt\n~\n".to_vec();
            if !c.ends_with(b"\n") && !c.is_empty() {
                add.insert(0, b'\n');
            }
            c.extend_from_slice(&add);
        }
        // an erroneous temp directive whose target is an existing txtpp source of the shape name.txtpp.ext:
        // refused in every mode, so neither build nor clean may touch that source
        if rng.chance(1, 4) {
            p.files.push(("keep.txtpp.md".to_string(), b"kept\n".to_vec()));
            let s0 = p.sources[0].clone();
            let c = p.file_mut(&s0).unwrap();
            let mut add = b"-TXTPP#temp keep.txtpp.md\n-gone\n~\n".to_vec();
            if !c.ends_with(b"\n") && !c.is_empty() {
                add.insert(0, b'\n');
            }
            c.extend_from_slice(&add);
        }
        // an erroneous temp directive whose target is an existing directory, followed by a good one: build fails on
        // it, clean ignores it (nothing to remove there) and still removes what the rest of the source names
        if rng.chance(1, 5) && !p.dirs.is_empty() {
            let d = rng.pick(&p.dirs).clone();
            let s0 = p.sources[0].clone();
            let up = "../".repeat(s0.matches('/').count());
            let c = p.file_mut(&s0).unwrap();
            let mut add = format!("~\n-TXTPP#temp {up}{d}\n-x\n~\n").into_bytes();
            if !c.ends_with(b"\n") && !c.is_empty() {
                add.insert(0, b'\n');
            }
            c.extend_from_slice(&add);
        }
        materialize(&p, &runner.dir);
        let (t0, _) = snapshot(&runner.dir);
        let mut cfg = RunCfg::build_all();
        cfg.threads = 1 + rng.below(4);
        let single = rng.chance(1, 3);
        if single {
            cfg.inputs = vec![p.sources[0].clone()];
        }
        let hist = rng.below(4);
        let mut built_ok = false;
        if hist != 1 {
            let idx = runner.run_here(&cfg, &p.cmds, p.sig.clone(), &format!("project #{i} build"));
            built_ok = runner.cases[idx].imp.verdict == "ok";
        }
        if hist == 3 {
            // remove some generated files by hand (outputs already absent, temps present, or the reverse)
            let (cur, _) = snapshot(&runner.dir);
            for g in generated_paths(&t0, &cur) {
                if rng.chance(1, 2) {
                    let _ = std::fs::remove_file(runner.dir.join(&g));
                }
            }
        }
        let mut ccfg = cfg.clone();
        ccfg.mode = "clean";
        let reps = if hist == 2 { 2 } else { 1 };
        for r in 0..reps {
            let idx = runner.run_here(&ccfg, &p.cmds, vec![format!("clean|hist={hist}|err={erroneous}|single={single}|rep={r}")], &format!("project #{i} clean (history {hist})"));
            let c = &runner.cases[idx];
            if c.imp.verdict != "ok" {
                viol(&mut rep, &runner, idx, format!("C07: clean fails (`{}`) - it must succeed even when sources contain directive errors", c.imp.verdict));
                continue;
            }
            if !c.imp.log.is_empty() {
                viol(&mut rep, &runner, idx, format!("C07: clean executed commands: markers {:?}", c.imp.log));
            }
            for f in c.before.files.keys() {
                if !c.imp.after.files.contains_key(f) && (f.ends_with(".txtpp") || f.contains(".txtpp.")) && p.sources.iter().any(|s| s == f) {
                    viol(&mut rep, &runner, idx, format!("C07: clean deleted the txtpp source `{f}`"));
                }
            }
            for f in c.imp.after.files.keys() {
                if !c.before.files.contains_key(f) {
                    viol(&mut rep, &runner, idx, format!("C07: clean created `{f}`"));
                }
            }
            // exact restore
            let d = files_diff(&t0, &c.imp.after);
            if !d.is_empty() && (built_ok || hist == 1) {
                // leftovers only? and all generated by sources outside clean's inputs (dependencies)?
                let leftovers: Vec<String> = c.imp.after.files.keys().filter(|k| !t0.files.contains_key(*k)).cloned().collect();
                let other: Vec<&String> = d.iter().filter(|x| !x.ends_with("only in second")).collect();
                let outside: BTreeSet<String> = if single { p.sources[1..].iter().map(|s| s.clone()).collect() } else { BTreeSet::new() };
                let all_from_deps = !leftovers.is_empty()
                    && other.is_empty()
                    && leftovers.iter().all(|l| outside.iter().any(|s| &output_name(s) == l || l.rsplit('/').next().unwrap().starts_with(&format!("t{}_", s.replace('/', "_").replace('.', "_")))));
                if all_from_deps && known.contains("clean-skips-dependencies") {
                    let msg = "sig=clean-skips-dependencies clean of a single source leaves the outputs/temp files of its .txtpp dependencies (clean does not follow dependencies)".to_string();
                    if !rep.known.contains(&msg) {
                        rep.known.push(msg);
                    }
                    rep.count("known:F5");
                } else {
                    viol(&mut rep, &runner, idx, format!("C07: after build + clean the tree differs from the tree before the build: {:?}", d));
                }
            }
        }
        if i == 0 {
            rep.sample(format!("history {hist} on sources {:?} inputs {:?}: clean => {}", p.sources, cfg.inputs, runner.cases.last().unwrap().imp.verdict));
        }
    }
    // an output path that is a symbolic link to a hand-written file elsewhere: clean removes the link (the output path),
    // never the file it points to
    if args.shard == 0 {
        let d = runner.dir.clone();
        let _ = std::fs::remove_dir_all(&d);
        std::fs::create_dir_all(d.join("hand")).unwrap();
        std::fs::write(d.join("a.txt.txtpp"), "generated\n").unwrap();
        std::fs::write(d.join("hand/target.txt"), "handwritten\n").unwrap();
        let _ = std::os::unix::fs::symlink("hand/target.txt", d.join("a.txt"));
        let mut cfg = RunCfg::build_all();
        cfg.mode = "clean";
        cfg.threads = 1;
        let o = run_impl(&d, &cfg, &runner.log);
        rep.count("symlinked-output-clean");
        let target = std::fs::read(d.join("hand/target.txt")).ok();
        let link_left = std::fs::symlink_metadata(d.join("a.txt")).is_ok();
        if o.verdict != "ok" || target.as_deref() != Some(b"handwritten\n".as_ref()) || link_left {
            let what = format!("C07: clean of a source whose output path `a.txt` is a symbolic link to `hand/target.txt`: verdict `{}`, the link {} the file it points to {}", o.verdict, if link_left { "is still there," } else { "was removed," }, if target.is_some() { "still exists" } else { "WAS DELETED" });
            rep.violation("oracle", &what, &format!("# {what}\n# a.txt.txtpp = \"generated\\n\"; a.txt -> hand/target.txt (\"handwritten\\n\"); txtpp clean .\n"));
        }
    }
    compare_all(&mut rep, &runner, &model, "C07", "C07.clean_executes_nothing, clean_never_fails_on_directives, clean_creates_nothing, clean_removes_output");
    runner.cleanup();
    rep
}

pub fn load_known(args: &Args, property: &str) -> BTreeSet<String> {
    let mut s = BTreeSet::new();
    if let Some(k) = &args.known {
        for l in std::fs::read_to_string(k).unwrap_or_default().lines() {
            if let Some(r) = l.strip_prefix("known: ") {
                if r.starts_with(&format!("property={property} ")) {
                    if let Some(sig) = r.split(' ').find_map(|t| t.strip_prefix("sig=")) {
                        s.insert(sig.to_string());
                    }
                }
            }
        }
    }
    s
}

// ------------------------------------------------------------------------------------------------ C08

fn prestate(rng: &mut Rng, right: &[u8]) -> Option<Vec<u8>> {
    match rng.below(8) {
        0 => None, // absent
        1 => Some(b"stale text\nfrom an older run\n".to_vec()),
        2 => Some(vec![]),
        3 => Some(right[..rng.below(right.len() + 1)].to_vec()),
        4 => {
            // cut inside a multi-byte character if there is one, else arbitrary prefix + half a character
            let mut v = right[..rng.below(right.len() + 1)].to_vec();
            v.extend_from_slice(&[0xe6, 0x97]);
            Some(v)
        }
        5 => Some((0..(1 + rng.below(40))).map(|_| (rng.next() & 0xff) as u8).collect()),
        6 => {
            let mut v = right.to_vec();
            v.extend_from_slice(b"extra tail\n");
            Some(v)
        }
        _ => Some(right.to_vec()),
    }
}

pub fn run_c08(args: &Args) -> Report {
    let mut rep = Report::new("C08", "M7", &args.replay_dir);
    let model = Model::new(&args.model, &args.work);
    let mut rng = Rng::new(args.seed.wrapping_mul(1000).wrapping_add(args.shard as u64).wrapping_add(0xC08));
    let total = if args.thorough() { 2400 } else { 260 };
    let n = total / args.shards.max(1);
    rep.rule = "generated projects x pre-states of every generated path (absent, stale text, empty, prefix of the right content cut at a random byte, cut inside a multi-byte character, random bytes incl. invalid UTF-8, right content plus a tail, already right), chosen independently per path, then build or needed-build; building twice; a CLI build killed with SIGKILL after a random delay followed by a rebuild. Oracle: the full tree after the build equals the tree of the reference build from the generated-file-free tree, same verdict; idempotence. Every run also compared with the model.".to_string();
    let mut runner = Runner::new(args, "c08");
    let bin = args.bin.clone().unwrap_or_default();
    let mut safe_reqs: Vec<String> = vec![];
    let mut proj_reqs: Vec<String> = vec![];
    for i in 0..n {
        let Some((p, t0, tref, cfg)) = fresh_project(&mut rng, &mut runner, true) else { continue };
        let gen = generated_paths(&t0, &tref);
        safe_reqs.push(encode_safe_request(&t0, "build", &p.cmds, &runner.base_abs));
        proj_reqs.push(encode_projsafe_request(&t0, &cfg, &p.cmds, &runner.base_abs));
        let variants = if args.thorough() { 5 } else { 3 };
        for v in 0..variants {
            let mut t = t0.clone();
            let mut kinds = vec![];
            for g in &gen {
                let ps = prestate(&mut rng, &tref.files[g]);
                kinds.push(match &ps {
                    None => "absent",
                    Some(x) if x == &tref.files[g] => "right",
                    Some(x) if std::str::from_utf8(x).is_err() => "non-utf8",
                    _ => "stale",
                });
                if let Some(b) = ps {
                    t.files.insert(g.clone(), b);
                }
            }
            write_tree(&t, &runner.dir);
            let mut bcfg = cfg.clone();
            bcfg.mode = if rng.chance(1, 3) { "needed" } else { "build" };
            bcfg.threads = 1 + rng.below(4);
            let mut ks = kinds.clone();
            ks.sort();
            ks.dedup();
            let idx = runner.run_here(&bcfg, &p.cmds, vec![format!("{}|{:?}", bcfg.mode, ks)], &format!("project #{i} {} from pre-state {v}", bcfg.mode));
            let c = &runner.cases[idx];
            let d = files_diff(&tref, &c.imp.after);
            if c.imp.verdict != "ok" || !d.is_empty() {
                viol(&mut rep, &runner, idx, format!("C08: {} from a tree with leftovers at generated paths gives verdict `{}` and differs from the build from a clean tree: {:?}", bcfg.mode, c.imp.verdict, d));
                continue;
            }
            // idempotence
            if v == 0 {
                let idx2 = runner.run_here(&bcfg, &p.cmds, vec![format!("{}|again", bcfg.mode)], &format!("project #{i} {} again", bcfg.mode));
                let c2 = &runner.cases[idx2];
                if c2.imp.verdict != "ok" || !files_diff(&tref, &c2.imp.after).is_empty() {
                    viol(&mut rep, &runner, idx2, "C08: building twice does not equal building once".to_string());
                }
            }
        }
        // interrupted build, then rebuild
        if bin.exists() && rng.chance(1, if args.thorough() { 4 } else { 8 }) {
            write_tree(&t0, &runner.dir);
            let delay_us = rng.below(30_000) as u64;
            if let Ok(mut child) = std::process::Command::new(&bin)
                .current_dir(&runner.dir)
                .env("VERIF_LOG", &runner.log)
                .env_remove("TXTPP_FILE")
                .args(["-q", "-r", "-j", "2", "."])
                .spawn()
            {
                std::thread::sleep(std::time::Duration::from_micros(delay_us));
                let _ = child.kill();
                let _ = child.wait();
            }
            rep.count("sigkill-then-rebuild");
            let idx = runner.run_here(&cfg, &p.cmds, vec!["build|after-kill".into()], &format!("project #{i} rebuild after SIGKILL at {delay_us}us"));
            let c = &runner.cases[idx];
            if c.imp.verdict != "ok" || !files_diff(&tref, &c.imp.after).is_empty() {
                viol(&mut rep, &runner, idx, format!("C08: a build interrupted by SIGKILL is not repaired by building again: {:?}", files_diff(&tref, &c.imp.after)));
            }
        }
        if i == 0 {
            rep.sample(format!("sources {:?}, generated paths {:?}: build from stale/corrupt leftovers => equal to reference", p.sources, gen));
        }
    }
    report_side_condition(&mut rep, &model, &safe_reqs);
    report_project_condition(&mut rep, &model, &proj_reqs, "twice");
    if args.shard == 0 {
        run_corners(&mut rep, &mut runner, "C08");
    }
    compare_all(&mut rep, &runner, &model, "C08", "C08.build_open_forgets, build_open_hermetic, build_done_writes, temp_overwrites, temp_idempotent");
    runner.cleanup();
    rep
}

// ------------------------------------------------------------------------------------------------ C09

pub fn run_c09(args: &Args) -> Report {
    let mut rep = Report::new("C09", "M7", &args.replay_dir);
    let model = Model::new(&args.model, &args.work);
    let mut rng = Rng::new(args.seed.wrapping_mul(1000).wrapping_add(args.shard as u64).wrapping_add(0xC09));
    let total = if args.thorough() { 2400 } else { 260 };
    let n = total / args.shards.max(1);
    rep.rule = "histories over generated projects: reference build; then per generated file one of {up to date, stale (other text / longer: right + tail / shorter: proper prefix / same length different bytes / non-UTF-8), missing}; then a needed-build (also build and verify for the temp rule). Oracles: needed-build verdict and every byte equal a normal build of the same tree in a scratch copy; outputs and temp files whose content was already correct keep (inode, mtime); stale ones are brought up to date. Every run also compared with the model.".to_string();
    let mut runner = Runner::new(args, "c09");
    let mut safe_reqs: Vec<String> = vec![];
    let mut proj_reqs: Vec<String> = vec![];
    for i in 0..n {
        let Some((p, t0, tref, cfg)) = fresh_project(&mut rng, &mut runner, true) else { continue };
        safe_reqs.push(encode_safe_request(&t0, "build", &p.cmds, &runner.base_abs));
        proj_reqs.push(encode_projsafe_request(&t0, &cfg, &p.cmds, &runner.base_abs));
        proj_reqs.push(encode_projsafe_request(&tref, &cfg, &p.cmds, &runner.base_abs));
        let gen = generated_paths(&t0, &tref);
        for v in 0..(if args.thorough() { 4 } else { 2 }) {
            let mut t = tref.clone();
            let mut state: Vec<(String, &'static str)> = vec![];
            for g in &gen {
                let right = &tref.files[g];
                let st = match rng.below(9) {
                    0 | 1 | 2 => "uptodate",
                    3 => {
                        t.files.remove(g);
                        "missing"
                    }
                    4 => {
                        let mut x = right.clone();
                        x.extend_from_slice(b"more\n");
                        t.files.insert(g.clone(), x);
                        "stale-longer"
                    }
                    5 if !right.is_empty() => {
                        t.files.insert(g.clone(), right[..right.len() - 1].to_vec());
                        "stale-shorter"
                    }
                    6 if !right.is_empty() => {
                        let mut x = right.clone();
                        let k = rng.below(x.len());
                        x[k] = if x[k] == b'q' { b'r' } else { b'q' };
                        t.files.insert(g.clone(), x);
                        "stale-same-length"
                    }
                    7 => {
                        t.files.insert(g.clone(), vec![b'h', 0xc3]);
                        "stale-non-utf8"
                    }
                    _ => {
                        t.files.insert(g.clone(), b"old\n".to_vec());
                        "stale-other"
                    }
                };
                state.push((g.clone(), st));
            }
            // optional source edit: drop trailing lines of the first source (output becomes a prefix of the old one)
            let mut edited = false;
            if false {
                let s0 = &p.sources[0];
                let c = t.files.get(s0).cloned().unwrap_or_default();
                let lines: Vec<&[u8]> = c.split_inclusive(|b| *b == b'\n').collect();
                if lines.len() >= 2 {
                    let keep = lines[..lines.len() - 1].concat();
                    t.files.insert(s0.clone(), keep);
                    edited = true;
                }
            }
            // what a normal build makes of this tree (scratch copy)
            write_tree(&t, &runner.dir);
            if v == 0 {
                proj_reqs.push(encode_projsafe_request(&t, &cfg, &p.cmds, &runner.base_abs));
            }
            let mut bcfg = cfg.clone();
            bcfg.mode = "build";
            let want = run_impl(&runner.dir, &bcfg, &runner.log);
            // the run under test
            write_tree(&t, &runner.dir);
            let mut ncfg = cfg.clone();
            ncfg.mode = if v == 0 && rng.chance(1, 4) { "build" } else { "needed" };
            ncfg.threads = 1 + rng.below(4);
            let mut kinds: Vec<&str> = state.iter().map(|s| s.1).collect();
            kinds.sort();
            kinds.dedup();
            let idx = runner.run_here(&ncfg, &p.cmds, vec![format!("{}|edited={edited}|{:?}", ncfg.mode, kinds)], &format!("project #{i} {} over {:?}", ncfg.mode, state));
            let c = &runner.cases[idx];
            if c.imp.verdict != want.verdict {
                viol(&mut rep, &runner, idx, format!("C09: {} gives `{}`, a normal build of the same tree gives `{}`", ncfg.mode, c.imp.verdict, want.verdict));
                continue;
            }
            if want.verdict == "ok" {
                let d = files_diff(&want.after, &c.imp.after);
                if !d.is_empty() {
                    viol(&mut rep, &runner, idx, format!("C09: {} leaves other bytes than a normal build: {:?} (pre-state {:?})", ncfg.mode, d, state));
                    continue;
                }
                if !edited {
                    for (g, st) in &state {
                        let is_output = p.sources.iter().any(|s| &output_name(s) == g);
                        // a normal build always rewrites outputs; temp files are skipped in every mode
                        if *st == "uptodate" && c.imp.touched.contains(g) && (ncfg.mode == "needed" || !is_output) {
                            viol(&mut rep, &runner, idx, format!("C09: `{g}` was already correct but was rewritten by {} (inode or mtime changed)", ncfg.mode));
                        }
                    }
                }
            }
        }
        if i == 0 {
            rep.sample(format!("sources {:?}: needed-build over a mix of up-to-date/stale/missing generated files equals a normal build", p.sources));
        }
    }
    // "succeeds exactly when a normal build does": sources with directive errors (unused tag, missing include, failing
    // command, bad temp target ...) must fail under `--needed` exactly like under a normal build
    for k in 0..(n / 4 + 1) {
        let opts = GenOpts { error_pct: 100, max_sources: 2, ..GenOpts::default() };
        let p = gen_project(&mut rng, &opts);
        let mut verdicts = vec![];
        for mode in ["build", "needed"] {
            materialize(&p, &runner.dir);
            let mut cfg = RunCfg::build_all();
            cfg.threads = 2;
            cfg.mode = mode;
            let idx = runner.run_here(&cfg, &p.cmds, vec![format!("erroneous|{mode}|{}", p.sig.iter().filter(|x| x.starts_with("err:")).cloned().collect::<Vec<_>>().join("+"))], &format!("erroneous project #{k} {mode}"));
            verdicts.push(runner.cases[idx].imp.verdict.clone());
        }
        if (verdicts[0] == "ok") != (verdicts[1] == "ok") {
            viol(&mut rep, &runner, runner.cases.len() - 1, format!("C09: needed gives `{}`, a normal build of the same tree gives `{}` (sources with directive errors: {:?})", verdicts[1], verdicts[0], p.sig.iter().filter(|x| x.starts_with("err:")).collect::<Vec<_>>()));
        }
    }
    report_side_condition(&mut rep, &model, &safe_reqs);
    report_project_condition(&mut rep, &model, &proj_reqs, "needed");
    // a stale output behind a symbolic link: the only-if-needed build updates the file the link points to, like a normal
    // build, and leaves the link a link
    if args.shard == 0 {
        let d = runner.dir.clone();
        let _ = std::fs::remove_dir_all(&d);
        std::fs::create_dir_all(d.join("deploy")).unwrap();
        std::fs::write(d.join("b.txt.txtpp"), "new content\n").unwrap();
        std::fs::write(d.join("deploy/b.txt"), "stale\n").unwrap();
        let _ = std::os::unix::fs::symlink("deploy/b.txt", d.join("b.txt"));
        let mut cfg = RunCfg::build_all();
        cfg.mode = "needed";
        cfg.threads = 1;
        let o = run_impl(&d, &cfg, &runner.log);
        rep.count("symlinked-output-needed");
        let target = std::fs::read(d.join("deploy/b.txt")).ok();
        let is_link = std::fs::symlink_metadata(d.join("b.txt")).map(|m| m.file_type().is_symlink()).unwrap_or(false);
        if o.verdict != "ok" || target.as_deref() != Some(b"new content\n".as_ref()) || !is_link {
            let what = format!("C09: only-if-needed build over a stale output behind a symbolic link (`b.txt` -> `deploy/b.txt`): verdict `{}`, deploy/b.txt = {:?}, b.txt is {} - a normal build writes through the link", o.verdict, target.map(|t| String::from_utf8_lossy(&t).to_string()), if is_link { "still a link" } else { "no longer a link" });
            rep.violation("oracle", &what, &format!("# {what}\n"));
        }
    }
    if args.shard == 0 {
        run_corners(&mut rep, &mut runner, "C09");
    }
    compare_all(&mut rep, &runner, &model, "C09", "C09.needed_no_touch, needed_updates_stale, needed_eq_build, temp_no_touch, temp_updates_stale");
    runner.cleanup();
    rep
}

// ------------------------------------------------------------------------------------------------ C10

pub fn run_c10(args: &Args) -> Report {
    let mut rep = Report::new("C10", "M7", &args.replay_dir);
    let model = Model::new(&args.model, &args.work);
    let mut rng = Rng::new(args.seed.wrapping_mul(1000).wrapping_add(args.shard as u64).wrapping_add(0xC10));
    let total = if args.thorough() { 5000 } else { 420 };
    let n = total / args.shards.max(1);
    rep.rule = "generated projects (successful and failing, 25% with errors) with decoy files next to sources, in sub-directories and at near-miss names (out~, out.bak, out minus one char, <stem>.tmp, src.bak, dir/notes.txt) x modes {build, needed, verify, clean} from a fresh or an already built tree x inputs (whole tree recursive / non-recursive / single source) x write-escaped directive text naming decoys. Oracle: full-tree snapshot diff (bytes, inode, mtime, existence): only outputs of the project's sources and their temp targets may differ; verify leaves outputs untouched; clean creates nothing. Every run also compared with the model (incl. the touch set).".to_string();
    let mut runner = Runner::new(args, "c10");
    for i in 0..n {
        let opts = GenOpts { error_pct: 25, ..hist_opts() };
        let p0 = gen_project(&mut rng, &opts);
        let mut p = with_decoys(&p0, &mut rng);
        if rng.chance(1, 3) {
            let s0 = p.sources[0].clone();
            let c = p.file_mut(&s0).unwrap();
            // `~` first: the source may end in an open block with the prefix `//`, which these lines would continue
            let mut add = b"~\n//TXTPP#write escaped:\n//-TXTPP#temp README.md\n//-x\n//TXTPP#temp sub_decoy.txt\n~\n".to_vec();
            if !c.ends_with(b"\n") && !c.is_empty() {
                add.insert(0, b'\n');
            }
            c.extend_from_slice(&add);
        }
        materialize(&p, &runner.dir);
        let mode = *rng.pick(&["build", "needed", "verify", "clean", "clean", "needed"]);
        let mut cfg = RunCfg::build_all();
        cfg.threads = 1 + rng.below(4);
        cfg.trailing = !rng.chance(1, 4);
        match rng.below(4) {
            0 => cfg.inputs = vec![p.sources[0].clone()],
            1 => cfg.recursive = false,
            _ => {}
        }
        let prebuilt = rng.chance(2, 3);
        if prebuilt {
            let mut b = cfg.clone();
            b.inputs = vec![".".to_string()];
            b.recursive = true;
            let _ = run_impl(&runner.dir, &b, &runner.log);
            if mode == "needed" && rng.chance(1, 2) {
                // make some outputs stale so that needed really writes
                let (cur, _) = snapshot(&runner.dir);
                for s in &p.sources {
                    let o = output_name(s);
                    if cur.files.contains_key(&o) && rng.chance(1, 2) {
                        std::fs::write(runner.dir.join(&o), b"stale\n").unwrap();
                    }
                }
            }
        }
        cfg.mode = mode;
        let idx = runner.run_here(&cfg, &p.cmds, vec![format!("{mode}|prebuilt={prebuilt}|inputs={}|rec={}|err={}", cfg.inputs[0] == ".", cfg.recursive, p.expect_error)], &format!("project #{i} {mode}"));
        let c = &runner.cases[idx];
        let mut changed: BTreeSet<String> = c.imp.touched.clone();
        for (f, d) in &c.before.files {
            if c.imp.after.files.get(f) != Some(d) {
                changed.insert(f.clone());
            }
        }
        for f in c.imp.after.files.keys() {
            if !c.before.files.contains_key(f) {
                changed.insert(f.clone());
            }
        }
        let mut bad: Vec<String> = vec![];
        for f in &changed {
            if !allowed(&p, f) {
                bad.push(format!("`{f}` (not an output or temp target)"));
            } else if mode == "verify" && p.sources.iter().any(|s| &output_name(s) == f) {
                bad.push(format!("`{f}` (an output, touched by verify)"));
            } else if mode == "clean" && !c.before.files.contains_key(f) {
                bad.push(format!("`{f}` (created by clean)"));
            }
        }
        // directories: txtpp never creates or removes one (model: C10.directories_never_change)
        for d in c.imp.after.dirs.symmetric_difference(&c.before.dirs) {
            bad.push(format!("directory `{d}` ({})", if c.before.dirs.contains(d) { "removed" } else { "created" }));
        }
        if !bad.is_empty() {
            viol(&mut rep, &runner, idx, format!("C10: {mode} created, modified or deleted {}", bad.join(", ")));
        }
        if i == 0 {
            rep.sample(format!("{mode} on sources {:?} with decoys {:?}: changed paths {:?}", p.sources, p.files.iter().map(|f| f.0.clone()).filter(|f| !p0.files.iter().any(|g| &g.0 == f)).collect::<Vec<_>>(), changed));
        }
    }
    if args.shard == 0 {
        verify_read_only_scenarios(&mut rep, &mut runner, "C10");
    }
    if args.shard == 0 {
        run_corners(&mut rep, &mut runner, "C10");
    }
    compare_all(&mut rep, &runner, &model, "C10", "C10.untouched_unchanged, commands_change_no_file, verify_open_close_readonly, clean_creates_nothing");
    runner.cleanup();
    rep
}

//! M5p: single passes in process through the `verif` re-export of `preprocess` (no coordinator, no
//! polling sleep) vs the Lean `runPass`: outcome (ok / dependencies found / error), the dependency
//! list of a first pass, and on success every byte of the tree, markers and touch set.
use crate::gen::*;
use crate::proj::*;
use crate::util::*;
use txtpp::verif::{preprocess, AbsPath, PpResult, Shell};

pub fn run_c01p(args: &Args) -> Report {
    let mut rep = Report::new("C01", "M5p", &args.replay_dir);
    let model = Model::new(&args.model, &args.work);
    let mut rng = Rng::new(args.seed.wrapping_mul(1000).wrapping_add(args.shard as u64).wrapping_add(0xC01F));
    let total = if args.thorough() { 120_000 } else { 8_000 };
    let n = total / args.shards.max(1);
    rep.rule = "single passes through the re-exported `preprocess` (library, in process, real sh, no coordinator): every source of a generated project, first and final pass, modes build / needed / verify / clean, both trailing settings, on the tree as generated or after a full build (so that dependency outputs exist). Compared with the Lean runPass: outcome kind, the dependency list reported by a first pass (order and multiplicity), and for ok / dependency outcomes every byte of the tree, the executed-command markers and untouched paths. distinct_nontrivial = distinct generator signatures x (mode, pass, outcome).".to_string();
    let dir = args.work.join(format!("pass-{}-{}", std::process::id(), args.shard));
    let _ = std::fs::remove_dir_all(&dir);
    std::fs::create_dir_all(&dir).unwrap();
    let dir = dir.canonicalize().unwrap();
    let pdir = dir.join("p");
    let log = dir.join("markers.log");
    let base_abs = pdir.to_string_lossy().to_string();
    let shell = Shell::new("").expect("shell");
    let opts = GenOpts::default();
    let mut reqs: Vec<String> = vec![];
    let mut pend: Vec<(Tree, RunCfg, Vec<(String, Vec<Act>)>, String, bool, String, Obs)> = vec![];
    let mut done = 0usize;
    while done < n {
        let p = gen_project(&mut rng, &opts);
        materialize(&p, &pdir);
        let prebuilt = rng.chance(1, 2);
        if prebuilt {
            let _ = run_impl(&pdir, &RunCfg::build_all(), &log);
        }
        let (start, _) = snapshot(&pdir);
        for src in &p.sources {
            for first in [true, false] {
                let mode = *rng.pick(&["build", "build", "needed", "verify", "clean"]);
                let trailing = !rng.chance(1, 3);
                write_tree(&start, &pdir);
                set_sentinel_mtimes(&pdir, &start);
                let (before, meta_before) = snapshot(&pdir);
                let _ = std::fs::remove_file(&log);
                std::env::set_var("VERIF_LOG", &log);
                std::env::remove_var("TXTPP_FILE");
                let base = AbsPath::create_base(pdir.clone()).expect("base");
                let input = match base.share_base(pdir.join(src)) {
                    Ok(x) => x,
                    Err(_) => continue,
                };
                let r = std::panic::catch_unwind(std::panic::AssertUnwindSafe(|| preprocess(&shell, &input, mode_of(mode), first, trailing)));
                let outcome = match r {
                    Ok(Ok(PpResult::Ok(_))) => "ok".to_string(),
                    Ok(Ok(PpResult::HasDeps(_, deps))) => format!("deps:{}", deps.iter().map(|d| hexs(&d.to_string())).collect::<Vec<_>>().join(",")),
                    Ok(Err(_)) => "err".to_string(),
                    Err(_) => "panic".to_string(),
                };
                let (after, meta_after) = snapshot(&pdir);
                let mut obs = Obs { verdict: outcome.clone(), after, ..Default::default() };
                for (f, m) in &meta_after {
                    if meta_before.get(f) != Some(m) {
                        obs.touched.insert(f.clone());
                    }
                }
                for f in meta_before.keys() {
                    if !meta_after.contains_key(f) {
                        obs.touched.insert(f.clone());
                    }
                }
                obs.log = std::fs::read_to_string(&log).unwrap_or_default().lines().map(|s| s.to_string()).collect();
                obs.log.sort();
                let cfg = RunCfg { mode, trailing, recursive: false, threads: 1, inputs: vec![src.clone()] };
                let tree_req = encode_request(&before, &cfg, &p.cmds, &base_abs);
                // reuse the project encoding: project <mode> <tr> <rec> <base> <inputs> <tree> <cmds>
                let f: Vec<&str> = tree_req.split(' ').collect();
                reqs.push(format!("pass {} {} {} {} {} {} {}", f[1], if first { "t" } else { "f" }, f[2], f[4], hexs(src), f[6], f[7]));
                for s in &p.sig {
                    rep.sigs.insert(format!("{s}|{mode}|{}|{}", if first { "first" } else { "final" }, outcome.split(':').next().unwrap()));
                }
                rep.count(&format!("outcome:{}", outcome.split(':').next().unwrap()));
                rep.count(&format!("mode:{mode}"));
                pend.push((before, cfg, p.cmds.clone(), src.clone(), first, outcome, obs));
                done += 1;
            }
        }
        if rep.samples.is_empty() {
            if let Some(l) = pend.last() {
                rep.sample(format!("preprocess({}, mode {}, first={}) => {}", l.3, l.1.mode, l.4, l.5));
            }
        }
    }
    let resp = model.batch(&reqs);
    for (r, (before, cfg, cmds, src, first, outcome, obs)) in resp.iter().zip(pend.iter()) {
        rep.evaluations += 1;
        let mut diffs: Vec<String> = vec![];
        if r.starts_with("vocab ") {
            rep.count("skipped:model-met-a-command-outside-the-vocabulary");
            continue;
        }
        match r.split_once(' ') {
            None => diffs.push(format!("model driver could not evaluate: {r}")),
            Some((mo, rest)) => {
                if mo != outcome {
                    diffs.push(format!("outcome: implementation `{}`, model `{}`", outcome, mo));
                } else if outcome != "err" {
                    if let Some(mut m) = parse_response(&format!("ok {rest}"), before) {
                        let mut o2 = obs.clone();
                        o2.verdict = "ok".to_string();
                        if outcome.starts_with("deps:") {
                            // the partially written output of an interrupted first pass is an intermediate
                            // state (rewritten by the second pass); its bytes are not part of the comparison
                            let o = output_name(src);
                            o2.after.files.remove(&o);
                            m.after.files.remove(&o);
                        }
                        diffs.extend(diff_obs(&o2, &m));
                    }
                }
            }
        }
        if !diffs.is_empty() {
            let what = format!("C01: single pass of `{src}` (mode {}, first={first}, trailing={}): {}", cfg.mode, cfg.trailing, diffs[0]);
            rep.violation("oracle", &what, &replay_body(before, cfg, cmds, &format!("# pass-level case: source {src} first={first}\n# {}\n", diffs.join("\n# "))));
        }
    }
    let _ = std::fs::remove_dir_all(&dir);
    rep
}

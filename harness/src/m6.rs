//! M6: the real coordinator (`Txtpp::run_internal`, `DepManager`, `Progress`, thread pool) under the
//! schedule controller vs the Lean coordinator model, over dependency graphs x inputs x delivery orders;
//! plus the direct oracles of C02 / C03 / C04 / C05 on every explored run.
use crate::sched::*;
use crate::util::*;
use std::collections::{BTreeMap, BTreeSet};
use std::path::{Path, PathBuf};
use std::sync::{Arc, Mutex};
use txtpp::{Config, Mode, Txtpp, Verbosity};

#[derive(Clone, Debug)]
pub struct GWorld {
    pub n: usize,
    pub deps: Vec<Vec<usize>>,
    pub fail_first: Vec<bool>,
    pub fail_final: Vec<bool>,
    pub markers: bool,
    /// directory worlds (scan tasks): file i lives in directory `file_dir[i]`; empty = all in the base directory
    pub file_dir: Vec<usize>,
    /// path of directory j relative to the base ("" = base)
    pub dir_path: Vec<String>,
    /// symbolic links to directories: (link path relative to base, target directory id)
    pub links: Vec<(String, usize)>,
}

impl GWorld {
    pub fn encode(&self) -> String {
        (0..self.n)
            .map(|i| {
                format!(
                    "{}:{}:{}",
                    if self.deps[i].is_empty() { "-".to_string() } else { self.deps[i].iter().map(|d| d.to_string()).collect::<Vec<_>>().join(".") },
                    if self.fail_first[i] { "t" } else { "f" },
                    if self.fail_final[i] { "t" } else { "f" }
                )
            })
            .collect::<Vec<_>>()
            .join(",")
    }
    pub fn decode(s: &str) -> Option<GWorld> {
        let mut w = GWorld { n: 0, deps: vec![], fail_first: vec![], fail_final: vec![], markers: false, file_dir: vec![], dir_path: vec![], links: vec![] };
        for e in s.split(',') {
            let f: Vec<&str> = e.split(':').collect();
            if f.len() != 3 {
                return None;
            }
            w.deps.push(if f[0] == "-" { vec![] } else { f[0].split('.').filter_map(|x| x.parse().ok()).collect() });
            w.fail_first.push(f[1] == "t");
            w.fail_final.push(f[2] == "t");
            w.n += 1;
        }
        Some(w)
    }
    fn reach(&self, from: &[usize]) -> BTreeSet<usize> {
        let mut seen = BTreeSet::new();
        let mut st: Vec<usize> = from.to_vec();
        while let Some(x) = st.pop() {
            if seen.insert(x) {
                for d in &self.deps[x] {
                    st.push(*d);
                }
            }
        }
        seen
    }
    /// files from which a dependency cycle (incl. self-loop) is reachable
    fn reaches_cycle(&self) -> Vec<bool> {
        let mut on_cycle = vec![false; self.n];
        for g in 0..self.n {
            for d in &self.deps[g] {
                if self.reach(&[*d]).contains(&g) {
                    on_cycle[g] = true;
                }
            }
        }
        (0..self.n).map(|f| self.reach(&[f]).iter().any(|x| on_cycle[*x])).collect()
    }
    fn is_after(i: usize, j: usize) -> bool {
        (i + 2 * j) % 4 == 3
    }
    /// expected output of file i (only for files that cannot reach a cycle)
    fn expected(&self, i: usize, memo: &mut BTreeMap<usize, String>) -> String {
        if let Some(s) = memo.get(&i) {
            return s.clone();
        }
        let mut s = format!("head{i}\n");
        if self.nonascii_block(i) {
            s.push_str(&format!("w{i}\nc{i}  é\n"));
        }
        for (k, j) in self.deps[i].iter().enumerate() {
            if k >= 1 && self.same_prefix(i) {
                s.push_str(&format!("mid{i}_{k}\n"));
            }
            if !Self::is_after(i, *j) {
                let inc = self.expected(*j, memo);
                s.push_str(&inc);
            }
        }
        if self.esc_block(i) {
            s.push_str(&format!("esc{i}\nTXTPP#include {}\n", Self::out_name(i)));
        }
        if !self.no_tail(i) {
            s.push_str(&format!("tail{i}\n"));
        } else if let Some(last) = self.deps[i].last() {
            // the source ends with a directive: if that directive produced output (include), a line ending is owed at
            // the end of the file (README splice rule, trailing newline on); an `after` produces nothing
            if !Self::is_after(i, *last) {
                s.push('\n');
            }
        }
        memo.insert(i, s.clone());
        s
    }
    /// files with dependencies that keep their tail line also carry, after the dependency directives, a write block
    /// whose continuation line is directive text naming the file's own output (the README's escaping idiom): it is an
    /// argument of `write`, never a dependency
    fn esc_block(&self, i: usize) -> bool {
        !self.markers && !self.deps[i].is_empty() && !self.no_tail(i)
    }
    /// files with two or more dependencies (every second one): all dependency directives carry the same prefix `// `, and
    /// between them stands an empty directive with that prefix (multi-line capable) followed by a plain line - the
    /// plain line ends the empty directive, so the next `// TXTPP#include` is a directive of its own, in every pass
    fn same_prefix(&self, i: usize) -> bool {
        !self.markers && self.deps[i].len() >= 2 && i % 2 == 0
    }
    /// every third file starts with a multi-line `write` whose prefix `« ` is not ASCII: the continuation line has as
    /// many spaces as the prefix has bytes (3); the line after it has two spaces (the prefix's character count) and is text
    fn nonascii_block(&self, i: usize) -> bool {
        !self.markers && i % 3 == 1
    }
    /// every other file with dependencies ends with its last dependency directive as the final line of the
    /// source (nothing after it); not in marker worlds, whose completeness oracle looks for the tail line
    fn no_tail(&self, i: usize) -> bool {
        !self.markers && !self.deps[i].is_empty() && !self.fail_final[i] && i % 2 == 1
    }
    pub fn source(&self, i: usize) -> String {
        let mut s = format!("head{i}\n");
        if self.markers {
            s.push_str(&format!("-TXTPP#run echo pre{i} >> \"$VERIF_LOG\"\n"));
        }
        // distinct prefixes: consecutive directive lines with the same prefix would merge into one
        if self.nonascii_block(i) {
            s.push_str(&format!("« TXTPP#write w{i}\n   c{i}\n  é\n"));
        }
        if self.fail_first[i] {
            s.push_str("//TXTPP#run exit 3\n");
        }
        for (k, j) in self.deps[i].iter().enumerate() {
            // the same file is spelled in different ways by different includers
            let sp = if self.file_dir.is_empty() {
                // plain, through a directory and back, with `./`, through a symbolic link to the base directory,
                // by absolute path (`@ABS@` is replaced by the base directory when the tree is written)
                match (i + 2 * j) % 5 {
                    1 => format!("d/../{}", Self::out_name(*j)),
                    2 => format!("./{}", Self::out_name(*j)),
                    3 => format!("lnk/{}", Self::out_name(*j)),
                    4 => format!("@ABS@/{}", Self::out_name(*j)),
                    _ => Self::out_name(*j),
                }
            } else {
                let from = self.dir_path[self.file_dir[i]].clone();
                let to = self.out_rel(*j);
                let mut r = Rng::new((i * 7 + j) as u64);
                crate::gen::rel_path(&from, &to, &mut r)
            };
            let pre = if self.same_prefix(i) { "// " } else { "" };
            if k >= 1 && self.same_prefix(i) {
                s.push_str(&format!("// TXTPP#\nmid{i}_{k}\n"));
            }
            if Self::is_after(i, *j) {
                s.push_str(&format!("{pre}TXTPP#after {sp}\n"));
            } else {
                s.push_str(&format!("{pre}TXTPP#include {sp}\n"));
            }
        }
        if self.esc_block(i) {
            s.push_str(&format!("=TXTPP#write esc{i}\n=TXTPP#include {}\n=\n", Self::out_name(i)));
        }
        if self.markers && !self.deps[i].is_empty() {
            // runs only in the second pass; checks that every dependency output is complete at that time
            // one atomic append: post<i> followed by the last line of every dependency output as seen now
            let mut cmd = format!("echo \"post{i}");
            for j in &self.deps[i] {
                cmd.push_str(&format!(" $(tail -n 1 {})", Self::out_name(*j)));
            }
            cmd.push_str("\" >> \"$VERIF_LOG\"");
            s.push_str(&format!("%TXTPP#run {cmd}\n"));
        }
        if self.fail_final[i] {
            s.push_str("@@TXTPP#run exit 3\n");
        }
        if !self.no_tail(i) {
            s.push_str(&format!("tail{i}\n"));
        }
        s
    }
    /// source name of file i: every third file uses the `foo.inner.txtpp.ext` shape
    pub fn src_name(i: usize) -> String {
        if i % 3 == 2 { format!("f{i}.min.txtpp.js") } else { format!("f{i}.txt.txtpp") }
    }
    pub fn out_name(i: usize) -> String {
        if i % 3 == 2 { format!("f{i}.min.js") } else { format!("f{i}.txt") }
    }
    /// path of source i relative to the base
    pub fn file_rel(&self, i: usize) -> String {
        if self.file_dir.is_empty() || self.dir_path[self.file_dir[i]].is_empty() {
            Self::src_name(i)
        } else {
            format!("{}/{}", self.dir_path[self.file_dir[i]], Self::src_name(i))
        }
    }
    pub fn out_rel(&self, i: usize) -> String {
        if self.file_dir.is_empty() || self.dir_path[self.file_dir[i]].is_empty() {
            Self::out_name(i)
        } else {
            format!("{}/{}", self.dir_path[self.file_dir[i]], Self::out_name(i))
        }
    }
    pub fn materialize(&self, dir: &Path, stale: bool) {
        let _ = std::fs::remove_dir_all(dir);
        std::fs::create_dir_all(dir).unwrap();
        if self.file_dir.is_empty() {
            std::fs::create_dir_all(dir.join("d")).unwrap();
            let _ = std::os::unix::fs::symlink(dir, dir.join("lnk"));
        }
        let abs = dir.canonicalize().unwrap_or_else(|_| dir.to_path_buf()).to_string_lossy().to_string();
        for d in &self.dir_path {
            std::fs::create_dir_all(dir.join(d)).unwrap();
        }
        for (l, t) in &self.links {
            let target = dir.join(&self.dir_path[*t]);
            let _ = std::os::unix::fs::symlink(&target, dir.join(l));
        }
        for i in 0..self.n {
            let rel = self.file_rel(i);
            std::fs::write(dir.join(&rel), self.source(i).replace("@ABS@", &abs)).unwrap();
            if stale {
                if self.file_dir.is_empty() && i % 4 == 1 {
                    // the stale output is a symbolic link to a file in another directory: the build writes through it
                    std::fs::create_dir_all(dir.join("elsewhere")).unwrap();
                    std::fs::write(dir.join("elsewhere").join(Self::out_name(i)), format!("head{i}\nSTALE\n")).unwrap();
                    let _ = std::os::unix::fs::symlink(format!("elsewhere/{}", Self::out_name(i)), dir.join(self.out_rel(i)));
                } else {
                    std::fs::write(dir.join(self.out_rel(i)), format!("head{i}\nSTALE\n")).unwrap();
                }
            }
        }
    }
}

#[derive(Clone, Debug)]
pub struct RunObs {
    pub verdict: String,
    pub steps: Vec<Step>,
    pub outstanding_at_finish: usize,
    /// panics in any thread during the run (a panicking worker never delivers its result)
    pub worker_panics: u64,
    /// tasks that began but neither sent nor panicked shortly after `run` returned
    pub stragglers: usize,
    pub outputs: BTreeMap<usize, Option<String>>,
    pub log: Vec<String>,
    pub spawn_counts: BTreeMap<(String, u8), usize>,
}

pub static PANICS: std::sync::atomic::AtomicU64 = std::sync::atomic::AtomicU64::new(0);

pub fn install_panic_counter() {
    std::panic::set_hook(Box::new(|_| {
        PANICS.fetch_add(1, std::sync::atomic::Ordering::SeqCst);
    }));
}

pub struct Explorer {
    pub dir: PathBuf,
    pub log: PathBuf,
    pub current: Arc<Mutex<String>>,
    pub result_path: PathBuf,
    pub replay_dir: PathBuf,
    pub property: String,
}

fn idx_of(path: &str) -> Option<usize> {
    let name = path.rsplit('/').next()?;
    let rest = name.strip_prefix('f')?;
    let digits: String = rest.chars().take_while(|c| c.is_ascii_digit()).collect();
    if !(rest[digits.len()..].starts_with(".txt.txtpp") || rest[digits.len()..].starts_with(".min.txtpp.js")) {
        return None;
    }
    digits.parse().ok()
}

/// directory id from a displayed directory path: the base itself is shown as an absolute path
fn dir_idx_of(path: &str) -> usize {
    if path.starts_with('/') {
        return 0;
    }
    path.rsplit('/').next().and_then(|n| n.strip_prefix('d')).and_then(|n| n.parse().ok()).unwrap_or(99)
}

pub fn task_key(path: &str, kind: u8) -> (u8, usize, u8) {
    if kind == 0 {
        (0, dir_idx_of(path), 0)
    } else {
        (1, idx_of(path).unwrap_or(999), kind)
    }
}

fn show_task(t: &(String, u8)) -> String {
    if t.1 == 0 {
        return format!("{}s", dir_idx_of(&t.0));
    }
    match idx_of(&t.0) {
        Some(i) => format!("{}{}", i, if t.1 == 1 { "a" } else { "b" }),
        None => format!("?{}:{}", t.0, t.1),
    }
}
fn show_tasks(v: &[(String, u8)]) -> String {
    if v.is_empty() {
        "-".to_string()
    } else {
        v.iter().map(show_task).collect::<Vec<_>>().join(".")
    }
}
pub fn show_steps(steps: &[Step]) -> String {
    if steps.is_empty() {
        return "-".to_string();
    }
    steps
        .iter()
        .map(|s| format!("{}>{}>{}@{}/{}", show_tasks(&s.enabled), s.choice, show_tasks(&s.spawned), s.done, s.total))
        .collect::<Vec<_>>()
        .join("|")
}

pub fn case_string(w: &GWorld, inputs: &[usize], threads: usize, stale: bool, choices: &[usize]) -> String {
    format!(
        "world: {}\nmarkers: {}\ninputs: {}\nthreads: {}\nstale: {}\nchoices: {}\n",
        w.encode(),
        w.markers,
        inputs.iter().map(|i| i.to_string()).collect::<Vec<_>>().join("."),
        threads,
        stale,
        if choices.is_empty() { "-".to_string() } else { choices.iter().map(|c| c.to_string()).collect::<Vec<_>>().join(".") }
    )
}

impl Explorer {
    pub fn new(args: &Args, tag: &str, property: &str) -> Self {
        let dir = args.work.join(format!("sched-{}-{}", tag, std::process::id()));
        let _ = std::fs::remove_dir_all(&dir);
        std::fs::create_dir_all(&dir).unwrap();
        let dir = dir.canonicalize().unwrap();
        Explorer {
            log: dir.join("markers.log"),
            dir: dir.join("p"),
            current: Arc::new(Mutex::new(String::new())),
            result_path: args.result.clone(),
            replay_dir: args.replay_dir.clone(),
            property: property.to_string(),
        }
    }
    pub fn cleanup(&self) {
        if let Some(p) = self.dir.parent() {
            let _ = std::fs::remove_dir_all(p);
        }
    }

    /// one controlled run of the real coordinator
    pub fn run_once(&self, w: &GWorld, inputs: &[usize], threads: usize, stale: bool, choices: &[usize]) -> RunObs {
        self.run_once_ex(w, inputs, &[], false, threads, stale, choices)
    }

    /// with directory inputs (scan tasks)
    pub fn run_once_ex(&self, w: &GWorld, inputs: &[usize], dir_inputs: &[usize], recursive: bool, threads: usize, stale: bool, choices: &[usize]) -> RunObs {
        w.materialize(&self.dir, stale);
        let _ = std::fs::remove_file(&self.log);
        std::env::set_var("VERIF_LOG", &self.log);
        std::env::remove_var("TXTPP_FILE");
        *self.current.lock().unwrap() = format!("{}dirs: {:?} recursive: {} dir_path: {:?} file_dir: {:?} links: {:?}\n", case_string(w, inputs, threads, stale, choices), dir_inputs, recursive, w.dir_path, w.file_dir, w.links);
        let cur = self.current.clone();
        let result_path = self.result_path.clone();
        let replay_dir = self.replay_dir.clone();
        let property = self.property.clone();
        let on_stuck = Box::new(move |inner: &Inner, why: &str| {
            // the run can never return: report it as a violation and leave the process
            let mut rep = Report::new(&property, "M6", &replay_dir);
            rep.evaluations = 1;
            let case = cur.lock().unwrap().clone();
            let shown: String = show_steps(&inner.steps).chars().take(600).collect();
            let body = format!("{case}# {why}\n# deliveries so far: {shown}\n");
            rep.violation("oracle", &format!("{property}: the run does not terminate: {why}; case: {}", case.replace('\n', " ")), &body);
            rep.write(&result_path);
            eprintln!("violation[oracle]: run does not terminate ({why})");
            std::process::exit(1);
        });
        let ctl = Ctl::new(threads, choices.to_vec(), 2 * w.n + 2 * w.dir_path.len() + 8, Box::new(task_key), on_stuck);
        // watchdog: a controlled run takes milliseconds; one that does not return at all (e.g. stuck in Drop
        // after the coordinator loop ended) is reported like a hang
        let done_flag = Arc::new(std::sync::atomic::AtomicBool::new(false));
        {
            let done_flag = done_flag.clone();
            let ctl2 = ctl.clone();
            std::thread::spawn(move || {
                let t0 = std::time::Instant::now();
                while t0.elapsed() < std::time::Duration::from_secs(25) {
                    std::thread::sleep(std::time::Duration::from_millis(50));
                    if done_flag.load(std::sync::atomic::Ordering::SeqCst) {
                        return;
                    }
                }
                let g = ctl2.m.lock().unwrap();
                (ctl2.on_stuck)(&g, "hang: Txtpp::run did not return (coordinator loop ended or stuck; workers blocked)");
            });
        }
        txtpp::verif::sched::install(Some(ctl.clone()));
        let config = Config {
            base_dir: self.dir.clone(),
            shell_cmd: String::new(),
            // inputs are named by source or by output name, the k-th duplicate through an alias path
            inputs: inputs
                .iter()
                .enumerate()
                .map(|(k, i)| {
                    if !w.file_dir.is_empty() {
                        return w.file_rel(*i);
                    }
                    match (k + i) % 4 {
                        1 => GWorld::out_name(*i),
                        2 => format!("d/../{}", GWorld::src_name(*i)),
                        3 => format!("./{}", GWorld::src_name(*i)),
                        _ => GWorld::src_name(*i),
                    }
                })
                .chain(dir_inputs.iter().enumerate().map(|(k, d)| {
                    let p = if w.dir_path[*d].is_empty() { ".".to_string() } else { w.dir_path[*d].clone() };
                    if k % 2 == 1 { format!("./{p}") } else { p }
                }))
                .collect(),
            recursive,
            num_threads: threads,
            mode: Mode::Build,
            verbosity: Verbosity::Quiet,
            trailing_newline: true,
        };
        let panics_before = PANICS.load(std::sync::atomic::Ordering::SeqCst);
        let r = Txtpp::run(config);
        done_flag.store(true, std::sync::atomic::Ordering::SeqCst);
        txtpp::verif::sched::install(None);
        // `run` joins the pool before it returns: afterwards no task may still be running, and none may have panicked
        let mut stragglers = 0usize;
        {
            let t0 = std::time::Instant::now();
            loop {
                let g = ctl.m.lock().unwrap();
                stragglers = g.tasks.values().filter(|t| t.ph != Ph::Sent && t.ph != Ph::Queued).count();
                drop(g);
                if stragglers == 0 || t0.elapsed() > std::time::Duration::from_millis(1500) {
                    break;
                }
                std::thread::sleep(std::time::Duration::from_millis(5));
            }
        }
        let worker_panics = PANICS.load(std::sync::atomic::Ordering::SeqCst) - panics_before;
        let verdict = match &r {
            Ok(()) => "ok".to_string(),
            Err(e) => {
                if format!("{:?}", e).contains("Circular dependencies are found") {
                    "circular".to_string()
                } else {
                    "err".to_string()
                }
            }
        };
        let g = ctl.m.lock().unwrap();
        let mut outputs = BTreeMap::new();
        for i in 0..w.n {
            outputs.insert(i, std::fs::read_to_string(self.dir.join(w.out_rel(i))).ok());
        }
        let log: Vec<String> = std::fs::read_to_string(&self.log).unwrap_or_default().lines().map(|s| s.to_string()).collect();
        let mut spawn_counts = BTreeMap::new();
        for t in g.tasks.values() {
            *spawn_counts.entry((t.path.clone(), kind_code(&t.kind))).or_insert(0) += 1;
        }
        RunObs {
            verdict,
            steps: g.steps.clone(),
            outstanding_at_finish: g.outstanding_at_finish,
            worker_panics,
            stragglers,
            outputs,
            log,
            spawn_counts,
        }
    }

    pub fn explore_ex(&self, w: &GWorld, inputs: &[usize], dir_inputs: &[usize], recursive: bool, threads: usize, stale: bool, max_runs: usize) -> Vec<(Vec<usize>, RunObs)> {
        let mut out = vec![];
        let mut stack: Vec<Vec<usize>> = vec![vec![]];
        while let Some(prefix) = stack.pop() {
            if out.len() >= max_runs {
                break;
            }
            let obs = self.run_once_ex(w, inputs, dir_inputs, recursive, threads, stale, &prefix);
            let taken: Vec<usize> = obs.steps.iter().map(|s| s.choice).collect();
            for k in prefix.len()..obs.steps.len() {
                for alt in 1..obs.steps[k].enabled.len() {
                    let mut p: Vec<usize> = taken[..k].to_vec();
                    p.push(alt);
                    stack.push(p);
                }
            }
            out.push((taken, obs));
        }
        out
    }

    /// all delivery orders (DFS over choice prefixes), at most `max_runs`
    pub fn explore(&self, w: &GWorld, inputs: &[usize], threads: usize, stale: bool, max_runs: usize) -> Vec<(Vec<usize>, RunObs)> {
        let mut out = vec![];
        let mut stack: Vec<Vec<usize>> = vec![vec![]];
        while let Some(prefix) = stack.pop() {
            if out.len() >= max_runs {
                break;
            }
            let obs = self.run_once(w, inputs, threads, stale, &prefix);
            let taken: Vec<usize> = obs.steps.iter().map(|s| s.choice).collect();
            for k in prefix.len()..obs.steps.len() {
                for alt in 1..obs.steps[k].enabled.len() {
                    let mut p: Vec<usize> = taken[..k].to_vec();
                    p.push(alt);
                    stack.push(p);
                }
            }
            out.push((taken, obs));
        }
        out
    }
}

/// the direct oracles of C02/C03/C04/C05 on one run; returns failures
pub fn oracles(w: &GWorld, inputs: &[usize], stale: bool, obs: &RunObs) -> Vec<String> {
    let mut f = vec![];
    let required = w.reach(inputs);
    let rc = w.reaches_cycle();
    let fails = required.iter().any(|x| w.fail_first[*x] || (w.fail_final[*x] && !rc[*x]));
    let cyclic = required.iter().any(|x| rc[*x]);
    // C04 / C05: verdict
    if fails && obs.verdict == "ok" {
        f.push(format!("C04: a required file fails but the run reports success"));
    }
    if cyclic && obs.verdict == "ok" {
        f.push("C05: a required file reaches a dependency cycle but the run reports success".to_string());
    }
    if !fails && !cyclic && obs.verdict != "ok" {
        f.push(format!("C03/C05: nothing fails and no required file reaches a cycle, but the run ends with a failure (`{}`)", obs.verdict));
    }
    if obs.verdict == "ok" && obs.outstanding_at_finish > 0 {
        f.push(format!("C03: the coordinator returned while {} task(s) were still in flight", obs.outstanding_at_finish));
    }
    if obs.worker_panics > 0 {
        f.push(format!("C18/C03: {} thread(s) panicked during the run (a worker that panics never delivers its result; after an error `run` must still wait for its workers)", obs.worker_panics));
    }
    // C02 / C03 / C05: bytes of every required file that cannot reach a cycle (when no task failed)
    if !fails {
        let mut memo = BTreeMap::new();
        for x in &required {
            if rc[*x] {
                continue;
            }
            let want = w.expected(*x, &mut memo);
            match obs.outputs.get(x).cloned().flatten() {
                None => f.push(format!("C03: required file f{x} has no output after a run that ended with `{}`", obs.verdict)),
                Some(got) if got != want => f.push(format!(
                    "C02: output of f{x} is {:?}, processing the files one at a time in dependency order gives {:?}{}",
                    got,
                    want,
                    if stale && got.contains("STALE") { " (a stale output was observed)" } else { "" }
                )),
                _ => {}
            }
        }
    }
    // C03: exactly once
    for ((path, kind), n) in &obs.spawn_counts {
        if *n > 1 {
            f.push(format!("C03: {} of `{}` was started {} times", if *kind == 1 { "the first pass" } else { "the final pass" }, path, n));
        }
    }
    if w.markers && obs.verdict == "ok" {
        for x in &required {
            let want_pre = if w.deps[*x].is_empty() { 1 } else { 2 };
            let pre = obs.log.iter().filter(|l| **l == format!("pre{x}")).count();
            if pre != want_pre {
                f.push(format!("C03: command before the dependencies of f{x} ran {pre} time(s), expected {want_pre}"));
            }
            if !w.deps[*x].is_empty() {
                let posts: Vec<&String> = obs.log.iter().filter(|l| l.split(' ').next() == Some(&format!("post{x}"))).collect();
                if posts.len() != 1 {
                    f.push(format!("C03: command after the dependency directives of f{x} ran {} time(s), expected exactly 1", posts.len()));
                }
                // C02: when it ran, every dependency output was complete (its last line is the tail line)
                if let Some(p) = posts.first() {
                    let seen: Vec<&str> = p.split(' ').skip(1).collect();
                    for (k, j) in w.deps[*x].iter().enumerate() {
                        let got = seen.get(k).cloned().unwrap_or("");
                        if got != format!("tail{j}") {
                            f.push(format!("C02: the command after `include/after f{j}.txt` in f{x} started when f{j}.txt ended with {:?} (incomplete, missing or stale)", got));
                        }
                    }
                }
            }
        }
    }
    f
}

/// `orders`: per delivery the spawned tasks in the order the coordinator handed them to the pool
/// (the iteration order of the HashSet returned by notify_finish is not determined by the model)
pub fn model_request(w: &GWorld, inputs: &[usize], threads: usize, choices: &[usize], steps: &[Step]) -> String {
    format!(
        "coord {} {} {} {} {}",
        threads,
        inputs.iter().map(|i| i.to_string()).collect::<Vec<_>>().join("."),
        w.encode(),
        if choices.is_empty() { "-".to_string() } else { choices.iter().map(|c| c.to_string()).collect::<Vec<_>>().join(".") },
        if steps.is_empty() { "-".to_string() } else { steps.iter().map(|s| show_tasks(&s.spawned_order)).collect::<Vec<_>>().join("|") }
    )
}

pub fn all_graphs(n: usize) -> Vec<Vec<Vec<usize>>> {
    let e = n * n;
    let mut out = vec![];
    for mask in 0u32..(1u32 << e) {
        let mut deps = vec![vec![]; n];
        for i in 0..n {
            for j in 0..n {
                if mask & (1 << (i * n + j)) != 0 {
                    deps[i].push(j);
                }
            }
        }
        out.push(deps);
    }
    out
}

struct Job {
    w: GWorld,
    inputs: Vec<usize>,
    threads: usize,
    stale: bool,
    max_runs: usize,
}

fn jobs_for(property: &str, args: &Args, rng: &mut Rng) -> Vec<Job> {
    let mut jobs = vec![];
    let thorough = args.thorough();
    let cyclic_ok = property != "C02";
    let with_fail = property == "C04";
    let is_acyclic = |deps: &Vec<Vec<usize>>| {
        let w = GWorld { n: deps.len(), deps: deps.clone(), fail_first: vec![false; deps.len()], fail_final: vec![false; deps.len()], markers: false, file_dir: vec![], dir_path: vec![], links: vec![] };
        !w.reaches_cycle().iter().any(|x| *x)
    };
    let sizes: Vec<usize> = if thorough || property == "C02" { vec![1, 2, 3, 4] } else { vec![1, 2, 3] };
    for n in sizes {
        let graphs = all_graphs(n);
        let take: Vec<Vec<Vec<usize>>> = if n == 4 && property == "C02" {
            // all 543 labelled DAGs on 4 files
            graphs.into_iter().filter(|d| is_acyclic(d)).collect()
        } else if n == 4 {
            // 65536 labelled digraphs: a seeded sample (thorough only)
            (0..6000).map(|_| graphs[rng.below(graphs.len())].clone()).collect()
        } else {
            graphs
        };
        for deps in take {
            if !cyclic_ok && !is_acyclic(&deps) {
                continue;
            }
            if property == "C05" && is_acyclic(&deps) && n == 3 && !rng.chance(1, 4) {
                continue; // C05 concentrates on cyclic graphs, keeps a sample of acyclic ones
            }
            let input_sets: Vec<Vec<usize>> = match n {
                1 => vec![vec![0], vec![0, 0]],
                2 => vec![vec![0], vec![1], vec![0, 1], vec![1, 0, 1]],
                3 => vec![vec![0], vec![0, 1, 2], vec![2, 1, 0], vec![1, 2]],
                _ => vec![vec![0], vec![0, 1, 2, 3], vec![3, 1]],
            };
            for inputs in input_sets {
                let thread_opts: Vec<usize> = if n <= 2 { vec![1, 2, 8] } else if thorough { vec![1, 2, 8] } else { vec![*rng.pick(&[1usize, 2, 2, 8, 8])] };
                for threads in thread_opts {
                    let mut ff = vec![false; n];
                    let mut fl = vec![false; n];
                    if with_fail || (property == "C03" && rng.chance(1, 4)) {
                        let k = rng.below(n);
                        if rng.chance(1, 2) {
                            ff[k] = true;
                        } else {
                            fl[k] = true;
                        }
                    }
                    let markers = !with_fail && rng.chance(1, if thorough { 6 } else { 14 });
                    jobs.push(Job {
                        w: GWorld { n, deps: deps.clone(), fail_first: ff, fail_final: fl, markers, file_dir: vec![], dir_path: vec![], links: vec![] },
                        inputs: inputs.clone(),
                        threads,
                        stale: rng.chance(1, 2),
                        max_runs: if thorough { 400 } else { 60 },
                    });
                }
            }
        }
    }
    jobs
}

pub fn run(args: &Args, property: &str) -> Report {
    let mut rep = Report::new(property, "M6", &args.replay_dir);
    let model = Model::new(&args.model, &args.work);
    let mut rng = Rng::new(args.seed.wrapping_mul(7919).wrapping_add(property.bytes().map(|b| b as u64).sum::<u64>()));
    let jobs = jobs_for(property, args, &mut rng);
    rep.rule = format!(
        "every labelled digraph with self-loops on 1..3 files ({}; 4 files: seeded sample of 6000 in the thorough tier) x input selections (single, all, reversed, duplicates) x thread counts {{1,2,8}} x ALL delivery orders of in-flight task results (stateless DFS over the schedule controller installed through the verif hooks, capped per configuration), half of the cases with stale outputs on disk{}; each run: the real coordinator's trace (enabled set, choice, tasks spawned by the delivery, verdict) is compared with the Lean coordinator model, and the direct oracles (verdict, bytes equal to sequential processing, exactly-once task starts, marker order) are evaluated on the real outputs. distinct_nontrivial = distinct (graph, inputs, threads, delivery order) runs with at least one dependency edge.",
        if property == "C02" { "acyclic only" } else { "cyclic included" },
        if property == "C04" { "; one file of each project fails before or after its dependency directives" } else { "" }
    );
    install_panic_counter();
    let ex = Explorer::new(args, &property.to_lowercase(), property);
    let mut reqs: Vec<String> = vec![];
    let mut pend: Vec<(GWorld, Vec<usize>, usize, bool, Vec<usize>, RunObs)> = vec![];
    let mut nontrivial = 0u64;
    for (ji, job) in jobs.iter().enumerate() {
        if ji % args.shards.max(1) != args.shard {
            continue;
        }
        let runs = ex.explore(&job.w, &job.inputs, job.threads, job.stale, job.max_runs);
        rep.count(&format!("files={}", job.w.n));
        rep.count(&format!("threads={}", job.threads));
        rep.countn("runs_with_markers", if job.w.markers { runs.len() as u64 } else { 0 });
        rep.countn(&format!("orders_explored(files={})", job.w.n), runs.len() as u64);
        if runs.len() >= job.max_runs {
            rep.count("configurations_capped");
        }
        for (taken, obs) in runs {
            rep.evaluations += 1;
            rep.count(&format!("verdict:{}", obs.verdict));
            if job.w.deps.iter().any(|d| !d.is_empty()) {
                nontrivial += 1;
            }
            for failure in oracles(&job.w, &job.inputs, job.stale, &obs) {
                rep.violation(
                    "oracle",
                    &format!("{failure}; graph {} inputs {:?} threads {} delivery order {:?}", job.w.encode(), job.inputs, job.threads, taken),
                    &format!("{}# {}\n# deliveries: {}\n", case_string(&job.w, &job.inputs, job.threads, job.stale, &taken), failure, show_steps(&obs.steps)),
                );
            }
            reqs.push(model_request(&job.w, &job.inputs, job.threads, &taken, &obs.steps));
            pend.push((job.w.clone(), job.inputs.clone(), job.threads, job.stale, taken, obs));
        }
        if rep.samples.len() < 3 {
            if let Some(l) = pend.last() {
                rep.sample(format!("graph {} inputs {:?} threads {}: order {:?} => {} ; trace {}", l.0.encode(), l.1, l.2, l.4, l.5.verdict, show_steps(&l.5.steps)));
            }
        }
    }
    // trace correspondence with the Lean model
    let resp = model.batch(&reqs);
    for (r, (w, inputs, threads, stale, taken, obs)) in resp.iter().zip(pend.iter()) {
        let imp = format!("{} {}", if obs.verdict == "circular" { "err" } else { &obs.verdict }, show_steps(&obs.steps));
        let r = &r.replacen("circular ", "err ", 1);
        if *r != imp {
            rep.violation(
                "divergence",
                &format!("coordinator trace differs from the Lean coordinator model: implementation `{imp}`, model `{r}`; graph {} inputs {:?} threads {}", w.encode(), inputs, threads),
                &format!(
                    "{}# correspondence M6 (coordinator trace); theorems resting on it: {}.* (Coord.reach_inv, never_panics, acct, second_pass_after_deps, finished_is_quiet, success_outputs, terminates, waiting_reaches_cycle)\n# implementation: {imp}\n# model:          {r}\n# the direct oracles passed on this run: no failing input found\n",
                    case_string(w, inputs, *threads, *stale, taken),
                    property
                ),
            );
        }
    }
    rep.distinct = Some(nontrivial);
    rep.exhaustive = rep.dist.get("configurations_capped").is_none();
    ex.cleanup();
    rep
}

/// directory worlds: scan tasks, duplicate directories, symbolic-link loops (C03 / C18 with scanning)
pub fn run_scan(args: &Args, property: &str) -> Report {
    let mut rep = Report::new(property, "M6-scan", &args.replay_dir);
    let model = Model::new(&args.model, &args.work);
    let mut rng = Rng::new(args.seed.wrapping_mul(104729).wrapping_add(17));
    rep.rule = "directory worlds: 1-3 directories (base, d1, d1/d2 or d2), 1-3 sources placed in them with random include/after edges (cyclic included), optional directory symbolic links back to an ancestor (loop) or to a sibling (second path to the same directory), inputs = directories (also named twice, with ./) and files, recursive on/off, 16 threads (every in-flight task enabled) x ALL delivery orders of scan and file task results (capped). Trace (enabled set incl. scan tasks, tasks spawned by each delivery, verdict) compared with the Lean coordinator-with-scans model; oracles as for files (verdict, bytes, exactly-once starts, delivery bound). distinct_nontrivial = distinct (world, inputs, order) runs with at least one sub-directory or link.".to_string();
    let ex = Explorer::new(args, &format!("{}scan", property.to_lowercase()), property);
    let nworlds = if args.thorough() { 4000 } else { 260 };
    let mut reqs: Vec<String> = vec![];
    let mut pend: Vec<(String, RunObs)> = vec![];
    let mut nontrivial = 0u64;
    for wi in 0..nworlds {
        // same worlds in every shard (seeded), each shard takes its share
        let n = 1 + rng.below(3);
        let ndirs = 1 + rng.below(3);
        let mut dir_path = vec![String::new()];
        if ndirs >= 2 {
            dir_path.push("d1".to_string());
        }
        if ndirs >= 3 {
            dir_path.push(if rng.chance(1, 2) { "d1/d2".to_string() } else { "d2".to_string() });
        }
        let file_dir: Vec<usize> = (0..n).map(|_| rng.below(ndirs)).collect();
        let mut deps = vec![vec![]; n];
        for i in 0..n {
            for j in 0..n {
                if rng.chance(1, 4) {
                    deps[i].push(j);
                }
            }
        }
        let mut links: Vec<(String, usize)> = vec![];
        if ndirs >= 2 && rng.chance(1, 2) {
            links.push(("d1/d0".to_string(), 0)); // loop back to the base; named d0 so that its canonical target is directory 0
        }
        if ndirs >= 3 && rng.chance(1, 3) {
            let l = if dir_path[2] == "d2" { "d2/d1" } else { "d1/d2/d1" };
            links.push((l.to_string(), 1));
        }
        let mut ff = vec![false; n];
        let mut fl = vec![false; n];
        if rng.chance(1, 5) {
            let k = rng.below(n);
            if rng.chance(1, 2) { ff[k] = true } else { fl[k] = true }
        }
        let w = GWorld { n, deps, fail_first: ff, fail_final: fl, markers: false, file_dir: file_dir.clone(), dir_path: dir_path.clone(), links: links.clone() };
        let recursive = rng.chance(2, 3);
        let mut dir_inputs: Vec<usize> = vec![rng.below(ndirs)];
        if rng.chance(1, 2) {
            dir_inputs.push(rng.below(ndirs));
        }
        let inputs: Vec<usize> = if rng.chance(1, 3) { vec![rng.below(n)] } else { vec![] };
        let stale = rng.chance(1, 3);
        if wi % args.shards.max(1) != args.shard {
            continue;
        }
        // what a scan of each directory reports
        let subs_of = |d: usize| -> Vec<usize> {
            if !recursive {
                return vec![];
            }
            let mut v = vec![];
            for (j, p) in dir_path.iter().enumerate() {
                if j != d && !p.is_empty() && crate::gen::dir_of(p) == dir_path[d] {
                    v.push(j);
                }
            }
            for (l, t) in &links {
                if crate::gen::dir_of(l) == dir_path[d] {
                    v.push(*t);
                }
            }
            v
        };
        let files_of = |d: usize| -> Vec<usize> { (0..n).filter(|i| file_dir[*i] == d).collect() };
        // files reachable by scanning
        let mut seen_dirs: Vec<usize> = vec![];
        let mut stack = dir_inputs.clone();
        let mut all_inputs = inputs.clone();
        while let Some(d) = stack.pop() {
            if seen_dirs.contains(&d) {
                continue;
            }
            seen_dirs.push(d);
            all_inputs.extend(files_of(d));
            stack.extend(subs_of(d));
        }
        let runs = ex.explore_ex(&w, &inputs, &dir_inputs, recursive, 16, stale, if args.thorough() { 300 } else { 40 });
        rep.count(&format!("dirs={ndirs}"));
        rep.count(&format!("links={}", links.len()));
        rep.countn("orders_explored", runs.len() as u64);
        let dirworld: String = (0..ndirs)
            .map(|d| {
                let f = files_of(d);
                let sb = subs_of(d);
                format!(
                    "{}:{}:f",
                    if f.is_empty() { "-".to_string() } else { f.iter().map(|x| x.to_string()).collect::<Vec<_>>().join(".") },
                    if sb.is_empty() { "-".to_string() } else { sb.iter().map(|x| x.to_string()).collect::<Vec<_>>().join(".") }
                )
            })
            .collect::<Vec<_>>()
            .join(",");
        for (taken, obs) in runs {
            rep.evaluations += 1;
            rep.count(&format!("verdict:{}", obs.verdict));
            if ndirs > 1 || !links.is_empty() {
                nontrivial += 1;
            }
            let case = format!(
                "{}dirs: {:?}\nrecursive: {}\ndir_path: {:?}\nfile_dir: {:?}\nlinks: {:?}\n",
                case_string(&w, &inputs, 16, stale, &taken), dir_inputs, recursive, dir_path, file_dir, links
            );
            for failure in oracles(&w, &all_inputs, stale, &obs) {
                rep.violation("oracle", &format!("{failure}; directory world {} dirs {:?} links {:?} inputs dirs {:?} files {:?} recursive {} order {:?}", w.encode(), dir_path, links, dir_inputs, inputs, recursive, taken), &format!("{case}# {failure}\n# deliveries: {}\n", show_steps(&obs.steps)));
            }
            reqs.push(format!(
                "coordscan {} {} {} {} {}",
                if inputs.is_empty() { "-".to_string() } else { inputs.iter().map(|i| i.to_string()).collect::<Vec<_>>().join(".") },
                dir_inputs.iter().map(|i| i.to_string()).collect::<Vec<_>>().join("."),
                w.encode(),
                dirworld,
                if taken.is_empty() { "-".to_string() } else { taken.iter().map(|c| c.to_string()).collect::<Vec<_>>().join(".") }
            ));
            pend.push((case, obs));
        }
        if rep.samples.len() < 3 {
            if let Some(l) = pend.last() {
                rep.sample(format!("dirs {:?} links {:?} files in dirs {:?} graph {} inputs dirs {:?}: {} ; trace {}", dir_path, links, file_dir, w.encode(), dir_inputs, l.1.verdict, show_steps(&l.1.steps)));
            }
        }
    }
    let resp = model.batch(&reqs);
    for (r, (case, obs)) in resp.iter().zip(pend.iter()) {
        let imp = format!("{} {}", if obs.verdict == "circular" { "err" } else { &obs.verdict }, show_steps(&obs.steps));
        let r = &r.replacen("circular ", "err ", 1);
        if *r != imp {
            rep.violation(
                "divergence",
                &format!("coordinator trace with directory scans differs from the Lean model: implementation `{imp}`, model `{r}`"),
                &format!("{case}# correspondence M6-scan; theorems resting on it: C03.exit_iff_idle_with_scans, C03.directories_scanned_once (Coord.sreach_inv)\n# implementation: {imp}\n# model:          {r}\n# the direct oracles passed on this run: no failing input found\n"),
            );
        }
    }
    rep.distinct = Some(nontrivial);
    ex.cleanup();
    rep
}

pub fn replay(args: &Args, property: &str, path: &Path) -> Report {
    let mut rep = Report::new(property, "M6", &args.replay_dir);
    let model = Model::new(&args.model, &args.work);
    let text = std::fs::read_to_string(path).unwrap_or_default();
    let get = |k: &str| text.lines().find_map(|l| l.strip_prefix(k)).map(|s| s.trim().to_string());
    let (Some(ws), Some(inp), Some(th)) = (get("world: "), get("inputs: "), get("threads: ")) else {
        rep.notes.push("replay file has no stored schedule case".to_string());
        return rep;
    };
    let Some(mut w) = GWorld::decode(&ws) else { return rep };
    w.markers = get("markers: ").map(|s| s == "true").unwrap_or(false);
    let inputs: Vec<usize> = inp.split('.').filter_map(|x| x.parse().ok()).collect();
    let threads: usize = th.parse().unwrap_or(1);
    let stale = get("stale: ").map(|s| s == "true").unwrap_or(false);
    let choices: Vec<usize> = get("choices: ").map(|s| s.split('.').filter_map(|x| x.parse().ok()).collect()).unwrap_or_default();
    let ex = Explorer::new(args, "replay", property);
    let obs = ex.run_once(&w, &inputs, threads, stale, &choices);
    rep.evaluations = 1;
    let taken: Vec<usize> = obs.steps.iter().map(|s| s.choice).collect();
    for failure in oracles(&w, &inputs, stale, &obs) {
        rep.violation("oracle", &failure, &format!("{}# {}\n", case_string(&w, &inputs, threads, stale, &taken), failure));
    }
    let r = model.batch(&[model_request(&w, &inputs, threads, &taken, &obs.steps)]);
    let imp = format!("{} {}", if obs.verdict == "circular" { "err" } else { &obs.verdict }, show_steps(&obs.steps));
    let r = vec![r[0].replacen("circular ", "err ", 1)];
    if r[0] != imp {
        rep.violation("divergence", &format!("implementation `{imp}`, model `{}`", r[0]), &case_string(&w, &inputs, threads, stale, &taken));
    }
    ex.cleanup();
    rep
}

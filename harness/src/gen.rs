//! Grammar-aware generator of txtpp projects inside the documented input domain (DESIGN 4.3),
//! with a separate stream of error cases. Every random choice comes from one `Rng`.
use crate::util::*;

#[derive(Clone, Debug)]
pub struct Act {
    pub kind: &'static str, // lit | cat | mark | pwd | file | true | fail
    pub arg: String,
}

#[derive(Clone, Debug)]
pub struct Project {
    /// files relative to the base directory
    pub files: Vec<(String, Vec<u8>)>,
    pub dirs: Vec<String>,
    /// command text (as `run` joins it) -> actions
    pub cmds: Vec<(String, Vec<Act>)>,
    /// .txtpp sources (relative path) in dependency order (later ones may be included by earlier ones)
    pub sources: Vec<String>,
    /// coverage signature pieces collected while generating
    pub sig: Vec<String>,
    pub expect_error: bool,
}

pub struct GenOpts {
    pub max_sources: usize,
    pub error_pct: usize,
    pub crlf_pct: usize,
    pub unicode_pct: usize,
    pub allow_run: bool,
    pub deps: bool,
}
impl Default for GenOpts {
    fn default() -> Self {
        GenOpts {
            max_sources: 3,
            error_pct: 10,
            crlf_pct: 30,
            unicode_pct: 8,
            allow_run: true,
            deps: true,
        }
    }
}

const PREFIXES: [&str; 9] = ["-", "//", "# ", "// ", "<!-- ", ";", "x", "* ", "- - "];
const UNI_PREFIXES: [&str; 3] = ["é", "-é ", "→ "];
const WSS: [&str; 6] = ["", "", " ", "  ", "\t", "    "];
const WORDS: [&str; 14] = [
    "alpha", "beta", "gamma", "x", "y=1", "é", "日本", "end.", "a b", "q", "()", "{}", "0", "fin",
];
const LOOKALIKES: [&str; 10] = [
    "TXTPP#runx y",
    "TXTPP#run\tx",
    "TXTPP #run x",
    "txtpp#run x",
    "TXTPP#foo TXTPP#run x",
    "TXTPP#includes a",
    "TXTPP#Write a",
    "#TXTPP",
    "TXTPP#tagx",
    "TXTPP#temporary",
];

pub struct SrcBuilder {
    pub lines: Vec<String>,
    /// the multi-line-capable directive that the next line could continue: (ws, prefix, is_run)
    open: Option<(String, String, bool)>,
}

fn continues(ws: &str, pre: &str, l: &str) -> bool {
    if !l.starts_with(ws) {
        return false;
    }
    let rest = &l[ws.len()..];
    rest == pre.trim_end() || rest.starts_with(pre) || rest.starts_with(&" ".repeat(pre.len()))
}

impl SrcBuilder {
    /// an ordinary line; may merge into an open write/temp/empty block (a documented effect), never into a command
    pub fn text(&mut self, l: String) {
        if let Some((ws, pre, is_run)) = &self.open {
            if continues(ws, pre, &l) {
                if *is_run {
                    self.lines.push("~".to_string());
                    self.open = None;
                }
            } else {
                self.open = None;
            }
        }
        self.lines.push(l);
    }
    /// an ordinary line that must stay ordinary (it carries a tag use site)
    pub fn text_nomerge(&mut self, l: String) {
        if let Some((ws, pre, _)) = &self.open {
            if continues(ws, pre, &l) {
                self.lines.push("~".to_string());
            }
        }
        self.open = None;
        self.lines.push(l);
    }
    /// the first line of a directive; never merges into the previous block
    pub fn head(&mut self, ws: &str, pre: &str, l: String, multi: bool, is_run: bool) {
        if let Some((ows, opre, _)) = &self.open {
            if continues(ows, opre, &l) {
                self.lines.push("~".to_string());
            }
        }
        self.lines.push(l);
        self.open = if multi { Some((ws.to_string(), pre.to_string(), is_run)) } else { None };
    }
    /// a deliberate continuation line
    pub fn cont(&mut self, l: String) {
        self.lines.push(l);
    }
}

fn word(rng: &mut Rng, uni: bool) -> String {
    loop {
        let w = *rng.pick(&WORDS);
        if uni || w.is_ascii() {
            return w.to_string();
        }
    }
}

fn text_line(rng: &mut Rng, opts: &GenOpts) -> String {
    let uni = rng.chance(opts.unicode_pct, 100);
    match rng.below(10) {
        0 => String::new(),
        1 => (*rng.pick(&LOOKALIKES)).to_string(),
        2 => format!("{}{}", rng.pick(&WSS), rng.pick(&LOOKALIKES)),
        3 => format!("{}{}  ", rng.pick(&WSS), word(rng, uni)),
        _ => {
            let n = 1 + rng.below(4);
            let mut s = String::from(*rng.pick(&WSS));
            for i in 0..n {
                if i > 0 {
                    s.push(' ');
                }
                s.push_str(&word(rng, uni));
            }
            s
        }
    }
}

fn pick_prefix(rng: &mut Rng, opts: &GenOpts) -> String {
    if rng.chance(opts.unicode_pct, 100) {
        (*rng.pick(&UNI_PREFIXES)).to_string()
    } else {
        (*rng.pick(&PREFIXES)).to_string()
    }
}

/// continuation line for argument `arg` in one of the three documented forms
fn cont_line(rng: &mut Rng, ws: &str, pre: &str, arg: &str, forms: &mut Vec<&'static str>) -> String {
    let trail = if rng.chance(1, 5) { "  " } else { "" };
    if arg.is_empty() && rng.chance(1, 2) {
        forms.push("trimmed-prefix");
        return format!("{ws}{}", pre.trim_end());
    }
    if rng.chance(1, 3) && !arg.starts_with(' ') {
        forms.push("spaces");
        format!("{ws}{}{arg}{trail}", " ".repeat(pre.len()))
    } else {
        forms.push("prefix");
        format!("{ws}{pre}{arg}{trail}")
    }
}

impl Project {
    pub fn file_mut(&mut self, path: &str) -> Option<&mut Vec<u8>> {
        self.files.iter_mut().find(|f| f.0 == path).map(|f| &mut f.1)
    }
    pub fn add_cmd(&mut self, text: &str, acts: Vec<Act>) {
        if !self.cmds.iter().any(|c| c.0 == text) {
            self.cmds.push((text.to_string(), acts));
        }
    }
}

/// relative path from directory `from` to file `to` (both relative to base, `/`-separated)
pub fn rel_path(from_dir: &str, to: &str, rng: &mut Rng) -> String {
    let f: Vec<&str> = if from_dir.is_empty() { vec![] } else { from_dir.split('/').collect() };
    let t: Vec<&str> = to.split('/').collect();
    let mut common = 0;
    while common < f.len() && common + 1 < t.len() && f[common] == t[common] {
        common += 1;
    }
    let mut parts: Vec<String> = vec![];
    for _ in common..f.len() {
        parts.push("..".to_string());
    }
    for x in &t[common..] {
        parts.push(x.to_string());
    }
    let mut s = parts.join("/");
    if rng.chance(1, 6) {
        s = format!("./{s}");
    }
    s
}

pub fn dir_of(path: &str) -> String {
    match path.rfind('/') {
        Some(i) => path[..i].to_string(),
        None => String::new(),
    }
}

pub fn output_name(src: &str) -> String {
    // foo.ext.txtpp -> foo.ext ; foo.txtpp.ext -> foo.ext ; foo.txtpp -> foo
    let d = dir_of(src);
    let name = src.rsplit('/').next().unwrap();
    let out = if let Some(s) = name.strip_suffix(".txtpp") {
        s.to_string()
    } else {
        // foo.txtpp.ext
        let i = name.rfind(".txtpp.").unwrap();
        format!("{}{}", &name[..i], &name[i + 6..])
    };
    if d.is_empty() {
        out
    } else {
        format!("{d}/{out}")
    }
}

fn bytes_with_le(lines: &[String], rng: &mut Rng, opts: &GenOpts, final_nl: bool, force_first: Option<&'static str>) -> Vec<u8> {
    let main = if rng.chance(opts.crlf_pct, 100) { "\r\n" } else { "\n" };
    let main = force_first.unwrap_or(main);
    let mixed = rng.chance(15, 100);
    let mut out = vec![];
    for (i, l) in lines.iter().enumerate() {
        out.extend_from_slice(l.as_bytes());
        let last = i + 1 == lines.len();
        if !last || final_nl {
            let le = if i == 0 {
                main
            } else if mixed {
                if rng.chance(1, 2) {
                    "\r\n"
                } else {
                    "\n"
                }
            } else {
                main
            };
            out.extend_from_slice(le.as_bytes());
        }
    }
    out
}

/// generate one project
pub fn gen_project(rng: &mut Rng, opts: &GenOpts) -> Project {
    debug_assert!(LOOKALIKES.iter().all(|l| txtpp::verif::Directive::detect_from(l).is_none()));
    for l in LOOKALIKES {
        if txtpp::verif::Directive::detect_from(l).is_some() {
            panic!("generator look-alike {l:?} is a directive");
        }
    }
    let mut p = Project {
        files: vec![],
        dirs: vec![],
        cmds: vec![],
        sources: vec![],
        sig: vec![],
        expect_error: false,
    };
    // directories
    let all_dirs = ["sub", "sub/deep", "lib"];
    for d in all_dirs {
        if rng.chance(1, 2) {
            if d == "sub/deep" && !p.dirs.iter().any(|x| x == "sub") {
                p.dirs.push("sub".to_string());
            }
            if !p.dirs.iter().any(|x| x == d) {
                p.dirs.push(d.to_string());
            }
        }
    }
    let pick_dir = |rng: &mut Rng, dirs: &Vec<String>| -> String {
        if dirs.is_empty() || rng.chance(1, 2) {
            String::new()
        } else {
            rng.pick(dirs).clone()
        }
    };
    // static files
    let nstatic = rng.below(3);
    let mut statics: Vec<String> = vec![];
    for i in 0..nstatic {
        let d = pick_dir(rng, &p.dirs);
        let name = format!("s{i}.{}", rng.pick(&["txt", "md", "inc"]));
        let path = if d.is_empty() { name } else { format!("{d}/{name}") };
        let n = rng.below(4);
        let lines: Vec<String> = (0..n).map(|_| text_line(rng, opts)).collect();
        let final_nl = rng.chance(2, 3);
        let content = bytes_with_le(&lines, rng, opts, final_nl, None);
        p.files.push((path.clone(), content));
        statics.push(path);
    }
    // sources
    let nsrc = 1 + rng.below(opts.max_sources);
    for i in 0..nsrc {
        let d = pick_dir(rng, &p.dirs);
        let name = match rng.below(5) {
            4 => format!("o{i}.min.txtpp.js"),
            0 => format!("o{i}.txtpp.txt"),
            1 => format!("o{i}.txtpp"),
            2 => format!("o{i}.min.js.txtpp"),
            _ => format!("o{i}.txt.txtpp"),
        };
        let path = if d.is_empty() { name } else { format!("{d}/{name}") };
        p.sources.push(path);
    }
    let want_error = rng.chance(opts.error_pct, 100);
    let err_src = rng.below(nsrc);
    // build contents from the last source (no deps) to the first
    for i in (0..nsrc).rev() {
        let src = p.sources[i].clone();
        let sdir = dir_of(&src);
        let deps: Vec<String> = if opts.deps {
            ((i + 1)..nsrc).filter(|_| rng.chance(1, 2)).map(|j| p.sources[j].clone()).collect()
        } else {
            vec![]
        };
        let inject_error = want_error && i == err_src;
        let (lines, final_nl) = gen_source(rng, opts, &mut p, &src, &sdir, &statics, &deps, inject_error);
        let content = bytes_with_le(&lines, rng, opts, final_nl, None);
        p.files.push((src, content));
    }
    if want_error {
        p.expect_error = true;
    }
    p
}

fn gen_source(
    rng: &mut Rng,
    opts: &GenOpts,
    p: &mut Project,
    src: &str,
    sdir: &str,
    statics: &[String],
    deps: &[String],
    inject_error: bool,
) -> (Vec<String>, bool) {
    let mut b = SrcBuilder { lines: vec![], open: None };
    let nitems = rng.below(7);
    let mut pending_tags: Vec<String> = vec![]; // stored tags not yet used
    let mut listening: Option<String> = None;
    let mut declared: Vec<String> = vec![]; // dep outputs declared so far (readable by commands)
    let mut temps: Vec<String> = vec![];
    let mut deps_left: Vec<String> = deps.to_vec();
    let err_at = if inject_error { rng.below(nitems + 1) } else { usize::MAX };
    let srcid = src.replace('/', "_").replace('.', "_");
    let mut counter = 0;
    for item in 0..=nitems {
        if item == err_at {
            gen_error_item(rng, opts, p, &mut b, sdir, &mut listening, &pending_tags);
        }
        if item == nitems {
            break;
        }
        let ws = (*rng.pick(&WSS)).to_string();
        let pre = pick_prefix(rng, opts);
        // a listening tag must be followed by an output-producing directive eventually
        let choice = if listening.is_some() && rng.chance(2, 3) {
            *rng.pick(&[2usize, 3, 5])
        } else {
            rng.below(10)
        };
        match choice {
            0 | 1 => {
                // text line, possibly using a stored tag
                let mut l = text_line(rng, opts);
                let mut uses_tag = false;
                if !pending_tags.is_empty() && rng.chance(2, 3) {
                    uses_tag = true;
                    let k = rng.below(pending_tags.len());
                    let t = pending_tags.remove(k);
                    l = match rng.below(4) {
                        0 => t.clone(), // the tag alone on its line
                        1 => format!("  {t}"),
                        _ => format!("{l}<{t}>{t}"),
                    };
                    p.sig.push("tag-use".into());
                }
                if uses_tag {
                    b.text_nomerge(l);
                } else {
                    b.text(l);
                }
                p.sig.push("text".into());
            }
            2 => {
                // include a static file or a dependency
                let use_dep = !deps_left.is_empty() && rng.chance(2, 3);
                if !use_dep && rng.chance(1, 8) {
                    // `after` a file that does not exist and has no source: nothing to wait for, nothing to create
                    counter += 1;
                    b.head(&ws, "", format!("{ws}TXTPP#after nope_{counter}.log"), false, false);
                    p.sig.push("after-missing-static".into());
                } else if use_dep {
                    let d = deps_left.remove(0);
                    let out = output_name(&d);
                    let arg = rel_path(sdir, &out, rng);
                    let kind = if rng.chance(1, 4) && listening.is_none() { "after" } else { "include" };
                    let pre_opt = if rng.chance(1, 3) { String::new() } else { pre.clone() };
                    b.head(&ws, &pre_opt, format!("{ws}{pre_opt}TXTPP#{kind} {arg}"), false, false);
                    declared.push(out);
                    if kind == "include" {
                        if let Some(t) = listening.take() {
                            pending_tags.push(t);
                            p.sig.push("tag-store:include-dep".into());
                        }
                    }
                    p.sig.push(format!("{kind}-dep"));
                } else if !statics.is_empty() {
                    let s = rng.pick(statics).clone();
                    let arg = rel_path(sdir, &s, rng);
                    let pre_opt = if rng.chance(1, 3) { String::new() } else { pre.clone() };
                    let trailing = if rng.chance(1, 4) { "  " } else { "" };
                    b.head(&ws, &pre_opt, format!("{ws}{pre_opt}TXTPP#include {arg}{trailing}"), false, false);
                    if let Some(t) = listening.take() {
                        pending_tags.push(t);
                        p.sig.push("tag-store:include".into());
                    }
                    p.sig.push("include-static".into());
                } else {
                    { let l = text_line(rng, opts); b.text(l); }
                }
            }
            3 if opts.allow_run => {
                // run a vocabulary command
                counter += 1;
                let (arg_lines, text, acts) = gen_command(rng, sdir, statics, &declared, &temps, &srcid, counter);
                let mut forms = vec![];
                b.head(&ws, &pre, format!("{ws}{pre}TXTPP#run {}", arg_lines[0]), true, true);
                for a in &arg_lines[1..] {
                    { let l = cont_line(rng, &ws, &pre, a, &mut forms); b.cont(l); }
                }
                p.add_cmd(&text, acts);
                if let Some(t) = listening.take() {
                    pending_tags.push(t);
                    p.sig.push("tag-store:run".into());
                }
                p.sig.push(format!("run:{}:{}", arg_lines.len().min(3), forms.join("+")));
                terminate_block(rng, opts, &mut b, &ws, &pre, p);
            }
            4 => {
                // temp
                let tname = format!("t{}_{}.{}", srcid, temps.len(), rng.pick(&["tmp", "py", "txt"]));
                let target = if !p.dirs.is_empty() && rng.chance(1, 4) {
                    let d = rng.pick(&p.dirs).clone();
                    rel_path(sdir, &format!("{d}/{tname}"), rng)
                } else {
                    tname.clone()
                };
                let nbody = rng.below(4);
                let mut forms = vec![];
                b.head(&ws, &pre, format!("{ws}{pre}TXTPP#temp {target}"), true, false);
                for _ in 0..nbody {
                    let a = if rng.chance(1, 5) { String::new() } else { text_line(rng, opts).trim().to_string() };
                    { let l = cont_line(rng, &ws, &pre, &a, &mut forms); b.cont(l); }
                }
                temps.push(target);
                p.sig.push(format!("temp:{}:{}", nbody.min(2), forms.join("+")));
                terminate_block(rng, opts, &mut b, &ws, &pre, p);
            }
            5 => {
                // write
                let n = 1 + rng.below(3);
                let mut forms = vec![];
                let mut first = if rng.chance(1, 4) { (*rng.pick(&LOOKALIKES)).to_string() } else { text_line(rng, opts).trim().to_string() };
                // stored content that mentions the name of another stored tag: substituted text is never re-expanded
                if listening.is_some() && !pending_tags.is_empty() && rng.chance(1, 2) {
                    first = format!("see {} there", rng.pick(&pending_tags));
                    p.sig.push("tag-content-names-tag".into());
                }
                b.head(&ws, &pre, format!("{ws}{pre}TXTPP#write {first}"), true, false);
                for _ in 1..n {
                    let a = if rng.chance(1, 3) {
                        format!("{}TXTPP#run echo no", pre)
                    } else {
                        text_line(rng, opts).trim_end().to_string()
                    };
                    { let l = cont_line(rng, &ws, &pre, &a, &mut forms); b.cont(l); }
                }
                if let Some(t) = listening.take() {
                    pending_tags.push(t);
                    p.sig.push("tag-store:write".into());
                }
                p.sig.push(format!("write:{}:{}", n.min(3), forms.join("+")));
                terminate_block(rng, opts, &mut b, &ws, &pre, p);
            }
            6 => {
                // tag
                if listening.is_none() {
                    let name = format!("{}{}", rng.pick(&["T", "TAG_", "A1", "é", "SEC A", "T -->"]), pending_tags.len() + counter);
                    // avoid prefix-related names
                    if !pending_tags.iter().any(|t| t.starts_with(&name) || name.starts_with(t.as_str())) {
                        let pre_opt = if rng.chance(1, 3) { String::new() } else { pre.clone() };
                        b.head(&ws, &pre_opt, format!("{ws}{pre_opt}TXTPP#tag {name}"), false, false);
                        listening = Some(name);
                        p.sig.push("tag-create".into());
                    }
                } else {
                    { let l = text_line(rng, opts); b.text(l); }
                }
            }
            7 if listening.is_none() && rng.chance(1, 6) => {
                // two stored tags whose names overlap inside one line (`OVn_` / `_LAPn` in `OVn_LAPn`): the leftmost is
                // substituted, the other one stays stored and is substituted where it occurs on its own later
                counter += 1;
                let (ta, tb) = (format!("OV{counter}_"), format!("_LAP{counter}"));
                if !pending_tags.iter().any(|t| t.starts_with(&ta) || ta.starts_with(t.as_str()) || t.starts_with(&tb) || tb.starts_with(t.as_str())) {
                    b.head("", "-", format!("-TXTPP#tag {ta}"), false, false);
                    b.head("", "-", "-TXTPP#write left".to_string(), true, false);
                    b.text_nomerge("~".to_string());
                    b.head("", "-", format!("-TXTPP#tag {tb}"), false, false);
                    b.head("", "-", "-TXTPP#write right".to_string(), true, false);
                    b.text_nomerge("~".to_string());
                    b.head("", "", format!("x OV{counter}_LAP{counter} y"), false, false);
                    b.head("", "", format!("z {tb} w"), false, false);
                    p.sig.push("tags-overlap-in-line".into());
                } else {
                    { let l = text_line(rng, opts); b.text(l); }
                }
            }
            7 => {
                // empty directive (comment)
                let n = rng.below(3);
                let mut forms = vec![];
                { let w = word(rng, false); b.head(&ws, &pre, format!("{ws}{pre}TXTPP# {}", w), true, false); }
                for _ in 0..n {
                    let a = text_line(rng, opts).trim().to_string();
                    { let l = cont_line(rng, &ws, &pre, &a, &mut forms); b.cont(l); }
                }
                p.sig.push(format!("empty:{}:{}", n, forms.join("+")));
                terminate_block(rng, opts, &mut b, &ws, &pre, p);
            }
            8 if !temps.is_empty() => {
                // read back own temp file
                let t = rng.pick(&temps).clone();
                if rng.chance(1, 2) || !opts.allow_run {
                    b.head(&ws, &pre, format!("{ws}{pre}TXTPP#include {t}"), false, false);
                    if let Some(tg) = listening.take() {
                        pending_tags.push(tg);
                    }
                    p.sig.push("include-temp".into());
                } else {
                    let text = format!("cat {t}");
                    b.head(&ws, &pre, format!("{ws}{pre}TXTPP#run {text}"), true, true);
                    p.add_cmd(&text, vec![Act { kind: "cat", arg: t.clone() }]);
                    if let Some(tg) = listening.take() {
                        pending_tags.push(tg);
                    }
                    p.sig.push("cat-temp".into());
                }
            }
            _ => {
                { let l = text_line(rng, opts); b.text(l); }
                p.sig.push("text".into());
            }
        }
    }
    // remaining deps: declare them with `after` so the project graph is as designed
    for d in deps_left {
        let out = output_name(&d);
        let arg = rel_path(sdir, &out, rng);
        b.head("", "", format!("TXTPP#after {arg}"), false, false);
        p.sig.push("after-dep".into());
    }
    // a listening tag needs an output; stored tags need a use site
    if listening.is_some() {
        b.head("", "-", "-TXTPP#write stored".to_string(), true, false);
        pending_tags.push(listening.take().unwrap());
    }
    if !pending_tags.is_empty() {
        let l = if pending_tags.len() == 1 && rng.chance(1, 2) {
            pending_tags[0].clone()
        } else {
            // either order: a tag further left may hold text that names a tag further right
            if rng.chance(1, 2) {
                pending_tags.reverse();
            }
            pending_tags.iter().map(|t| format!("[{t}]")).collect::<Vec<_>>().join(" ")
        };
        // must not merge into an open block: it carries the tag use sites
        b.head("", "", l, false, false);
        p.sig.push("tag-use-final".into());
    }
    let final_nl = rng.chance(3, 4);
    // what ends the file
    let endkind = match b.lines.last() {
        None => "empty-file",
        Some(l) if l.contains("TXTPP#") => "ends-with-directive",
        Some(l) if l.is_empty() => "ends-with-blank",
        _ => "ends-with-text",
    };
    p.sig.push(format!("{endkind}:{}", if final_nl { "nl" } else { "nonl" }));
    (b.lines, final_nl)
}

/// what follows a multi-line-capable directive block
fn terminate_block(rng: &mut Rng, opts: &GenOpts, b: &mut SrcBuilder, ws: &str, pre: &str, p: &mut Project) {
    match rng.below(6) {
        0 => {
            // a text line that looks almost like a continuation
            let l = match rng.below(3) {
                0 if pre.len() > 1 => format!("{ws}{}", " ".repeat(pre.len() - 1)) + "z",
                1 => format!("{ws} {pre}z"),
                _ => format!("{}z", &ws[..ws.len().saturating_sub(1)]),
            };
            // only safe when it cannot be read as a continuation or directive
            if !l.starts_with(&format!("{ws}{pre}")) && !l.starts_with(&format!("{ws}{}", " ".repeat(pre.len()))) {
                b.text(l);
                p.sig.push("term:near-miss".into());
            }
        }
        1 => {
            // a directive with a different prefix follows immediately
            let other = if pre == "@@" { "%%" } else { "@@" };
            b.head(ws, other, format!("{ws}{other}TXTPP# next"), true, false);
            p.sig.push("term:other-directive".into());
        }
        2 => {
            { let l = text_line(rng, opts).trim_start().to_string() + "|"; b.text(l); }
            p.sig.push("term:text".into());
        }
        _ => {
            p.sig.push("term:next-item".into());
        }
    }
}

fn lit_escape(s: &str) -> String {
    // printf format string inside single quotes: only characters that are safe there
    s.replace('\\', "\\\\").replace('%', "%%").replace('\n', "\\n").replace('\r', "\\r")
}

/// a vocabulary command: (argument lines as written in the source, joined text, actions)
fn gen_command(
    rng: &mut Rng,
    sdir: &str,
    statics: &[String],
    declared: &[String],
    temps: &[String],
    srcid: &str,
    counter: usize,
) -> (Vec<String>, String, Vec<Act>) {
    let mut parts: Vec<(String, Act)> = vec![];
    let n = 1 + rng.below(3);
    for i in 0..n {
        let k = rng.below(8);
        let part = match k {
            0 | 1 => {
                let lit = match rng.below(6) {
                    0 => "one\n".to_string(),
                    1 => "a\nb".to_string(),
                    2 => "x\r\ny\r\n".to_string(),
                    3 => String::new(),
                    4 => "tail".to_string(),
                    _ => format!("l{counter}\n\nm\n"),
                };
                (format!("printf '{}'", lit_escape(&lit)), Act { kind: "lit", arg: lit })
            }
            2 if !statics.is_empty() => {
                let s = rng.pick(statics).clone();
                let arg = rel_path(sdir, &s, rng);
                (format!("cat {arg}"), Act { kind: "cat", arg })
            }
            3 if !declared.is_empty() => {
                let s = rng.pick(declared).clone();
                let arg = rel_path(sdir, &s, rng);
                (format!("cat {arg}"), Act { kind: "cat", arg })
            }
            4 if !temps.is_empty() => {
                let t = rng.pick(temps).clone();
                (format!("cat {t}"), Act { kind: "cat", arg: t })
            }
            5 => {
                let m = format!("m_{srcid}_{counter}_{i}");
                (format!("echo {m} >> \"$VERIF_LOG\""), Act { kind: "mark", arg: m })
            }
            6 => ("printf %s \"$TXTPP_FILE\"".to_string(), Act { kind: "file", arg: String::new() }),
            _ => ("true".to_string(), Act { kind: "true", arg: String::new() }),
        };
        parts.push(part);
    }
    // written on one or several lines: split between parts (joined with " " by txtpp)
    let mut arg_lines: Vec<String> = vec![];
    let mut cur = String::new();
    for (i, (t, _)) in parts.iter().enumerate() {
        let piece = if i + 1 < parts.len() { format!("{t};") } else { t.clone() };
        if cur.is_empty() {
            cur = piece;
        } else if rng.chance(1, 2) {
            arg_lines.push(cur);
            cur = piece;
        } else {
            cur = format!("{cur} {piece}");
        }
    }
    arg_lines.push(cur);
    let text = arg_lines.join(" ");
    (arg_lines, text, parts.into_iter().map(|x| x.1).collect())
}

fn gen_error_item(
    rng: &mut Rng,
    _opts: &GenOpts,
    p: &mut Project,
    b: &mut SrcBuilder,
    _sdir: &str,
    listening: &mut Option<String>,
    pending: &[String],
) {
    match rng.below(8) {
        0 => {
            b.head("", "-", "TXTPP#run echo no-prefix".to_string(), false, false);
            p.add_cmd("echo no-prefix", vec![Act { kind: "lit", arg: "no-prefix\n".into() }]);
            p.sig.push("err:prefixless-multiline".into());
        }
        1 => {
            b.head("", "-", "-TXTPP#include does/not/exist.txt".to_string(), false, false);
            p.sig.push("err:missing-include".into());
        }
        2 if rng.chance(1, 3) => {
            b.head("", "-", "-TXTPP#run printf x; kill -KILL $$".to_string(), true, true); // a following line must not merge into the command
            p.add_cmd("printf x; kill -KILL $$", vec![Act { kind: "lit", arg: "x".into() }, Act { kind: "fail", arg: String::new() }]);
            p.sig.push("err:cmd-killed-by-signal".into());
        }
        2 => {
            b.head("", "-", "-TXTPP#run exit 3".to_string(), true, true);
            p.add_cmd("exit 3", vec![Act { kind: "fail", arg: String::new() }]);
            p.sig.push("err:cmd-fails".into());
        }
        3 => {
            b.head("", "-", "-TXTPP#tag E1".to_string(), false, false);
            b.head("", "-", "-TXTPP#tag E2".to_string(), false, false);
            b.head("", "-", "-TXTPP#write v".to_string(), false, false);
            b.cont("E1 E2".to_string());
            p.sig.push("err:tag-while-listening".into());
        }
        4 => {
            // both txtpp name shapes are refused as temp targets (`x.txtpp`, `x.txtpp.ext`)
            // ... and a target below a directory that does not exist cannot be created (and nothing is created on the way)
            let t = *rng.pick(&["bad.txtpp", "bad.txtpp.md", "bad.min.txtpp.js", "no/such/dir/t.tmp"]);
            b.head("", "-", format!("-TXTPP#temp {t}"), false, false);
            b.cont("-body".to_string());
            p.sig.push("err:temp-txtpp".into());
        }
        5 => {
            if listening.is_none() {
                b.head("", "-", "-TXTPP#tag UNUSEDX".to_string(), false, false);
                b.head("", "-", "-TXTPP#write v".to_string(), false, false);
                p.sig.push("err:unused-tag".into());
            } else {
                b.head("", "-", "-TXTPP#include nope.txt".to_string(), false, false);
                p.sig.push("err:missing-include".into());
            }
        }
        6 => {
            if let Some(t) = pending.first() {
                b.head("", "-", format!("-TXTPP#tag {t}x"), false, false);
                b.head("", "-", "-TXTPP#write v".to_string(), false, false);
                b.cont(format!("{t}x"));
                p.sig.push("err:tag-prefix-related".into());
            } else {
                b.head("", "-", "  TXTPP#write no prefix".to_string(), false, false);
                p.sig.push("err:prefixless-multiline".into());
            }
        }
        _ => {
            b.head("", "-", "-TXTPP#include .".to_string(), false, false);
            p.sig.push("err:include-dir".into());
        }
    }
}

import Txtpp.Lemmas.FreeWorld
import Txtpp.Lemmas.Term
namespace Coord

/-- replay with the number of deliveries -/
theorem freach_replayN (w : World) (inputs : List File) (s : St) (hist : List (Task × Res)) (h : FReach inputs s hist)
    (hw : ∀ t r, (t, r) ∈ hist → w.result t = r) : ReachN w inputs hist.length s := by
  induction h with
  | init => exact ReachN.init
  | step s s' hist t r _ ht _ hc ih =>
    have hr := ih (fun t' r' hm => hw t' r' (List.mem_append_left _ hm))
    have : w.result t = r := hw t r (List.mem_append_right _ (by simp))
    rw [List.length_append]
    exact ReachN.step _ s s' hr (Step.deliver s s' t ht (by rw [this]; exact hc))

/-- C03 with free results: the number of deliveries is at most twice the number of files the coordinator
    has heard of - every file gets at most a first and a final pass -/
theorem freach_budget (inputs : List File) (s : St) (hist : List (Task × Res)) (h : FReach inputs s hist) :
    hist.length ≤ 2 * s.seen.length := by
  obtain ⟨w, hw, _⟩ := freach_world inputs s hist h
  have hN := freach_replayN w inputs s hist h hw
  have := terminates w inputs s.seen hist.length s hN (Nat.le_refl _)
  exact this

/-- … and no task is delivered twice -/
theorem freach_each_task_once (inputs : List File) (s : St) (hist : List (Task × Res)) (h : FReach inputs s hist) :
    (hist.map Prod.fst).Nodup := by
  induction h with
  | init => simp
  | step s s' hist t r hprev ht hty hc ih =>
    obtain ⟨w, hw, hH⟩ := freach_world inputs s hist hprev
    have hI : Inv w s := reach_inv w inputs s (freach_replay w inputs s hist hprev hw)
    rw [List.map_append, List.nodup_append]
    refine ⟨ih, by simp, ?_⟩
    intro a ha b hb
    simp only [List.map_cons, List.map_nil, List.mem_singleton] at hb
    subst hb
    intro hab
    subst hab
    obtain ⟨⟨t', r'⟩, hm, rfl⟩ := List.mem_map.1 ha
    cases t' with
    | pp f b =>
      cases b with
      | true => exact (hH.first f r' hm).2 ht
      | false => exact (hI.ex2 f ht).2 (hH.final f r' hm)

end Coord

import Txtpp.Model.CoordScan
import Txtpp.Lemmas.CoordInject
/-! Invariants of the coordinator with directory scans. -/
namespace Coord

structure SInv (w : ScanWorld) (x : SSt) : Prop where
  inv : Inv w.toWorld x.st
  acct : x.stotal = x.sdone + x.scans.length
  scansND : x.scans.Nodup
  dirsND : x.dirs.Nodup
  scansDirs : ∀ d ∈ x.scans, d ∈ x.dirs

/-- the part of the invariant that `execute_directory` needs, with an offset `k` for directories
    that are counted in `total` but not yet handed to `execDir` -/
structure DInv (x : SSt) (k : Nat) : Prop where
  acct : x.stotal = x.sdone + x.scans.length + k
  scansND : x.scans.Nodup
  dirsND : x.dirs.Nodup
  scansDirs : ∀ d ∈ x.scans, d ∈ x.dirs

theorem execDir_st (x : SSt) (d : Dir) : (execDir x d).st = x.st := by unfold execDir; split <;> rfl
theorem execDirs_st (x : SSt) (ds : List Dir) : (execDirs x ds).st = x.st := by
  induction ds generalizing x with
  | nil => rfl
  | cons d ds ih => simp only [execDirs, List.foldl_cons] at ih ⊢; rw [ih, execDir_st]

theorem execDir_dinv (x : SSt) (d : Dir) (k : Nat) (h : DInv x (k + 1)) : DInv (execDir x d) k := by
  unfold execDir
  by_cases hc : x.dirs.contains d = true
  · rw [if_pos hc]
    exact ⟨by have := h.acct; show x.stotal = x.sdone + 1 + x.scans.length + k; omega, h.scansND, h.dirsND, h.scansDirs⟩
  · have hnd : d ∉ x.dirs := by simpa using hc
    rw [if_neg hc]
    refine ⟨?_, ?_, ?_, ?_⟩
    · have := h.acct; show x.stotal = x.sdone + (x.scans ++ [d]).length + k
      simp only [List.length_append, List.length_singleton]; omega
    · exact nodup_snoc _ _ h.scansND (fun hm => hnd (h.scansDirs d hm))
    · exact List.nodup_cons.2 ⟨hnd, h.dirsND⟩
    · intro e he
      simp only [List.mem_append, List.mem_singleton] at he
      rcases he with he | rfl
      · exact List.mem_cons_of_mem _ (h.scansDirs e he)
      · exact List.mem_cons_self

theorem execDirs_dinv (x : SSt) (ds : List Dir) (k : Nat) (h : DInv x (k + ds.length)) : DInv (execDirs x ds) k := by
  induction ds generalizing x with
  | nil => simpa [execDirs] using h
  | cons d ds ih =>
    simp only [execDirs, List.foldl_cons]
    apply ih
    apply execDir_dinv
    have : k + (d :: ds).length = k + ds.length + 1 := by simp; omega
    rw [this] at h; exact h

theorem sinv_of (w : ScanWorld) (x : SSt) (hI : Inv w.toWorld x.st) (hd : DInv x 0) : SInv w x :=
  ⟨hI, by simpa using hd.acct, hd.scansND, hd.dirsND, hd.scansDirs⟩

theorem sinv_init (w : ScanWorld) (files : List File) (ds : List Dir) : SInv w (sinit files ds) := by
  unfold sinit
  apply sinv_of
  · rw [execDirs_st]; exact inv_init w.toWorld files
  · apply execDirs_dinv
    exact ⟨by simp, by simp, by simp, by simp⟩

theorem sstep_preserves (w : ScanWorld) (x x' : SSt) (hI : SInv w x) (h : SStep w x x') : SInv w x' := by
  cases h with
  | scan _ d hd hs =>
    unfold handleScan at hs
    split at hs
    · simp at hs
    · simp only [Option.some.injEq] at hs
      subst hs
      apply sinv_of
      · rw [execDirs_st]; exact inject_preserves w.toWorld x.st _ hI.inv
      · apply execDirs_dinv
        refine ⟨?_, ?_, hI.dirsND, ?_⟩
        · have := hI.acct
          have hl : (x.scans.erase d).length = x.scans.length - 1 := List.length_erase_of_mem hd
          have hpos : 0 < x.scans.length := List.length_pos_of_mem hd
          simp only [hl]; omega
        · exact hI.scansND.erase d
        · intro e he; exact hI.scansDirs e (List.mem_of_mem_erase he)
  | pp s' t ht hc =>
    refine ⟨?_, hI.acct, hI.scansND, hI.dirsND, hI.scansDirs⟩
    exact step_preserves w.toWorld x.st s' hI.inv (Step.deliver x.st s' t ht hc)

theorem sreach_inv (w : ScanWorld) (files : List File) (ds : List Dir) (x : SSt) (h : SReach w files ds x) : SInv w x := by
  induction h with
  | init => exact sinv_init w files ds
  | step x x' _ hs ih => exact sstep_preserves w x x' ih hs

/-- C03 with directories: the coordinator's exit test on the shared counters holds exactly when
    neither a file task nor a directory scan is in flight — also when a directory is reached again
    (named twice, or through a symbolic link loop) -/
theorem exit_iff_idle (w : ScanWorld) (files : List File) (ds : List Dir) (x : SSt) (h : SReach w files ds x) :
    x.isDone = true ↔ (x.st.pool = [] ∧ x.scans = []) := by
  have hI := sreach_inv w files ds x h
  have a1 := hI.inv.acct
  have a2 := hI.acct
  simp only [SSt.isDone, beq_iff_eq]
  constructor
  · intro e
    exact ⟨List.eq_nil_of_length_eq_zero (by omega), List.eq_nil_of_length_eq_zero (by omega)⟩
  · rintro ⟨e1, e2⟩
    simp [e1] at a1; simp [e2] at a2; omega

/-- every directory is scanned at most once: scans in flight are distinct and among the scheduled
    directories, which are distinct — so the number of scans ever started is bounded by the number of
    distinct directories, whatever `dirSubs` reports (duplicates, loops) -/
theorem scans_bounded (w : ScanWorld) (files : List File) (ds : List Dir) (x : SSt) (h : SReach w files ds x)
    (U : List Dir) (hU : ∀ d ∈ x.dirs, d ∈ U) : x.dirs.length ≤ U.length ∧ x.scans.length ≤ x.dirs.length := by
  have hI := sreach_inv w files ds x h
  exact ⟨hI.dirsND.length_le_of_subset hU, hI.scansND.length_le_of_subset hI.scansDirs⟩

/-- all file-level theorems carry over: the file part of every reachable state satisfies `Inv` -/
theorem file_part_inv (w : ScanWorld) (files : List File) (ds : List Dir) (x : SSt) (h : SReach w files ds x) :
    Inv w.toWorld x.st := (sreach_inv w files ds x h).inv

end Coord

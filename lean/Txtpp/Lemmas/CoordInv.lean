import Txtpp.Model.CoordExec
namespace Coord

theorem releaseLoop_nodup (as : List File) (cnt : File → Option Nat) (out : List File) (cnt' out')
    (h : releaseLoop as cnt out = some (cnt', out'))
    (hout : out.Nodup) (hdis : ∀ x ∈ out, x ∉ as) (has : as.Nodup) : out'.Nodup := by
  induction as generalizing cnt out with
  | nil => simp [releaseLoop] at h; obtain ⟨_, rfl⟩ := h; exact hout
  | cons a as ih =>
    have hnd := List.nodup_cons.1 has
    simp only [releaseLoop] at h
    cases hc : cnt a with
    | none => simp [hc] at h
    | some k =>
      simp only [hc] at h
      split at h
      · refine ih _ _ h (List.nodup_cons.2 ⟨fun hx => hdis a hx (by simp), hout⟩) ?_ hnd.2
        intro x hx; simp at hx; rcases hx with rfl | hx
        · exact hnd.1
        · exact fun hm => hdis x hx (by simp [hm])
      · exact ih _ _ h hout (fun x hx hm => hdis x hx (by simp [hm])) hnd.2

/-- The coordinator invariant. -/
structure Inv (w : World) (s : St) : Prop where
  acct : s.total = s.done + s.pool.length
  seenND : s.seen.Nodup
  poolND : s.pool.Nodup
  finND : s.dm.fin.Nodup
  poolSeen : ∀ f b, Task.pp f b ∈ s.pool → f ∈ s.seen
  finSeen : ∀ f ∈ s.dm.fin, f ∈ s.seen
  cover : ∀ f ∈ s.seen, Task.pp f true ∈ s.pool ∨ Task.pp f false ∈ s.pool ∨ (∃ d, f ∈ s.dm.inE d) ∨ f ∈ s.dm.fin
  ex1 : ∀ f, Task.pp f true ∈ s.pool → Task.pp f false ∉ s.pool ∧ (∀ d, f ∉ s.dm.inE d) ∧ f ∉ s.dm.fin
  ex2 : ∀ f, Task.pp f false ∈ s.pool → (∀ d, f ∉ s.dm.inE d) ∧ f ∉ s.dm.fin
  ex3 : ∀ f d, f ∈ s.dm.inE d → f ∉ s.dm.fin
  edge : ∀ d a, a ∈ s.dm.inE d → d ∈ w.deps a ∧ d ∉ s.dm.fin ∧ d ∈ s.seen ∧ a ∈ s.seen
  inEND : ∀ d, (s.dm.inE d).Nodup
  count : ∀ a, (∃ d, a ∈ s.dm.inE d) →
    ∃ L : List File, L.Nodup ∧ s.dm.cnt a = some L.length ∧ ∀ d, d ∈ L ↔ a ∈ s.dm.inE d
  waitDeps : ∀ a, (∃ d, a ∈ s.dm.inE d) → ∀ d ∈ w.deps a, d ∈ s.dm.fin ∨ a ∈ s.dm.inE d
  secondDeps : ∀ a, Task.pp a false ∈ s.pool → ∀ d ∈ w.deps a, d ∈ s.dm.fin
  finDeps : ∀ a ∈ s.dm.fin, ∀ d ∈ w.deps a, d ∈ s.dm.fin
  cntP1 : ∀ a, Task.pp a true ∈ s.pool → s.dm.cnt a = none
  cntUnseen : ∀ a, a ∉ s.seen → s.dm.cnt a = none

theorem mem_erase_nodup {α} [DecidableEq α] {l : List α} (h : l.Nodup) (t x : α) :
    x ∈ l.erase t ↔ x ≠ t ∧ x ∈ l := List.Nodup.mem_erase_iff h

/-- finishing file `a` (its last task `t` was just received and reported `ok`) -/
theorem finish_preserves (w : World) (s : St) (a : File) (t : Task) (hI : Inv w s)
    (ht : t ∈ s.pool) (hta : t = Task.pp a true ∨ t = Task.pp a false)
    (hdeps : ∀ d ∈ w.deps a, d ∈ s.dm.fin) :
    ∃ s', handle { s with pool := s.pool.erase t } (.ok a) = .cont s' ∧ Inv w s' := by
  -- facts about `a`
  have haW : ∀ d, a ∉ s.dm.inE d := by
    rcases hta with rfl | rfl
    · exact (hI.ex1 a ht).2.1
    · exact (hI.ex2 a ht).1
  have haF : a ∉ s.dm.fin := by
    rcases hta with rfl | rfl
    · exact (hI.ex1 a ht).2.2
    · exact (hI.ex2 a ht).2
  have haS : a ∈ s.seen := by rcases hta with rfl | rfl <;> exact hI.poolSeen _ _ ht
  have hOther : ∀ b, Task.pp a b ∈ s.pool.erase t → False := by
    intro b hb
    rw [mem_erase_nodup hI.poolND] at hb
    rcases hta with rfl | rfl
    · cases b
      · exact (hI.ex1 a ht).1 hb.2
      · exact hb.1 rfl
    · cases b
      · exact hb.1 rfl
      · exact (hI.ex1 a hb.2).1 ht
  -- the release loop
  have hdef : ∀ x ∈ s.dm.inE a, ∃ k, s.dm.cnt x = some k := by
    intro x hx
    obtain ⟨L, _, hc, _⟩ := hI.count x ⟨a, hx⟩
    exact ⟨_, hc⟩
  obtain ⟨cnt', rel, hr, hc1, hrel, hc2⟩ := releaseLoop_spec0 (s.dm.inE a) s.dm.cnt (hI.inEND a) hdef
  have hrelND : rel.Nodup := releaseLoop_nodup _ _ _ _ _ hr (by simp) (by simp) (hI.inEND a)
  -- a released file waited only for `a`
  have hrelOnly : ∀ x ∈ rel, x ∈ s.dm.inE a ∧ ∀ d, x ∈ s.dm.inE d → d = a := by
    intro x hx
    obtain ⟨hxa, k, hk, hle⟩ := (hrel x).1 hx
    refine ⟨hxa, ?_⟩
    obtain ⟨L, hL, hc, hm⟩ := hI.count x ⟨a, hxa⟩
    rw [hk] at hc; cases hc
    intro d hd
    have h1 := (hm d).2 hd
    have h2 := (hm a).2 hxa
    match L, hle, h1, h2 with
    | [y], _, h1, h2 => simp at h1 h2; rw [h1, h2]
    | [], _, h1, _ => simp at h1
    | _ :: _ :: _, hle, _, _ => simp at hle
  -- a non-released depender of `a` still waits for something else
  have hstay : ∀ x ∈ s.dm.inE a, x ∉ rel → ∃ d, d ≠ a ∧ x ∈ s.dm.inE d := by
    intro x hx hnr
    obtain ⟨L, hL, hc, hm⟩ := hI.count x ⟨a, hx⟩
    have hlen : 1 < L.length := by
      rcases Nat.lt_or_ge 1 L.length with h | h
      · exact h
      · exact absurd ((hrel x).2 ⟨hx, _, hc, h⟩) hnr
    have haL := (hm a).2 hx
    match L, hlen, hL, haL, hm with
    | y :: z :: r, _, hL, haL, hm =>
      by_cases hy : y = a
      · refine ⟨z, ?_, (hm z).1 (by simp)⟩
        intro hz; subst hy; subst hz; simp at hL
      · exact ⟨y, hy, (hm y).1 (by simp)⟩
  let dm' : DepMgr := { cnt := cnt', inE := upd s.dm.inE a [], fin := a :: s.dm.fin }
  let s0 : St := { s with pool := s.pool.erase t, done := s.done + 1, dm := dm' }
  have hnf : notifyFinish s.dm a = some (dm', rel) := by simp [notifyFinish, hr, dm']
  have hpool0 : s0.pool.Nodup := hI.poolND.erase t
  have hrelPool : ∀ f ∈ rel, Task.pp f false ∉ s0.pool := by
    intro f hf hm
    have := (mem_erase_nodup hI.poolND t _).1 hm
    exact (hI.ex2 f this.2).1 a (hrelOnly f hf).1
  obtain ⟨e1, e2, e3⟩ := execFiles_second s0 rel hrelND hpool0 hrelPool
  refine ⟨execFiles s0 rel false, ?_, ?_⟩
  · simp [handle, hnf, s0]
  · have hdm : (execFiles s0 rel false).dm = dm' := by rw [execFiles_dm]
    have hinE : ∀ d x, x ∈ dm'.inE d ↔ (d ≠ a ∧ x ∈ s.dm.inE d) := by
      intro d x
      by_cases hd : d = a
      · subst hd; simp [dm']
      · simp [dm', upd_other _ _ _ _ hd, hd]
    have hpoolmem : ∀ u, u ∈ (execFiles s0 rel false).pool ↔ (u ≠ t ∧ u ∈ s.pool) ∨ ∃ f ∈ rel, u = Task.pp f false := by
      intro u; rw [e3 u]; simp only [s0]; rw [mem_erase_nodup hI.poolND]
    have hfin : ∀ x, x ∈ dm'.fin ↔ x = a ∨ x ∈ s.dm.fin := by intro x; simp [dm']
    constructor
    · -- acct
      apply execFiles_acct
      have hlen : (s.pool.erase t).length + 1 = s.pool.length := by
        rw [List.length_erase_of_mem ht]; have := List.length_pos_of_mem ht; omega
      simp [s0]; have := hI.acct; omega
    · rw [e1]; exact hI.seenND
    · exact e2
    · rw [hdm]; exact List.nodup_cons.2 ⟨haF, hI.finND⟩
    · -- poolSeen
      intro f b hm; rw [e1]; rw [hpoolmem] at hm
      rcases hm with ⟨_, hm⟩ | ⟨g, hg, he⟩
      · exact hI.poolSeen f b hm
      · cases he; exact (hI.edge a f (hrelOnly f hg).1).2.2.2
    · -- finSeen
      intro f hf; rw [hdm, hfin] at hf; rw [e1]
      rcases hf with rfl | hf
      · exact haS
      · exact hI.finSeen f hf
    · -- cover
      intro f hf; rw [e1] at hf; simp only [hpoolmem, hdm, hfin, hinE]
      by_cases hfa : f = a
      · subst hfa; exact Or.inr (Or.inr (Or.inr (Or.inl rfl)))
      · rcases hI.cover f hf with h | h | ⟨d, hd⟩ | h
        · exact Or.inl (Or.inl ⟨by rintro rfl; rcases hta with h' | h' <;> cases h' <;> simp_all, h⟩)
        · exact Or.inr (Or.inl (Or.inl ⟨by rintro rfl; rcases hta with h' | h' <;> cases h' <;> simp_all, h⟩))
        · by_cases hda : d = a
          · subst hda
            by_cases hr : f ∈ rel
            · exact Or.inr (Or.inl (Or.inr ⟨f, hr, rfl⟩))
            · obtain ⟨d', hd', hx⟩ := hstay f hd hr
              exact Or.inr (Or.inr (Or.inl ⟨d', hd', hx⟩))
          · exact Or.inr (Or.inr (Or.inl ⟨d, hda, hd⟩))
        · exact Or.inr (Or.inr (Or.inr (Or.inr h)))
    · -- ex1
      intro f hm; simp only [hpoolmem, hdm, hfin, hinE] at hm ⊢
      rcases hm with ⟨hne, hm⟩ | ⟨g, _, he⟩
      · have hfa : f ≠ a := by
          rintro rfl; exact hOther true ((mem_erase_nodup hI.poolND t _).2 ⟨hne, hm⟩)
        obtain ⟨x1, x2, x3⟩ := hI.ex1 f hm
        refine ⟨?_, ?_, ?_⟩
        · rintro (⟨_, h⟩ | ⟨g, hg, he⟩)
          · exact x1 h
          · cases he; exact x2 a (hrelOnly f hg).1
        · intro d h; exact x2 d h.2
        · rintro (h | h); exact hfa h; exact x3 h
      · cases he
    · -- ex2
      intro f hm; simp only [hpoolmem, hdm, hfin, hinE] at hm ⊢
      rcases hm with ⟨hne, hm⟩ | ⟨g, hg, he⟩
      · have hfa : f ≠ a := by
          rintro rfl; exact hOther false ((mem_erase_nodup hI.poolND t _).2 ⟨hne, hm⟩)
        obtain ⟨x2, x3⟩ := hI.ex2 f hm
        exact ⟨fun d h => x2 d h.2, by rintro (h | h); exact hfa h; exact x3 h⟩
      · cases he
        obtain ⟨hfa, honly⟩ := hrelOnly f hg
        refine ⟨fun d h => h.1 (honly d h.2), ?_⟩
        rintro (h | h)
        · subst h; exact haW f hfa
        · exact hI.ex3 f a hfa h
    · -- ex3
      intro f d h; simp only [hdm, hfin, hinE] at h ⊢
      rintro (h' | h')
      · subst h'; exact haW d h.2
      · exact hI.ex3 f d h.2 h'
    · -- edge
      intro d x h; simp only [hdm, hfin, hinE] at h ⊢; rw [e1]
      obtain ⟨y1, y2, y3, y4⟩ := hI.edge d x h.2
      exact ⟨y1, by rintro (h' | h'); exact h.1 h'; exact y2 h', y3, y4⟩
    · -- inEND
      intro d; rw [hdm]
      by_cases hd : d = a
      · subst hd; simp [dm']
      · simp [dm', upd_other _ _ _ _ hd]; exact hI.inEND d
    · -- count
      intro x hx; simp only [hdm, hinE] at hx ⊢
      obtain ⟨d0, hd0a, hd0⟩ := hx
      obtain ⟨L, hL, hc, hm⟩ := hI.count x ⟨d0, hd0⟩
      by_cases hxa : x ∈ s.dm.inE a
      · -- counter decremented
        have hxr : x ∉ rel := fun hr => hd0a ((hrelOnly x hr).2 d0 hd0)
        have hlen : 1 < L.length := by
          rcases Nat.lt_or_ge 1 L.length with h | h
          · exact h
          · exact absurd ((hrel x).2 ⟨hxa, _, hc, h⟩) hxr
        refine ⟨L.erase a, hL.erase a, ?_, ?_⟩
        · show cnt' x = _
          rw [hc2 x hxa _ hc hlen, List.length_erase_of_mem ((hm a).2 hxa)]
        · intro d; rw [mem_erase_nodup hL, hm d]
      · refine ⟨L, hL, ?_, ?_⟩
        · show cnt' x = _
          rw [hc1 x hxa, hc]
        · intro d; rw [hm d]
          constructor
          · intro h; exact ⟨by rintro rfl; exact hxa h, h⟩
          · exact fun h => h.2
    · -- waitDeps
      intro x hx d hd; simp only [hdm, hfin, hinE] at hx ⊢
      obtain ⟨d0, _, hd0⟩ := hx
      rcases hI.waitDeps x ⟨d0, hd0⟩ d hd with h | h
      · exact Or.inl (Or.inr h)
      · by_cases hda : d = a
        · exact Or.inl (Or.inl hda)
        · exact Or.inr ⟨hda, h⟩
    · -- secondDeps
      intro x hm d hd; simp only [hpoolmem, hdm, hfin] at hm ⊢
      rcases hm with ⟨_, hm⟩ | ⟨g, hg, he⟩
      · exact Or.inr (hI.secondDeps x hm d hd)
      · cases he
        obtain ⟨hxa, honly⟩ := hrelOnly x hg
        rcases hI.waitDeps x ⟨a, hxa⟩ d hd with h | h
        · exact Or.inr h
        · exact Or.inl (honly d h)
    · -- finDeps
      intro x hx d hd; simp only [hdm, hfin] at hx ⊢
      rcases hx with rfl | hx
      · exact Or.inr (hdeps d hd)
      · exact Or.inr (hI.finDeps x hx d hd)
    · -- cntP1
      intro x hm; simp only [hpoolmem] at hm; rw [hdm]
      rcases hm with ⟨_, hm⟩ | ⟨g, _, he⟩
      · show cnt' x = none
        rw [hc1 x (fun h => (hI.ex1 x hm).2.1 a h)]; exact hI.cntP1 x hm
      · cases he
    · -- cntUnseen
      intro x hx; rw [e1] at hx; rw [hdm]
      show cnt' x = none
      rw [hc1 x (fun h => hx (hI.edge a x h).2.2.2)]; exact hI.cntUnseen x hx

end Coord

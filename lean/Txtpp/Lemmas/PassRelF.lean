import Txtpp.Lemmas.PassRel
import Txtpp.Model.ProjSafe
/-! First-pass aware relational pass theorem. In a first pass the preprocessor stops executing at the
    first `include`/`after` that names a dependency (it only collects dependencies from there on), so
    nothing that such a directive, or any later block, would read matters. This is what makes the
    pass-level theorem composable over whole projects: the includer's first pass meets the (still
    stale) output of its dependency without reading it. -/
namespace Txt
open Refine (Sem machine parse Block OptRel)

/-- no executed block reads a path while it is stale; `Sfin` = what is still stale after the last
    block (unconstrained when a first pass stops executing at a dependency directive) -/
def SafeTo (cfg : Cfg) (fs0 : FS) (wd : Path) (first : Bool) : List (Block Directive) → List Path → List Path → Prop
  | [], S, Sfin => S = Sfin
  | .text _ :: bs, S, Sfin => SafeTo cfg fs0 wd first bs S Sfin
  | .dir d _ :: bs, S, Sfin =>
    (first = true ∧ isDepB cfg fs0 wd d = true) ∨
    ((∀ p ∈ dirReads cfg fs0 wd d, p ∉ S) ∧ SafeTo cfg fs0 wd first bs (staleAfterDir cfg fs0 wd d S) Sfin)

theorem safeToB_spec (cfg : Cfg) (fs0 : FS) (wd : Path) (first : Bool) : ∀ (bs : List (Block Directive)) (S Sfin : List Path),
    safeToB cfg fs0 wd first bs S = some Sfin → SafeTo cfg fs0 wd first bs S Sfin := by
  intro bs
  induction bs with
  | nil => intro S Sfin h; simpa [safeToB, SafeTo] using h
  | cons b bs ih =>
    intro S Sfin h
    cases b with
    | text l => exact ih S Sfin h
    | dir d e =>
      simp only [safeToB] at h
      simp only [SafeTo]
      by_cases hc : (first && isDepB cfg fs0 wd d) = true
      · left; simpa using hc
      · right
        rw [if_neg hc] at h
        by_cases hr : (dirReads cfg fs0 wd d).all (fun p => !S.contains p) = true
        · rw [if_pos hr] at h
          refine ⟨?_, ih _ _ h⟩
          intro p hp hm
          have := (List.all_eq_true.1 hr) p hp
          simp [hm] at this
        · rw [if_neg hr] at h; simp at h

/-- the old, first-pass unaware condition implies the new one -/
theorem SafeTo.of_safe (cfg : Cfg) (fs0 : FS) (wd : Path) (first : Bool) : ∀ (bs : List (Block Directive)) (S : List Path),
    Safe cfg fs0 wd bs S → SafeTo cfg fs0 wd first bs S (staleAfter cfg fs0 wd bs S) := by
  intro bs
  induction bs with
  | nil => intro S _; rfl
  | cons b bs ih =>
    intro S h
    cases b with
    | text l => exact ih S h
    | dir d e => exact Or.inr ⟨h.1, ih _ h.2⟩

/-- every temp target of the blocks lies in `S0` -/
def WritesIn (cfg : Cfg) (fs0 : FS) (wd : Path) (S0 : List Path) (bs : List (Block Directive)) : Prop :=
  ∀ d e, Block.dir d e ∈ bs → ∀ p, dirWrites cfg fs0 wd d = some p → p ∈ S0

/-- the relation between the two runs, indexed by the blocks still to come; `Agree S0 fs0 x.w` is the
    frame: the pass changes its tree only inside `S0` -/
def PRelF (cfg : Cfg) (fs0 : FS) (wd : Path) (S0 Sfin : List Path) (bs : List (Block Directive)) (x y : PpState FS) : Prop :=
  x.tags = y.tags ∧ x.pm = y.pm ∧ x.w.dirs = fs0.dirs ∧ Agree S0 x.w y.w ∧ Agree S0 fs0 x.w ∧
  ProbesOK cfg fs0 wd S0 bs ∧ WritesIn cfg fs0 wd S0 bs ∧
  (x.pm.isExecute = true → ∃ S, Agree S x.w y.w ∧ SafeTo cfg fs0 wd x.pm.isFirst bs S Sfin)

theorem run_frame (cfg : Cfg) (wd : Path) (src : Str) (a : FS) (cmd : Str) :
    ((fileWorld cfg wd src).run a cmd).2.files = a.files ∧ ((fileWorld cfg wd src).run a cmd).2.dirs = a.dirs := by
  simp only [fileWorld]
  cases hf : cfg.cmds.find? (fun kv => kv.1 == cmd) with
  | none => exact ⟨rfl, rfl⟩
  | some kv =>
    obtain ⟨c, acts⟩ := kv
    simp only
    have fa := runActs_files cfg wd src a acts ByteArray.empty true
    have da := runActs_dirs cfg wd src a acts ByteArray.empty true
    rcases hra : runActs cfg wd src a acts ByteArray.empty true with ⟨oa, oka, a'⟩
    rw [hra] at fa da
    simp only at fa da
    cases oka <;> exact ⟨fa.1, da⟩

theorem depOf_frame (cfg : Cfg) (wd : Path) (fs0 w : FS) (S0 : List Path) (arg : Str)
    (hframe : Agree S0 fs0 w) (hp : ∀ p ∈ depProbes cfg fs0 wd arg, p ∉ S0) :
    w.depOf cfg wd arg = fs0.depOf cfg wd arg := by
  symm
  exact depOf_rel cfg wd fs0 w arg hframe.1 (fun p hpm => hframe.isFile p (hp p hpm))

theorem exec_relF (cfg : Cfg) (wd : Path) (src : Str) (mode : Mode) (hm : mode ≠ .clean) (le : Str) (fs0 : FS) (S0 Sfin : List Path)
    (x y : PpState FS) (d : Directive) (e : Bool) (bs : List (Block Directive))
    (h : PRelF cfg fs0 wd S0 Sfin (.dir d e :: bs) x y) :
    OptRel (PRelF cfg fs0 wd S0 Sfin bs) (execDirective (fileWorld cfg wd src) mode le x d)
      (execDirective (fileWorld cfg wd src) mode le y d) := by
  obtain ⟨tx, px, wx⟩ := x
  obtain ⟨ty, py, wy⟩ := y
  obtain ⟨h1, h2, hd, hag0, hframe, hprobes, hwrites, hex⟩ := h
  simp only at h1 h2 hd hag0 hframe hex
  subst h1; subst h2
  have hprobes' : ProbesOK cfg fs0 wd S0 bs := fun d' e' hm' => hprobes d' e' (List.mem_cons_of_mem _ hm')
  have hwrites' : WritesIn cfg fs0 wd S0 bs := fun d' e' hm' => hwrites d' e' (List.mem_cons_of_mem _ hm')
  have nowrite : d.ty ≠ .temp → dirWrites cfg fs0 wd d = none := by
    intro hne; simp [dirWrites, hne]
  -- the block is executed (not a first-pass dependency): the right disjunct of `SafeTo`
  have right : px.isExecute = true → ¬ (px.isFirst = true ∧ isDepB cfg fs0 wd d = true) →
      ∃ S, Agree S wx wy ∧ (∀ p ∈ dirReads cfg fs0 wd d, p ∉ S) ∧
        SafeTo cfg fs0 wd px.isFirst bs (staleAfterDir cfg fs0 wd d S) Sfin := by
    intro he hnd
    obtain ⟨S, hS, hsafe⟩ := hex he
    simp only [SafeTo] at hsafe
    rcases hsafe with hl | hr
    · exact absurd hl hnd
    · exact ⟨S, hS, hr.1, hr.2⟩
  have keep : ∀ (t' : TagState) (pm' : PpMode), (pm'.isExecute = true → pm' = px ∧ dirWrites cfg fs0 wd d = none ∧
        ¬ (px.isFirst = true ∧ isDepB cfg fs0 wd d = true)) →
      PRelF cfg fs0 wd S0 Sfin bs ⟨t', pm', wx⟩ ⟨t', pm', wy⟩ := by
    intro t' pm' hc
    refine ⟨rfl, rfl, hd, hag0, hframe, hprobes', hwrites', fun he => ?_⟩
    obtain ⟨hpe, hw, hnd⟩ := hc he
    subst hpe
    obtain ⟨S, hS, _, hsafe⟩ := right he hnd
    refine ⟨S, hS, ?_⟩
    simp only [staleAfterDir, hw] at hsafe; exact hsafe
  have notdepTy : d.ty ≠ .include → d.ty ≠ .after → ¬ (px.isFirst = true ∧ isDepB cfg fs0 wd d = true) := by
    intro h1 h2 hc
    have := hc.2
    simp [isDepB, h1, h2] at this
  have notFirst : px = .exec → ¬ (px.isFirst = true ∧ isDepB cfg fs0 wd d = true) := by
    intro h hc; rw [h] at hc; simp [PpMode.isFirst] at hc
  have hdepeq : (d.ty = .include ∨ d.ty = .after) →
      (fileWorld cfg wd src).depOf wx (d.args.head?.getD []) = (fileWorld cfg wd src).depOf wy (d.args.head?.getD []) := by
    intro hia
    apply world_depOf_rel cfg wd src fs0 wx wy S0 _ hd hag0
    have := hprobes d e (List.mem_cons_self)
    simp only [dirProbes, hia, if_true, List.headD_eq_head?_getD] at this
    exact this
  -- the lookup in the current tree is the lookup in the tree the pass started from
  have hdep0 : (d.ty = .include ∨ d.ty = .after) →
      (fileWorld cfg wd src).depOf wx (d.args.head?.getD []) = some ((fs0.depOf cfg wd (d.args.head?.getD [])).map joinPath) := by
    intro hia
    simp only [fileWorld]
    rw [depOf_frame cfg wd fs0 wx S0 _ hframe]
    have := hprobes d e (List.mem_cons_self)
    simp only [dirProbes, hia, if_true, List.headD_eq_head?_getD] at this
    exact this
  have notdepNone : (d.ty = .include ∨ d.ty = .after) → (fileWorld cfg wd src).depOf wy (d.args.head?.getD []) = some none →
      ¬ (px.isFirst = true ∧ isDepB cfg fs0 wd d = true) := by
    intro hia hn hc
    rw [← hdepeq hia, hdep0 hia] at hn
    have h2 := hc.2
    simp only [isDepB, Bool.and_eq_true, List.headD_eq_head?_getD] at h2
    cases hdo : fs0.depOf cfg wd (d.args.head?.getD []) with
    | none => rw [hdo] at h2; simp at h2
    | some p => rw [hdo] at hn; simp at hn
  -- the world after a command: same relation, same directories
  have runrel : px.isExecute = true → d.ty = .run →
      ((fileWorld cfg wd src).run wx (joinWith [' '] d.args)).1 = ((fileWorld cfg wd src).run wy (joinWith [' '] d.args)).1 ∧
      ∀ t', PRelF cfg fs0 wd S0 Sfin bs ⟨t', px, ((fileWorld cfg wd src).run wx (joinWith [' '] d.args)).2⟩
        ⟨t', px, ((fileWorld cfg wd src).run wy (joinWith [' '] d.args)).2⟩ := by
    intro he hrun
    obtain ⟨S, hS, hreads, hsafe⟩ := right he (notdepTy (by rw [hrun]; decide) (by rw [hrun]; decide))
    have hr : ∀ p ∈ cmdReads cfg fs0 wd (joinWith [' '] d.args), p ∉ S := by
      have := hreads
      simp only [dirReads, hrun] at this
      exact this
    obtain ⟨r1, r2, r3⟩ := run_rel cfg wd src S fs0 wx wy (joinWith [' '] d.args) hS hd hr
    have fr := run_frame cfg wd src wx (joinWith [' '] d.args)
    refine ⟨r1, fun t' => ⟨rfl, rfl, r3.trans hd, r2 S0 hag0, hframe.of_files rfl rfl fr.1 fr.2, hprobes', hwrites',
      fun _ => ⟨S, r2 S hS, ?_⟩⟩⟩
    have hw := nowrite (by rw [hrun]; decide)
    simp only [staleAfterDir, hw] at hsafe; exact hsafe
  have increl : px.isExecute = true → d.ty = .include → ¬ (px.isFirst = true ∧ isDepB cfg fs0 wd d = true) →
      (fileWorld cfg wd src).readInclude wx (d.args.head?.getD []) = (fileWorld cfg wd src).readInclude wy (d.args.head?.getD []) := by
    intro he hinc hnd
    obtain ⟨S, hS, hr, _⟩ := right he hnd
    apply readInclude_rel cfg wd src S fs0 wx wy _ hS hd
    intro p hp
    apply hr p
    simp only [dirReads, hinc, List.headD_eq_head?_getD, hp]
    simp
  have temprel : px.isExecute = true → d.ty = .temp →
      (execTemp (fileWorld cfg wd src) le wx d.args false = none ∧ execTemp (fileWorld cfg wd src) le wy d.args false = none) ∨
      ∃ a' b', execTemp (fileWorld cfg wd src) le wx d.args false = some a' ∧
        execTemp (fileWorld cfg wd src) le wy d.args false = some b' ∧
        PRelF cfg fs0 wd S0 Sfin bs ⟨tx, px, a'⟩ ⟨tx, px, b'⟩ := by
    intro he htemp
    unfold execTemp
    cases hargs : d.args with
    | nil => left; exact ⟨rfl, rfl⟩
    | cons t body =>
      simp only
      by_cases hnt : isTxtppPath t = true
      · left; simp only [hnt, if_true]; exact ⟨trivial, trivial⟩
      · simp only [hnt, Bool.false_eq_true, if_false]
        rcases writeTemp_rel cfg wd src wx wy t (joinWith le body) hag0.1 with ⟨n1, n2⟩ | ⟨p, a', b', hres, ha, hb, hda, hdb, hpp, hfa, hfb⟩
        · left; exact ⟨n1, n2⟩
        · right
          refine ⟨a', b', ha, hb, ?_⟩
          have hagree : ∀ S, Agree S wx wy → Agree (S.filter (· != p)) a' b' := by
            intro S hS
            refine ⟨by rw [hda, hdb]; exact hS.1, fun q hq => ?_⟩
            by_cases hqp : q = p
            · rw [hqp]; exact hpp
            · rw [hfa q hqp, hfb q hqp]
              apply hS.2 q
              intro hmem
              exact hq (List.mem_filter.2 ⟨hmem, by simpa using hqp⟩)
          have hw : dirWrites cfg fs0 wd d = some p := by
            simp only [dirWrites, htemp, if_true, hargs, hnt, Bool.false_eq_true, if_false]
            rw [← resolve_dirs fs0 wx cfg wd t hd]; exact hres
          have hpS0 : p ∈ S0 := hwrites d e List.mem_cons_self p hw
          have hframe' : Agree S0 fs0 a' := by
            refine ⟨by rw [hda]; exact hframe.1, fun q hq => ?_⟩
            have hqp : q ≠ p := fun h => hq (h ▸ hpS0)
            rw [hfa q hqp]
            exact hframe.2 q hq
          refine ⟨rfl, rfl, hda.trans hd, (hagree S0 hag0).mono (fun q hq => (List.mem_filter.1 hq).1), hframe', hprobes', hwrites', fun _ => ?_⟩
          obtain ⟨S, hS, _, hsafe⟩ := right he (notdepTy (by rw [htemp]; decide) (by rw [htemp]; decide))
          refine ⟨S.filter (· != p), hagree S hS, ?_⟩
          simp only [staleAfterDir, hw] at hsafe; exact hsafe
  have hNoEx : ∀ deps, (PpMode.collect deps).isExecute = true → False := by intro deps h; simp [PpMode.isExecute] at h
  have nd1 := notdepTy
  cases hty : d.ty <;> cases hpm : px <;> simp [execDirective, hm, hty, PpMode.isExecute]
  -- empty
  · exact rel_some _ _ _ _ (keep _ _ (fun _ => ⟨hpm.symm, nowrite (by rw [hty]; decide), nd1 (by rw [hty]; decide) (by rw [hty]; decide)⟩))
  · exact rel_some _ _ _ _ (keep _ _ (fun _ => ⟨hpm.symm, nowrite (by rw [hty]; decide), nd1 (by rw [hty]; decide) (by rw [hty]; decide)⟩))
  · exact rel_some _ _ _ _ (keep _ _ (fun h => (hNoEx _ h).elim))
  -- include
  · rw [hdepeq (Or.inl hty)]
    cases hdy : (fileWorld cfg wd src).depOf wy (d.args.head?.getD []) with
    | none => exact rel_none _
    | some od =>
      cases od with
      | some dep => exact rel_some _ _ _ _ (keep _ _ (fun h => (hNoEx _ h).elim))
      | none =>
        simp only
        have hnd := notdepNone (Or.inl hty) hdy
        rw [increl (by rw [hpm]; rfl) hty hnd]
        cases (fileWorld cfg wd src).readInclude wy (d.args.head?.getD []) with
        | none => exact rel_none _
        | some c => exact route_rel _ le d.ws c tx _ wx wy (fun t' => keep t' _ (fun _ => ⟨hpm.symm, nowrite (by rw [hty]; decide), hnd⟩))
  · have hnd := notFirst hpm
    rw [increl (by rw [hpm]; rfl) hty hnd]
    cases (fileWorld cfg wd src).readInclude wy (d.args.head?.getD []) with
    | none => exact rel_none _
    | some c => exact route_rel _ le d.ws c tx _ wx wy (fun t' => keep t' _ (fun _ => ⟨hpm.symm, nowrite (by rw [hty]; decide), hnd⟩))
  · rw [hdepeq (Or.inl hty)]
    cases (fileWorld cfg wd src).depOf wy (d.args.head?.getD []) with
    | none => exact rel_none _
    | some od =>
      cases od with
      | some dep => exact rel_some _ _ _ _ (keep _ _ (fun h => (hNoEx _ h).elim))
      | none => exact rel_some _ _ _ _ (keep _ _ (fun h => (hNoEx _ h).elim))
  -- after
  · rw [hdepeq (Or.inr hty)]
    cases hdy : (fileWorld cfg wd src).depOf wy (d.args.head?.getD []) with
    | none => exact rel_none _
    | some od =>
      cases od with
      | some dep => exact rel_some _ _ _ _ (keep _ _ (fun h => (hNoEx _ h).elim))
      | none => exact rel_some _ _ _ _ (keep _ _ (fun _ => ⟨hpm.symm, nowrite (by rw [hty]; decide), notdepNone (Or.inr hty) hdy⟩))
  · exact rel_some _ _ _ _ (keep _ _ (fun _ => ⟨hpm.symm, nowrite (by rw [hty]; decide), notFirst hpm⟩))
  · rw [hdepeq (Or.inr hty)]
    cases (fileWorld cfg wd src).depOf wy (d.args.head?.getD []) with
    | none => exact rel_none _
    | some od =>
      cases od with
      | some dep => exact rel_some _ _ _ _ (keep _ _ (fun h => (hNoEx _ h).elim))
      | none => exact rel_some _ _ _ _ (keep _ _ (fun h => (hNoEx _ h).elim))
  -- run
  · obtain ⟨r1, r2⟩ := runrel (by rw [hpm]; rfl) hty
    rcases hra : (fileWorld cfg wd src).run wx (joinWith [' '] d.args) with ⟨oa, wa⟩
    rcases hrb : (fileWorld cfg wd src).run wy (joinWith [' '] d.args) with ⟨ob, wb⟩
    rw [hra, hrb] at r1 r2
    simp only at r1 r2
    subst r1
    cases oa with
    | none => exact rel_none _
    | some out => exact route_rel _ le d.ws out tx _ wa wb (fun t' => by have := r2 t'; rw [hpm] at this; exact this)
  · obtain ⟨r1, r2⟩ := runrel (by rw [hpm]; rfl) hty
    rcases hra : (fileWorld cfg wd src).run wx (joinWith [' '] d.args) with ⟨oa, wa⟩
    rcases hrb : (fileWorld cfg wd src).run wy (joinWith [' '] d.args) with ⟨ob, wb⟩
    rw [hra, hrb] at r1 r2
    simp only at r1 r2
    subst r1
    cases oa with
    | none => exact rel_none _
    | some out => exact route_rel _ le d.ws out tx _ wa wb (fun t' => by have := r2 t'; rw [hpm] at this; exact this)
  · exact rel_some _ _ _ _ (keep _ _ (fun h => (hNoEx _ h).elim))
  -- tag
  · cases tx.create (d.args.head?.getD []) with
    | none => exact rel_none _
    | some t' => exact rel_some _ _ _ _ (keep _ _ (fun _ => ⟨hpm.symm, nowrite (by rw [hty]; decide), nd1 (by rw [hty]; decide) (by rw [hty]; decide)⟩))
  · cases tx.create (d.args.head?.getD []) with
    | none => exact rel_none _
    | some t' => exact rel_some _ _ _ _ (keep _ _ (fun _ => ⟨hpm.symm, nowrite (by rw [hty]; decide), nd1 (by rw [hty]; decide) (by rw [hty]; decide)⟩))
  · exact rel_some _ _ _ _ (keep _ _ (fun h => (hNoEx _ h).elim))
  -- temp
  · rcases temprel (by rw [hpm]; rfl) hty with ⟨n1, n2⟩ | ⟨a', b', ha, hb, hr⟩
    · rw [n1, n2]; exact rel_none _
    · rw [ha, hb]; rw [hpm] at hr; exact rel_some _ _ _ _ hr
  · rcases temprel (by rw [hpm]; rfl) hty with ⟨n1, n2⟩ | ⟨a', b', ha, hb, hr⟩
    · rw [n1, n2]; exact rel_none _
    · rw [ha, hb]; rw [hpm] at hr; exact rel_some _ _ _ _ hr
  · exact rel_some _ _ _ _ (keep _ _ (fun h => (hNoEx _ h).elim))
  -- write
  · exact route_rel _ le d.ws _ tx _ wx wy (fun t' => keep t' _ (fun _ => ⟨hpm.symm, nowrite (by rw [hty]; decide), nd1 (by rw [hty]; decide) (by rw [hty]; decide)⟩))
  · exact route_rel _ le d.ws _ tx _ wx wy (fun t' => keep t' _ (fun _ => ⟨hpm.symm, nowrite (by rw [hty]; decide), nd1 (by rw [hty]; decide) (by rw [hty]; decide)⟩))
  · exact rel_some _ _ _ _ (keep _ _ (fun h => (hNoEx _ h).elim))

theorem text_relF (cfg : Cfg) (wd : Path) (src : Str) (mode : Mode) (le : Str) (fs0 : FS) (S0 Sfin : List Path)
    (x y : PpState FS) (l : Str) (bs : List (Block Directive)) (h : PRelF cfg fs0 wd S0 Sfin (.text l :: bs) x y) :
    PRelF cfg fs0 wd S0 Sfin bs ((txtppSem (fileWorld cfg wd src) mode le).text x l).1 ((txtppSem (fileWorld cfg wd src) mode le).text y l).1 ∧
    ((txtppSem (fileWorld cfg wd src) mode le).text x l).2 = ((txtppSem (fileWorld cfg wd src) mode le).text y l).2 := by
  obtain ⟨tx, px, wx⟩ := x
  obtain ⟨ty, py, wy⟩ := y
  obtain ⟨h1, h2, hd, hag0, hframe, hprobes, hwrites, hex⟩ := h
  simp only at h1 h2 hd hag0 hframe hex
  subst h1; subst h2
  have hprobes' : ProbesOK cfg fs0 wd S0 bs := fun d' e' hm' => hprobes d' e' (List.mem_cons_of_mem _ hm')
  have hwrites' : WritesIn cfg fs0 wd S0 bs := fun d' e' hm' => hwrites d' e' (List.mem_cons_of_mem _ hm')
  simp only [txtppSem]
  by_cases he : px.isExecute = true
  · simp only [he, if_true]
    exact ⟨⟨rfl, rfl, hd, hag0, hframe, hprobes', hwrites', fun _ => hex he⟩, trivial⟩
  · simp only [he]
    exact ⟨⟨rfl, rfl, hd, hag0, hframe, hprobes', hwrites', fun h => absurd h he⟩, rfl⟩

/-- **relational pass theorem, first-pass aware**: like `ppPass_rel`, but a first pass owes nothing
    for the dependency directive it stops executing at, nor for anything after it. `S` must contain
    every path the pass itself may write (`WritesIn`, `hframe`). -/
theorem ppPass_relF (cfg : Cfg) (wd : Path) (src : Str) (mode : Mode) (hm : mode ≠ .clean) (le : Str) (first trailing : Bool)
    (fs0 a b : FS) (S Sfin : List Path) (lines : List Str) (readOk : Bool) (bs : List (Block Directive))
    (hbs : srcBlocks mode lines = some bs)
    (hd : a.dirs = fs0.dirs) (hag : Agree S a b) (hframe : Agree S fs0 a)
    (hsafe : SafeTo cfg fs0 wd first bs S Sfin) (hprobes : ProbesOK cfg fs0 wd S bs) (hwrites : WritesIn cfg fs0 wd S bs) :
    PassResRel fs0 S Sfin
      (ppPass (fileWorld cfg wd src) mode le first trailing a lines readOk)
      (ppPass (fileWorld cfg wd src) mode le first trailing b lines readOk) := by
  cases readOk with
  | false => simp [ppPass, PassResRel]
  | true =>
    unfold ppPass
    simp only [Bool.not_true, Bool.false_eq_true, if_false]
    have hfirst : (if first = true then PpMode.firstExec else PpMode.exec).isFirst = first := by
      cases first <;> rfl
    have hrel := Refine.machine_rel (txtppSem (fileWorld cfg wd src) mode le)
      (PRelF cfg fs0 wd S Sfin) trailing lines
      (fun x y d e bs' h => exec_relF cfg wd src mode hm le fs0 S _ x y d e bs' h)
      (fun x y l bs' h => text_relF cfg wd src mode le fs0 S _ x y l bs' h)
      ⟨TagState.empty, if first then .firstExec else .exec, a⟩ ⟨TagState.empty, if first then .firstExec else .exec, b⟩
      (by
        intro bs' hp
        rw [parse_eq_srcBlocks, hbs] at hp
        cases hp
        exact ⟨rfl, rfl, hd, hag, hframe, hprobes, hwrites, fun _ => ⟨S, hag, by simp only [hfirst]; exact hsafe⟩⟩)
    rcases hrel with ⟨h1, h2⟩ | ⟨x, ox, y, oy, h1, h2, h3, h4⟩
    · rw [h1, h2]; simp [PassResRel]
    · rw [h1, h2]
      subst h4
      obtain ⟨ht, hp, hdx, hag0, _, _, _, hex⟩ := h3
      simp only
      rw [← ht, ← hp]
      cases hpm : x.pm with
      | collect deps => simp only [PassResRel]; exact ⟨trivial, hdx, hag0⟩
      | firstExec =>
        simp only
        split
        · simp [PassResRel]
        · obtain ⟨S', hS', hfin⟩ := hex (by rw [hpm]; rfl)
          simp only [SafeTo] at hfin
          subst hfin
          exact ⟨rfl, hdx, hag0, hS'⟩
      | exec =>
        simp only
        split
        · simp [PassResRel]
        · obtain ⟨S', hS', hfin⟩ := hex (by rw [hpm]; rfl)
          simp only [SafeTo] at hfin
          subst hfin
          exact ⟨rfl, hdx, hag0, hS'⟩

theorem writesIn_generated (cfg : Cfg) (fs0 : FS) (wd : Path) (o : Path) (bs : List (Block Directive)) (S : List Path) :
    WritesIn cfg fs0 wd (generated cfg fs0 wd o bs ++ S) bs := by
  intro d e hm p hw
  exact List.mem_append_left _ ((mem_generated cfg fs0 wd o bs p).2 (Or.inr ⟨d, e, hm, hw⟩))

theorem agree_write_mem {S : List Path} (a : FS) (o : Path) (x : ByteArray) (ho : o ∈ S) : Agree S a (a.write o x) := by
  refine ⟨rfl, fun q hq => ?_⟩
  have hqo : q ≠ o := fun h => hq (h ▸ ho)
  rw [file?_write_other a o q x hqo]

/-- **one pass, composable form** (build or only-if-needed on both sides): from file systems agreeing
    outside `S`, with `S0 = generated ++ S` (everything this pass may write counts as stale while it
    runs): same outcome, afterwards agreement outside `S0`, and after an `ok` pass outside
    `Sfin` minus the output. -/
theorem runPass_relF (cfg : Cfg) (hm : cfg.mode = .build ∨ cfg.mode = .inMemory) (a b : FS) (S : List Path) (src : Path) (first : Bool)
    (hag : Agree S a b) (hsrc : src ∉ S) :
    (a.file? src = none ∨ outputPath src = none →
      (runPass cfg a src first).1 = (runPass cfg b src first).1 ∧ Agree S (runPass cfg a src first).2 (runPass cfg b src first).2) ∧
    (∀ content o, a.file? src = some content → outputPath src = some o →
      (srcBlocks cfg.mode (decodeLines (byteLines content.toList)).1 = none →
        (runPass cfg a src first).1 = (runPass cfg b src first).1 ∧ Agree S (runPass cfg a src first).2 (runPass cfg b src first).2) ∧
      (∀ bs Sfin, srcBlocks cfg.mode (decodeLines (byteLines content.toList)).1 = some bs →
        ProbesOK cfg a src.dropLast (generated cfg a src.dropLast o bs ++ S) bs →
        SafeTo cfg a src.dropLast first bs (generated cfg a src.dropLast o bs ++ S) Sfin →
        (runPass cfg a src first).1 = (runPass cfg b src first).1 ∧
        Agree (generated cfg a src.dropLast o bs ++ S) (runPass cfg a src first).2 (runPass cfg b src first).2 ∧
        ((runPass cfg a src first).1 = .ok →
          Agree (Sfin.filter (· != o)) (runPass cfg a src first).2 (runPass cfg b src first).2))) := by
  have hmc : cfg.mode ≠ .clean := by rcases hm with h | h <;> rw [h] <;> decide
  refine ⟨?_, ?_⟩
  · intro hn
    unfold runPass
    rw [← hag.2 src hsrc]
    rcases hn with hn | hn
    · rw [hn]; exact ⟨rfl, hag⟩
    · rw [hn]; cases a.file? src <;> exact ⟨rfl, hag⟩
  · intro content o hfile hout
    have hrun : ∀ (w : FS), w.file? src = some content → runPass cfg w src first = runPassAt cfg w src first content o := by
      intro w hw; unfold runPass; rw [hw, hout]
    rw [hrun a hfile, hrun b (by rw [← hag.2 src hsrc]; exact hfile)]
    unfold runPassAt
    have hsub : ∀ q, q ∈ staleOpen cfg.mode S o → q ∈ S := staleOpen_sub cfg.mode S o
    refine ⟨?_, ?_⟩
    · intro hbs
      rcases sinkStart_rel cfg.mode hm S a b o hag with ⟨n1, n2⟩ | ⟨a1, b1, ha, hb, hda, hag1⟩
      · rw [n1, n2]; exact ⟨rfl, hag⟩
      · rw [ha, hb]
        simp only
        have hnone : ∀ (w : FS), ppPass (fileWorld cfg src.dropLast (joinPath src)) cfg.mode (sniffLE content.toList) first cfg.trailing w
            (decodeLines (byteLines content.toList)).1 (decodeLines (byteLines content.toList)).2 = .err := by
          intro w
          cases hro : (decodeLines (byteLines content.toList)).2 with
          | false => simp [ppPass]
          | true =>
            unfold ppPass
            simp only [Bool.not_true, Bool.false_eq_true, if_false]
            rw [Refine.machine_eq_spec]
            unfold Refine.spec
            rw [parse_eq_srcBlocks, hbs]
        rw [hnone a1, hnone b1]
        exact ⟨rfl, hag1.mono hsub⟩
    · intro bs Sfin hbs hpr hsf
      have hoS0 : o ∈ generated cfg a src.dropLast o bs ++ S := List.mem_append_left _ (by simp [generated])
      have hag0 : Agree (generated cfg a src.dropLast o bs ++ S) a b := hag.mono (fun q hq => List.mem_append_right _ hq)
      rcases sinkStart_rel cfg.mode hm _ a b o hag0 with ⟨n1, n2⟩ | ⟨a1, b1, ha, hb, hda, hag1⟩
      · rw [n1, n2]; exact ⟨rfl, hag0, fun h => by simp at h⟩
      · rw [ha, hb]
        simp only
        have hag1' : Agree (generated cfg a src.dropLast o bs ++ S) a1 b1 := hag1.mono (staleOpen_sub cfg.mode _ o)
        have hframe : Agree (generated cfg a src.dropLast o bs ++ S) a a1 := by
          rcases hm with h | h
          · rw [h] at ha
            simp only [sinkStart] at ha
            split at ha
            · simp at ha
            · cases ha; exact agree_write_mem a o _ hoS0
          · rw [h] at ha
            simp only [sinkStart] at ha
            cases ha; exact ⟨rfl, fun _ _ => rfl⟩
        have hrel := ppPass_relF cfg src.dropLast (joinPath src) cfg.mode hmc (sniffLE content.toList) first cfg.trailing a a1 b1
          _ Sfin (decodeLines (byteLines content.toList)).1 (decodeLines (byteLines content.toList)).2 bs hbs hda hag1' hframe hsf hpr
          (writesIn_generated cfg a src.dropLast o bs S)
        rcases hra : ppPass (fileWorld cfg src.dropLast (joinPath src)) cfg.mode (sniffLE content.toList) first cfg.trailing a1
            (decodeLines (byteLines content.toList)).1 (decodeLines (byteLines content.toList)).2 with _ | _ | _ <;>
        rcases hrb : ppPass (fileWorld cfg src.dropLast (joinPath src)) cfg.mode (sniffLE content.toList) first cfg.trailing b1
            (decodeLines (byteLines content.toList)).1 (decodeLines (byteLines content.toList)).2 with _ | _ | _ <;>
        rw [hra, hrb] at hrel <;> simp only [PassResRel] at hrel
        · rename_i oa a2 ob b2
          obtain ⟨h1, _, h2, h3⟩ := hrel
          subst h1
          simp only
          have he0 := sinkEnd_rel cfg.mode hm _ a2 b2 o (encodeUtf8 oa) h2
          have he1 := sinkEnd_rel cfg.mode hm _ a2 b2 o (encodeUtf8 oa) h3
          exact ⟨he0.1, he0.2.1, fun hok => he1.2.2 hok⟩
        · rename_i da a2 db b2
          obtain ⟨h1, _, h2⟩ := hrel
          subst h1
          exact ⟨rfl, h2, fun h => by simp at h⟩
        · exact ⟨rfl, hag1', fun h => by simp at h⟩

end Txt

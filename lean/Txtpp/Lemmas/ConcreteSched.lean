import Txtpp.Lemmas.ConcreteTrace
/-! The concrete theorems of C03/C05/C18 for every delivery order (`runSched`), not only the oldest-first reference order. -/
namespace Txt
open Coord (FReach WellTyped)

theorem getD_mem_cons {α} (t0 : α) (rest : List α) (k : Nat) : (t0 :: rest).getD k t0 ∈ t0 :: rest := by
  rw [List.getD_eq_getElem?_getD]
  cases hk : (t0 :: rest)[k]? with
  | none => simp
  | some x => simp only [Option.getD_some]; exact List.mem_of_getElem? hk

/-- whatever the delivery order: the trace is an execution of the coordinator with free results, the run never
    panics, and the verdict says where it stopped -/
theorem runSched_spec (cfg : Cfg) (inputs : List Coord.File) : ∀ (fuel : Nat) (choices : List Nat) (s : PSt) (h : List (Coord.Task × Coord.Res)),
    FReach inputs s.st h → (∀ f ∈ s.st.seen, f < s.names.length) →
    FReach inputs (runSched cfg choices fuel s h).2.1.st (runSched cfg choices fuel s h).2.2 ∧
    (∀ f ∈ (runSched cfg choices fuel s h).2.1.st.seen, f < (runSched cfg choices fuel s h).2.1.names.length) ∧
    (runSched cfg choices fuel s h).1 ≠ .panic ∧
    ((runSched cfg choices fuel s h).1 = .ok → (runSched cfg choices fuel s h).2.1.st.pool = [] ∧ remaining (runSched cfg choices fuel s h).2.1 = false) ∧
    ((runSched cfg choices fuel s h).1 = .circular → (runSched cfg choices fuel s h).2.1.st.pool = [] ∧ remaining (runSched cfg choices fuel s h).2.1 = true) ∧
    ((runSched cfg choices fuel s h).1 = .outOfFuel → (runSched cfg choices fuel s h).2.2.length = h.length + fuel) := by
  intro fuel
  induction fuel with
  | zero =>
    intro choices s h hF hB
    simp only [runSched]
    exact ⟨hF, hB, by simp, fun h => by simp at h, fun h => by simp at h, fun _ => rfl⟩
  | succ fuel ih =>
    intro choices s h hF hB
    unfold runSched
    split
    · rename_i hpool
      refine ⟨hF, hB, ?_, ?_, ?_, ?_⟩
      · simp only; split <;> simp
      · intro hv; simp only at hv ⊢; cases hr : remaining s <;> simp [hr] at hv ⊢; exact hpool
      · intro hv; simp only at hv ⊢; cases hr : remaining s <;> simp [hr] at hv ⊢; exact hpool
      · intro hv; simp only at hv; split at hv <;> simp at hv
    · rename_i t0 rest0 hpool
      simp only
      have hin := getD_mem_cons t0 rest0 ((choices.headD 0) % (t0 :: rest0).length)
      generalize (t0 :: rest0).getD ((choices.headD 0) % (t0 :: rest0).length) t0 = t at hin ⊢
      cases t with
      | pp f first =>
        simp only
        have hmem : Coord.Task.pp f first ∈ s.st.pool := by rw [hpool]; exact hin
        cases hoc : (runPass cfg s.fs (s.names.getD f []) first).1 with
        | err => exact ⟨hF, hB, by simp, fun h => by simp at h, fun h => by simp at h, fun h => by simp at h⟩
        | ok =>
          simp only
          have hty : WellTyped (Coord.Task.pp f first) (Coord.Res.ok f) := by simp [WellTyped]
          cases hh : Coord.handle { s.st with pool := s.st.pool.erase (Coord.Task.pp f first) } (.ok f) with
          | fail => exact ⟨hF, hB, by simp, fun h => by simp at h, fun h => by simp at h, fun h => by simp at h⟩
          | panic => exact absurd hh (Coord.freach_never_panics inputs s.st h hF _ _ hmem hty)
          | cont st' =>
            simp only
            have hB' : ∀ x ∈ st'.seen, x < s.names.length := by
              intro x hx
              rcases Coord.handle_seen _ st' _ hh x hx with h1 | ⟨a, deps, he, _⟩
              · exact hB x h1
              · cases he
            obtain ⟨i1, i2, i3, i4, i5, i6⟩ := ih choices.tail { s with st := st', fs := (runPass cfg s.fs (s.names.getD f []) first).2 }
              (h ++ [(.pp f first, .ok f)]) (FReach.step s.st st' h _ _ hF hmem hty hh) hB'
            exact ⟨i1, i2, i3, i4, i5, fun hv => by rw [i6 hv, List.length_append]; simp; omega⟩
        | hasDeps deps =>
          simp only
          obtain ⟨hfirst, hne⟩ := runPass_hasDeps cfg s.fs _ first deps hoc
          subst hfirst
          have hidx : (indexAll s.names (deps.map (fun d => (splitOn '/' d)))).2 ≠ [] :=
            indexAll_ne_nil _ _ (by simpa using hne)
          have hty : WellTyped (Coord.Task.pp f true) (Coord.Res.hasDeps f (indexAll s.names (deps.map (fun d => (splitOn '/' d)))).2) := by
            simp [WellTyped, hidx]
          cases hh : Coord.handle { s.st with pool := s.st.pool.erase (Coord.Task.pp f true) }
              (.hasDeps f (indexAll s.names (deps.map (fun d => (splitOn '/' d)))).2) with
          | fail => exact ⟨hF, hB, by simp, fun h => by simp at h, fun h => by simp at h, fun h => by simp at h⟩
          | panic => exact absurd hh (Coord.freach_never_panics inputs s.st h hF _ _ hmem hty)
          | cont st' =>
            simp only
            have hB' : ∀ x ∈ st'.seen, x < (indexAll s.names (deps.map (fun d => (splitOn '/' d)))).1.length := by
              intro x hx
              rcases Coord.handle_seen _ st' _ hh x hx with h1 | ⟨a, ds, he, hx'⟩
              · exact Nat.lt_of_lt_of_le (hB x h1) (indexAll_names_le _ _)
              · simp only [Coord.Res.hasDeps.injEq] at he
                obtain ⟨_, rfl⟩ := he
                exact indexAll_bound _ _ x hx'
            obtain ⟨i1, i2, i3, i4, i5, i6⟩ := ih choices.tail
              { names := (indexAll s.names (deps.map (fun d => (splitOn '/' d)))).1, st := st', fs := (runPass cfg s.fs (s.names.getD f []) true).2 }
              (h ++ [(.pp f true, .hasDeps f (indexAll s.names (deps.map (fun d => (splitOn '/' d)))).2)])
              (FReach.step s.st st' h _ _ hF hmem hty hh) hB'
            exact ⟨i1, i2, i3, i4, i5, fun hv => by rw [i6 hv, List.length_append]; simp; omega⟩

/-- a quiescent coordinator state without waiting files, reached with free results: everything is finished -/
theorem quiescent_complete (idx : List Coord.File) (s : PSt) (hist : List (Coord.Task × Coord.Res))
    (hF : FReach idx s.st hist) (hB : ∀ f ∈ s.st.seen, f < s.names.length) (hq : s.st.pool = []) (hnr : remaining s = false) :
    (∀ i ∈ idx, i ∈ s.st.seen) ∧
    (∀ f ∈ s.st.seen, ∃ b, (Coord.Task.pp f b, Coord.Res.ok f) ∈ hist) ∧
    (∀ f deps, (Coord.Task.pp f true, Coord.Res.hasDeps f deps) ∈ hist → ∀ d ∈ deps, d ∈ s.st.seen) ∧
    (hist.map Prod.fst).Nodup := by
  obtain ⟨w, hw, hH⟩ := Coord.freach_world _ s.st hist hF
  have hR : Coord.Reach w _ s.st := Coord.freach_replay w _ s.st hist hF hw
  have hI := Coord.reach_inv w _ s.st hR
  have hno : ¬ Coord.Leftover s.st := by
    rintro ⟨d, a, ha⟩
    have hd : d ∈ s.st.seen := (hI.edge d a ha).2.2.1
    have hlt := hB d hd
    unfold remaining at hnr
    have := List.any_eq_false.1 hnr d (List.mem_range.2 hlt)
    simp only [Bool.not_eq_true'] at this
    have hne : s.st.dm.inE d = [] := by simpa using this
    rw [hne] at ha; simp at ha
  refine ⟨Coord.inputs_seen w _ s.st hR, ?_, ?_, Coord.freach_each_task_once _ s.st hist hF⟩
  · intro f hf
    rcases Coord.quiescent_cover w _ s.st hR hq f hf with ⟨d, hd⟩ | hfin
    · exact absurd ⟨d, f, hd⟩ hno
    · exact hH.finHist f hfin
  · intro f deps hm d hd
    have hwr := hw _ _ hm
    have hdeps : w.deps f = deps := by
      by_cases he : w.deps f = []
      · simp only [Coord.World.result, he, if_true] at hwr
        split at hwr <;> simp at hwr
      · rw [Coord.result_first_deps w f he] at hwr
        split at hwr
        · simp at hwr
        · simp only [Coord.Res.hasDeps.injEq] at hwr; exact hwr.2
    have hfs : f ∈ s.st.seen := (hH.first f _ hm).1
    rcases Coord.quiescent_cover w _ s.st hR hq f hfs with ⟨d', hd'⟩ | hfin
    · exact absurd ⟨d', f, hd'⟩ hno
    · exact hI.finSeen d (hI.finDeps f hfin d (by rw [hdeps]; exact hd))

/-- a quiescent state with a waiting file: it reaches a cycle of the reported dependencies -/
theorem quiescent_cycle (idx : List Coord.File) (s : PSt) (hist : List (Coord.Task × Coord.Res))
    (hF : FReach idx s.st hist) (hq : s.st.pool = []) (hr : remaining s = true) :
    ∃ w : Coord.World, (∀ t r, (t, r) ∈ hist → w.result t = r) ∧
      ∃ f, (∃ d, f ∈ s.st.dm.inE d) ∧ Coord.ReachesCycle w.deps f := by
  obtain ⟨w, hR, hw⟩ := Coord.freach_reach _ s.st hist hF
  unfold remaining at hr
  obtain ⟨d, _, hd⟩ := List.any_eq_true.1 hr
  have hne : s.st.dm.inE d ≠ [] := by
    intro he; rw [he] at hd; simp at hd
  obtain ⟨a, ha⟩ := List.exists_mem_of_ne_nil _ hne
  exact ⟨w, hw, a, ⟨d, ha⟩, Coord.waiting_reaches_cycle w _ s.st hR hq a ⟨d, ha⟩⟩

/-- **every delivery order (C03/C05/C18, concrete passes)**: whichever task of the pool is run and delivered next,
    the run never reaches the coordinator's panic branch; a verdict `ok` means every file the coordinator heard
    of completed a pass that ended `ok`; a verdict `circular` is justified by a cycle among the dependency lists
    this very run reported; and no order delivers more than two passes per file named, each task once -/
theorem every_delivery_order (cfg : Cfg) (choices : List Nat) (fs : FS) (inputs : List Str) (v : Verdict) (idx : List Coord.File)
    (s : PSt) (hist : List (Coord.Task × Coord.Res)) (ht : runProjectSched cfg choices fs inputs = some (v, idx, s, hist)) :
    FReach idx s.st hist ∧ v ≠ .panic ∧
    (v = .ok → s.st.pool = [] ∧ (∀ i ∈ idx, i ∈ s.st.seen) ∧
      (∀ f ∈ s.st.seen, ∃ b, (Coord.Task.pp f b, Coord.Res.ok f) ∈ hist) ∧
      (∀ f deps, (Coord.Task.pp f true, Coord.Res.hasDeps f deps) ∈ hist → ∀ d ∈ deps, d ∈ s.st.seen)) ∧
    (v = .circular → s.st.pool = [] ∧ ∃ w : Coord.World, (∀ t r, (t, r) ∈ hist → w.result t = r) ∧
      ∃ f, (∃ d, f ∈ s.st.dm.inE d) ∧ Coord.ReachesCycle w.deps f) ∧
    hist.length ≤ 2 * s.names.length ∧ (hist.map Prod.fst).Nodup := by
  unfold runProjectSched at ht
  cases hres : resolveInputs cfg fs inputs with
  | none => rw [hres] at ht; simp at ht
  | some fd =>
    obtain ⟨files, dirs⟩ := fd
    rw [hres] at ht
    simp only [Option.some.injEq, Prod.mk.injEq] at ht
    obtain ⟨rfl, rfl, rfl, rfl⟩ := ht
    have hB0 : ∀ f ∈ (Coord.init (indexAll [] (files ++ scanAll fs cfg.recursive (fs.dirs.length + dirs.length + 2) dirs [])).2).seen,
        f < (indexAll [] (files ++ scanAll fs cfg.recursive (fs.dirs.length + dirs.length + 2) dirs [])).1.length := by
      intro f hf
      rcases Coord.execFiles_seen _ _ true f hf with h1 | ⟨_, h1⟩
      · simp at h1
      · exact indexAll_bound _ _ f h1
    obtain ⟨i1, i2, i3, i4, i5, _⟩ := runSched_spec cfg _ (4 * (fs.files.length + 4)) choices
      { names := (indexAll [] (files ++ scanAll fs cfg.recursive (fs.dirs.length + dirs.length + 2) dirs [])).1,
        st := Coord.init (indexAll [] (files ++ scanAll fs cfg.recursive (fs.dirs.length + dirs.length + 2) dirs [])).2, fs := fs }
      [] FReach.init hB0
    have hbud := Coord.freach_budget _ _ _ i1
    obtain ⟨w, hw, _⟩ := Coord.freach_world _ _ _ i1
    have hI := Coord.reach_inv w _ _ (Coord.freach_replay w _ _ _ i1 hw)
    have hseen := nodup_bounded_length _ _ hI.seenND i2
    refine ⟨i1, i3, ?_, ?_, by omega, Coord.freach_each_task_once _ _ _ i1⟩
    · intro hv
      obtain ⟨hq, hnr⟩ := i4 hv
      obtain ⟨c1, c2, c3, _⟩ := quiescent_complete _ _ _ i1 i2 hq hnr
      exact ⟨hq, c1, c2, c3⟩
    · intro hv
      obtain ⟨hq, hr⟩ := i5 hv
      exact ⟨hq, quiescent_cycle _ _ _ i1 hq hr⟩

end Txt

import Txtpp.Lemmas.PassRelF
import Txtpp.Lemmas.NeededRel
/-! Whole-project composition of the pass-level relational theorems (C08, C09). -/
namespace Txt
open Refine (Sem machine parse Block OptRel)

theorem trSame_sound (cfg : Cfg) (hm : cfg.mode = .build ∨ cfg.mode = .inMemory) (a b : FS) (S S' : List Path) (src : Path)
    (first : Bool) (hag : Agree S a b) (h : trSame cfg a S src first (runPass cfg a src first).1 = some S') :
    (runPass cfg a src first).1 = (runPass cfg b src first).1 ∧
    Agree S' (runPass cfg a src first).2 (runPass cfg b src first).2 := by
  unfold trSame at h
  by_cases hsrc : S.contains src = true
  · rw [if_pos hsrc] at h; simp at h
  · rw [if_neg hsrc] at h
    have hsrc' : src ∉ S := by simpa using hsrc
    obtain ⟨hA, hB⟩ := runPass_relF cfg hm a b S src first hag hsrc'
    cases hfile : a.file? src with
    | none =>
      rw [hfile] at h
      simp only [Option.some.injEq] at h
      subst h
      exact hA (Or.inl hfile)
    | some content =>
      cases hout : outputPath src with
      | none =>
        rw [hfile, hout] at h
        simp only [Option.some.injEq] at h
        subst h
        exact hA (Or.inr hout)
      | some o =>
        rw [hfile, hout] at h
        simp only at h
        obtain ⟨hB1, hB2⟩ := hB content o hfile hout
        cases hbs : srcBlocks cfg.mode (decodeLines (byteLines content.toList)).1 with
        | none =>
          rw [hbs] at h
          simp only [Option.some.injEq] at h
          subst h
          exact hB1 hbs
        | some bs =>
          rw [hbs] at h
          simp only at h
          by_cases hp : probesB cfg a src.dropLast (generated cfg a src.dropLast o bs ++ S) bs = true
          · rw [if_pos hp] at h
            cases hs : safeToB cfg a src.dropLast first bs (generated cfg a src.dropLast o bs ++ S) with
            | none => rw [hs] at h; simp at h
            | some Sfin =>
              rw [hs] at h
              simp only [Option.some.injEq] at h
              obtain ⟨r1, r2, r3⟩ := hB2 bs Sfin hbs ((probesB_iff cfg a _ _ bs).1 hp) (safeToB_spec cfg a _ first bs _ _ hs)
              refine ⟨r1, ?_⟩
              by_cases hok : (runPass cfg a src first).1 = .ok
              · rw [if_pos hok] at h; subst h; exact r3 hok
              · rw [if_neg hok] at h; subst h; exact r2
          · rw [if_neg hp] at h; simp at h

/-- **C09, one pass, composable form**: a normal build pass from `a` and an only-if-needed pass from `b`. -/
theorem needed_pass_relF (cfg : Cfg) (hb : cfg.mode = .build) (a b : FS) (S : List Path) (src : Path) (first : Bool)
    (hag : Agree S a b) (hsrc : src ∉ S) :
    (a.file? src = none ∨ outputPath src = none →
      (runPass cfg a src first).1 = (runPass cfg.toNeeded b src first).1 ∧
      Agree S (runPass cfg a src first).2 (runPass cfg.toNeeded b src first).2) ∧
    (∀ content o, a.file? src = some content → outputPath src = some o → a.isDir o = false →
      (srcBlocks .build (decodeLines (byteLines content.toList)).1 = none →
        (runPass cfg a src first).1 = (runPass cfg.toNeeded b src first).1 ∧
        Agree (o :: S) (runPass cfg a src first).2 (runPass cfg.toNeeded b src first).2) ∧
      (∀ bs Sfin, srcBlocks .build (decodeLines (byteLines content.toList)).1 = some bs →
        ProbesOK cfg a src.dropLast (generated cfg a src.dropLast o bs ++ S) bs →
        SafeTo cfg a src.dropLast first bs (generated cfg a src.dropLast o bs ++ S) Sfin →
        (runPass cfg a src first).1 = (runPass cfg.toNeeded b src first).1 ∧
        Agree (generated cfg a src.dropLast o bs ++ S) (runPass cfg a src first).2 (runPass cfg.toNeeded b src first).2 ∧
        ((runPass cfg a src first).1 = .ok →
          Agree (Sfin.filter (· != o)) (runPass cfg a src first).2 (runPass cfg.toNeeded b src first).2))) := by
  refine ⟨?_, ?_⟩
  · intro hn
    unfold runPass
    rw [← hag.2 src hsrc]
    rcases hn with hn | hn
    · rw [hn]; exact ⟨rfl, hag⟩
    · rw [hn]; cases a.file? src <;> exact ⟨rfl, hag⟩
  · intro content o hfile hout hd
    have hrunA : runPass cfg a src first = runPassAt cfg a src first content o := by
      unfold runPass; rw [hfile, hout]
    have hrunB : runPass cfg.toNeeded b src first = runPassAt cfg.toNeeded b src first content o := by
      unfold runPass; rw [← hag.2 src hsrc, hfile, hout]
    rw [hrunA, hrunB]
    unfold runPassAt
    have hmN : cfg.toNeeded.mode = .inMemory := rfl
    have hfw : fileWorld cfg.toNeeded src.dropLast (joinPath src) = fileWorld cfg src.dropLast (joinPath src) :=
      fileWorld_congr cfg cfg.toNeeded rfl rfl _ _
    have htr : cfg.toNeeded.trailing = cfg.trailing := rfl
    rw [hmN, hb, hfw, htr]
    simp only [ppPass_needed]
    have hdb : b.isDir o = false := by rw [← hag.isDir o]; exact hd
    simp only [sinkStart, hd, Bool.false_eq_true, if_false]
    refine ⟨?_, ?_⟩
    · intro hbs
      have hnone : ∀ (w : FS), ppPass (fileWorld cfg src.dropLast (joinPath src)) .build (sniffLE content.toList) first cfg.trailing w
          (decodeLines (byteLines content.toList)).1 (decodeLines (byteLines content.toList)).2 = .err := by
        intro w
        cases hro : (decodeLines (byteLines content.toList)).2 with
        | false => simp [ppPass]
        | true =>
          unfold ppPass
          simp only [Bool.not_true, Bool.false_eq_true, if_false]
          rw [Refine.machine_eq_spec]
          unfold Refine.spec
          rw [parse_eq_srcBlocks, hbs]
      rw [hnone (a.write o ByteArray.empty), hnone b]
      exact ⟨rfl, agree_cons_write hag o _⟩
    · intro bs Sfin hbs hpr hsf
      have hoS0 : o ∈ generated cfg a src.dropLast o bs ++ S := List.mem_append_left _ (by simp [generated])
      have hag0 : Agree (generated cfg a src.dropLast o bs ++ S) a b := hag.mono (fun q hq => List.mem_append_right _ hq)
      have hframe : Agree (generated cfg a src.dropLast o bs ++ S) a (a.write o ByteArray.empty) := agree_write_mem a o _ hoS0
      have hag1 : Agree (generated cfg a src.dropLast o bs ++ S) (a.write o ByteArray.empty) b := by
        refine ⟨hag0.1, fun q hq => ?_⟩
        rw [← hframe.2 q hq]; exact hag0.2 q hq
      have hrel := ppPass_relF cfg src.dropLast (joinPath src) .build (by decide) (sniffLE content.toList) first cfg.trailing a
        (a.write o ByteArray.empty) b _ Sfin (decodeLines (byteLines content.toList)).1
        (decodeLines (byteLines content.toList)).2 bs hbs rfl hag1 hframe hsf hpr (writesIn_generated cfg a src.dropLast o bs S)
      rcases hra : ppPass (fileWorld cfg src.dropLast (joinPath src)) .build (sniffLE content.toList) first cfg.trailing
          (a.write o ByteArray.empty) (decodeLines (byteLines content.toList)).1 (decodeLines (byteLines content.toList)).2 with _ | _ | _ <;>
      rcases hrb : ppPass (fileWorld cfg src.dropLast (joinPath src)) .build (sniffLE content.toList) first cfg.trailing b
          (decodeLines (byteLines content.toList)).1 (decodeLines (byteLines content.toList)).2 with _ | _ | _ <;>
      rw [hra, hrb] at hrel <;> simp only [PassResRel] at hrel
      · rename_i oa a2 ob b2
        obtain ⟨h1, hda2, h2, h3⟩ := hrel
        subst h1
        have hb2d : b2.isDir o = false := by
          rw [← h3.isDir o]; simp only [FS.isDir, hda2]; simpa [FS.isDir] using hd
        simp only [sinkEnd, hb2d, Bool.false_eq_true, if_false]
        have key : ∀ (T : List Path), Agree T a2 b2 → Agree (T.filter (· != o)) (a2.write o (encodeUtf8 oa))
            (if b2.file? o = some (encodeUtf8 oa) then (Outcome.ok, b2) else (Outcome.ok, b2.write o (encodeUtf8 oa))).2 := by
          intro T hT
          by_cases he : b2.file? o = some (encodeUtf8 oa)
          · simp only [if_pos he]
            refine ⟨hT.1, fun q hq => ?_⟩
            by_cases hqo : q = o
            · rw [hqo, he]; simp
            · rw [file?_write_other a2 o q _ hqo]
              exact hT.2 q (fun hm => hq (List.mem_filter.2 ⟨hm, by simpa using hqo⟩))
          · simp only [if_neg he]
            exact hT.write o _
        refine ⟨?_, (key _ h2).mono (fun q hq => (List.mem_filter.1 hq).1), fun _ => key _ h3⟩
        by_cases he : b2.file? o = some (encodeUtf8 oa) <;> simp [he]
      · rename_i da a2 db b2
        obtain ⟨h1, _, h2⟩ := hrel
        subst h1
        exact ⟨rfl, h2, fun h => by simp at h⟩
      · exact ⟨rfl, hag1, fun h => by simp at h⟩

theorem trNeeded_sound (cfg : Cfg) (hb : cfg.mode = .build) (a b : FS) (S S' : List Path) (src : Path)
    (first : Bool) (hag : Agree S a b) (h : trNeeded cfg a S src first (runPass cfg a src first).1 = some S') :
    (runPass cfg a src first).1 = (runPass cfg.toNeeded b src first).1 ∧
    Agree S' (runPass cfg a src first).2 (runPass cfg.toNeeded b src first).2 := by
  unfold trNeeded at h
  by_cases hsrc : S.contains src = true
  · rw [if_pos hsrc] at h; simp at h
  · rw [if_neg hsrc] at h
    have hsrc' : src ∉ S := by simpa using hsrc
    cases hfile : a.file? src with
    | none =>
      rw [hfile] at h
      simp only [Option.some.injEq] at h
      subst h
      exact (needed_pass_relF cfg hb a b S src first hag hsrc').1 (Or.inl hfile)
    | some content =>
      cases hout : outputPath src with
      | none =>
        rw [hfile, hout] at h
        simp only [Option.some.injEq] at h
        subst h
        exact (needed_pass_relF cfg hb a b S src first hag hsrc').1 (Or.inr hout)
      | some o =>
        rw [hfile, hout] at h
        simp only at h
        by_cases hdir : a.isDir o = true
        · rw [if_pos hdir] at h; simp at h
        · rw [if_neg hdir] at h
          obtain ⟨hB1, hB2⟩ := (needed_pass_relF cfg hb a b S src first hag hsrc').2 content o hfile hout (by simpa using hdir)
          cases hbs : srcBlocks .build (decodeLines (byteLines content.toList)).1 with
          | none =>
            rw [hbs] at h
            simp only [Option.some.injEq] at h
            subst h
            exact hB1 hbs
          | some bs =>
            rw [hbs] at h
            simp only at h
            by_cases hp : probesB cfg a src.dropLast (generated cfg a src.dropLast o bs ++ S) bs = true
            · rw [if_pos hp] at h
              cases hs : safeToB cfg a src.dropLast first bs (generated cfg a src.dropLast o bs ++ S) with
              | none => rw [hs] at h; simp at h
              | some Sfin =>
                rw [hs] at h
                simp only [Option.some.injEq] at h
                obtain ⟨r1, r2, r3⟩ := hB2 bs Sfin hbs ((probesB_iff cfg a _ _ bs).1 hp) (safeToB_spec cfg a _ first bs _ _ hs)
                refine ⟨r1, ?_⟩
                by_cases hok : (runPass cfg a src first).1 = .ok
                · rw [if_pos hok] at h; subst h; exact r3 hok
                · rw [if_neg hok] at h; subst h; exact r2
            · rw [if_neg hp] at h; simp at h

/-- **project-level composition**: if every pass satisfies a relational pass lemma (`hpass`: from file
    systems agreeing outside `S`, the pass under `cfg` and the pass under `cfg2` give the same outcome
    and agree outside `S'`), then the whole sequential runs give the same verdict and agree outside
    the final stale set. -/
theorem runLoop_rel (cfg cfg2 : Cfg) (tr : FS → List Path → Path → Bool → Outcome → Option (List Path))
    (hpass : ∀ (a b : FS) (S S' : List Path) (src : Path) (first : Bool), Agree S a b →
      tr a S src first (runPass cfg a src first).1 = some S' →
      (runPass cfg a src first).1 = (runPass cfg2 b src first).1 ∧
      Agree S' (runPass cfg a src first).2 (runPass cfg2 b src first).2) :
    ∀ (fuel : Nat) (s1 s2 : PSt) (S Sfin : List Path), s1.names = s2.names → s1.st = s2.st → Agree S s1.fs s2.fs →
      loopStale cfg tr fuel s1 S = some Sfin →
      (runLoop cfg fuel s1).1 = (runLoop cfg2 fuel s2).1 ∧ Agree Sfin (runLoop cfg fuel s1).2 (runLoop cfg2 fuel s2).2 := by
  intro fuel
  induction fuel with
  | zero =>
    intro s1 s2 S Sfin _ _ hag h
    simp only [loopStale, Option.some.injEq] at h
    subst h
    exact ⟨rfl, hag⟩
  | succ fuel ih =>
    intro s1 s2 S Sfin hn hst hag h
    unfold runLoop
    unfold loopStale at h
    rw [← hst, ← hn]
    cases hp : s1.st.pool with
    | nil =>
      rw [hp] at h
      simp only [Option.some.injEq] at h
      subst h
      simp only
      have : remaining s1 = remaining s2 := by unfold remaining; rw [hn, hst]
      rw [this]
      exact ⟨rfl, hag⟩
    | cons t rest =>
      cases t with
      | pp f first =>
        rw [hp] at h
        simp only at h ⊢
        cases htr : tr s1.fs S (s1.names.getD f []) first (runPass cfg s1.fs (s1.names.getD f []) first).1 with
        | none => rw [htr] at h; simp at h
        | some S' =>
          rw [htr] at h
          simp only at h
          obtain ⟨hoc, hag'⟩ := hpass s1.fs s2.fs S S' (s1.names.getD f []) first hag htr
          rw [← hoc]
          cases hoc1 : (runPass cfg s1.fs (s1.names.getD f []) first).1 with
          | err =>
            rw [hoc1] at h
            simp only [Option.some.injEq] at h
            subst h
            exact ⟨rfl, hag'⟩
          | ok =>
            rw [hoc1] at h
            simp only at h ⊢
            cases hh : Coord.handle { s1.st with pool := rest } (.ok f) with
            | cont st' =>
              rw [hh] at h
              simp only at h ⊢
              exact ih _ _ S' Sfin rfl rfl hag' h
            | fail =>
              rw [hh] at h
              simp only [Option.some.injEq] at h
              subst h
              exact ⟨rfl, hag'⟩
            | panic =>
              rw [hh] at h
              simp only [Option.some.injEq] at h
              subst h
              exact ⟨rfl, hag'⟩
          | hasDeps deps =>
            rw [hoc1] at h
            simp only at h ⊢
            cases hh : Coord.handle { s1.st with pool := rest }
                (.hasDeps f (indexAll s1.names (deps.map (fun d => (splitOn '/' d)))).2) with
            | cont st' =>
              rw [hh] at h
              simp only at h ⊢
              exact ih _ _ S' Sfin rfl rfl hag' h
            | fail =>
              rw [hh] at h
              simp only [Option.some.injEq] at h
              subst h
              exact ⟨rfl, hag'⟩
            | panic =>
              rw [hh] at h
              simp only [Option.some.injEq] at h
              subst h
              exact ⟨rfl, hag'⟩


end Txt
namespace Txt

/-- more fuel changes nothing once the run ends by itself -/
theorem runLoop_fuel_mono (cfg : Cfg) : ∀ (n k : Nat) (s : PSt), (runLoop cfg n s).1 ≠ .outOfFuel →
    runLoop cfg (n + k) s = runLoop cfg n s := by
  intro n
  induction n with
  | zero => intro k s h; simp [runLoop] at h
  | succ n ih =>
    intro k s h
    have hk : n + 1 + k = (n + k) + 1 := by omega
    rw [hk]
    unfold runLoop at h ⊢
    cases hp : s.st.pool with
    | nil => rfl
    | cons t rest =>
      cases t with
      | pp f first =>
        rw [hp] at h
        simp only at h ⊢
        cases hoc : (runPass cfg s.fs (s.names.getD f []) first).1 with
        | err => rfl
        | ok =>
          rw [hoc] at h
          simp only at h ⊢
          cases hh : Coord.handle { s.st with pool := rest } (.ok f) with
          | cont st' => rw [hh] at h; simp only at h ⊢; exact ih k _ h
          | fail => rfl
          | panic => rfl
        | hasDeps deps =>
          rw [hoc] at h
          simp only at h ⊢
          cases hh : Coord.handle { s.st with pool := rest }
              (.hasDeps f (indexAll s.names (deps.map (fun d => (splitOn '/' d)))).2) with
          | cont st' => rw [hh] at h; simp only at h ⊢; exact ih k _ h
          | fail => rfl
          | panic => rfl

theorem runLoop_fuel_le (cfg : Cfg) (n m : Nat) (s : PSt) (hle : n ≤ m) (h : (runLoop cfg n s).1 ≠ .outOfFuel) :
    runLoop cfg m s = runLoop cfg n s := by
  obtain ⟨k, rfl⟩ := Nat.exists_eq_add_of_le hle
  exact runLoop_fuel_mono cfg n k s h

theorem runProject_eq (cfg : Cfg) (fs : FS) (inputs : List Str) :
    runProject cfg fs inputs = match projStart cfg fs inputs with
      | none => (.err, fs)
      | some s => runLoop cfg (projFuel fs) s := by
  unfold runProject projStart projFuel
  cases resolveInputs cfg fs inputs with
  | none => rfl
  | some fd => rfl

theorem resolveInputs_congr (cfg cfg' : Cfg) (h : cfg'.baseAbs = cfg.baseAbs) (fs : FS) :
    ∀ inputs, resolveInputs cfg' fs inputs = resolveInputs cfg fs inputs := by
  intro inputs
  induction inputs with
  | nil => rfl
  | cons inp rest ih =>
    simp only [resolveInputs, ih, argComps_congr cfg cfg' h, depOf_congr cfg cfg' h]

theorem projStart_needed (cfg : Cfg) (fs : FS) (inputs : List Str) :
    projStart cfg.toNeeded fs inputs = projStart cfg fs inputs := by
  unfold projStart
  rw [resolveInputs_congr cfg cfg.toNeeded rfl]
  rfl

/-- the start states of the runs from two trees that resolve the inputs alike differ only in the tree -/
theorem projStart_congr (cfg : Cfg) (a b : FS) (inputs : List Str) (hd : a.dirs = b.dirs)
    (hres : resolveInputs cfg a inputs = resolveInputs cfg b inputs)
    (hscan : ∀ n ds seen, scanAll a cfg.recursive n ds seen = scanAll b cfg.recursive n ds seen) :
    (projStart cfg a inputs = none ∧ projStart cfg b inputs = none) ∨
    ∃ names st, projStart cfg a inputs = some { names := names, st := st, fs := a } ∧
      projStart cfg b inputs = some { names := names, st := st, fs := b } := by
  unfold projStart
  rw [← hres]
  cases resolveInputs cfg a inputs with
  | none => left; exact ⟨rfl, rfl⟩
  | some fd =>
    right
    obtain ⟨files, dirs⟩ := fd
    simp only
    rw [← hscan, ← hd]
    exact ⟨_, _, rfl, rfl⟩

/-- **whole project, same kind of run on both sides (C08)**: two trees that agree outside `S` and
    resolve the inputs alike give the same verdict, and afterwards agree outside the stale set that
    `projStale` computes along the run (empty after a successful run when `S` holds only generated paths). -/
theorem project_runs_agree (cfg : Cfg) (hm : cfg.mode = .build ∨ cfg.mode = .inMemory) (a b : FS) (inputs : List Str)
    (S Sfin : List Path) (hag : Agree S a b)
    (hres : resolveInputs cfg a inputs = resolveInputs cfg b inputs)
    (hscan : ∀ n ds seen, scanAll a cfg.recursive n ds seen = scanAll b cfg.recursive n ds seen)
    (hst : projStale cfg (trSame cfg) a inputs S = some Sfin)
    (hfa : (runProject cfg a inputs).1 ≠ .outOfFuel) (hfb : (runProject cfg b inputs).1 ≠ .outOfFuel) :
    (runProject cfg a inputs).1 = (runProject cfg b inputs).1 ∧
    Agree Sfin (runProject cfg a inputs).2 (runProject cfg b inputs).2 := by
  rw [runProject_eq cfg a, runProject_eq cfg b] at *
  unfold projStale at hst
  rcases projStart_congr cfg a b inputs hag.1 hres hscan with ⟨n1, n2⟩ | ⟨names, st, e1, e2⟩
  · rw [n1] at hst ⊢
    rw [n2]
    simp only [Option.some.injEq] at hst
    subst hst
    exact ⟨rfl, hag⟩
  · rw [e1] at hst hfa ⊢
    rw [e2] at hfb ⊢
    simp only at hst hfa hfb ⊢
    have hrel := runLoop_rel cfg cfg (trSame cfg) (fun a b S S' src first hag h => trSame_sound cfg hm a b S S' src first hag h)
      (projFuel a) { names := names, st := st, fs := a } { names := names, st := st, fs := b } S Sfin rfl rfl hag hst
    have hfuel : runLoop cfg (projFuel b) { names := names, st := st, fs := b } =
        runLoop cfg (projFuel a) { names := names, st := st, fs := b } := by
      rcases Nat.le_total (projFuel a) (projFuel b) with hle | hle
      · exact runLoop_fuel_le cfg _ _ _ hle (by rw [← hrel.1]; exact hfa)
      · exact (runLoop_fuel_le cfg _ _ _ hle hfb).symm
    rw [hfuel]
    exact hrel

/-- **whole project, build vs only-if-needed from the same tree (C09)** -/
theorem needed_project_vs_build_project (cfg : Cfg) (hb : cfg.mode = .build) (fs : FS) (inputs : List Str) (Sfin : List Path)
    (hst : projStale cfg (trNeeded cfg) fs inputs [] = some Sfin) :
    (runProject cfg fs inputs).1 = (runProject cfg.toNeeded fs inputs).1 ∧
    Agree Sfin (runProject cfg fs inputs).2 (runProject cfg.toNeeded fs inputs).2 := by
  rw [runProject_eq cfg fs, runProject_eq cfg.toNeeded fs, projStart_needed]
  unfold projStale at hst
  cases hs : projStart cfg fs inputs with
  | none =>
    rw [hs] at hst
    simp only [Option.some.injEq] at hst
    subst hst
    exact ⟨rfl, rfl, fun _ _ => rfl⟩
  | some s =>
    rw [hs] at hst
    simp only at hst ⊢
    exact runLoop_rel cfg cfg.toNeeded (trNeeded cfg) (fun a b S S' src first hag h => trNeeded_sound cfg hb a b S S' src first hag h)
      (projFuel fs) s s [] Sfin rfl rfl ⟨rfl, fun _ _ => rfl⟩ hst

end Txt

namespace Txt

theorem scanDir_files (fs : FS) (r : Bool) (d : Path) :
    (scanDir fs r d).1 = (srcPaths fs).filter (fun p => p.dropLast == d && p != []) := by
  unfold scanDir srcPaths
  simp only
  rw [List.filter_map, List.filter_map, List.filter_filter]
  congr 1

theorem scanDir_congr (a b : FS) (r : Bool) (d : Path) (hd : a.dirs = b.dirs) (hs : srcPaths a = srcPaths b) :
    scanDir a r d = scanDir b r d := by
  apply Prod.ext
  · rw [scanDir_files, scanDir_files, hs]
  · unfold scanDir; simp only [hd]

/-- the directory scans of two trees with the same directories and the same sources find the same files -/
theorem scanAll_congr (a b : FS) (r : Bool) (hd : a.dirs = b.dirs) (hs : srcPaths a = srcPaths b) :
    ∀ n ds seen, scanAll a r n ds seen = scanAll b r n ds seen := by
  intro n
  induction n with
  | zero => intro ds seen; rfl
  | succ n ih =>
    intro ds seen
    cases ds with
    | nil => rfl
    | cons d ds =>
      simp only [scanAll, scanDir_congr a b r d hd hs, ih]

end Txt

import Txtpp.Model.Fs
import Txtpp.Model.Lines
/-! `BufRead::lines` on the bytes of a source: splitting at byte 10, stripping one byte 13 in front of it,
    decoding each piece as UTF-8. If every byte 13 of the source is followed by byte 10, every
    decoded line is free of `\r` and `\n` (closes the `hlines` hypothesis of C12.output_one_ending). -/
namespace Txt

theorem fromUTF8_bytes (b : ByteArray) (s : String) (h : String.fromUTF8? b = some s) : s.toByteArray = b := by
  unfold String.fromUTF8? at h
  split at h
  · simp at h; subst h; rfl
  · simp at h

theorem mem_encode (c : Char) (l : List Char) (hc : c ∈ l) :
    ∀ b ∈ String.utf8EncodeChar c, b ∈ l.utf8Encode.data.toList := by
  induction l with
  | nil => simp at hc
  | cons x xs ih =>
    intro b hb
    rw [List.utf8Encode_cons, ByteArray.data_append, List.utf8Encode_singleton]
    simp only [List.mem_cons] at hc
    simp only [Array.toList_append, List.mem_append]
    rcases hc with rfl | hc
    · left; simpa using hb
    · right; exact ih hc b hb

/-- a decoded piece contains `\n` / `\r` only if the bytes contain 10 / 13 -/
theorem decode_clean (raw : List UInt8) (s : Str) (h : decodeUtf8 (ByteArray.mk raw.toArray) = some s)
    (h10 : (10 : UInt8) ∉ raw) (h13 : (13 : UInt8) ∉ raw) : Clean s := by
  unfold decodeUtf8 at h
  simp only [Option.map_eq_some_iff] at h
  obtain ⟨str, hstr, rfl⟩ := h
  have hb := fromUTF8_bytes _ _ hstr
  have henc : str.toList.utf8Encode.data.toList = raw := by
    rw [String.utf8Encode_toList, hb]
  constructor
  · intro hm
    have := mem_encode '\r' str.toList hm 13 (by decide)
    rw [henc] at this; exact h13 this
  · intro hm
    have := mem_encode '\n' str.toList hm 10 (by decide)
    rw [henc] at this; exact h10 this

/-- every byte 13 is immediately followed by byte 10 -/
def crB : List UInt8 → Bool
  | [] => true
  | 13 :: 10 :: rest => crB rest
  | 13 :: _ => false
  | _ :: rest => crB rest

theorem crB_tail (x : UInt8) (rest : List UInt8) (hx : x ≠ 13) (h : crB (x :: rest) = true) : crB rest = true := by
  rw [crB] at h
  · exact h
  · intro r hr _; exact hx hr
  · intro hr; exact hx hr

theorem crB_13 (rest : List UInt8) (h : crB (13 :: rest) = true) : ∃ r, rest = 10 :: r ∧ crB r = true := by
  cases rest with
  | nil => simp [crB] at h
  | cons y ys =>
    by_cases hy : y = 10
    · subst hy; exact ⟨ys, rfl, by simpa [crB] using h⟩
    · rw [crB] at h
      · simp at h
      · intro r hr; simp at hr; exact hy hr.1

theorem not_mem_of_head_tail (acc : List UInt8) (h1 : acc.head? ≠ some 13) (h2 : (13 : UInt8) ∉ acc.tail) : (13 : UInt8) ∉ acc := by
  cases acc with
  | nil => simp
  | cons a as =>
    simp only [List.mem_cons, not_or]
    refine ⟨fun h => h1 (by simp [h]), by simpa using h2⟩

/-- the pieces produced by the splitting loop contain neither byte 10 nor byte 13: a 13 is only ever
    the last byte before a 10, where it is dropped with the terminator -/
theorem go_spec (rest acc : List UInt8) (hacc10 : (10 : UInt8) ∉ acc) (hacc13 : (13 : UInt8) ∉ acc.tail)
    (hhead : acc.head? = some 13 → ∃ r, rest = 10 :: r) (hcr : crB rest = true) :
    ∀ p ∈ byteLines.go rest acc, (10 : UInt8) ∉ p ∧ (13 : UInt8) ∉ p := by
  induction rest generalizing acc with
  | nil =>
    intro p hp
    simp only [byteLines.go] at hp
    split at hp
    · simp at hp
    · simp only [List.mem_singleton] at hp
      subst hp
      have hne : acc.head? ≠ some 13 := fun h => by obtain ⟨r, hr⟩ := hhead h; simp at hr
      exact ⟨by simpa using hacc10, by simpa using not_mem_of_head_tail acc hne hacc13⟩
  | cons x xs ih =>
    intro p hp
    by_cases hx10 : x = 10
    · subst hx10
      simp only [byteLines.go, List.mem_cons] at hp
      rcases hp with rfl | hp
      · by_cases hh : acc.head? = some 13
        · simp only [hh, beq_self_eq_true, if_true]
          exact ⟨by simpa using fun hm => hacc10 (List.mem_of_mem_tail hm), by simpa using hacc13⟩
        · have hb : (acc.head? == some 13) = false := by simpa using hh
          simp only [hb, Bool.false_eq_true, if_false]
          exact ⟨by simpa using hacc10, by simpa using not_mem_of_head_tail acc hh hacc13⟩
      · exact ih [] (by simp) (by simp) (by simp) (crB_tail 10 xs (by decide) hcr) p hp
    · have hgo : byteLines.go (x :: xs) acc = byteLines.go xs (x :: acc) := by
        rw [byteLines.go]
        · intro r; exact hx10 r
      rw [hgo] at hp
      -- the previous head cannot be 13 (it would have to be followed by 10)
      have hprev : acc.head? ≠ some 13 := by
        intro h
        obtain ⟨r, hr⟩ := hhead h
        simp at hr; exact hx10 hr.1
      have h13' : (13 : UInt8) ∉ (x :: acc).tail := by
        simp only [List.tail_cons]
        exact not_mem_of_head_tail acc hprev hacc13
      apply ih (x :: acc) (by simp [hacc10, Ne.symm hx10]) h13' ?_ ?_ p hp
      · intro hh
        simp at hh
        subst hh
        obtain ⟨r, hr, _⟩ := crB_13 xs hcr
        exact ⟨r, hr⟩
      · by_cases hx13 : x = 13
        · subst hx13
          obtain ⟨r, hr, hcr'⟩ := crB_13 xs hcr
          rw [hr]; simpa [crB] using hcr'
        · exact crB_tail x xs hx13 hcr

/-- `BufRead::lines` on bytes in which every 13 is followed by 10: no piece contains 10 or 13 -/
theorem byteLines_clean (bytes : List UInt8) (h : crB bytes = true) :
    ∀ p ∈ byteLines bytes, (10 : UInt8) ∉ p ∧ (13 : UInt8) ∉ p := by
  intro p hp
  cases bytes with
  | nil => simp [byteLines] at hp
  | cons b bs =>
    simp only [byteLines] at hp
    exact go_spec (b :: bs) [] (by simp) (by simp) (by simp) h p hp

/-- C12: the lines handed to the preprocessor are free of `\r` and `\n` whenever every byte 13 of
    the source is followed by byte 10 -/
theorem source_lines_clean (bytes : List UInt8) (h : crB bytes = true) :
    ∀ l ∈ (decodeLines (byteLines bytes)).1, Clean l := by
  have hb := byteLines_clean bytes h
  generalize byteLines bytes = ps at hb
  induction ps with
  | nil => simp [decodeLines]
  | cons p ps ih =>
    simp only [decodeLines]
    cases hd : decodeUtf8 (ByteArray.mk p.toArray) with
    | none => simp
    | some s =>
      simp only
      intro l hl
      simp only [List.mem_cons] at hl
      rcases hl with rfl | hl
      · exact decode_clean p _ hd (hb p (by simp)).1 (hb p (by simp)).2
      · exact ih (fun q hq => hb q (by simp [hq])) l hl

end Txt

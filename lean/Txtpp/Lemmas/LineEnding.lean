import Txtpp.Model.Lines
import Txtpp.Model.Tag
/-! C12: everything txtpp produces from foreign text is re-split with `str::lines` and re-joined
    with the source's line ending. -/
namespace Txt

/-- `s` consists of pieces free of `\r` and `\n`, joined by `le`: every line terminator in `s` is `le` -/
def LEonly (le s : Str) : Prop := ∃ ls : List Str, (∀ l ∈ ls, Clean l) ∧ s = joinWith le ls

theorem joinWith_cons_cons (le a b : Str) (ls : List Str) :
    joinWith le (a :: b :: ls) = a ++ le ++ joinWith le (b :: ls) := rfl

theorem joinWith_snoc_nil (le : Str) (ls : List Str) (h : ls ≠ []) :
    joinWith le (ls ++ [[]]) = joinWith le ls ++ le := by
  induction ls with
  | nil => exact absurd rfl h
  | cons a ls ih =>
    cases ls with
    | nil => simp [joinWith]
    | cons b ls =>
      have := ih (by simp)
      simp only [List.cons_append] at this ⊢
      rw [joinWith_cons_cons, this, joinWith_cons_cons]; simp [List.append_assoc]

theorem clean_nil : Clean [] := by simp [Clean]

theorem clean_append (a b : Str) (ha : Clean a) (hb : Clean b) : Clean (a ++ b) := by
  simp only [Clean, List.mem_append, not_or] at *; exact ⟨⟨ha.1, hb.1⟩, ⟨ha.2, hb.2⟩⟩

theorem rustLines_ne_nil_of_endsNl (raw : Str) (h : endsNl raw = true) : rustLines raw ≠ [] := by
  cases raw with
  | nil => simp [endsNl] at h
  | cons c cs =>
    intro hr
    rw [rustLines.eq_def] at hr
    split at hr <;> simp_all
    split at hr <;> simp_all

/-- formatted directive output uses only `le` as line terminator, provided every `\r` of the raw
    output is followed by `\n` and the indentation is free of line terminators -/
theorem formatOutput_LEonly (le ws raw : Str) (hraw : crDom raw = true) (hws : Clean ws) :
    LEonly le (formatOutput le ws raw) := by
  have hl : ∀ l ∈ (rustLines raw).map (ws ++ ·), Clean l := by
    intro l hl
    simp only [List.mem_map] at hl
    obtain ⟨x, hx, rfl⟩ := hl
    exact clean_append _ _ hws (rustLines_clean raw hraw x hx)
  unfold formatOutput
  by_cases he : endsNl raw = true
  · refine ⟨(rustLines raw).map (ws ++ ·) ++ [[]], ?_, ?_⟩
    · intro l hl
      simp only [List.mem_append, List.mem_singleton] at hl
      rcases hl with hl' | rfl
      · exact hl l hl'
      · exact clean_nil
    · rw [joinWith_snoc_nil _ _ (by simpa using rustLines_ne_nil_of_endsNl raw he)]; simp [he]
  · exact ⟨_, hl, by simp [he]⟩

/-- stored tag content is normalised the same way when it is substituted -/
theorem replaceLE_LEonly (le raw : Str) (hraw : crDom raw = true) : LEonly le (replaceLE le raw) := by
  have := formatOutput_LEonly le [] raw hraw clean_nil
  simpa [formatOutput, replaceLE] using this

/-- temp file content: the argument lines joined by `le` -/
theorem tempBody_LEonly (le : Str) (body : List Str) (h : ∀ l ∈ body, Clean l) : LEonly le (joinWith le body) :=
  ⟨body, h, rfl⟩

end Txt

import Txtpp.Lemmas.TouchScope
import Txtpp.Lemmas.CleanParse
import Txtpp.Lemmas.SinkFacts
/-! C07, pass level: a clean pass over a source removes its output and every (non-`.txtpp`) temp
    target of its text, and a successful build pass followed by a clean pass of the same source
    restores every file of a tree in which those paths did not exist. -/
namespace Refine
variable {D σ : Type}

/-- a fact established by executing block `d` (under a running invariant `J`) and preserved by every
    later step holds at the end -/
theorem eval_establish (S : Sem D σ) (J Q : σ → Prop) (d : D) (e : Bool)
    (hJexec : ∀ s d' s' o, J s → S.exec s d' = some (s', o) → J s')
    (hJtext : ∀ s l, J s → J (S.text s l).1)
    (hest : ∀ s s' o, J s → S.exec s d = some (s', o) → Q s')
    (hexec : ∀ s d' s' o, J s → Q s → S.exec s d' = some (s', o) → Q s')
    (htext : ∀ s l, J s → Q s → Q (S.text s l).1) :
    ∀ (bs : List (Block D)) (s s' : σ) (cs : List Chunk), J s → (Q s ∨ Block.dir d e ∈ bs) →
      eval S s bs = some (s', cs) → Q s' := by
  intro bs
  induction bs with
  | nil =>
    intro s s' cs _ hq h
    simp [eval] at h
    rcases hq with hq | hq
    · rw [← h.1]; exact hq
    · simp at hq
  | cons b bs ih =>
    intro s s' cs hj hq h
    cases b with
    | text l =>
      simp only [eval] at h
      have hj1 := hJtext s l hj
      have hq1 : Q (S.text s l).1 ∨ Block.dir d e ∈ bs := by
        rcases hq with hq | hq
        · exact Or.inl (htext s l hj hq)
        · simp at hq; exact Or.inr hq
      rcases hx : S.text s l with ⟨s1, o⟩
      rw [hx] at h hq1 hj1
      cases o with
      | none => exact ih s1 s' cs hj1 hq1 h
      | some l' =>
        simp only [Option.map_eq_some_iff] at h
        obtain ⟨⟨s2, cs2⟩, he, hqq⟩ := h
        simp at hqq
        rw [← hqq.1]
        exact ih s1 s2 cs2 hj1 hq1 he
    | dir d' e' =>
      simp only [eval] at h
      cases hx : S.exec s d' with
      | none => simp [hx] at h
      | some r =>
        obtain ⟨s1, o⟩ := r
        have hj1 := hJexec s d' s1 o hj hx
        have hq1 : Q s1 ∨ Block.dir d e ∈ bs := by
          rcases hq with hq | hq
          · exact Or.inl (hexec s d' s1 o hj hq hx)
          · simp at hq
            rcases hq with ⟨rfl, rfl⟩ | hq
            · exact Or.inl (hest s s1 o hj hx)
            · exact Or.inr hq
        cases o with
        | none => simp only [hx] at h; exact ih s1 s' cs hj1 hq1 h
        | some c =>
          simp only [hx, Option.map_eq_some_iff] at h
          obtain ⟨⟨s2, cs2⟩, he, hqq⟩ := h
          simp at hqq
          rw [← hqq.1]
          exact ih s1 s2 cs2 hj1 hq1 he

end Refine

namespace Txt
open Refine (Sem machine parse Block)

/-- the clean operations never create a file (restated for a fixed path, as a step lemma) -/
theorem clean_exec_keeps_absent (cfg : Cfg) (wd : Path) (src : Str) (le : Str) (q : Path)
    (s s' : PpState FS) (d : Directive) (o : Option Str) (hq : s.w.file? q = none)
    (h : execDirective (fileWorld cfg wd src) .clean le s d = some (s', o)) : s'.w.file? q = none :=
  execDirective_inv (fileWorld cfg wd src) .clean (fun fs => fs.file? q = none)
    (removeTemp_creates_nothing cfg wd src q) le s s' d o hq h

/-- executing a temp block in clean mode leaves no file at its resolved target -/
theorem clean_temp_removes (cfg : Cfg) (wd : Path) (src : Str) (le : Str) (s s' : PpState FS) (d : Directive)
    (o : Option Str) (t : Str) (body : List Str) (p : Path)
    (hty : d.ty = .temp) (hargs : d.args = t :: body) (hnt : isTxtppPath t = false)
    (hres : s.w.resolve cfg wd t = some p)
    (h : execDirective (fileWorld cfg wd src) .clean le s d = some (s', o)) : s'.w.file? p = none := by
  rw [clean_temp_block _ le s d t body hty hargs hnt] at h
  simp only [fileWorld, hres] at h
  by_cases hf : s.w.isFile p = true
  · simp [hf] at h
    rw [← h.1]; simp
  · have hnone : s.w.file? p = none := by
      simp only [FS.isFile] at hf
      cases hx : s.w.file? p with
      | none => rfl
      | some b => simp [hx] at hf
    by_cases hd : s.w.isDir p = true
    · simp [hf, hd] at h; rw [← h.1]; exact hnone
    · simp [hf, hd] at h; rw [← h.1]; exact hnone

/-- the directories are an invariant of every directive execution of `fileWorld` -/
theorem exec_dirs (cfg : Cfg) (wd : Path) (src : Str) (mode : Mode) (le : Str) (fs0 : FS)
    (s s' : PpState FS) (d : Directive) (o : Option Str) (hd : s.w.dirs = fs0.dirs)
    (h : execDirective (fileWorld cfg wd src) mode le s d = some (s', o)) : s'.w.dirs = fs0.dirs := by
  have := execDirective_inv_at (fileWorld cfg wd src) mode (Scope fs0 (fun _ => True)) le s s' d
    (fileWorld_scope cfg wd src mode fs0 (fun _ => True) d (fun _ _ _ _ _ _ _ => trivial)) o
    ⟨hd, fun _ _ => Or.inr trivial, fun _ hq => absurd trivial hq⟩ h
  exact this.1

/-- the line loop of a clean pass leaves no file at any temp target of the text -/
theorem clean_ppPass_removes (cfg : Cfg) (hm : cfg.mode = .clean) (wd : Path) (src : Str) (le : Str) (first trailing : Bool)
    (fs1 fs2 : FS) (lines : List Str) (out : Str) (p : Path)
    (h : ppPass (fileWorld cfg wd src) .clean le first trailing fs1 lines true = .ok out fs2)
    (hp : TempTarget cfg fs1 wd lines p) : fs2.file? p = none := by
  unfold ppPass at h
  simp only [Bool.not_true, Bool.false_eq_true, if_false] at h
  cases hmach : machine (txtppSem (fileWorld cfg wd src) .clean le) trailing
      ⟨TagState.empty, if first then .firstExec else .exec, fs1⟩ lines with
  | none => simp [hmach] at h
  | some r =>
    obtain ⟨s, out'⟩ := r
    simp only [hmach] at h
    have hw : s.w = fs2 := by
      cases hpm : s.pm <;> simp [hpm] at h <;> exact h.2
    obtain ⟨bs, cs, hpar, hev⟩ := Refine.machine_some_spec _ trailing _ lines s out' hmach
    obtain ⟨bs', d, e, t, body, hsb, hmem, hty, hargs, hnt, hres⟩ := hp
    rw [parse_eq_srcBlocks, ← hm] at hpar
    rw [hpar] at hsb
    cases hsb
    rw [← hw]
    refine Refine.eval_establish (txtppSem (fileWorld cfg wd src) .clean le)
      (fun s => s.w.dirs = fs1.dirs) (fun s => s.w.file? p = none) d e ?_ ?_ ?_ ?_ ?_ bs _ s cs rfl (Or.inr hmem) hev
    · intro s d' s' o hj hx
      exact exec_dirs cfg wd src .clean le fs1 s s' d' o hj hx
    · intro s l hj
      simp only [txtppSem]; split <;> exact hj
    · intro s s' o hj hx
      exact clean_temp_removes cfg wd src le s s' d o t body p hty hargs hnt
        (by rw [resolve_dirs fs1 s.w cfg wd t hj]; exact hres) hx
    · intro s d' s' o _ hq hx
      exact clean_exec_keeps_absent cfg wd src le p s s' d' o hq hx
    · intro s l _ hq
      simp only [txtppSem]; split <;> exact hq

/-- anatomy of a pass that ended `ok` -/
theorem runPass_ok_inv (cfg : Cfg) (fs : FS) (src : Path) (first : Bool) (fs' : FS) (h : runPass cfg fs src first = (.ok, fs')) :
    ∃ content o fs1 out fs2, fs.file? src = some content ∧ outputPath src = some o ∧ sinkStart cfg.mode fs o = some fs1 ∧
      ppPass (fileWorld cfg src.dropLast (joinPath src)) cfg.mode (sniffLE content.toList) first cfg.trailing fs1
        (decodeLines (byteLines content.toList)).1 (decodeLines (byteLines content.toList)).2 = .ok out fs2 ∧
      sinkEnd cfg.mode fs2 o (encodeUtf8 out) = (.ok, fs') := by
  unfold runPass at h
  split at h
  · rename_i content o hfile hout
    unfold runPassAt at h
    split at h
    · simp at h
    · rename_i fs1 hstart
      split at h
      · simp at h
      · simp at h
      · rename_i out fs2 hr
        exact ⟨content, o, fs1, out, fs2, hfile, hout, hstart, hr, h⟩
  · simp at h

/-- in clean mode the pass mode never changes, so a clean pass never reports dependencies -/
theorem clean_pass_ok {W : Type} (Wd : World W) (le : Str) (first trailing : Bool) (w : W) (lines : List Str) :
    ∃ out w', ppPass Wd .clean le first trailing w lines true = .ok out w' := by
  have hne := clean_pass_never_fails Wd le first trailing w lines
  unfold ppPass at hne ⊢
  simp only [Bool.not_true, Bool.false_eq_true, if_false] at hne ⊢
  cases hmach : machine (txtppSem Wd .clean le) trailing ⟨TagState.empty, if first then .firstExec else .exec, w⟩ lines with
  | none => simp [hmach] at hne
  | some r =>
    obtain ⟨s, out⟩ := r
    have hpm : s.pm.isExecute = true := by
      apply Refine.machine_inv (txtppSem Wd .clean le) (fun s => s.pm.isExecute = true) ?_ ?_ trailing _ lines s out ?_ hmach
      · intro s d s' o hj he
        simp only [txtppSem, execDirective, if_true] at he
        cases hty : d.ty <;> simp only [hty] at he <;> (try (simp at he; rw [← he.1]; exact hj))
        cases ht : execTemp Wd le s.w d.args true with
        | none => simp [ht] at he; rw [← he.1]; exact hj
        | some w' => simp [ht] at he; rw [← he.1]; exact hj
      · intro s l hj
        simp only [txtppSem]
        split <;> exact hj
      · cases first <;> rfl
    simp only
    cases hp : s.pm with
    | collect deps => simp [hp, PpMode.isExecute] at hpm
    | firstExec => simp
    | exec => simp

theorem sinkStart_dirs (mode : Mode) (fs fs1 : FS) (o : Path) (h : sinkStart mode fs o = some fs1) : fs1.dirs = fs.dirs :=
  (sinkStart_scope mode fs fs fs1 (fun _ => True) o (Scope.refl fs _) trivial h).1

theorem sinkStart_clean_absent (fs fs1 : FS) (o : Path) (h : sinkStart .clean fs o = some fs1) : fs1.file? o = none := by
  simp only [sinkStart] at h
  split at h
  · cases h; simp
  · rename_i hf
    split at h
    · simp at h
    · cases h
      simp only [FS.isFile] at hf
      cases hx : fs.file? o with
      | none => rfl
      | some b => simp [hx] at hf

/-- C07: after a clean pass that ended `ok`, neither the output nor any temp target of the source exists -/
theorem clean_runPass_removes (cfg : Cfg) (hm : cfg.mode = .clean) (fs fs' : FS) (src : Path) (first : Bool)
    (h : runPass cfg fs src first = (.ok, fs')) (p : Path) (hp : PassAllowed cfg fs src p) : fs'.file? p = none := by
  obtain ⟨content, o, fs1, out, fs2, hfile, hout, hstart, hpp, hend⟩ := runPass_ok_inv cfg fs src first fs' h
  have h2 : fs' = fs2 := by
    rw [hm] at hend; simp [sinkEnd] at hend; exact hend.symm
  obtain ⟨c', hf', hsc⟩ := hp
  rw [hfile] at hf'; cases hf'
  rw [h2]
  rcases hsc with ho | ht
  · rw [hout] at ho; cases ho
    have h1 : fs1.file? p = none := sinkStart_clean_absent fs fs1 p (by rw [← hm]; exact hstart)
    have := ppPass_fs_inv cfg src.dropLast (joinPath src) (fun f => f.file? p = none)
      (by rw [hm]; exact removeTemp_creates_nothing cfg _ _ p) (sniffLE content.toList) first fs1
      (decodeLines (byteLines content.toList)).1 (decodeLines (byteLines content.toList)).2 h1
    rw [hpp] at this
    exact this
  · have hd := sinkStart_dirs cfg.mode fs fs1 o hstart
    have ht1 : TempTarget cfg fs1 src.dropLast (decodeLines (byteLines content.toList)).1 p :=
      TempTarget_dirs cfg fs1 fs _ _ p hd.symm ht
    cases hro : (decodeLines (byteLines content.toList)).2 with
    | false => rw [hro] at hpp; simp [ppPass] at hpp
    | true =>
      rw [hro, hm] at hpp
      exact clean_ppPass_removes cfg hm src.dropLast (joinPath src) _ first cfg.trailing fs1 fs2 _ out p hpp ht1

theorem ppPass_ok_parse {W : Type} (Wd : World W) (mode : Mode) (le : Str) (first trailing : Bool) (w : W) (lines : List Str)
    (readOk : Bool) (out : Str) (w' : W) (h : ppPass Wd mode le first trailing w lines readOk = .ok out w') :
    readOk = true ∧ ∃ bs, srcBlocks mode lines = some bs := by
  cases readOk with
  | false => simp [ppPass] at h
  | true =>
    refine ⟨rfl, ?_⟩
    unfold ppPass at h
    simp only [Bool.not_true, Bool.false_eq_true, if_false] at h
    cases hmach : machine (txtppSem Wd mode le) trailing ⟨TagState.empty, if first then .firstExec else .exec, w⟩ lines with
    | none => simp [hmach] at h
    | some r =>
      obtain ⟨s, out'⟩ := r
      obtain ⟨bs, cs, hpar, _⟩ := Refine.machine_some_spec _ trailing _ lines s out' hmach
      rw [parse_eq_srcBlocks] at hpar
      exact ⟨bs, hpar⟩

/-- the clean configuration that goes with a build configuration -/
def Cfg.toClean (cfg : Cfg) : Cfg := { cfg with mode := .clean }

theorem tempTarget_clean_iff (cfg : Cfg) (hb : cfg.mode = .build) (fs fsB : FS) (hd : fsB.dirs = fs.dirs) (wd : Path)
    (lines : List Str) (bs : List (Block Directive)) (hbs : srcBlocks .build lines = some bs) (p : Path) :
    TempTarget cfg.toClean fsB wd lines p ↔ TempTarget cfg fs wd lines p := by
  have hc : srcBlocks .clean lines = some bs := parse_clean_eq_build nullWorld .build (by decide) [] lines none bs hbs
  have hres : ∀ t, fsB.resolve cfg.toClean wd t = fs.resolve cfg wd t := by
    intro t
    rw [resolve_dirs fs fsB cfg.toClean wd t hd]
    rfl
  constructor
  · rintro ⟨bs', d, e, t, body, h1, h2, h3, h4, h5, h6⟩
    have : bs' = bs := by
      have h1' : srcBlocks .clean lines = some bs' := h1
      rw [hc] at h1'; cases h1'; rfl
    subst this
    exact ⟨bs', d, e, t, body, by rw [hb]; exact hbs, h2, h3, h4, h5, by rw [← hres t]; exact h6⟩
  · rintro ⟨bs', d, e, t, body, h1, h2, h3, h4, h5, h6⟩
    have : bs' = bs := by
      rw [hb, hbs] at h1; cases h1; rfl
    subst this
    exact ⟨bs', d, e, t, body, hc, h2, h3, h4, h5, by rw [hres t]; exact h6⟩

/-- **C07, one source**: in a tree where neither the output nor any temp target of the source
    exists, a successful build pass followed by a clean pass of the same source succeeds and leaves
    every path with exactly the content it had before the build. -/
theorem build_then_clean_restores (cfg : Cfg) (hb : cfg.mode = .build) (fs fsB : FS) (src : Path) (first first' : Bool)
    (hfresh : ∀ p, PassAllowed cfg fs src p → fs.file? p = none)
    (hbuild : runPass cfg fs src first = (.ok, fsB)) :
    ∃ fsC, runPass cfg.toClean fsB src first' = (.ok, fsC) ∧ ∀ q, fsC.file? q = fs.file? q := by
  obtain ⟨content, o, fs1, out, fs2, hfile, hout, hstart, hpp, hend⟩ := runPass_ok_inv cfg fs src first fsB hbuild
  obtain ⟨hro, bs, hbs⟩ := ppPass_ok_parse _ _ _ _ _ _ _ _ _ _ hpp
  rw [hb] at hbs
  have hscB := runPass_scope cfg fs src first
  rw [hbuild] at hscB
  simp only at hscB
  obtain ⟨hdirs, _, hframeB⟩ := hscB
  -- the source itself is outside the scope, so the build left it alone
  have hsrcB : fsB.file? src = some content := by
    rw [hframeB src (fun ha => by have := hfresh src ha; rw [hfile] at this; cases this)]
    exact hfile
  -- the scopes of the two passes coincide
  have hscope : ∀ p, PassAllowed cfg.toClean fsB src p ↔ PassAllowed cfg fs src p := by
    intro p
    constructor
    · rintro ⟨c, hc, hs⟩
      rw [hsrcB] at hc; cases hc
      exact ⟨content, hfile, hs.imp id (tempTarget_clean_iff cfg hb fs fsB hdirs _ _ bs hbs p).1⟩
    · rintro ⟨c, hc, hs⟩
      rw [hfile] at hc; cases hc
      exact ⟨content, hsrcB, hs.imp id (tempTarget_clean_iff cfg hb fs fsB hdirs _ _ bs hbs p).2⟩
  -- the clean pass succeeds
  have hnd : fs.isDir o = false := by
    rw [hb] at hstart; simp only [sinkStart] at hstart
    split at hstart
    · simp at hstart
    · rename_i hx; simpa using hx
  have hndB : fsB.isDir o = false := by simpa [FS.isDir, hdirs] using hnd
  have hclean : ∃ fsC, runPass cfg.toClean fsB src first' = (.ok, fsC) := by
    unfold runPass
    simp only [hsrcB, hout]
    unfold runPassAt
    have hst : ∃ fs1c, sinkStart cfg.toClean.mode fsB o = some fs1c := by
      show ∃ fs1c, sinkStart .clean fsB o = some fs1c
      simp only [sinkStart, hndB]
      split
      · exact ⟨_, rfl⟩
      · exact ⟨_, rfl⟩
    obtain ⟨fs1c, hst⟩ := hst
    simp only [hst]
    rw [hro]
    obtain ⟨outc, fs2c, hok⟩ := clean_pass_ok (fileWorld cfg.toClean src.dropLast (joinPath src)) (sniffLE content.toList)
      first' cfg.toClean.trailing fs1c (decodeLines (byteLines content.toList)).1
    have hok' : ppPass (fileWorld cfg.toClean src.dropLast (joinPath src)) cfg.toClean.mode (sniffLE content.toList)
      first' cfg.toClean.trailing fs1c (decodeLines (byteLines content.toList)).1 true = .ok outc fs2c := hok
    simp only [hok']
    exact ⟨_, rfl⟩
  obtain ⟨fsC, hC⟩ := hclean
  refine ⟨fsC, hC, fun q => ?_⟩
  by_cases hq : PassAllowed cfg fs src q
  · rw [hfresh q hq]
    exact clean_runPass_removes cfg.toClean rfl fsB fsC src first' hC q ((hscope q).2 hq)
  · have hscC := runPass_scope cfg.toClean fsB src first'
    rw [hC] at hscC
    rw [hscC.2.2 q (fun ha => hq ((hscope q).1 ha)), hframeB q hq]

end Txt

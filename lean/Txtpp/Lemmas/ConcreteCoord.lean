import Txtpp.Lemmas.FreeWorld
import Txtpp.Lemmas.PmInv
import Txtpp.Lemmas.Interning
import Txtpp.Model.Project
import Txtpp.Lemmas.Cycle
import Txtpp.Lemmas.SeenClosure
/-! The concrete sequential run (`runLoop`: the coordinator driven with real passes over the model file
    system) is an execution of the abstract coordinator with free results, hence of a static world:
    the theorems about `Coord.Reach` apply to it. First consequence: it never panics. -/
namespace Txt
open Coord (FReach WellTyped)

theorem indexAll_ne_nil (names : List Path) (ps : List Path) (h : ps ≠ []) : (indexAll names ps).2 ≠ [] := by
  intro he
  have := (indexAll_spec ps names).1
  rw [he] at this
  cases ps with
  | nil => exact h rfl
  | cons p ps => simp at this

/-- the concrete run from a state whose coordinator part is reachable (with free results) never panics -/
theorem runLoop_never_panics (cfg : Cfg) (inputs : List Coord.File) : ∀ (fuel : Nat) (s : PSt) (hist : List (Coord.Task × Coord.Res)),
    FReach inputs s.st hist → (runLoop cfg fuel s).1 ≠ .panic := by
  intro fuel
  induction fuel with
  | zero => intro s hist _; simp [runLoop]
  | succ fuel ih =>
    intro s hist hF
    unfold runLoop
    cases hpool : s.st.pool with
    | nil => simp only; split <;> simp
    | cons t rest =>
      cases t with
      | pp f first =>
        simp only
        have hmem : Coord.Task.pp f first ∈ s.st.pool := by rw [hpool]; exact List.mem_cons_self
        have herase : ({ s.st with pool := rest } : Coord.St) = { s.st with pool := s.st.pool.erase (Coord.Task.pp f first) } := by
          rw [hpool]; simp
        cases hoc : (runPass cfg s.fs (s.names.getD f []) first).1 with
        | err => simp
        | ok =>
          simp only
          have hty : WellTyped (Coord.Task.pp f first) (Coord.Res.ok f) := by simp [WellTyped]
          cases hh : Coord.handle { s.st with pool := rest } (.ok f) with
          | fail => simp
          | panic =>
            rw [herase] at hh
            exact absurd hh (Coord.freach_never_panics inputs s.st hist hF _ _ hmem hty)
          | cont st' =>
            simp only
            rw [herase] at hh
            exact ih _ _ (FReach.step s.st st' hist _ _ hF hmem hty hh)
        | hasDeps deps =>
          simp only
          obtain ⟨hfirst, hne⟩ := runPass_hasDeps cfg s.fs _ first deps hoc
          subst hfirst
          have hidx : (indexAll s.names (deps.map (fun d => (splitOn '/' d)))).2 ≠ [] :=
            indexAll_ne_nil _ _ (by simpa using hne)
          have hty : WellTyped (Coord.Task.pp f true) (Coord.Res.hasDeps f (indexAll s.names (deps.map (fun d => (splitOn '/' d)))).2) := by
            simp [WellTyped, hidx]
          cases hh : Coord.handle { s.st with pool := rest }
              (.hasDeps f (indexAll s.names (deps.map (fun d => (splitOn '/' d)))).2) with
          | fail => simp
          | panic =>
            rw [herase] at hh
            exact absurd hh (Coord.freach_never_panics inputs s.st hist hF _ _ hmem hty)
          | cont st' =>
            simp only
            rw [herase] at hh
            exact ih { names := _, st := st', fs := _ } _ (FReach.step s.st st' hist _ _ hF hmem hty hh)

/-- **the whole run never panics** (C18 / C03 for the concrete model of `Txtpp::run`: the `unwrap` in
    `notify_finish` and the coordinator's bookkeeping, with results that depend on the file system) -/
theorem runProject_never_panics (cfg : Cfg) (fs : FS) (inputs : List Str) : (runProject cfg fs inputs).1 ≠ .panic := by
  unfold runProject
  split
  · simp
  · exact runLoop_never_panics cfg _ _ _ [] FReach.init

/-- where a run that ends by itself stops: a reachable coordinator state with nothing in flight -/
theorem runLoop_end (cfg : Cfg) (inputs : List Coord.File) : ∀ (fuel : Nat) (s : PSt) (hist : List (Coord.Task × Coord.Res)),
    FReach inputs s.st hist → ((runLoop cfg fuel s).1 = .ok ∨ (runLoop cfg fuel s).1 = .circular) →
    ∃ (s' : PSt) (hist' : List (Coord.Task × Coord.Res)), FReach inputs s'.st hist' ∧ s'.st.pool = [] ∧
      (runLoop cfg fuel s).2 = s'.fs ∧ ((runLoop cfg fuel s).1 = .circular ↔ remaining s' = true) := by
  intro fuel
  induction fuel with
  | zero => intro s hist _ h; simp [runLoop] at h
  | succ fuel ih =>
    intro s hist hF h
    unfold runLoop at h ⊢
    cases hpool : s.st.pool with
    | nil =>
      refine ⟨s, hist, hF, hpool, ?_, ?_⟩
      · simp only
      · simp only
        cases hr : remaining s <;> simp
    | cons t rest =>
      cases t with
      | pp f first =>
        rw [hpool] at h
        simp only at h ⊢
        have hmem : Coord.Task.pp f first ∈ s.st.pool := by rw [hpool]; exact List.mem_cons_self
        have herase : ({ s.st with pool := rest } : Coord.St) = { s.st with pool := s.st.pool.erase (Coord.Task.pp f first) } := by
          rw [hpool]; simp
        cases hoc : (runPass cfg s.fs (s.names.getD f []) first).1 with
        | err => rw [hoc] at h; simp at h
        | ok =>
          rw [hoc] at h
          simp only at h ⊢
          have hty : WellTyped (Coord.Task.pp f first) (Coord.Res.ok f) := by simp [WellTyped]
          cases hh : Coord.handle { s.st with pool := rest } (.ok f) with
          | fail => rw [hh] at h; simp at h
          | panic => rw [hh] at h; simp at h
          | cont st' =>
            rw [hh] at h
            simp only at h ⊢
            rw [herase] at hh
            exact ih _ _ (FReach.step s.st st' hist _ _ hF hmem hty hh) h
        | hasDeps deps =>
          rw [hoc] at h
          simp only at h ⊢
          obtain ⟨hfirst, hne⟩ := runPass_hasDeps cfg s.fs _ first deps hoc
          subst hfirst
          have hidx : (indexAll s.names (deps.map (fun d => (splitOn '/' d)))).2 ≠ [] :=
            indexAll_ne_nil _ _ (by simpa using hne)
          have hty : WellTyped (Coord.Task.pp f true) (Coord.Res.hasDeps f (indexAll s.names (deps.map (fun d => (splitOn '/' d)))).2) := by
            simp [WellTyped, hidx]
          cases hh : Coord.handle { s.st with pool := rest }
              (.hasDeps f (indexAll s.names (deps.map (fun d => (splitOn '/' d)))).2) with
          | fail => rw [hh] at h; simp at h
          | panic => rw [hh] at h; simp at h
          | cont st' =>
            rw [hh] at h
            simp only at h ⊢
            rw [herase] at hh
            exact ih { names := _, st := st', fs := _ } _ (FReach.step s.st st' hist _ _ hF hmem hty hh) h

/-- **a circular-dependency verdict is always justified** (C05, concrete model of `Txtpp::run`): if the
    run ends with `circular`, then the dependency lists that the first passes of this very run
    reported - tabulated by the world `w` - contain a cycle, and some file still waiting can reach it -/
theorem runProject_circular_has_cycle (cfg : Cfg) (fs : FS) (inputs : List Str) (h : (runProject cfg fs inputs).1 = .circular) :
    ∃ (idx : List Coord.File) (s : Coord.St) (hist : List (Coord.Task × Coord.Res)) (w : Coord.World),
      FReach idx s hist ∧ (∀ t r, (t, r) ∈ hist → w.result t = r) ∧ s.pool = [] ∧
      ∃ f, (∃ d, f ∈ s.dm.inE d) ∧ Coord.ReachesCycle w.deps f := by
  unfold runProject at h
  split at h
  · simp at h
  · rename_i files dirs hres
    simp only at h
    obtain ⟨s', hist', hF, hq, _, hrem⟩ := runLoop_end cfg _ _ _ [] FReach.init (Or.inr h)
    obtain ⟨w, hR, hw⟩ := Coord.freach_reach _ s'.st hist' hF
    have hr := hrem.1 h
    unfold remaining at hr
    obtain ⟨d, _, hd⟩ := List.any_eq_true.1 hr
    have hne : s'.st.dm.inE d ≠ [] := by
      intro he; rw [he] at hd; simp at hd
    obtain ⟨a, ha⟩ := List.exists_mem_of_ne_nil _ hne
    exact ⟨_, s'.st, hist', w, hF, hw, hq, a, ⟨d, ha⟩, Coord.waiting_reaches_cycle w _ s'.st hR hq a ⟨d, ha⟩⟩

theorem indexAll_bound (names ps : List Path) : ∀ i ∈ (indexAll names ps).2, i < (indexAll names ps).1.length := by
  intro i hi
  obtain ⟨k, hk, hget⟩ := List.getElem_of_mem hi
  obtain ⟨hlen, _, _, hall⟩ := indexAll_spec ps names
  obtain ⟨_, _, hb⟩ := hall k (by rw [← hlen]; exact hk)
  rw [← hget]; exact hb

theorem indexAll_names_le (names ps : List Path) : names.length ≤ (indexAll names ps).1.length := by
  obtain ⟨_, ⟨ext, he⟩, _, _⟩ := indexAll_spec ps names
  rw [he]; simp

/-- like `runLoop_end`, carrying the bound "every seen file index designates a name" -/
theorem runLoop_end_bound (cfg : Cfg) (inputs : List Coord.File) : ∀ (fuel : Nat) (s : PSt) (hist : List (Coord.Task × Coord.Res)),
    FReach inputs s.st hist → (∀ f ∈ s.st.seen, f < s.names.length) →
    ((runLoop cfg fuel s).1 = .ok ∨ (runLoop cfg fuel s).1 = .circular) →
    ∃ (s' : PSt) (hist' : List (Coord.Task × Coord.Res)), FReach inputs s'.st hist' ∧ s'.st.pool = [] ∧
      (∀ f ∈ s'.st.seen, f < s'.names.length) ∧
      (runLoop cfg fuel s).2 = s'.fs ∧ ((runLoop cfg fuel s).1 = .circular ↔ remaining s' = true) := by
  intro fuel
  induction fuel with
  | zero => intro s hist _ _ h; simp [runLoop] at h
  | succ fuel ih =>
    intro s hist hF hB h
    unfold runLoop at h ⊢
    cases hpool : s.st.pool with
    | nil =>
      refine ⟨s, hist, hF, hpool, hB, ?_, ?_⟩
      · simp only
      · simp only
        cases hr : remaining s <;> simp
    | cons t rest =>
      cases t with
      | pp f first =>
        rw [hpool] at h
        simp only at h ⊢
        have hmem : Coord.Task.pp f first ∈ s.st.pool := by rw [hpool]; exact List.mem_cons_self
        have herase : ({ s.st with pool := rest } : Coord.St) = { s.st with pool := s.st.pool.erase (Coord.Task.pp f first) } := by
          rw [hpool]; simp
        cases hoc : (runPass cfg s.fs (s.names.getD f []) first).1 with
        | err => rw [hoc] at h; simp at h
        | ok =>
          rw [hoc] at h
          simp only at h ⊢
          have hty : WellTyped (Coord.Task.pp f first) (Coord.Res.ok f) := by simp [WellTyped]
          cases hh : Coord.handle { s.st with pool := rest } (.ok f) with
          | fail => rw [hh] at h; simp at h
          | panic => rw [hh] at h; simp at h
          | cont st' =>
            rw [hh] at h
            simp only at h ⊢
            have hB' : ∀ x ∈ st'.seen, x < s.names.length := by
              intro x hx
              rcases Coord.handle_seen _ st' _ hh x hx with h1 | ⟨a, deps, he, _⟩
              · exact hB x h1
              · cases he
            rw [herase] at hh
            exact ih { s with st := st', fs := _ } _ (FReach.step s.st st' hist _ _ hF hmem hty hh) hB' h
        | hasDeps deps =>
          rw [hoc] at h
          simp only at h ⊢
          obtain ⟨hfirst, hne⟩ := runPass_hasDeps cfg s.fs _ first deps hoc
          subst hfirst
          have hidx : (indexAll s.names (deps.map (fun d => (splitOn '/' d)))).2 ≠ [] :=
            indexAll_ne_nil _ _ (by simpa using hne)
          have hty : WellTyped (Coord.Task.pp f true) (Coord.Res.hasDeps f (indexAll s.names (deps.map (fun d => (splitOn '/' d)))).2) := by
            simp [WellTyped, hidx]
          cases hh : Coord.handle { s.st with pool := rest }
              (.hasDeps f (indexAll s.names (deps.map (fun d => (splitOn '/' d)))).2) with
          | fail => rw [hh] at h; simp at h
          | panic => rw [hh] at h; simp at h
          | cont st' =>
            rw [hh] at h
            simp only at h ⊢
            have hB' : ∀ x ∈ st'.seen, x < (indexAll s.names (deps.map (fun d => (splitOn '/' d)))).1.length := by
              intro x hx
              rcases Coord.handle_seen _ st' _ hh x hx with h1 | ⟨a, ds, he, hx'⟩
              · exact Nat.lt_of_lt_of_le (hB x h1) (indexAll_names_le _ _)
              · simp only [Coord.Res.hasDeps.injEq] at he
                obtain ⟨_, rfl⟩ := he
                exact indexAll_bound _ _ x hx'
            rw [herase] at hh
            exact ih { names := _, st := st', fs := _ } _ (FReach.step s.st st' hist _ _ hF hmem hty hh) hB' h

/-- **success means completion (C03, concrete model of `Txtpp::run`)**: if the run ends `ok`, every file the
    coordinator ever heard of - the resolved inputs and every dependency reported by a first pass,
    transitively - has completed a pass that ended `ok`; nothing is left waiting -/
theorem runProject_ok_complete (cfg : Cfg) (fs : FS) (inputs : List Str) (h : (runProject cfg fs inputs).1 = .ok) :
    ∃ (idx : List Coord.File) (s : Coord.St) (hist : List (Coord.Task × Coord.Res)),
      FReach idx s hist ∧ s.pool = [] ∧ (∀ i ∈ idx, i ∈ s.seen) ∧
      (∀ f ∈ s.seen, ∃ b, (Coord.Task.pp f b, Coord.Res.ok f) ∈ hist) ∧
      (∀ f deps, (Coord.Task.pp f true, Coord.Res.hasDeps f deps) ∈ hist → ∀ d ∈ deps, d ∈ s.seen) := by
  unfold runProject at h
  split at h
  · simp at h
  · rename_i files dirs hres
    simp only at h
    have hB0 : ∀ f ∈ (Coord.init (indexAll [] (files ++ scanAll fs cfg.recursive (fs.dirs.length + dirs.length + 2) dirs [])).2).seen,
        f < (indexAll [] (files ++ scanAll fs cfg.recursive (fs.dirs.length + dirs.length + 2) dirs [])).1.length := by
      intro f hf
      rcases Coord.execFiles_seen _ _ true f hf with h1 | ⟨_, h1⟩
      · simp at h1
      · exact indexAll_bound _ _ f h1
    obtain ⟨s', hist', hF, hq, hB, _, hrem⟩ := runLoop_end_bound cfg _ _ _ [] FReach.init hB0 (Or.inl h)
    obtain ⟨w, hw, hH⟩ := Coord.freach_world _ s'.st hist' hF
    have hR : Coord.Reach w _ s'.st := Coord.freach_replay w _ s'.st hist' hF hw
    have hnr : remaining s' = false := by
      cases hr : remaining s' with
      | false => rfl
      | true => have := hrem.2 hr; rw [h] at this; cases this
    have hI := Coord.reach_inv w _ s'.st hR
    have hno : ¬ Coord.Leftover s'.st := by
      rintro ⟨d, a, ha⟩
      have hd : d ∈ s'.st.seen := (hI.edge d a ha).2.2.1
      have hlt := hB d hd
      unfold remaining at hnr
      have := List.any_eq_false.1 hnr d (List.mem_range.2 hlt)
      simp only [Bool.not_eq_true'] at this
      have hne : s'.st.dm.inE d = [] := by simpa using this
      rw [hne] at ha; simp at ha
    refine ⟨_, s'.st, hist', hF, hq, Coord.inputs_seen w _ s'.st hR, ?_, ?_⟩
    · intro f hf
      rcases Coord.quiescent_cover w _ s'.st hR hq f hf with ⟨d, hd⟩ | hfin
      · exact absurd ⟨d, f, hd⟩ hno
      · exact hH.finHist f hfin
    · intro f deps hm d hd
      -- the reported dependencies are the world's dependencies, and the seen set is closed under them
      have hwr := hw _ _ hm
      have hdeps : w.deps f = deps := by
        by_cases he : w.deps f = []
        · simp only [Coord.World.result, he, if_true] at hwr
          split at hwr <;> simp at hwr
        · rw [Coord.result_first_deps w f he] at hwr
          split at hwr
          · simp at hwr
          · simp only [Coord.Res.hasDeps.injEq] at hwr; exact hwr.2
      have hfs : f ∈ s'.st.seen := (hH.first f _ hm).1
      -- f is finished; finished files have finished (hence seen) dependencies
      rcases Coord.quiescent_cover w _ s'.st hR hq f hfs with ⟨d', hd'⟩ | hfin
      · exact absurd ⟨d', f, hd'⟩ hno
      · exact hI.finSeen d (hI.finDeps f hfin d (by rw [hdeps]; exact hd))

end Txt

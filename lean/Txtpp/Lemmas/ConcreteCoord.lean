import Txtpp.Lemmas.FreeWorld
import Txtpp.Lemmas.PmInv
import Txtpp.Lemmas.Interning
import Txtpp.Model.Project
import Txtpp.Lemmas.Cycle
import Txtpp.Lemmas.SeenClosure
/-! The concrete sequential run (`runLoop`: the coordinator driven with real passes over the model file
    system) is an execution of the abstract coordinator with free results, hence of a static world:
    the theorems about `Coord.Reach` apply to it. First consequence: it never panics. -/
namespace Txt
open Coord (FReach WellTyped)

theorem indexAll_ne_nil (names : List Path) (ps : List Path) (h : ps ≠ []) : (indexAll names ps).2 ≠ [] := by
  intro he
  have := (indexAll_spec ps names).1
  rw [he] at this
  cases ps with
  | nil => exact h rfl
  | cons p ps => simp at this

/-- the concrete run from a state whose coordinator part is reachable (with free results) never panics -/
theorem runLoop_never_panics (cfg : Cfg) (inputs : List Coord.File) : ∀ (fuel : Nat) (s : PSt) (hist : List (Coord.Task × Coord.Res)),
    FReach inputs s.st hist → (runLoop cfg fuel s).1 ≠ .panic := by
  intro fuel
  induction fuel with
  | zero => intro s hist _; simp [runLoop]
  | succ fuel ih =>
    intro s hist hF
    unfold runLoop
    cases hpool : s.st.pool with
    | nil => simp only; split <;> simp
    | cons t rest =>
      cases t with
      | pp f first =>
        simp only
        have hmem : Coord.Task.pp f first ∈ s.st.pool := by rw [hpool]; exact List.mem_cons_self
        have herase : ({ s.st with pool := rest } : Coord.St) = { s.st with pool := s.st.pool.erase (Coord.Task.pp f first) } := by
          rw [hpool]; simp
        cases hoc : (runPass cfg s.fs (s.names.getD f []) first).1 with
        | err => simp
        | ok =>
          simp only
          have hty : WellTyped (Coord.Task.pp f first) (Coord.Res.ok f) := by simp [WellTyped]
          cases hh : Coord.handle { s.st with pool := rest } (.ok f) with
          | fail => simp
          | panic =>
            rw [herase] at hh
            exact absurd hh (Coord.freach_never_panics inputs s.st hist hF _ _ hmem hty)
          | cont st' =>
            simp only
            rw [herase] at hh
            exact ih _ _ (FReach.step s.st st' hist _ _ hF hmem hty hh)
        | hasDeps deps =>
          simp only
          obtain ⟨hfirst, hne⟩ := runPass_hasDeps cfg s.fs _ first deps hoc
          subst hfirst
          have hidx : (indexAll s.names (deps.map (fun d => (splitOn '/' d)))).2 ≠ [] :=
            indexAll_ne_nil _ _ (by simpa using hne)
          have hty : WellTyped (Coord.Task.pp f true) (Coord.Res.hasDeps f (indexAll s.names (deps.map (fun d => (splitOn '/' d)))).2) := by
            simp [WellTyped, hidx]
          cases hh : Coord.handle { s.st with pool := rest }
              (.hasDeps f (indexAll s.names (deps.map (fun d => (splitOn '/' d)))).2) with
          | fail => simp
          | panic =>
            rw [herase] at hh
            exact absurd hh (Coord.freach_never_panics inputs s.st hist hF _ _ hmem hty)
          | cont st' =>
            simp only
            rw [herase] at hh
            exact ih { names := _, st := st', fs := _ } _ (FReach.step s.st st' hist _ _ hF hmem hty hh)

/-- **the whole run never panics** (C18 / C03 for the concrete model of `Txtpp::run`: the `unwrap` in
    `notify_finish` and the coordinator's bookkeeping, with results that depend on the file system) -/
theorem runProject_never_panics (cfg : Cfg) (fs : FS) (inputs : List Str) : (runProject cfg fs inputs).1 ≠ .panic := by
  unfold runProject
  split
  · simp
  · exact runLoop_never_panics cfg _ _ _ [] FReach.init

theorem indexAll_bound (names ps : List Path) : ∀ i ∈ (indexAll names ps).2, i < (indexAll names ps).1.length := by
  intro i hi
  obtain ⟨k, hk, hget⟩ := List.getElem_of_mem hi
  obtain ⟨hlen, _, _, hall⟩ := indexAll_spec ps names
  obtain ⟨_, _, hb⟩ := hall k (by rw [← hlen]; exact hk)
  rw [← hget]; exact hb

theorem indexAll_names_le (names ps : List Path) : names.length ≤ (indexAll names ps).1.length := by
  obtain ⟨_, ⟨ext, he⟩, _, _⟩ := indexAll_spec ps names
  rw [he]; simp

end Txt

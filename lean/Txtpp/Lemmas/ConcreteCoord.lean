import Txtpp.Lemmas.FreeWorld
import Txtpp.Lemmas.PmInv
import Txtpp.Lemmas.Interning
import Txtpp.Model.Project
import Txtpp.Lemmas.Cycle
/-! The concrete sequential run (`runLoop`: the coordinator driven with real passes over the model file
    system) is an execution of the abstract coordinator with free results, hence of a static world:
    the theorems about `Coord.Reach` apply to it. First consequence: it never panics. -/
namespace Txt
open Coord (FReach WellTyped)

theorem indexAll_ne_nil (names : List Path) (ps : List Path) (h : ps ≠ []) : (indexAll names ps).2 ≠ [] := by
  intro he
  have := (indexAll_spec ps names).1
  rw [he] at this
  cases ps with
  | nil => exact h rfl
  | cons p ps => simp at this

/-- the concrete run from a state whose coordinator part is reachable (with free results) never panics -/
theorem runLoop_never_panics (cfg : Cfg) (inputs : List Coord.File) : ∀ (fuel : Nat) (s : PSt) (hist : List (Coord.Task × Coord.Res)),
    FReach inputs s.st hist → (runLoop cfg fuel s).1 ≠ .panic := by
  intro fuel
  induction fuel with
  | zero => intro s hist _; simp [runLoop]
  | succ fuel ih =>
    intro s hist hF
    unfold runLoop
    cases hpool : s.st.pool with
    | nil => simp only; split <;> simp
    | cons t rest =>
      cases t with
      | pp f first =>
        simp only
        have hmem : Coord.Task.pp f first ∈ s.st.pool := by rw [hpool]; exact List.mem_cons_self
        have herase : ({ s.st with pool := rest } : Coord.St) = { s.st with pool := s.st.pool.erase (Coord.Task.pp f first) } := by
          rw [hpool]; simp
        cases hoc : (runPass cfg s.fs (s.names.getD f []) first).1 with
        | err => simp
        | ok =>
          simp only
          have hty : WellTyped (Coord.Task.pp f first) (Coord.Res.ok f) := by simp [WellTyped]
          cases hh : Coord.handle { s.st with pool := rest } (.ok f) with
          | fail => simp
          | panic =>
            rw [herase] at hh
            exact absurd hh (Coord.freach_never_panics inputs s.st hist hF _ _ hmem hty)
          | cont st' =>
            simp only
            rw [herase] at hh
            exact ih _ _ (FReach.step s.st st' hist _ _ hF hmem hty hh)
        | hasDeps deps =>
          simp only
          obtain ⟨hfirst, hne⟩ := runPass_hasDeps cfg s.fs _ first deps hoc
          subst hfirst
          have hidx : (indexAll s.names (deps.map (fun d => (splitOn '/' d)))).2 ≠ [] :=
            indexAll_ne_nil _ _ (by simpa using hne)
          have hty : WellTyped (Coord.Task.pp f true) (Coord.Res.hasDeps f (indexAll s.names (deps.map (fun d => (splitOn '/' d)))).2) := by
            simp [WellTyped, hidx]
          cases hh : Coord.handle { s.st with pool := rest }
              (.hasDeps f (indexAll s.names (deps.map (fun d => (splitOn '/' d)))).2) with
          | fail => simp
          | panic =>
            rw [herase] at hh
            exact absurd hh (Coord.freach_never_panics inputs s.st hist hF _ _ hmem hty)
          | cont st' =>
            simp only
            rw [herase] at hh
            exact ih { names := _, st := st', fs := _ } _ (FReach.step s.st st' hist _ _ hF hmem hty hh)

/-- **the whole run never panics** (C18 / C03 for the concrete model of `Txtpp::run`: the `unwrap` in
    `notify_finish` and the coordinator's bookkeeping, with results that depend on the file system) -/
theorem runProject_never_panics (cfg : Cfg) (fs : FS) (inputs : List Str) : (runProject cfg fs inputs).1 ≠ .panic := by
  unfold runProject
  split
  · simp
  · exact runLoop_never_panics cfg _ _ _ [] FReach.init

/-- where a run that ends by itself stops: a reachable coordinator state with nothing in flight -/
theorem runLoop_end (cfg : Cfg) (inputs : List Coord.File) : ∀ (fuel : Nat) (s : PSt) (hist : List (Coord.Task × Coord.Res)),
    FReach inputs s.st hist → ((runLoop cfg fuel s).1 = .ok ∨ (runLoop cfg fuel s).1 = .circular) →
    ∃ (s' : PSt) (hist' : List (Coord.Task × Coord.Res)), FReach inputs s'.st hist' ∧ s'.st.pool = [] ∧
      (runLoop cfg fuel s).2 = s'.fs ∧ ((runLoop cfg fuel s).1 = .circular ↔ remaining s' = true) := by
  intro fuel
  induction fuel with
  | zero => intro s hist _ h; simp [runLoop] at h
  | succ fuel ih =>
    intro s hist hF h
    unfold runLoop at h ⊢
    cases hpool : s.st.pool with
    | nil =>
      refine ⟨s, hist, hF, hpool, ?_, ?_⟩
      · simp only
      · simp only
        cases hr : remaining s <;> simp
    | cons t rest =>
      cases t with
      | pp f first =>
        rw [hpool] at h
        simp only at h ⊢
        have hmem : Coord.Task.pp f first ∈ s.st.pool := by rw [hpool]; exact List.mem_cons_self
        have herase : ({ s.st with pool := rest } : Coord.St) = { s.st with pool := s.st.pool.erase (Coord.Task.pp f first) } := by
          rw [hpool]; simp
        cases hoc : (runPass cfg s.fs (s.names.getD f []) first).1 with
        | err => rw [hoc] at h; simp at h
        | ok =>
          rw [hoc] at h
          simp only at h ⊢
          have hty : WellTyped (Coord.Task.pp f first) (Coord.Res.ok f) := by simp [WellTyped]
          cases hh : Coord.handle { s.st with pool := rest } (.ok f) with
          | fail => rw [hh] at h; simp at h
          | panic => rw [hh] at h; simp at h
          | cont st' =>
            rw [hh] at h
            simp only at h ⊢
            rw [herase] at hh
            exact ih _ _ (FReach.step s.st st' hist _ _ hF hmem hty hh) h
        | hasDeps deps =>
          rw [hoc] at h
          simp only at h ⊢
          obtain ⟨hfirst, hne⟩ := runPass_hasDeps cfg s.fs _ first deps hoc
          subst hfirst
          have hidx : (indexAll s.names (deps.map (fun d => (splitOn '/' d)))).2 ≠ [] :=
            indexAll_ne_nil _ _ (by simpa using hne)
          have hty : WellTyped (Coord.Task.pp f true) (Coord.Res.hasDeps f (indexAll s.names (deps.map (fun d => (splitOn '/' d)))).2) := by
            simp [WellTyped, hidx]
          cases hh : Coord.handle { s.st with pool := rest }
              (.hasDeps f (indexAll s.names (deps.map (fun d => (splitOn '/' d)))).2) with
          | fail => rw [hh] at h; simp at h
          | panic => rw [hh] at h; simp at h
          | cont st' =>
            rw [hh] at h
            simp only at h ⊢
            rw [herase] at hh
            exact ih { names := _, st := st', fs := _ } _ (FReach.step s.st st' hist _ _ hF hmem hty hh) h

/-- **a circular-dependency verdict is always justified** (C05, concrete model of `Txtpp::run`): if the
    run ends with `circular`, then the dependency lists that the first passes of this very run
    reported - tabulated by the world `w` - contain a cycle, and some file still waiting can reach it -/
theorem runProject_circular_has_cycle (cfg : Cfg) (fs : FS) (inputs : List Str) (h : (runProject cfg fs inputs).1 = .circular) :
    ∃ (idx : List Coord.File) (s : Coord.St) (hist : List (Coord.Task × Coord.Res)) (w : Coord.World),
      FReach idx s hist ∧ (∀ t r, (t, r) ∈ hist → w.result t = r) ∧ s.pool = [] ∧
      ∃ f, (∃ d, f ∈ s.dm.inE d) ∧ Coord.ReachesCycle w.deps f := by
  unfold runProject at h
  split at h
  · simp at h
  · rename_i files dirs hres
    simp only at h
    obtain ⟨s', hist', hF, hq, _, hrem⟩ := runLoop_end cfg _ _ _ [] FReach.init (Or.inr h)
    obtain ⟨w, hR, hw⟩ := Coord.freach_reach _ s'.st hist' hF
    have hr := hrem.1 h
    unfold remaining at hr
    obtain ⟨d, _, hd⟩ := List.any_eq_true.1 hr
    have hne : s'.st.dm.inE d ≠ [] := by
      intro he; rw [he] at hd; simp at hd
    obtain ⟨a, ha⟩ := List.exists_mem_of_ne_nil _ hne
    exact ⟨_, s'.st, hist', w, hF, hw, hq, a, ⟨d, ha⟩, Coord.waiting_reaches_cycle w _ s'.st hR hq a ⟨d, ha⟩⟩

end Txt

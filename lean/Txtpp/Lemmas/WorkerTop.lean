import Txtpp.Lemmas.Worker
namespace Coord
variable {C : Type}

inductive WReach (w : World) (R : Sem C) (inputs : List File) (out0 : File → OutState C) : WSt C → Prop where
  | init : WReach w R inputs out0 ⟨init inputs, fun _ => .queued, out0⟩
  | step (x y) : WReach w R inputs out0 x → WStep w R x y → WReach w R inputs out0 y

theorem wreach_inv (w : World) (R : Sem C) (hR : RenderLocal w R) (inputs out0) (x : WSt C)
    (h : WReach w R inputs out0 x) : WInv w R x := by
  induction h with
  | init =>
    have hfin : (init inputs).dm.fin = [] := by
      have : (init inputs).dm = _ := execFiles_dm _ _ _
      rw [this]
    exact ⟨inv_init w inputs, by rw [hfin]; trivial, by intro f hf; rw [hfin] at hf; simp at hf,
      by intro t _ hs; simp at hs⟩
  | step x y _ hs ih => exact wstep_preserves w R hR x y ih hs

/-- the sequential values solve the equations `out f = render f out` on a topologically sorted list -/
theorem seqVal_solution (w : World) (R : Sem C) (hR : RenderLocal w R) (l : List File)
    (ht : TopoSorted w.deps l) (hn : l.Nodup) : ∀ f ∈ l, seqVal R l f = R.render f (seqVal R l) := by
  induction l with
  | nil => intro f hf; simp at hf
  | cons a l ih =>
    have hnd := List.nodup_cons.1 hn
    intro f hf
    have hagree : ∀ g ∈ l, seqVal R (a :: l) g = seqVal R l g := by
      intro g hg; exact seqVal_cons_ne R a l g (fun e => hnd.1 (e ▸ hg))
    simp at hf
    rcases hf with rfl | hf
    · simp only [seqVal, upd_same]
      apply hR; intro d hd
      exact (hagree d (ht.1 d hd)).symm
    · rw [hagree f hf, ih ht.2 hnd.2 f hf]
      apply hR; intro d hd
      -- dependencies of a member of a topologically sorted list are members
      have : ∀ (l : List File), TopoSorted w.deps l → ∀ f ∈ l, ∀ d ∈ w.deps f, d ∈ l := by
        intro l; induction l with
        | nil => intro _ f hf; simp at hf
        | cons b l ih' =>
          intro ht f hf d hd; simp at hf
          rcases hf with rfl | hf
          · exact List.mem_cons_of_mem _ (ht.1 d hd)
          · exact List.mem_cons_of_mem _ (ih' ht.2 f hf d hd)
      exact (hagree d (this l ht.2 f hf d hd)).symm

/-- two solutions of the equations agree on a topologically sorted list: the result does not depend on
    the order in which the files were built, nor on what was on disk before -/
theorem solution_unique (w : World) (R : Sem C) (hR : RenderLocal w R) (l : List File) (ht : TopoSorted w.deps l)
    (v1 v2 : File → C) (h1 : ∀ f ∈ l, v1 f = R.render f v1) (h2 : ∀ f ∈ l, v2 f = R.render f v2) :
    ∀ f ∈ l, v1 f = v2 f := by
  induction l with
  | nil => intro f hf; simp at hf
  | cons a l ih =>
    have ih' := ih ht.2 (fun f hf => h1 f (List.mem_cons_of_mem _ hf)) (fun f hf => h2 f (List.mem_cons_of_mem _ hf))
    intro f hf; simp at hf
    rcases hf with rfl | hf
    · rw [h1 f (by simp), h2 f (by simp)]
      apply hR; intro d hd; exact ih' d (ht.1 d hd)
    · exact ih' f hf

/-- C02/C03/C05 at the exit of a successful run: every seen file is finished and its output is the
    complete, fresh value – the unique solution of `out f = render f out` – whatever the interleaving,
    the thread count and the initial content of the outputs -/
theorem success_outputs (w : World) (R : Sem C) (hR : RenderLocal w R) (inputs out0) (x : WSt C)
    (h : WReach w R inputs out0 x) (hq : x.st.pool = []) (hno : ¬ Leftover x.st) :
    (∀ f ∈ x.st.seen, f ∈ x.st.dm.fin) ∧
    (∀ f ∈ x.st.dm.fin, x.outp f = .complete (seqVal R x.st.dm.fin f)) ∧
    (∀ f ∈ x.st.dm.fin, seqVal R x.st.dm.fin f = R.render f (seqVal R x.st.dm.fin)) := by
  have hW := wreach_inv w R hR inputs out0 x h
  refine ⟨?_, hW.finOut, seqVal_solution w R hR _ hW.topo hW.inv.finND⟩
  intro f hf
  rcases hW.inv.cover f hf with h' | h' | ⟨d, hd⟩ | h'
  · simp [hq] at h'
  · simp [hq] at h'
  · exact absurd ⟨d, f, hd⟩ hno
  · exact h'

/-- C05 (⇒): a finished file cannot reach a dependency cycle -/
theorem topo_no_cycle (deps : File → List File) (l : List File) (ht : TopoSorted deps l) (hn : l.Nodup) :
    ∀ f ∈ l, ¬ ReachesCycle deps f := by
  -- position from the end strictly decreases along dependency edges
  have closed : ∀ (l : List File), TopoSorted deps l → ∀ f ∈ l, ∀ g, Path deps f g → g ∈ l := by
    intro l ht f hf g hp
    induction hp with
    | refl => exact hf
    | step f d g hd _ ih =>
      apply ih
      clear ih
      induction l with
      | nil => simp at hf
      | cons b l ihl =>
        simp at hf
        rcases hf with rfl | hf
        · exact List.mem_cons_of_mem _ (ht.1 d hd)
        · exact List.mem_cons_of_mem _ (ihl ht.2 hf)
  induction l with
  | nil => intro f hf; simp at hf
  | cons a l ih =>
    have hnd := List.nodup_cons.1 hn
    intro f hf ⟨g, d, hfg, hdg, hdg'⟩
    have hg : g ∈ a :: l := closed _ ht f hf g hfg
    simp at hg
    rcases hg with rfl | hg
    · -- g = a: its dependency d lies in l, and from l one never gets back to a
      have hd : d ∈ l := ht.1 d hdg
      exact hnd.1 (closed l ht.2 d hd g hdg')
    · exact ih ht.2 hnd.2 g hg ⟨g, d, Path.refl g, hdg, hdg'⟩

theorem finished_no_cycle (w : World) (R : Sem C) (hR : RenderLocal w R) (inputs out0) (x : WSt C)
    (h : WReach w R inputs out0 x) : ∀ f ∈ x.st.dm.fin, ¬ ReachesCycle w.deps f := by
  have hW := wreach_inv w R hR inputs out0 x h
  exact topo_no_cycle w.deps _ hW.topo hW.inv.finND

#print axioms success_outputs
#print axioms finished_no_cycle
end Coord

import Txtpp.Lemmas.Term
/-! Every file the coordinator ever sees is reachable from the inputs through dependency edges;
    hence the termination bound holds over any finite dependency-closed universe. -/
namespace Coord

theorem execFile_seen (s : St) (f : File) (b : Bool) : ∀ x ∈ (execFile s f b).seen, x ∈ s.seen ∨ (b = true ∧ x = f) := by
  intro x hx
  unfold execFile at hx
  split at hx
  · exact Or.inl hx
  · cases b with
    | true => simp at hx; rcases hx with rfl | hx; exact Or.inr ⟨rfl, rfl⟩; exact Or.inl hx
    | false => simp at hx; exact Or.inl hx

theorem execFiles_seen (s : St) (fs : List File) (b : Bool) : ∀ x ∈ (execFiles s fs b).seen, x ∈ s.seen ∨ (b = true ∧ x ∈ fs) := by
  induction fs generalizing s with
  | nil => intro x hx; exact Or.inl hx
  | cons f fs ih =>
    intro x hx
    rw [execFiles_cons] at hx
    rcases ih (execFile s f b) x hx with h | ⟨hb, h⟩
    · rcases execFile_seen s f b x h with h' | ⟨hb, rfl⟩
      · exact Or.inl h'
      · exact Or.inr ⟨hb, by simp⟩
    · exact Or.inr ⟨hb, by simp [h]⟩

theorem handle_seen (s s' : St) (r : Res) (h : handle s r = .cont s') :
    ∀ x ∈ s'.seen, x ∈ s.seen ∨ ∃ a deps, r = .hasDeps a deps ∧ x ∈ deps := by
  intro x hx
  unfold handle at h
  cases r with
  | err => simp at h
  | hasDeps a deps =>
    simp only at h
    split at h
    · simp only [Out.cont.injEq] at h; subst h
      rcases execFiles_seen _ deps true x hx with h' | ⟨_, h'⟩
      · exact Or.inl h'
      · exact Or.inr ⟨a, deps, rfl, h'⟩
    · simp only [Out.cont.injEq] at h; subst h
      rcases execFile_seen _ a false x hx with h' | ⟨hb, _⟩
      · exact Or.inl h'
      · cases hb
  | ok b =>
    simp only at h
    split at h
    · simp at h
    · rename_i dm rel _
      simp only [Out.cont.injEq] at h; subst h
      rcases execFiles_seen _ rel false x hx with h' | ⟨hb, _⟩
      · exact Or.inl h'
      · cases hb

theorem result_hasDeps (w : World) (t : Task) (a : File) (deps : List File) (h : w.result t = .hasDeps a deps) :
    t = .pp a true ∧ deps = w.deps a := by
  cases t with
  | pp f first =>
    cases first with
    | false => simp only [World.result] at h; split at h <;> cases h
    | true =>
      simp only [World.result] at h
      split at h
      · split at h <;> cases h
      · split at h
        · cases h
        · cases h; exact ⟨rfl, rfl⟩

/-- every seen file is reachable from an input along dependency edges -/
theorem seen_reachable (w : World) (inputs : List File) (s : St) (h : Reach w inputs s) :
    ∀ f ∈ s.seen, ∃ i ∈ inputs, Path w.deps i f := by
  induction h with
  | init =>
    intro f hf
    rcases execFiles_seen ⟨[], 0, 0, ⟨fun _ => none, fun _ => [], []⟩, []⟩ inputs true f hf with h | ⟨_, h⟩
    · simp at h
    · exact ⟨f, h, Path.refl f⟩
  | step s s' hr hs ih =>
    cases hs with
    | deliver t ht hc =>
      intro f hf
      rcases handle_seen _ _ _ hc f hf with h | ⟨a, deps, hres, hd⟩
      · exact ih f h
      · obtain ⟨rfl, rfl⟩ := result_hasDeps w t a deps hres
        have ha : a ∈ s.seen := (reach_inv w inputs s hr).poolSeen a true ht
        obtain ⟨i, hi, hp⟩ := ih a ha
        exact ⟨i, hi, hp.snoc hd⟩

/-- C03: termination over a finite universe that contains the inputs and is closed under
    dependencies — no further hypothesis -/
theorem terminates_closed (w : World) (inputs U : List File) (hin : ∀ i ∈ inputs, i ∈ U)
    (hcl : ∀ f ∈ U, ∀ d ∈ w.deps f, d ∈ U) (n : Nat) (s : St) (h : ReachN w inputs n s) : n ≤ 2 * U.length := by
  have hr := reachN_reach w inputs n s h
  have hclosed : ∀ a b, Path w.deps a b → a ∈ U → b ∈ U := by
    intro a b hp
    induction hp with
    | refl => exact id
    | step a d b hd _ ih => intro ha; exact ih (hcl a ha d hd)
  have hsub : ∀ f ∈ s.seen, f ∈ U := by
    intro f hf
    obtain ⟨i, hi, hp⟩ := seen_reachable w inputs s hr f hf
    exact hclosed i f hp (hin i hi)
  have hlen : s.seen.length ≤ U.length := (reach_inv w inputs s hr).seenND.length_le_of_subset hsub
  exact terminates w inputs U n s h hlen

end Coord

import Txtpp.Lemmas.SeenClosure
/-! Project level, abstract in what a pass computes: at a successful exit the set of finished files
    is exactly the dependency closure of the inputs, and every output is the same whatever was on
    disk before the run and whatever the schedule: builds are a function of the sources only. -/
namespace Coord
variable {C : Type}

theorem execFile_seen_mono (s : St) (f : File) (b : Bool) : ∀ x ∈ s.seen, x ∈ (execFile s f b).seen := by
  intro x hx
  unfold execFile
  split
  · exact hx
  · cases b <;> simp [hx]

theorem execFiles_seen_mono (s : St) (fs : List File) (b : Bool) : ∀ x ∈ s.seen, x ∈ (execFiles s fs b).seen := by
  induction fs generalizing s with
  | nil => intro x hx; exact hx
  | cons f fs ih => intro x hx; rw [execFiles_cons]; exact ih _ x (execFile_seen_mono s f b x hx)

theorem handle_seen_mono (s s' : St) (r : Res) (h : handle s r = .cont s') : ∀ x ∈ s.seen, x ∈ s'.seen := by
  intro x hx
  unfold handle at h
  cases r with
  | err => simp at h
  | hasDeps a deps =>
    simp only at h
    split at h
    · simp only [Out.cont.injEq] at h; subst h; exact execFiles_seen_mono _ deps true x hx
    · simp only [Out.cont.injEq] at h; subst h; exact execFile_seen_mono _ a false x hx
  | ok b =>
    simp only at h
    split at h
    · simp at h
    · simp only [Out.cont.injEq] at h; subst h; exact execFiles_seen_mono _ _ false x hx

theorem execFiles_seen_mem (s : St) (fs : List File) : ∀ x ∈ fs, x ∈ (execFiles s fs true).seen := by
  induction fs generalizing s with
  | nil => intro x hx; simp at hx
  | cons f fs ih =>
    intro x hx
    rw [execFiles_cons]
    simp only [List.mem_cons] at hx
    rcases hx with rfl | hx
    · apply execFiles_seen_mono
      unfold execFile
      split
      · rename_i h; simpa using h
      · simp
    · exact ih _ x hx

theorem inputs_seen (w : World) (inputs : List File) (s : St) (h : Reach w inputs s) : ∀ i ∈ inputs, i ∈ s.seen := by
  induction h with
  | init => intro i hi; exact execFiles_seen_mem _ inputs i hi
  | step s s' _ hs ih =>
    cases hs with
    | deliver t ht hc => intro i hi; exact handle_seen_mono _ _ _ hc i (ih i hi)

/-- at a successful exit the finished files are exactly the files reachable from the inputs -/
theorem success_fin_eq_closure (w : World) (inputs : List File) (s : St) (h : Reach w inputs s)
    (hq : s.pool = []) (hno : ¬ Leftover s) (f : File) : f ∈ s.dm.fin ↔ ∃ i ∈ inputs, Path w.deps i f := by
  have hI := reach_inv w inputs s h
  have hall : ∀ x ∈ s.seen, x ∈ s.dm.fin := by
    intro x hx
    rcases quiescent_cover w inputs s h hq x hx with ⟨d, hd⟩ | h'
    · exact absurd ⟨d, x, hd⟩ hno
    · exact h'
  constructor
  · intro hf; exact seen_reachable w inputs s h f (hI.finSeen f hf)
  · rintro ⟨i, hi, hp⟩
    have hi' : i ∈ s.dm.fin := hall i (inputs_seen w inputs s h i hi)
    clear hi
    induction hp with
    | refl => exact hi'
    | step a d b hd _ ih => exact ih (hI.finDeps a hi' d hd)

/-- C08 (project level): two successful runs over the same sources and inputs — started from
    different contents of the generated files (`out0`, `out0'`), under different schedules and thread
    counts — finish exactly the same set of files and leave every output with the same value. -/
theorem hermetic (w : World) (R : Sem C) (hR : RenderLocal w R) (inputs : List File)
    (out0 out0' : File → OutState C) (x x' : WSt C)
    (h : WReach w R inputs out0 x) (h' : WReach w R inputs out0' x')
    (hq : x.st.pool = []) (hno : ¬ Leftover x.st) (hq' : x'.st.pool = []) (hno' : ¬ Leftover x'.st) :
    (∀ f, f ∈ x.st.dm.fin ↔ f ∈ x'.st.dm.fin) ∧ ∀ f ∈ x.st.dm.fin, x.outp f = x'.outp f := by
  -- the coordinator part of a worker-level reachable state is coordinator-reachable
  have toReach : ∀ (o : File → OutState C) (y : WSt C), WReach w R inputs o y → Reach w inputs y.st := by
    intro o y hy
    induction hy with
    | init => exact Reach.init
    | step y z _ hs ih =>
      cases hs with
      | begin t ht hq => exact ih
      | finish t ht hr => exact ih
      | deliver t s' ht hs hc => exact Reach.step _ _ ih (Step.deliver _ _ t ht hc)
  have hr := toReach out0 x h
  have hr' := toReach out0' x' h'
  have hset : ∀ f, f ∈ x.st.dm.fin ↔ f ∈ x'.st.dm.fin := by
    intro f
    rw [success_fin_eq_closure w inputs x.st hr hq hno f, success_fin_eq_closure w inputs x'.st hr' hq' hno' f]
  refine ⟨hset, ?_⟩
  obtain ⟨_, o1, e1⟩ := success_outputs w R hR inputs out0 x h hq hno
  obtain ⟨_, o2, e2⟩ := success_outputs w R hR inputs out0' x' h' hq' hno'
  have hW := wreach_inv w R hR inputs out0 x h
  intro f hf
  rw [o1 f hf, o2 f ((hset f).1 hf)]
  congr 1
  -- both value assignments solve the equations on x.fin, which is topologically sorted
  exact solution_unique w R hR x.st.dm.fin hW.topo (seqVal R x.st.dm.fin) (seqVal R x'.st.dm.fin) e1
    (fun g hg => e2 g ((hset g).1 hg)) f hf

end Coord

import Txtpp.Lemmas.OutputConf
import Txtpp.Lemmas.TextIff
import Txtpp.Lemmas.AddLineIff
/-! C12: the txtpp instance of the output invariant. -/
namespace Txt
open Refine (Sem machine)
variable {W : Type}

theorem clean_of_subset (a b : Str) (h : ∀ c ∈ a, c ∈ b) (hb : Clean b) : Clean a :=
  ⟨fun hm => hb.1 (h _ hm), fun hm => hb.2 (h _ hm)⟩

theorem mem_trimEnd (s : Str) (c : Char) (h : c ∈ trimEnd s) : c ∈ s := by
  unfold trimEnd at h
  have := (List.dropWhile_sublist (l := s.reverse) isWs).subset (List.mem_reverse.1 h)
  simpa using this

theorem mem_trim (s : Str) (c : Char) (h : c ∈ trim s) : c ∈ s := by
  unfold trim at h
  have h1 := mem_trimEnd _ c h
  unfold trimStart at h1
  exact (List.dropWhile_sublist (l := s) isWs).subset h1

theorem crDom_clean_append (a t : Str) (ha : Clean a) : crDom (a ++ t) = crDom t := by
  induction a with
  | nil => rfl
  | cons c cs ih =>
    have hc : c ≠ '\r' := by
      simp only [Clean, List.mem_cons, not_or] at ha; exact fun e => ha.1.1 e.symm
    have hcs : Clean cs := by
      simp only [Clean, List.mem_cons, not_or] at ha ⊢; exact ⟨ha.1.2, ha.2.2⟩
    simp only [List.cons_append]
    rw [crDom]
    · exact ih hcs
    · intro cs' h _; exact hc h
    · intro h; exact hc h

theorem crDom_nl (t : Str) : crDom ('\n' :: t) = crDom t := by
  rw [crDom]
  · intro cs' h; simp at h
  · intro h; simp at h

theorem crDom_joinNl (L : List Str) (hL : ∀ l ∈ L, Clean l) : crDom (joinWith ['\n'] L) = true := by
  induction L with
  | nil => rfl
  | cons a rest ih =>
    have ha := hL a (by simp)
    cases rest with
    | nil => simp only [joinWith]; have := crDom_clean_append a [] ha; simpa [crDom] using this
    | cons b r =>
      rw [joinWith_cons_cons]
      have h2 := ih (fun l hl => hL l (by simp [hl]))
      rw [List.append_assoc, crDom_clean_append a _ ha]
      simp only [List.singleton_append, crDom_nl]; exact h2

/-- the open directive carries only terminator-free text -/
def DirClean (d : Directive) : Prop := Clean d.ws ∧ ∀ a ∈ d.args, Clean a

theorem detect_dirClean (l : Str) (d : Directive) (hl : Clean l) (h : detectFrom l = some d) : DirClean d := by
  obtain ⟨rest, after, name, hline, _, _, hrest, _, hname, _⟩ := (detectFrom_iff l d).1 h
  constructor
  · exact clean_of_subset _ _ (fun c hc => by rw [hline]; simp [hc]) hl
  · intro a ha
    rcases hname with ⟨_, _, hargs⟩ | ⟨r, hafter, _, hargs⟩
    · rw [hargs] at ha; simp at ha; subst ha; exact clean_nil
    · rw [hargs] at ha; simp at ha; subst ha
      apply clean_of_subset _ _ _ hl
      intro c hc
      have := mem_trim r c hc
      rw [hline, hrest, hafter]; simp [this]

theorem addLine_dirClean (d d' : Directive) (l : Str) (hd : DirClean d) (hl : Clean l)
    (h : addLine d l = some d') : DirClean d' := by
  obtain ⟨_, a, ⟨rest, hline, hc⟩, rfl⟩ := (addLine_iff d d' l).1 h
  refine ⟨hd.1, ?_⟩
  intro x hx
  simp only [Directive.push, List.mem_append, List.mem_singleton] at hx
  rcases hx with hx | rfl
  · exact hd.2 x hx
  · rcases hc with ⟨_, rfl⟩ | ⟨r, hr, rfl⟩ | ⟨r, hr, rfl⟩
    · exact clean_nil
    · exact clean_of_subset _ _ (fun c hc => by have := mem_trimEnd r c hc; rw [hline, hr]; simp [this]) hl
    · exact clean_of_subset _ _ (fun c hc => by have := mem_trimEnd r c hc; rw [hline, hr]; simp [this]) hl

/-- what the outside world may hand to a pass: every `\r` is followed by `\n` -/
structure WorldCr (Wd : World W) : Prop where
  inc : ∀ w a c, Wd.readInclude w a = some c → crDom c = true
  run : ∀ w c out w', Wd.run w c = (some out, w') → crDom out = true

theorem routeOutput_facts (le : Str) (s : PpState W) (ws raw : Str) (hs : TagsCr s.tags) (hraw : crDom raw = true) (hws : Clean ws) :
    TagsCr (routeOutput le s ws raw).1.tags ∧ ∀ c, (routeOutput le s ws raw).2 = some c → LEonly le c := by
  unfold routeOutput
  cases ht : s.tags.tryStore raw with
  | none =>
    simp only
    exact ⟨hs, fun c hc => by simp at hc; subst hc; exact formatOutput_LEonly le ws raw hraw hws⟩
  | some t' =>
    simp only
    refine ⟨?_, fun c hc => by simp at hc⟩
    unfold TagState.tryStore at ht
    split at ht
    · simp at ht; subst ht
      intro kv hkv
      simp only [List.mem_cons, List.mem_filter] at hkv
      rcases hkv with rfl | hkv
      · exact hraw
      · exact hs kv hkv.1
    · simp at ht

theorem execDirective_conf (Wd : World W) (hW : WorldCr Wd) (mode : Mode) (le : Str) (s s' : PpState W)
    (d : Directive) (o : Option Str) (hs : TagsCr s.tags) (hd : DirClean d)
    (h : execDirective Wd mode le s d = some (s', o)) :
    TagsCr s'.tags ∧ ∀ c, o = some c → LEonly le c := by
  unfold execDirective at h
  by_cases hm : mode = .clean
  · simp only [hm, if_true] at h
    cases hty : d.ty <;> simp only [hty] at h <;> (try (simp at h; obtain ⟨h1, h2⟩ := h; subst h1; subst h2; exact ⟨hs, by simp⟩))
    cases ht : execTemp Wd le s.w d.args true with
    | none => simp [ht] at h; obtain ⟨h1, h2⟩ := h; subst h1; subst h2; exact ⟨hs, by simp⟩
    | some w' => simp [ht] at h; obtain ⟨h1, h2⟩ := h; subst h1; subst h2; exact ⟨hs, by simp⟩
  · simp only [hm, if_false] at h
    split at h
    · simp at h
    · rename_i s1 hc
      simp at h; obtain ⟨h1, h2⟩ := h; subst h1; subst h2
      have : s1.tags = s.tags := by
        split at hc
        · simp at hc
        · split at hc
          · split at hc
            · simp at hc
            · split at hc <;> simp at hc <;> subst hc <;> rfl
            · simp at hc
          · simp at hc
      exact ⟨by rw [this]; exact hs, by simp⟩
    · split at h
      · simp at h; obtain ⟨h1, h2⟩ := h; subst h1; subst h2; exact ⟨hs, by simp⟩
      · cases hty : d.ty <;> simp only [hty] at h
        · simp at h; obtain ⟨h1, h2⟩ := h; subst h1; subst h2; exact ⟨hs, by simp⟩
        · split at h
          · simp at h
          · rename_i c hinc
            have h' := Option.some.inj h
            have e1 : s' = (routeOutput le s d.ws c).1 := (congrArg Prod.fst h').symm
            have e2 : o = (routeOutput le s d.ws c).2 := (congrArg Prod.snd h').symm
            have := routeOutput_facts le s d.ws c hs (hW.inc _ _ _ hinc) hd.1
            rw [e1, e2]; exact this
        · simp at h; obtain ⟨h1, h2⟩ := h; subst h1; subst h2; exact ⟨hs, by simp⟩
        · split at h
          · simp at h
          · rename_i out w' hr
            have h' := Option.some.inj h
            have e1 : s' = (routeOutput le { s with w := w' } d.ws out).1 := (congrArg Prod.fst h').symm
            have e2 : o = (routeOutput le { s with w := w' } d.ws out).2 := (congrArg Prod.snd h').symm
            have := routeOutput_facts le { s with w := w' } d.ws out hs (hW.run _ _ _ _ hr) hd.1
            rw [e1, e2]; exact this
        · split at h
          · simp at h
          · rename_i t' hcr
            simp at h; obtain ⟨h1, h2⟩ := h; subst h1; subst h2
            refine ⟨?_, by simp⟩
            unfold TagState.create at hcr
            split at hcr
            · simp at hcr
            · split at hcr
              · simp at hcr
              · simp at hcr; subst hcr; exact hs
        · split at h
          · simp at h
          · simp at h; obtain ⟨h1, h2⟩ := h; subst h1; subst h2; exact ⟨hs, by simp⟩
        · have h' := Option.some.inj h
          have e1 : s' = (routeOutput le s d.ws (joinWith ['\n'] d.args)).1 := (congrArg Prod.fst h').symm
          have e2 : o = (routeOutput le s d.ws (joinWith ['\n'] d.args)).2 := (congrArg Prod.snd h').symm
          have := routeOutput_facts le s d.ws _ hs (crDom_joinNl d.args hd.2) hd.1
          rw [e1, e2]; exact this

/-- C12, composition: if the source lines are terminator-free (as `BufRead::lines` delivers them
    for a source in which CR occurs only before LF) and every `\r` in included files and command
    output is followed by `\n`, then the whole output of a pass consists of terminator-free pieces
    joined by `le`: every line terminator in it is the source's line ending. -/
theorem output_conf (Wd : World W) (hW : WorldCr Wd) (mode : Mode) (le : Str) (first trailing : Bool) (w : W)
    (lines : List Str) (hlines : ∀ l ∈ lines, Clean l) (out : Str) (w' : W)
    (h : ppPass Wd mode le first trailing w lines true = .ok out w') : LEonly le out := by
  unfold ppPass at h
  simp only [Bool.not_true, Bool.false_eq_true, if_false] at h
  cases hm : machine (txtppSem Wd mode le) trailing ⟨TagState.empty, if first then .firstExec else .exec, w⟩ lines with
  | none => simp [hm] at h
  | some r =>
    obtain ⟨s, o⟩ := r
    have ho : LEonly le o := by
      apply Refine.machine_out_inv (txtppSem Wd mode le) (fun s => TagsCr s.tags) DirClean (LEonly le) Clean
        (LEonly_nil le) (LEonly_le le) (LEonly_append le) ?_ ?_ ?_ ?_ ?_ ?_ trailing _ lines hlines ?_ s o hm
      · intro l d hl hd
        simp only [txtppSem] at hd
        cases hdf : detectFrom l with
        | none => simp [hdf] at hd
        | some d' =>
          simp only [hdf] at hd
          split at hd
          · simp at hd
          · simp at hd; subst hd; exact detect_dirClean l d' hl hdf
      · intro d l d' hd hl ha; exact addLine_dirClean d d' l hd hl ha
      · intro s d s' o hj hk he; exact (execDirective_conf Wd hW mode le s s' d o hj hk he).1
      · intro s d s' c hj hk he; exact (execDirective_conf Wd hW mode le s s' d (some c) hj hk he).2 c rfl
      · intro s l hj hl
        simp only [txtppSem]
        split
        · exact (injectLE_LEonly le l s.tags hl hj).2
        · exact hj
      · intro s l l' hj hl he
        simp only [txtppSem] at he
        split at he
        · simp at he; subst he; exact (injectLE_LEonly le l s.tags hl hj).1
        · simp at he
      · intro kv hkv; simp [TagState.empty] at hkv
    simp only [hm] at h
    cases hp : s.pm <;> simp only [hp] at h
    · split at h
      · simp at h
      · simp at h; obtain ⟨h1, _⟩ := h; subst h1; exact ho
    · split at h
      · simp at h
      · simp at h; obtain ⟨h1, _⟩ := h; subst h1; exact ho
    · simp at h

/-- temp file content of a directive with terminator-free argument lines -/
theorem temp_body_conf (le : Str) (d : Directive) (hd : DirClean d) : LEonly le (joinWith le d.args.tail) :=
  tempBody_LEonly le _ (fun l hl => hd.2 l (List.mem_of_mem_tail hl))

end Txt

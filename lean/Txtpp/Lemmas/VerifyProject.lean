import Txtpp.Lemmas.Failing
import Txtpp.Lemmas.Hermetic
/-! C06, project level (abstract in what a pass computes): verify succeeds exactly when every output
    of the processed sources and of their dependencies is what a build would write now. -/
namespace Coord
variable {C : Type}

/-- a verify world over existing outputs `E`: the (final) pass of `f` fails exactly when the
    existing output differs from the fresh output computed from the existing outputs of its
    dependencies; nothing else fails -/
structure VerifyWorld (w : World) (R : Sem C) (E : File → C) : Prop where
  failFinal : ∀ f, w.failFinal f = true ↔ E f ≠ R.render f E
  failFirst : ∀ f, w.failFirst f = false

/-- if verify reports success, every processed file (the dependency closure of the inputs) holds
    exactly the bytes a build would write: the existing outputs are the sequential build values -/
theorem verify_success_uptodate (w : World) (R : Sem C) (hR : RenderLocal w R) (E : File → C) (hV : VerifyWorld w R E)
    (inputs : List File) (out0 : File → OutState C) (x : WSt C) (h : WReach w R inputs out0 x)
    (hq : x.st.pool = []) (hno : ¬ Leftover x.st) :
    (∀ f, (∃ i ∈ inputs, Path w.deps i f) → f ∈ x.st.dm.fin) ∧
    ∀ f ∈ x.st.dm.fin, E f = seqVal R x.st.dm.fin f := by
  have toReach : ∀ (y : WSt C), WReach w R inputs out0 y → Reach w inputs y.st := by
    intro y hy
    induction hy with
    | init => exact Reach.init
    | step y z _ hs ih =>
      cases hs with
      | begin t ht hq => exact ih
      | finish t ht hr => exact ih
      | deliver t s' ht hs hc => exact Reach.step _ _ ih (Step.deliver _ _ t ht hc)
  have hr := toReach x h
  have hW := wreach_inv w R hR inputs out0 x h
  refine ⟨fun f hf => (success_fin_eq_closure w inputs x.st hr hq hno f).2 hf, ?_⟩
  -- no finished file fails, so E solves the equations on fin; so does seqVal; they agree
  have hE : ∀ f ∈ x.st.dm.fin, E f = R.render f E := by
    intro f hf
    have hnf : w.failFinal f ≠ true := fun hft => failing_never_finished w inputs x.st hr f hft hf
    by_cases he : E f = R.render f E
    · exact he
    · exact absurd ((hV.failFinal f).2 he) hnf
  have hS := seqVal_solution w R hR x.st.dm.fin hW.topo hW.inv.finND
  exact solution_unique w R hR x.st.dm.fin hW.topo E (seqVal R x.st.dm.fin) hE hS

/-- conversely, if every file in the dependency closure of the inputs is up to date, no task of a
    verify run ever reports an error (so the run can only end in success) -/
theorem verify_uptodate_never_errs (w : World) (R : Sem C) (E : File → C) (hV : VerifyWorld w R E)
    (inputs : List File) (s : St) (h : Reach w inputs s)
    (hup : ∀ f, (∃ i ∈ inputs, Path w.deps i f) → E f = R.render f E) (t : Task) (ht : t ∈ s.pool) :
    w.result t ≠ .err := by
  cases t with
  | pp f first =>
    have hseen : f ∈ s.seen := (reach_inv w inputs s h).poolSeen f first ht
    have hfin : w.failFinal f = false := by
      cases hff : w.failFinal f with
      | false => rfl
      | true => exact absurd (hup f (seen_reachable w inputs s h f hseen)) ((hV.failFinal f).1 hff)
    have hfirst := hV.failFirst f
    cases first <;> simp [World.result, hfin, hfirst] <;> split <;> simp

/-- … and any mismatch in the closure that is reached makes its pass an error -/
theorem verify_mismatch_is_err (w : World) (R : Sem C) (E : File → C) (hV : VerifyWorld w R E) (f : File)
    (hm : E f ≠ R.render f E) : w.result (.pp f false) = .err := by
  have := (hV.failFinal f).2 hm
  simp [World.result, this]

end Coord

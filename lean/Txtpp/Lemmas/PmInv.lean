import Txtpp.Lemmas.CollectInert
import Txtpp.Model.Fs
namespace Txt
variable {W : Type}

theorem routeOutput_pm (le : Str) (s : PpState W) (ws raw : Str) : (routeOutput le s ws raw).1.pm = s.pm := by
  unfold routeOutput; split <;> rfl

/-- a directive leaves the pass mode alone, or moves a first pass into (or along) collect mode with a
    non-empty dependency list; the final pass (`exec`) never leaves its mode -/
theorem execDirective_pm (Wd : World W) (mode : Mode) (le : Str) (s s' : PpState W) (d : Directive) (o : Option Str)
    (h : execDirective Wd mode le s d = some (s', o)) :
    s'.pm = s.pm ∨ (s.pm ≠ .exec ∧ ∃ deps, s'.pm = .collect deps ∧ deps ≠ []) := by
  unfold execDirective at h
  by_cases hm : mode = .clean
  · simp only [hm, if_true] at h
    split at h
    · split at h
      · simp only [Option.some.injEq, Prod.mk.injEq] at h; obtain ⟨h1, _⟩ := h; subst h1; exact Or.inl rfl
      · simp only [Option.some.injEq, Prod.mk.injEq] at h; obtain ⟨h1, _⟩ := h; subst h1; exact Or.inl rfl
    · simp only [Option.some.injEq, Prod.mk.injEq] at h; obtain ⟨h1, _⟩ := h; subst h1; exact Or.inl rfl
  · simp only [hm, if_false] at h
    split at h
    · simp at h
    · -- collected
      rename_i s1 hcol
      simp only [Option.some.injEq, Prod.mk.injEq] at h
      obtain ⟨h1, _⟩ := h
      subst h1
      right
      by_cases hex : s.pm = .exec
      · simp [hex] at hcol
      · refine ⟨hex, ?_⟩
        simp only [hex, if_false] at hcol
        split at hcol
        · split at hcol
          · simp at hcol
          · rename_i dep _
            split at hcol
            · simp only [Option.some.injEq] at hcol; subst hcol; exact ⟨_, rfl, by simp⟩
            · simp only [Option.some.injEq] at hcol; subst hcol; exact ⟨_, rfl, by simp⟩
          · simp at hcol
        · simp at hcol
    · split at h
      · simp only [Option.some.injEq, Prod.mk.injEq] at h; obtain ⟨h1, _⟩ := h; subst h1; exact Or.inl rfl
      · split at h
        all_goals first
          | (simp only [Option.some.injEq, Prod.mk.injEq] at h; obtain ⟨h1, _⟩ := h; subst h1; exact Or.inl rfl)
          | (simp only [Option.some.injEq] at h; left; have h1 := congrArg Prod.fst h; simp only at h1; rw [← h1, routeOutput_pm])
          | (split at h
             · simp at h
             · first
               | (simp only [Option.some.injEq, Prod.mk.injEq] at h; obtain ⟨h1, _⟩ := h; subst h1; exact Or.inl rfl)
               | (simp only [Option.some.injEq] at h; left; have h1 := congrArg Prod.fst h; simp only at h1; rw [← h1, routeOutput_pm]))

/-- a pass reports dependencies only as a first pass, and then at least one -/
theorem ppPass_hasDeps (Wd : World W) (mode : Mode) (le : Str) (first trailing : Bool) (w : W) (lines : List Str) (readOk : Bool)
    (deps : List Str) (w' : W) (h : ppPass Wd mode le first trailing w lines readOk = .hasDeps deps w') :
    first = true ∧ deps ≠ [] := by
  unfold ppPass at h
  cases readOk with
  | false => simp at h
  | true =>
    simp only [Bool.not_true, Bool.false_eq_true, if_false] at h
    cases hm : Refine.machine (txtppSem Wd mode le) trailing ⟨TagState.empty, if first then .firstExec else .exec, w⟩ lines with
    | none => simp [hm] at h
    | some r =>
      obtain ⟨s, out⟩ := r
      have hJ : (first = false → s.pm = .exec) ∧ (∀ ds, s.pm = .collect ds → ds ≠ []) := by
        apply Refine.machine_inv (txtppSem Wd mode le)
          (fun s => (first = false → s.pm = .exec) ∧ (∀ ds, s.pm = .collect ds → ds ≠ [])) ?_ ?_ trailing _ lines s out ?_ hm
        · intro s d s' o hj he
          rcases execDirective_pm Wd mode le s s' d o he with h1 | ⟨h1, ds, h2, h3⟩
          · rw [h1]; exact hj
          · refine ⟨fun hf => absurd (hj.1 hf) h1, fun ds' hds' => ?_⟩
            rw [h2] at hds'; cases hds'; exact h3
        · intro s l hj
          simp only [txtppSem]
          split <;> exact hj
        · cases first <;> simp
      simp only [hm] at h
      cases hp : s.pm with
      | collect ds =>
        rw [hp] at h
        simp only [PassResult.hasDeps.injEq] at h
        obtain ⟨rfl, _⟩ := h
        refine ⟨?_, hJ.2 ds hp⟩
        cases first with
        | true => rfl
        | false => have := hJ.1 rfl; rw [hp] at this; cases this
      | firstExec => rw [hp] at h; simp only at h; split at h <;> simp at h
      | exec => rw [hp] at h; simp only at h; split at h <;> simp at h

theorem runPass_hasDeps (cfg : Cfg) (fs : FS) (src : Path) (first : Bool) (deps : List Str)
    (h : (runPass cfg fs src first).1 = .hasDeps deps) : first = true ∧ deps ≠ [] := by
  unfold runPass at h
  split at h
  · rename_i content o _ _
    unfold runPassAt at h
    split at h
    · simp at h
    · rename_i fs1 _
      cases hp : ppPass (fileWorld cfg src.dropLast (joinPath src)) cfg.mode (sniffLE content.toList) first cfg.trailing fs1
          (decodeLines (byteLines content.toList)).1 (decodeLines (byteLines content.toList)).2 with
      | err => rw [hp] at h; simp at h
      | hasDeps ds w' =>
        rw [hp] at h
        simp only [Outcome.hasDeps.injEq] at h
        subst h
        exact ppPass_hasDeps _ _ _ _ _ _ _ _ _ _ hp
      | ok out w' =>
        rw [hp] at h
        simp only at h
        cases hmode : cfg.mode <;> simp only [hmode, sinkEnd] at h
        · simp at h
        · split at h
          · simp at h
          · split at h <;> simp at h
        · simp at h
        · split at h <;> simp at h
  · simp at h

end Txt

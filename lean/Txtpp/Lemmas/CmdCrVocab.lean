import Txtpp.Lemmas.CrFs
namespace Txt

/-- CR-clean bytes never end in 13 -/
theorem crB_last (x : List UInt8) (h : crB x = true) : x.getLast? ≠ some 13 := by
  induction x using List.rec with
  | nil => simp
  | cons b bs ih =>
    by_cases hb : b = 13
    · subst hb
      obtain ⟨r, hr, hcr⟩ := crB_13 bs h
      subst hr
      cases r with
      | nil => simp
      | cons c cs =>
        have := ih (by
          show crB (10 :: c :: cs) = true
          rw [crB]
          · exact hcr
          · intro r' h'; simp at h'
          · intro h'; simp at h')
        simpa [List.getLast?_cons_cons] using this
    · have hbs := crB_tail b bs hb h
      cases bs with
      | nil => simpa using hb
      | cons c cs =>
        have := ih hbs
        simpa [List.getLast?_cons_cons] using this

theorem crB_append : ∀ (x r : List UInt8), crB x = true → crB r = true → crB (x ++ r) = true
  | [], r, _, hr => by simpa using hr
  | [b], r, hx, hr => by
    have hb : b ≠ 13 := by
      intro e; subst e; simp [crB] at hx
    show crB (b :: r) = true
    rw [crB]
    · exact hr
    · intro r' h _; exact hb h
    · intro h; exact hb h
  | b :: c :: rest, r, hx, hr => by
    by_cases hb : b = 13
    · subst hb
      obtain ⟨r', hr', hcr⟩ := crB_13 (c :: rest) hx
      cases hr'
      show crB (13 :: 10 :: (rest ++ r)) = true
      rw [crB]
      exact crB_append rest r hcr hr
    · have hx' := crB_tail b (c :: rest) hb hx
      show crB (b :: ((c :: rest) ++ r)) = true
      rw [crB]
      · exact crB_append (c :: rest) r hx' hr
      · intro r' h _; exact hb h
      · intro h; exact hb h

/-- the vocabulary prints only CR-clean literals and file contents (no path-dependent output) -/
def VocabCr (cfg : Cfg) : Prop :=
  ∀ kv ∈ cfg.cmds, ∀ ka ∈ kv.2, (ka.1 = "lit".toList → crDom ka.2 = true) ∧ ka.1 ≠ "pwd".toList ∧ ka.1 ≠ "file".toList

theorem runAct_crB (cfg : Cfg) (wd : Path) (src : Str) (fs : FS) (k a : Str) (hfs : CrFS fs)
    (hlit : k = "lit".toList → crDom a = true) (hpwd : k ≠ "pwd".toList) (hfile : k ≠ "file".toList) :
    crB (runAct cfg wd src fs k a).1.data.toList = true := by
  unfold runAct
  by_cases h1 : k = "lit".toList
  · simp only [h1, if_true]; exact encode_crB a (hlit h1)
  · simp only [h1, if_false]
    by_cases h2 : k = "cat".toList
    · simp only [h2, if_true]
      split
      · rename_i p _
        split
        · rename_i b hb; exact hfs p b hb
        · rfl
      · rfl
    · simp only [h2, if_false]
      by_cases h3 : k = "mark".toList
      · simp only [h3, if_true]; rfl
      · simp only [h3, if_false, hpwd, hfile]
        split <;> rfl

theorem runActs_crB (cfg : Cfg) (wd : Path) (src : Str) : ∀ (acts : List (Str × Str)) (fs : FS) (out : ByteArray) (ok : Bool),
    CrFS fs → crB out.data.toList = true →
    (∀ ka ∈ acts, (ka.1 = "lit".toList → crDom ka.2 = true) ∧ ka.1 ≠ "pwd".toList ∧ ka.1 ≠ "file".toList) →
    crB (runActs cfg wd src fs acts out ok).1.data.toList = true := by
  intro acts
  induction acts with
  | nil => intro fs out ok _ ho _; exact ho
  | cons ka rest ih =>
    intro fs out ok hfs ho hv
    obtain ⟨k, a⟩ := ka
    simp only [runActs]
    have h1 := hv (k, a) List.mem_cons_self
    have hact := runAct_crB cfg wd src fs k a hfs h1.1 h1.2.1 h1.2.2
    have hf := runAct_files cfg wd src fs k a
    apply ih
    · exact CrFS.of_files fs _ hfs hf.1
    · rw [ByteArray.data_append, Array.toList_append]
      exact crB_append _ _ ho hact
    · intro ka' hka'; exact hv ka' (List.mem_cons_of_mem _ hka')

/-- a vocabulary of CR-clean literals and file contents prints CR-clean text over a CR-clean tree -/
theorem cmdCr_of_vocab (cfg : Cfg) (hv : VocabCr cfg) : CmdCr cfg := by
  intro wd src fs cmd out fs' hfs hr
  simp only [fileWorld] at hr
  cases hf : cfg.cmds.find? (fun kv => kv.1 == cmd) with
  | none => simp [hf] at hr
  | some kv =>
    obtain ⟨c, acts⟩ := kv
    simp only [hf] at hr
    have hmem : (c, acts) ∈ cfg.cmds := List.mem_of_find?_eq_some hf
    have hb := runActs_crB cfg wd src acts fs ByteArray.empty true hfs rfl (hv (c, acts) hmem)
    rcases hra : runActs cfg wd src fs acts ByteArray.empty true with ⟨o, ok, fs2⟩
    rw [hra] at hr hb
    simp only at hr hb
    cases ok with
    | false => simp at hr
    | true =>
      simp only [if_true, Prod.mk.injEq] at hr
      exact decode_crDom o out hr.1 hb

end Txt

import Txtpp.Lemmas.Term
/-! Failing files never finish (C04, C06). -/
namespace Coord

/-- only a non-failing pass of `a` itself reports `ok a` -/
theorem result_ok (w : World) (a b : File) (first : Bool) (h : w.result (.pp a first) = .ok b) :
    b = a ∧ w.failFinal a = false := by
  cases first with
  | false =>
    simp only [World.result] at h
    split at h
    · cases h
    · rename_i hf; cases h; exact ⟨rfl, by simpa using hf⟩
  | true =>
    simp only [World.result] at h
    split at h
    · split at h
      · cases h
      · rename_i hf; cases h
        simp only [Bool.or_eq_true, not_or, Bool.not_eq_true] at hf
        exact ⟨rfl, hf.2⟩
    · split at h <;> cases h

/-- a file whose final pass fails is never in the finished set of a reachable state -/
theorem failing_never_finished (w : World) (inputs : List File) (s : St) (h : Reach w inputs s) (f : File)
    (hf : w.failFinal f = true) : f ∉ s.dm.fin := by
  induction h with
  | init =>
    have : (init inputs).dm = _ := execFiles_dm _ _ _
    rw [this]; simp
  | step s s' hr hs ih =>
    cases hs with
    | deliver t ht hc =>
      cases t with
      | pp a first =>
        by_cases hok : ∃ b, w.result (.pp a first) = .ok b
        · obtain ⟨b, hb⟩ := hok
          rw [hb] at hc
          have hfin := handle_ok_fin _ _ _ hc
          rw [hfin]
          simp only [List.mem_cons, not_or]
          refine ⟨?_, ih⟩
          -- the result `.ok b` comes from a pass of `b = a` that did not fail
          intro hfb
          obtain ⟨hba, hnf⟩ := result_ok w a b first hb
          rw [hfb, hba] at hf
          rw [hf] at hnf; cases hnf
        · -- hasDeps: fin unchanged; err: no step
          cases hr' : w.result (.pp a first) with
          | ok b => exact absurd ⟨b, hr'⟩ hok
          | err => rw [hr'] at hc; simp [handle] at hc
          | hasDeps a' ds =>
            rw [hr'] at hc
            have := handle_hasDeps_fin _ _ _ _ hc
            rw [this]; exact ih


end Coord

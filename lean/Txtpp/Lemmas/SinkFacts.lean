import Txtpp.Lemmas.RunPassFacts
/-! Small facts about the four output sinks and the temp-file rule (C06, C08, C09, C10). -/
namespace Txt

theorem sinkEnd_verify (fs2 : FS) (o : Path) (new : ByteArray) :
    (sinkEnd .verify fs2 o new).2 = fs2 ∧ ((sinkEnd .verify fs2 o new).1 = .ok ↔ fs2.file? o = some new) := by
  simp only [sinkEnd]
  by_cases h : fs2.file? o = some new
  · simp [h]
  · simp [h]

theorem sinkStart_verify (fs fs1 : FS) (o : Path) (h : sinkStart .verify fs o = some fs1) : fs1 = fs ∧ fs.pathExists o = true := by
  simp only [sinkStart] at h
  split at h
  · rename_i he; cases h; exact ⟨rfl, he⟩
  · simp at h

theorem sinkEnd_build (fs2 : FS) (o : Path) (new : ByteArray) :
    (sinkEnd .build fs2 o new).1 = .ok ∧ (sinkEnd .build fs2 o new).2.file? o = some new := by
  simp [sinkEnd]

theorem sinkStart_build (fs fs1 : FS) (o : Path) (h : sinkStart .build fs o = some fs1) :
    fs1.file? o = some ByteArray.empty ∧ ∀ q, q ≠ o → fs1.file? q = fs.file? q := by
  simp only [sinkStart] at h
  split at h
  · simp at h
  · cases h; exact ⟨by simp, fun q hq => file?_write_other fs o q _ hq⟩

/-- `--needed`: an output whose content is already correct is not written (nothing is touched) -/
theorem sinkEnd_needed_same (fs2 : FS) (o : Path) (new : ByteArray) (hnd : fs2.isDir o = false)
    (h : fs2.file? o = some new) : sinkEnd .inMemory fs2 o new = (.ok, fs2) := by
  simp [sinkEnd, hnd, h]

/-- `--needed`: a stale or missing output is brought up to date -/
theorem sinkEnd_needed_stale (fs2 : FS) (o : Path) (new : ByteArray) (hnd : fs2.isDir o = false)
    (h : fs2.file? o ≠ some new) : sinkEnd .inMemory fs2 o new = (.ok, fs2.write o new) := by
  simp [sinkEnd, hnd, h]

/-- `--needed` and a normal build leave the same bytes at every path -/
theorem sinkEnd_needed_eq_build (fs2 : FS) (o : Path) (new : ByteArray) (hnd : fs2.isDir o = false) (q : Path) :
    (sinkEnd .inMemory fs2 o new).1 = (sinkEnd .build fs2 o new).1 ∧
    (sinkEnd .inMemory fs2 o new).2.file? q = (sinkEnd .build fs2 o new).2.file? q := by
  by_cases h : fs2.file? o = some new
  · rw [sinkEnd_needed_same fs2 o new hnd h]
    refine ⟨by simp [sinkEnd], ?_⟩
    simp only [sinkEnd]
    by_cases hq : q = o
    · subst hq; simp [h]
    · rw [file?_write_other fs2 o q new hq]
  · rw [sinkEnd_needed_stale fs2 o new hnd h]; simp [sinkEnd]

/-- the temp-file rule: after a successful `write_temp_file` the target holds exactly the new
    content, whatever it held before (absent, stale, arbitrary bytes) -/
theorem writeTemp_result (cfg : Cfg) (wd : Path) (src : Str) (fs fs' : FS) (t c : Str)
    (h : (fileWorld cfg wd src).writeTemp fs t c = some fs') :
    ∃ p, fs.resolve cfg wd t = some p ∧ fs'.file? p = some (encodeUtf8 c) := by
  simp only [fileWorld] at h
  split at h
  · simp at h
  · rename_i p hp
    refine ⟨p, hp, ?_⟩
    split at h
    · simp at h
    · generalize (if fs.isFile p then fs else fs.write p ByteArray.empty) = fs1 at h
      split at h
      · rename_i heq; cases h; exact heq
      · cases h; simp

/-- … and a temp file whose content is already correct is not rewritten (nothing is touched) -/
theorem writeTemp_same (cfg : Cfg) (wd : Path) (src : Str) (fs : FS) (t c : Str) (p : Path)
    (hp : fs.resolve cfg wd t = some p) (hnd : fs.isDir p = false) (h : fs.file? p = some (encodeUtf8 c)) :
    (fileWorld cfg wd src).writeTemp fs t c = some fs := by
  have hf : fs.isFile p = true := by simp [FS.isFile, h]
  simp [fileWorld, hp, hnd, hf, h]

/-- clean never creates a file -/
theorem removeTemp_creates_nothing (cfg : Cfg) (wd : Path) (src : Str) (q : Path) :
    OpsPreserve (fileWorld cfg wd src) .clean (fun fs => fs.file? q = none) where
  run := by intro h; exact absurd rfl h
  writeTemp := by intro h; exact absurd rfl h
  removeTemp := by
    intro _ fs t fs' h hr
    simp only [fileWorld] at hr
    split at hr
    · cases hr; exact h
    · rename_i p _
      split at hr
      · cases hr
        by_cases hq : q = p
        · subst hq; simp
        · rw [file?_remove_other fs p q hq]; exact h
      · split at hr
        · simp at hr
        · cases hr; exact h

end Txt

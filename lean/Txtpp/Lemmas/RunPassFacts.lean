import Txtpp.Lemmas.FsFacts
/-! What one `preprocess` call (`runPass`) can do to the file system, per mode. -/
namespace Txt

/-- the world after the line loop of a pass, for any predicate the permitted operations preserve -/
theorem ppPass_fs_inv (cfg : Cfg) (wd : Path) (srcName : Str) (I : FS → Prop)
    (hp : OpsPreserve (fileWorld cfg wd srcName) cfg.mode I) (le : Str) (first : Bool) (fs1 : FS)
    (lines : List Str) (readOk : Bool) (hI : I fs1) :
    PassPost I (ppPass (fileWorld cfg wd srcName) cfg.mode le first cfg.trailing fs1 lines readOk) := by
  cases readOk with
  | true => exact ppPass_world_inv (fileWorld cfg wd srcName) cfg.mode I hp le first cfg.trailing fs1 lines hI
  | false => simp [ppPass, PassPost]

theorem sinkStart_untouched (mode : Mode) (fs0 fs fs1 : FS) (o : Path) (h : Untouched fs0 fs)
    (hs : sinkStart mode fs o = some fs1) : Untouched fs0 fs1 := by
  cases mode <;> simp only [sinkStart] at hs
  · split at hs
    · simp at hs
    · cases hs; exact Untouched.write fs0 fs _ _ h
  · cases hs; exact h
  · split at hs
    · cases hs; exact Untouched.remove fs0 fs _ h
    · split at hs
      · simp at hs
      · cases hs; exact h
  · split at hs
    · cases hs; exact h
    · simp at hs

theorem sinkEnd_untouched (mode : Mode) (fs0 fs2 : FS) (o : Path) (new : ByteArray) (h : Untouched fs0 fs2) :
    Untouched fs0 (sinkEnd mode fs2 o new).2 := by
  cases mode <;> simp only [sinkEnd]
  · exact Untouched.write fs0 fs2 _ _ h
  · split
    · exact h
    · split
      · exact h
      · exact Untouched.write fs0 fs2 _ _ h
  · exact h
  · split <;> exact h

/-- C10 (model side): after any pass in any mode, every path that is not in the touch set has the
    bytes it had before — the touch set (compared with inode/mtime changes of the real run by the
    correspondence) is a sound record of what was written or removed. -/
theorem runPass_untouched (cfg : Cfg) (fs : FS) (src : Path) (first : Bool) :
    Untouched fs (runPass cfg fs src first).2 := by
  unfold runPass
  split
  · rename_i content o _ _
    unfold runPassAt
    split
    · exact Untouched.refl fs
    · rename_i fs1 hstart
      have h1 := sinkStart_untouched cfg.mode fs fs fs1 o (Untouched.refl fs) hstart
      have hpass := ppPass_fs_inv cfg src.dropLast (joinPath src) (Untouched fs)
        (fileWorld_untouched cfg src.dropLast (joinPath src) cfg.mode fs) (sniffLE content.toList) first fs1
        (decodeLines (byteLines content.toList)).1 (decodeLines (byteLines content.toList)).2 h1
      split
      · exact h1
      · rename_i deps fs2 hr; rw [hr] at hpass; exact hpass
      · rename_i out fs2 hr
        rw [hr] at hpass
        exact sinkEnd_untouched cfg.mode fs fs2 o _ hpass
  · exact Untouched.refl fs

/-- C07: a clean pass executes nothing — the marker log is unchanged -/
theorem runPass_clean_log (cfg : Cfg) (fs : FS) (src : Path) (first : Bool) (hm : cfg.mode = .clean) :
    (runPass cfg fs src first).2.log = fs.log := by
  unfold runPass
  split
  · rename_i content o _ _
    unfold runPassAt
    split
    · rfl
    · rename_i fs1 hstart
      have h1 : fs1.log = fs.log := by
        simp only [hm, sinkStart] at hstart
        split at hstart
        · cases hstart; rfl
        · split at hstart
          · simp at hstart
          · cases hstart; rfl
      have hp : OpsPreserve (fileWorld cfg src.dropLast (joinPath src)) cfg.mode (fun f => f.log = fs.log) := by
        rw [hm]; exact fileWorld_clean_log cfg src.dropLast (joinPath src) fs.log
      have hpass := ppPass_fs_inv cfg src.dropLast (joinPath src) (fun f => f.log = fs.log) hp
        (sniffLE content.toList) first fs1
        (decodeLines (byteLines content.toList)).1 (decodeLines (byteLines content.toList)).2 h1
      split
      · exact h1
      · rename_i deps fs2 hr; rw [hr] at hpass; exact hpass
      · rename_i out fs2 hr
        rw [hr] at hpass
        simp only [hm, sinkEnd]
        exact hpass
  · rfl

/-- C07: a clean pass never fails because of directives: once the source is readable and the
    output can be removed, the outcome is `ok` -/
theorem clean_pass_never_fails {W : Type} (Wd : World W) (le : Str) (first trailing : Bool) (w : W) (lines : List Str) :
    ppPass Wd .clean le first trailing w lines true ≠ .err := by
  unfold ppPass
  simp only [Bool.not_true, Bool.false_eq_true, if_false]
  have ht := Refine.machine_total (txtppSem Wd .clean le)
    (by
      intro l d hd
      simp only [txtppSem] at hd ⊢
      cases hdf : detectFrom l with
      | none => simp [hdf] at hd
      | some d' =>
        simp only [hdf] at hd
        by_cases hb : badStart d' = true
        · simp [hb] at hd
        · simp [hb] at hd; subst hd; simpa using hb)
    (by
      intro s d
      simp only [txtppSem, execDirective, if_true]
      cases d.ty <;> simp
      split <;> simp)
    trailing ⟨TagState.empty, if first then .firstExec else .exec, w⟩ lines
  cases hm : Refine.machine (txtppSem Wd .clean le) trailing ⟨TagState.empty, if first then .firstExec else .exec, w⟩ lines with
  | none => simp [hm] at ht
  | some r =>
    obtain ⟨s, out⟩ := r
    simp only
    cases s.pm <;> simp

end Txt

import Txtpp.Lemmas.PassRel
/-! C09: an only-if-needed pass and a normal build pass over the same source compute the same verdict
    and leave the same bytes at every path (relational proof; the two runs differ at the output path
    while they run, because build truncates it when it opens it). -/
namespace Txt
open Refine (Block)
variable {W : Type}

theorem argComps_congr (cfg cfg' : Cfg) (h : cfg'.baseAbs = cfg.baseAbs) (wd : Path) (arg : Str) :
    argComps cfg' wd arg = argComps cfg wd arg := by
  unfold argComps; rw [h]

theorem resolve_congr (cfg cfg' : Cfg) (h : cfg'.baseAbs = cfg.baseAbs) (fs : FS) (wd : Path) (arg : Str) :
    fs.resolve cfg' wd arg = fs.resolve cfg wd arg := by
  unfold FS.resolve; rw [argComps_congr cfg cfg' h]

theorem depOf_congr (cfg cfg' : Cfg) (h : cfg'.baseAbs = cfg.baseAbs) (fs : FS) (wd : Path) (arg : Str) :
    fs.depOf cfg' wd arg = fs.depOf cfg wd arg := by
  unfold FS.depOf depSplit; rw [argComps_congr cfg cfg' h]

theorem runAct_congr (cfg cfg' : Cfg) (h : cfg'.baseAbs = cfg.baseAbs) (wd : Path) (src : Str) (fs : FS) (k a : Str) :
    runAct cfg' wd src fs k a = runAct cfg wd src fs k a := by
  unfold runAct; rw [resolve_congr cfg cfg' h, h]

theorem runActs_congr (cfg cfg' : Cfg) (h : cfg'.baseAbs = cfg.baseAbs) (wd : Path) (src : Str) :
    ∀ (acts : List (Str × Str)) (fs : FS) (out : ByteArray) (ok : Bool),
      runActs cfg' wd src fs acts out ok = runActs cfg wd src fs acts out ok := by
  intro acts
  induction acts with
  | nil => intro fs out ok; rfl
  | cons ka rest ih =>
    intro fs out ok
    obtain ⟨k, a⟩ := ka
    simp only [runActs, runAct_congr cfg cfg' h, ih]

/-- the world a source sees depends on the configuration only through the base path and the command table -/
theorem fileWorld_congr (cfg cfg' : Cfg) (h : cfg'.baseAbs = cfg.baseAbs) (hc : cfg'.cmds = cfg.cmds) (wd : Path) (src : Str) :
    fileWorld cfg' wd src = fileWorld cfg wd src := by
  unfold fileWorld
  congr 1
  · funext fs arg; rw [resolve_congr cfg cfg' h]
  · funext fs arg; rw [depOf_congr cfg cfg' h]
  · funext fs cmd; rw [hc]; simp only [runActs_congr cfg cfg' h]
  · funext fs t c; rw [resolve_congr cfg cfg' h]
  · funext fs t; rw [resolve_congr cfg cfg' h]

theorem execDirective_needed (Wd : World W) (le : Str) (s : PpState W) (d : Directive) :
    execDirective Wd .inMemory le s d = execDirective Wd .build le s d := by
  unfold execDirective
  simp

theorem txtppSem_needed (Wd : World W) (le : Str) : txtppSem Wd .inMemory le = txtppSem Wd .build le := by
  unfold txtppSem
  congr 1

/-- what a pass computes does not depend on build vs only-if-needed -/
theorem ppPass_needed (Wd : World W) (le : Str) (first trailing : Bool) (w : W) (lines : List Str) (readOk : Bool) :
    ppPass Wd .inMemory le first trailing w lines readOk = ppPass Wd .build le first trailing w lines readOk := by
  unfold ppPass
  rw [txtppSem_needed]
  simp

/-- the only-if-needed configuration that goes with a build configuration -/
def Cfg.toNeeded (cfg : Cfg) : Cfg := { cfg with mode := .inMemory }

theorem srcBlocks_needed (lines : List Str) : srcBlocks .inMemory lines = srcBlocks .build lines := by
  unfold srcBlocks
  rw [txtppSem_needed]

theorem agree_cons_write {S : List Path} {a b : FS} (h : Agree S a b) (o : Path) (x : ByteArray) :
    Agree (o :: S) (a.write o x) b := by
  refine ⟨h.1, fun q hq => ?_⟩
  have hqo : q ≠ o := fun e => hq (e ▸ List.mem_cons_self)
  rw [file?_write_other a o q x hqo]
  exact h.2 q (fun hm => hq (List.mem_cons_of_mem _ hm))

/-- **C09, one pass**: a normal build pass from `a` and an only-if-needed pass from `b` (file systems
    agreeing outside `S`) over the same source: same verdict; afterwards they agree outside `o :: S`,
    and after an `ok` pass also at the output and at every temp target written. -/
theorem needed_pass_rel (cfg : Cfg) (hb : cfg.mode = .build) (a b : FS) (S : List Path) (src : Path) (first : Bool)
    (hag : Agree S a b) (hsrc : src ∉ S) (hnd : ∀ o, outputPath src = some o → a.isDir o = false)
    (hsafe : ∀ content o bs, a.file? src = some content → outputPath src = some o →
      srcBlocks .build (decodeLines (byteLines content.toList)).1 = some bs →
      Safe cfg a src.dropLast bs (o :: S) ∧ ProbesOK cfg a src.dropLast (o :: S) bs) :
    (runPass cfg a src first).1 = (runPass cfg.toNeeded b src first).1 ∧
    ((runPass cfg a src first).1 = .ok → ∀ content o bs, a.file? src = some content → outputPath src = some o →
      srcBlocks .build (decodeLines (byteLines content.toList)).1 = some bs →
      Agree ((staleAfter cfg a src.dropLast bs (o :: S)).filter (· != o))
        (runPass cfg a src first).2 (runPass cfg.toNeeded b src first).2) := by
  unfold runPass
  rw [← hag.2 src hsrc]
  cases hfile : a.file? src with
  | none => exact ⟨rfl, fun h => by simp at h⟩
  | some content =>
    cases hout : outputPath src with
    | none => exact ⟨rfl, fun h => by simp at h⟩
    | some o =>
      simp only
      unfold runPassAt
      have hmN : cfg.toNeeded.mode = .inMemory := rfl
      have hfw : fileWorld cfg.toNeeded src.dropLast (joinPath src) = fileWorld cfg src.dropLast (joinPath src) :=
        fileWorld_congr cfg cfg.toNeeded rfl rfl _ _
      have htr : cfg.toNeeded.trailing = cfg.trailing := rfl
      rw [hmN, hb, hfw, htr]
      simp only [ppPass_needed]
      have hd := hnd o hout
      have hdb : b.isDir o = false := by rw [← hag.isDir o]; exact hd
      simp only [sinkStart, hd, Bool.false_eq_true, if_false]
      have hag1 : Agree (o :: S) (a.write o ByteArray.empty) b := agree_cons_write hag o _
      cases hbs : srcBlocks .build (decodeLines (byteLines content.toList)).1 with
      | none =>
        have hnone : ∀ (w : FS), ppPass (fileWorld cfg src.dropLast (joinPath src)) .build (sniffLE content.toList) first cfg.trailing w
            (decodeLines (byteLines content.toList)).1 (decodeLines (byteLines content.toList)).2 = .err := by
          intro w
          cases hro : (decodeLines (byteLines content.toList)).2 with
          | false => simp [ppPass]
          | true =>
            unfold ppPass
            simp only [Bool.not_true, Bool.false_eq_true, if_false]
            rw [Refine.machine_eq_spec]
            unfold Refine.spec
            rw [parse_eq_srcBlocks, hbs]
        rw [hnone (a.write o ByteArray.empty), hnone b]
        exact ⟨rfl, fun h => by simp at h⟩
      | some bs =>
        obtain ⟨hsf, hpr⟩ := hsafe content o bs hfile hout hbs
        have hrel := ppPass_rel cfg src.dropLast (joinPath src) .build (by decide) (sniffLE content.toList) first cfg.trailing a
          (a.write o ByteArray.empty) b (o :: S) (decodeLines (byteLines content.toList)).1
          (decodeLines (byteLines content.toList)).2 bs hbs rfl hag1 hsf hpr
        rcases hra : ppPass (fileWorld cfg src.dropLast (joinPath src)) .build (sniffLE content.toList) first cfg.trailing
            (a.write o ByteArray.empty) (decodeLines (byteLines content.toList)).1 (decodeLines (byteLines content.toList)).2 with _ | _ | _ <;>
        rcases hrb : ppPass (fileWorld cfg src.dropLast (joinPath src)) .build (sniffLE content.toList) first cfg.trailing b
            (decodeLines (byteLines content.toList)).1 (decodeLines (byteLines content.toList)).2 with _ | _ | _ <;>
        rw [hra, hrb] at hrel <;> simp only [PassResRel] at hrel
        · rename_i oa a2 ob b2
          obtain ⟨h1, hda2, _, h3⟩ := hrel
          subst h1
          have hb2d : b2.isDir o = false := by
            rw [← h3.isDir o]; simp only [FS.isDir, hda2]; simpa [FS.isDir] using hd
          simp only [sinkEnd, hb2d, Bool.false_eq_true, if_false]
          have hfin : Agree ((staleAfter cfg a src.dropLast bs (o :: S)).filter (· != o)) (a2.write o (encodeUtf8 oa))
              (if b2.file? o = some (encodeUtf8 oa) then (Outcome.ok, b2) else (Outcome.ok, b2.write o (encodeUtf8 oa))).2 := by
            by_cases he : b2.file? o = some (encodeUtf8 oa)
            · simp only [if_pos he]
              refine ⟨h3.1, fun q hq => ?_⟩
              by_cases hqo : q = o
              · rw [hqo, he]; simp
              · rw [file?_write_other a2 o q _ hqo]
                exact h3.2 q (fun hm => hq (List.mem_filter.2 ⟨hm, by simpa using hqo⟩))
            · simp only [if_neg he]
              exact h3.write o _
          refine ⟨?_, ?_⟩
          · by_cases he : b2.file? o = some (encodeUtf8 oa) <;> simp [he]
          · intro _ content' o' bs' hc' ho' hb'
            cases hc'; cases ho'
            rw [hbs] at hb'; cases hb'
            exact hfin
        · rename_i da a2 db b2
          obtain ⟨h1, _, _⟩ := hrel
          subst h1
          exact ⟨rfl, fun h => by simp at h⟩
        · exact ⟨rfl, fun h => by simp at h⟩

/-- **only-if-needed equals build (one source, same starting tree)**: same verdict, and after an `ok`
    pass every path holds the same bytes -/
theorem needed_pass_eq_build_pass (cfg : Cfg) (hb : cfg.mode = .build) (a : FS) (src : Path) (first : Bool)
    (content : ByteArray) (o : Path) (bs : List (Block Directive))
    (hfile : a.file? src = some content) (hout : outputPath src = some o) (hnd : a.isDir o = false)
    (hbs : srcBlocks .build (decodeLines (byteLines content.toList)).1 = some bs)
    (hsafe : Safe cfg a src.dropLast bs [o]) (hprobes : ProbesOK cfg a src.dropLast [o] bs) :
    (runPass cfg a src first).1 = (runPass cfg.toNeeded a src first).1 ∧
    ((runPass cfg a src first).1 = .ok → ∀ q, (runPass cfg a src first).2.file? q = (runPass cfg.toNeeded a src first).2.file? q) := by
  have h := needed_pass_rel cfg hb a a [] src first ⟨rfl, fun _ _ => rfl⟩ (by simp)
    (by intro o' ho'; rw [hout] at ho'; cases ho'; exact hnd)
    (by
      intro c' o' bs' hc' ho' hb'
      rw [hfile] at hc'; cases hc'
      rw [hout] at ho'; cases ho'
      rw [hbs] at hb'; cases hb'
      exact ⟨hsafe, hprobes⟩)
  refine ⟨h.1, fun hok q => ?_⟩
  have hfin := h.2 hok content o bs hfile hout hbs
  apply hfin.2 q
  intro hq
  obtain ⟨hq1, hqo⟩ := List.mem_filter.1 hq
  have hqo' : q ≠ o := by simpa using hqo
  obtain ⟨hqS, _⟩ := (mem_staleAfter cfg a src.dropLast q bs _).1 hq1
  simp at hqS
  exact hqo' hqS

theorem singleton_sub_generated (cfg : Cfg) (a : FS) (wd : Path) (o : Path) (bs : List (Block Directive)) :
    ∀ q, q ∈ [o] → q ∈ generated cfg a wd o bs := by
  intro q hq
  simp only [List.mem_singleton] at hq
  subst hq
  simp [generated]

/-- where the executable side condition answers `true`: only-if-needed equals build -/
theorem needed_eq_build_where_checked (cfg : Cfg) (hb : cfg.mode = .build) (a : FS) (src : Path) (first : Bool)
    (hs : srcSafeB cfg a src = some true) :
    (runPass cfg a src first).1 = (runPass cfg.toNeeded a src first).1 ∧
    ((runPass cfg a src first).1 = .ok → ∀ q, (runPass cfg a src first).2.file? q = (runPass cfg.toNeeded a src first).2.file? q) := by
  obtain ⟨content, o, bs, hfile, hout, hbs, _, hsafe, hprobes⟩ := srcSafeB_spec cfg a src hs
  have hnd := (srcSafeB_output cfg a src hs o hout).1
  rw [hb] at hbs
  exact needed_pass_eq_build_pass cfg hb a src first content o bs hfile hout hnd hbs
    (Safe.mono cfg a _ bs _ _ (singleton_sub_generated cfg a _ o bs) hsafe)
    (ProbesOK.mono cfg a _ bs _ _ (singleton_sub_generated cfg a _ o bs) hprobes)

end Txt

import Txtpp.Lemmas.OutputConfOn
import Txtpp.Lemmas.ByteCr
import Txtpp.Lemmas.ByteEndings
import Txtpp.Lemmas.ProjectFacts
/-! C12 for the file-system model: if every file of the tree has CR only before LF and commands print such text, the
    same holds after any pass / any run, and the output a pass writes uses one line ending. -/
namespace Txt

/-- every file of the tree has every byte 13 followed by byte 10 -/
def CrFS (fs : FS) : Prop := ∀ p b, fs.file? p = some b → crB b.data.toList = true

/-- commands print text in which CR occurs only before LF -/
def CmdCr (cfg : Cfg) : Prop :=
  ∀ wd src fs cmd out fs', CrFS fs → (fileWorld cfg wd src).run fs cmd = (some out, fs') → crDom out = true

theorem CrFS.write (fs : FS) (p : Path) (x : ByteArray) (h : CrFS fs) (hx : crB x.data.toList = true) : CrFS (fs.write p x) := by
  intro q b hq
  by_cases hqp : q = p
  · subst hqp; rw [file?_write_same] at hq; cases hq; exact hx
  · rw [file?_write_other fs p q x hqp] at hq; exact h q b hq

theorem CrFS.remove (fs : FS) (p : Path) (h : CrFS fs) : CrFS (fs.remove p) := by
  intro q b hq
  by_cases hqp : q = p
  · subst hqp; rw [file?_remove_same] at hq; cases hq
  · rw [file?_remove_other fs p q hqp] at hq; exact h q b hq

theorem CrFS.of_files (fs fs' : FS) (h : CrFS fs) (hf : fs'.files = fs.files) : CrFS fs' := by
  intro q b hq
  apply h q b
  simpa [FS.file?, hf] using hq

theorem crB_empty : crB ByteArray.empty.data.toList = true := rfl

theorem decode_crDom (b : ByteArray) (c : Str) (hd : decodeUtf8 b = some c) (hb : crB b.data.toList = true) : crDom c = true := by
  apply crDom_of_bytes
  unfold decodeUtf8 at hd
  simp only [Option.map_eq_some_iff] at hd
  obtain ⟨str, hstr, rfl⟩ := hd
  have := fromUTF8_bytes _ _ hstr
  rw [String.utf8Encode_toList, this]; exact hb

theorem encode_crB (c : Str) (h : crDom c = true) : crB (encodeUtf8 c).data.toList = true := by
  have he : (encodeUtf8 c) = c.utf8Encode := by simp [encodeUtf8, String.toUTF8]
  rw [he]; exact bytes_of_crDom c h

theorem fileWorld_inc_cr (cfg : Cfg) (wd : Path) (src : Str) (fs : FS) (a c : Str) (h : CrFS fs)
    (hr : (fileWorld cfg wd src).readInclude fs a = some c) : crDom c = true := by
  simp only [fileWorld] at hr
  split at hr
  · rename_i p _
    split at hr
    · rename_i b hb
      exact decode_crDom b c hr (h p b hb)
    · simp at hr
  · simp at hr

theorem fileWorld_run_crfs (cfg : Cfg) (wd : Path) (src : Str) (fs : FS) (cmd : Str) (h : CrFS fs) :
    CrFS ((fileWorld cfg wd src).run fs cmd).2 := by
  simp only [fileWorld]
  split
  · exact h
  · rename_i acts _
    have hf := runActs_files cfg wd src fs acts ByteArray.empty true
    split <;> exact CrFS.of_files fs _ h hf.1

theorem fileWorld_writeTemp_crfs (cfg : Cfg) (wd : Path) (src : Str) (fs fs' : FS) (t c : Str) (h : CrFS fs)
    (hc : crDom c = true) (hw : (fileWorld cfg wd src).writeTemp fs t c = some fs') : CrFS fs' := by
  simp only [fileWorld] at hw
  split at hw
  · simp at hw
  · rename_i p _
    split at hw
    · simp at hw
    · have h1 : CrFS (if fs.isFile p then fs else fs.write p ByteArray.empty) := by
        split
        · exact h
        · exact CrFS.write fs p _ h crB_empty
      generalize (if fs.isFile p then fs else fs.write p ByteArray.empty) = fs1 at hw h1
      split at hw
      · cases hw; exact h1
      · cases hw; exact CrFS.write fs1 p _ h1 (encode_crB c hc)

theorem fileWorld_removeTemp_crfs (cfg : Cfg) (wd : Path) (src : Str) (fs fs' : FS) (t : Str) (h : CrFS fs)
    (hr : (fileWorld cfg wd src).removeTemp fs t = some fs') : CrFS fs' := by
  simp only [fileWorld] at hr
  split at hr
  · simp at hr; subst hr; exact h
  · rename_i p _
    split at hr
    · simp at hr; subst hr; exact CrFS.remove fs p h
    · split at hr
      · simp at hr
      · simp at hr; subst hr; exact h

theorem sniffLE_cases (b : List UInt8) : sniffLE b = ['\n'] ∨ sniffLE b = ['\r', '\n'] := by
  unfold sniffLE
  simp only
  split
  · exact Or.inr rfl
  · exact Or.inl rfl

/-- one `preprocess` call keeps the tree CR-clean, in every mode and whatever the outcome -/
theorem runPass_crfs (cfg : Cfg) (hcmd : CmdCr cfg) (fs : FS) (src : Path) (first : Bool) (h : CrFS fs) :
    CrFS (runPass cfg fs src first).2 := by
  unfold runPass
  split
  · rename_i content o hfile hout
    unfold runPassAt
    split
    · exact h
    · rename_i fs1 hstart
      have h1 : CrFS fs1 := by
        cases hm : cfg.mode <;> rw [hm] at hstart <;> simp only [sinkStart] at hstart
        · split at hstart
          · simp at hstart
          · cases hstart; exact CrFS.write fs o _ h crB_empty
        · cases hstart; exact h
        · split at hstart
          · cases hstart; exact CrFS.remove fs o h
          · split at hstart
            · simp at hstart
            · cases hstart; exact h
        · split at hstart
          · cases hstart; exact h
          · simp at hstart
      have hlines : ∀ l ∈ (decodeLines (byteLines content.toList)).1, Clean l := by
        apply source_lines_clean
        rw [ByteArray.toList_eq]
        exact h src content hfile
      cases hro : (decodeLines (byteLines content.toList)).2 with
      | false => simp [ppPass]; exact h1
      | true =>
        have hpass := output_conf_on (fileWorld cfg src.dropLast (joinPath src)) CrFS cfg.mode (sniffLE content.toList)
          (sniffLE_cases _)
          (fun w a c hw hr => fileWorld_inc_cr cfg _ _ w a c hw hr)
          (fun w c out w' hw hr => hcmd _ _ w c out w' hw hr)
          (fun w c hw => fileWorld_run_crfs cfg _ _ w c hw)
          (fun w t c w' hw hc hwt => fileWorld_writeTemp_crfs cfg _ _ w w' t c hw hc hwt)
          (fun w t w' hw hr => fileWorld_removeTemp_crfs cfg _ _ w w' t hw hr)
          first cfg.trailing fs1 h1 _ hlines
        split
        · exact h1
        · rename_i deps fs2 hr; rw [hr] at hpass; exact hpass
        · rename_i out fs2 hr
          rw [hr] at hpass
          obtain ⟨hout', hfs2⟩ := hpass
          have hbytes := encode_crB out (LEonly_crDom _ out (sniffLE_cases _) hout')
          cases hm : cfg.mode <;> simp only [sinkEnd]
          · exact CrFS.write fs2 o _ hfs2 hbytes
          · split
            · exact hfs2
            · split
              · exact hfs2
              · exact CrFS.write fs2 o _ hfs2 hbytes
          · exact hfs2
          · split <;> exact hfs2
  · exact h

/-- **C12, whole run**: if every file of the tree has CR only before LF and commands print such text,
    the same is true of the tree after the run - every generated file included - in every mode -/
theorem runProject_crfs (cfg : Cfg) (hcmd : CmdCr cfg) (fs : FS) (inputs : List Str) (h : CrFS fs) :
    CrFS (runProject cfg fs inputs).2 :=
  runProject_inv cfg CrFS (fun fs1 src first h1 => runPass_crfs cfg hcmd fs1 src first h1) fs inputs h

/-- **C12, the output of a build pass on bytes**: after a build pass that ends `ok` over a CR-clean tree,
    the output file holds the encoding of a text whose only line terminators are the ending of the
    source's first line: CRLF source -> 13 and 10 only as the pair, LF source -> no byte 13 -/
theorem runPass_output_bytes (cfg : Cfg) (hb : cfg.mode = .build) (hcmd : CmdCr cfg) (fs : FS) (src o : Path) (first : Bool)
    (content : ByteArray) (h : CrFS fs) (hfile : fs.file? src = some content) (hout : outputPath src = some o)
    (hok : (runPass cfg fs src first).1 = .ok) :
    ∃ out, (runPass cfg fs src first).2.file? o = some (encodeUtf8 out) ∧
      ((sniffLE content.toList = ['\r', '\n'] ∧ crlfOnly (lineBytes out) = true) ∨
       (sniffLE content.toList = ['\n'] ∧ (13 : UInt8) ∉ lineBytes out)) := by
  unfold runPass at hok ⊢
  simp only [hfile, hout] at hok ⊢
  unfold runPassAt at hok ⊢
  rw [hb] at hok ⊢
  cases hs : sinkStart .build fs o with
  | none => simp [hs] at hok
  | some fs1 =>
    simp only [hs] at hok ⊢
    have h1 : CrFS fs1 := by
      simp only [sinkStart] at hs
      split at hs
      · simp at hs
      · cases hs; exact CrFS.write fs o _ h crB_empty
    have hlines : ∀ l ∈ (decodeLines (byteLines content.toList)).1, Clean l := by
      apply source_lines_clean
      rw [ByteArray.toList_eq]
      exact h src content hfile
    cases hro : (decodeLines (byteLines content.toList)).2 with
    | false => simp [hro, ppPass] at hok
    | true =>
      rw [hro] at hok
      have hpass := output_conf_on (fileWorld cfg src.dropLast (joinPath src)) CrFS .build (sniffLE content.toList)
        (sniffLE_cases _)
        (fun w a c hw hr => fileWorld_inc_cr cfg _ _ w a c hw hr)
        (fun w c out w' hw hr => hcmd _ _ w c out w' hw hr)
        (fun w c hw => fileWorld_run_crfs cfg _ _ w c hw)
        (fun w t c w' hw hc hwt => fileWorld_writeTemp_crfs cfg _ _ w w' t c hw hc hwt)
        (fun w t w' hw hr => fileWorld_removeTemp_crfs cfg _ _ w w' t hw hr)
        first cfg.trailing fs1 h1 _ hlines
      rcases hr : ppPass (fileWorld cfg src.dropLast (joinPath src)) .build (sniffLE content.toList) first cfg.trailing fs1
          (decodeLines (byteLines content.toList)).1 true with _ | _ | _
      · rename_i out fs2
        rw [hr] at hpass
        simp only [sinkEnd, file?_write_same]
        refine ⟨out, rfl, ?_⟩
        rcases sniffLE_cases content.toList with hl | hl
        · right; refine ⟨hl, ?_⟩; rw [hl] at hpass; exact bytes_lf_only out hpass.1
        · left; refine ⟨hl, ?_⟩; rw [hl] at hpass; exact bytes_crlf_only out hpass.1
      · rw [hr] at hok; simp at hok
      · rw [hr] at hok; simp at hok

end Txt

import Txtpp.Model.Cli
/-! Facts about the flag mapping that the properties lean on. -/
namespace Txt

/-- a sub-command decides the mode; nothing written in front of it (`-N`, `-n`, `-r`, inputs …) matters -/
theorem sub_ignores_top_level (p : CliParsed) (s : CliSub) (h : p.sub = some s) (fl : CliFlags) (b : CliBuildFlags) (n : Bool) :
    ({ p with flags := fl, build := b, needed := n } : CliParsed).config = p.config := by
  simp only [CliParsed.config, h]
  cases s <;> rfl

theorem clean_mode (p : CliParsed) (f : CliFlags) (h : p.sub = some (.clean f)) :
    p.config.mode = .clean ∧ p.config.recursive = f.recursive ∧ p.config.inputs = f.inputs ∧ p.config.numThreads = f.threads := by
  simp [CliParsed.config, h, CliFlags.applyTo]

theorem verify_mode (p : CliParsed) (f : CliFlags) (b : CliBuildFlags) (h : p.sub = some (.verify f b)) :
    p.config.mode = .verify ∧ p.config.recursive = f.recursive ∧ p.config.inputs = f.inputs ∧
    p.config.trailingNewline = !b.noTrailingNewline ∧ p.config.shellCmd = b.shell := by
  simp [CliParsed.config, h, CliFlags.applyTo, CliBuildFlags.applyTo]

theorem build_mode (p : CliParsed) (h : p.sub = none) :
    p.config.mode = (if p.needed then .inMemory else .build) ∧ p.config.recursive = p.flags.recursive ∧
    p.config.inputs = p.flags.inputs ∧ p.config.trailingNewline = !p.build.noTrailingNewline ∧
    p.config.shellCmd = p.build.shell ∧ p.config.numThreads = p.flags.threads := by
  simp [CliParsed.config, h, CliFlags.applyTo, CliBuildFlags.applyTo]

/-- the verbosity flags change nothing but the verbosity -/
theorem verbosity_only (f : CliFlags) (c : RunConfig) (q v : Bool) :
    ({ f with quiet := q, verbose := v } : CliFlags).applyTo c = { f.applyTo c with verbosity := (({ f with quiet := q, verbose := v } : CliFlags).applyTo c).verbosity } := by
  simp [CliFlags.applyTo]

/-- the trailing-newline option is set by `-n` alone, in every command that has it -/
theorem trailing_iff_not_n (p : CliParsed) :
    (p.sub = none → p.config.trailingNewline = !p.build.noTrailingNewline) ∧
    (∀ f b, p.sub = some (.verify f b) → p.config.trailingNewline = !b.noTrailingNewline) ∧
    (∀ f, p.sub = some (.clean f) → p.config.trailingNewline = true) := by
  refine ⟨fun h => (build_mode p h).2.2.2.1, fun f b h => (verify_mode p f b h).2.2.2.1, fun f h => ?_⟩
  simp [CliParsed.config, h, CliFlags.applyTo]

end Txt

import Txtpp.Lemmas.ByteIdentity
namespace Txt

theorem crB_clean_append (x r : List UInt8) (h13 : (13 : UInt8) ∉ x) : crB (x ++ r) = crB r := by
  induction x with
  | nil => rfl
  | cons b bs ih =>
    have hb : b ≠ 13 := fun e => h13 (by simp [e])
    have := ih (fun hm => h13 (List.mem_cons_of_mem _ hm))
    simp only [List.cons_append]
    rw [crB]
    · exact this
    · intro r' h _; exact hb h
    · intro h; exact hb h

/-- the UTF-8 encoding of a character other than CR contains no byte 13 -/
theorem enc_no13 (c : Char) (hc : c ≠ '\r') : (13 : UInt8) ∉ String.utf8EncodeChar c :=
  fun hm => hc ((encodeChar_nl c 13 hm).2 rfl)

/-- bytes in which every 13 is followed by 10 decode to text in which every CR is followed by LF -/
theorem crDom_of_bytes : ∀ (s : Str), crB s.utf8Encode.data.toList = true → crDom s = true
  | [] => fun _ => rfl
  | c :: rest => by
    intro h
    rw [List.utf8Encode_cons, ByteArray.data_append, List.utf8Encode_singleton] at h
    simp only [Array.toList_append] at h
    by_cases hc : c = '\r'
    · subst hc
      have h13 : (String.utf8EncodeChar '\r') = [13] := by decide
      have h' : crB (13 :: rest.utf8Encode.data.toList) = true := by
        have : (String.utf8EncodeChar '\r').toByteArray.data.toList = [13] := by rw [h13]; rfl
        rw [this] at h; exact h
      obtain ⟨r, hr, hcr⟩ := crB_13 _ h'
      cases rest with
      | nil => simp at hr
      | cons d rest' =>
        rw [List.utf8Encode_cons, ByteArray.data_append, List.utf8Encode_singleton] at hr
        simp only [Array.toList_append] at hr
        have hd10 : (10 : UInt8) ∈ String.utf8EncodeChar d := by
          have hne : (String.utf8EncodeChar d) ≠ [] := by
            intro e
            have hlen := String.length_utf8EncodeChar d
            have hpos := Char.utf8Size_pos d
            rw [e] at hlen
            simp only [List.length_nil] at hlen
            omega
          cases he : String.utf8EncodeChar d with
          | nil => exact absurd he hne
          | cons x xs =>
            have : (String.utf8EncodeChar d).toByteArray.data.toList = x :: xs := by rw [he]; simp
            rw [this] at hr
            simp at hr
            rw [hr.1]; simp
        have hdnl : d = '\n' := (encodeChar_nl d 10 hd10).1 rfl
        subst hdnl
        have h10 : (String.utf8EncodeChar '\n') = [10] := by decide
        have : (String.utf8EncodeChar '\n').toByteArray.data.toList = [10] := by rw [h10]; rfl
        rw [this] at hr
        simp at hr
        show crDom ('\r' :: '\n' :: rest') = true
        rw [crDom]
        apply crDom_of_bytes rest'
        rw [hr]; exact hcr
    · have hno := enc_no13 c hc
      have hbytes : (String.utf8EncodeChar c).toByteArray.data.toList = String.utf8EncodeChar c := by simp
      rw [hbytes, crB_clean_append _ _ hno] at h
      have ih := crDom_of_bytes rest h
      rw [crDom]
      · exact ih
      · intro cs hcs _; exact hc hcs
      · intro hcs; exact hc hcs

/-- the converse: CR-clean text encodes to CR-clean bytes -/
theorem bytes_of_crDom : ∀ (s : Str), crDom s = true → crB s.utf8Encode.data.toList = true
  | [] => fun _ => rfl
  | c :: rest => by
    intro h
    rw [List.utf8Encode_cons, ByteArray.data_append, List.utf8Encode_singleton]
    simp only [Array.toList_append]
    have hbytes : ∀ ch : Char, (String.utf8EncodeChar ch).toByteArray.data.toList = String.utf8EncodeChar ch := by intro ch; simp
    by_cases hc : c = '\r'
    · subst hc
      obtain ⟨ds, hds⟩ := crDom_cr rest h
      subst hds
      rw [crDom] at h
      have h13 : (String.utf8EncodeChar '\r') = [13] := by decide
      have h10 : (String.utf8EncodeChar '\n') = [10] := by decide
      rw [hbytes, h13, List.utf8Encode_cons, ByteArray.data_append, List.utf8Encode_singleton]
      simp only [Array.toList_append]
      rw [hbytes, h10]
      show crB (13 :: 10 :: ds.utf8Encode.data.toList) = true
      rw [crB]
      exact bytes_of_crDom ds h
    · rw [hbytes, crB_clean_append _ _ (enc_no13 c hc)]
      apply bytes_of_crDom rest
      rw [crDom] at h
      · exact h
      · intro cs hcs _; exact hc hcs
      · intro hcs; exact hc hcs

end Txt

import Txtpp.Lemmas.CleanRestore
import Txtpp.Lemmas.ProjectFacts
import Txtpp.Lemmas.Interning
import Txtpp.Lemmas.Hermetic
/-! Whole-project clean (C07): a clean run only removes, and after an `ok` run the output and every temp target of every resolved source is gone. -/
namespace Txt
open Refine (Sem machine parse Block)
open Coord (execFile execFiles)

/-- every path holds what it held in `fs0`, or nothing; same directories -/
def OnlyRemoved (fs0 fs : FS) : Prop := fs.dirs = fs0.dirs ∧ ∀ q, fs.file? q = none ∨ fs.file? q = fs0.file? q

theorem OnlyRemoved.refl (fs : FS) : OnlyRemoved fs fs := ⟨rfl, fun _ => Or.inr rfl⟩

theorem OnlyRemoved.trans {a b c : FS} (h1 : OnlyRemoved a b) (h2 : OnlyRemoved b c) : OnlyRemoved a c := by
  refine ⟨h2.1.trans h1.1, fun q => ?_⟩
  rcases h2.2 q with h | h
  · exact Or.inl h
  · rw [h]; exact h1.2 q

theorem onlyRemoved_remove (fs : FS) (p : Path) : OnlyRemoved fs (fs.remove p) := by
  refine ⟨rfl, fun q => ?_⟩
  by_cases hq : q = p
  · left; subst hq; simp [FS.remove, FS.file?, FS.touch]
  · right; exact file?_remove_other fs p q hq

theorem removeTemp_onlyRemoves (cfg : Cfg) (wd : Path) (src : Str) (fs0 : FS) :
    OpsPreserve (fileWorld cfg wd src) .clean (OnlyRemoved fs0) where
  run := by intro h; exact absurd rfl h
  writeTemp := by intro h; exact absurd rfl h
  removeTemp := by
    intro _ fs t fs' h hr
    simp only [fileWorld] at hr
    split at hr
    · cases hr; exact h
    · rename_i p _
      split at hr
      · cases hr; exact h.trans (onlyRemoved_remove fs p)
      · split at hr
        · simp at hr
        · cases hr; exact h

/-- a clean pass only removes: whatever its outcome, every path afterwards holds what it held or nothing -/
theorem runPass_clean_onlyRemoves (cfg : Cfg) (hm : cfg.mode = .clean) (fs : FS) (src : Path) (first : Bool) :
    OnlyRemoved fs (runPass cfg fs src first).2 := by
  unfold runPass
  split
  · rename_i content o hfile hout
    unfold runPassAt
    cases hs : sinkStart cfg.mode fs o with
    | none => exact OnlyRemoved.refl fs
    | some fs1 =>
      simp only
      have h1 : OnlyRemoved fs fs1 := by
        rw [hm] at hs
        simp only [sinkStart] at hs
        split at hs
        · cases hs; exact onlyRemoved_remove fs o
        · split at hs
          · simp at hs
          · cases hs; exact OnlyRemoved.refl fs
      have hpp := ppPass_fs_inv cfg src.dropLast (joinPath src) (OnlyRemoved fs)
        (by rw [hm]; exact removeTemp_onlyRemoves cfg _ _ fs) (sniffLE content.toList) first fs1
        (decodeLines (byteLines content.toList)).1 (decodeLines (byteLines content.toList)).2 h1
      cases hr : ppPass (fileWorld cfg src.dropLast (joinPath src)) cfg.mode (sniffLE content.toList) first cfg.trailing fs1
          (decodeLines (byteLines content.toList)).1 (decodeLines (byteLines content.toList)).2 with
      | err => exact h1
      | hasDeps deps fs2 => rw [hr] at hpp; exact hpp
      | ok out fs2 =>
        rw [hr] at hpp
        simp only [hm, sinkEnd]
        exact hpp
  · exact OnlyRemoved.refl fs

/-- a clean pass never reports dependencies -/
theorem runPass_clean_no_deps (cfg : Cfg) (hm : cfg.mode = .clean) (fs : FS) (src : Path) (first : Bool) (deps : List Str) :
    (runPass cfg fs src first).1 ≠ .hasDeps deps := by
  unfold runPass
  split
  · rename_i content o hfile hout
    unfold runPassAt
    cases hs : sinkStart cfg.mode fs o with
    | none => simp
    | some fs1 =>
      simp only
      cases hro : (decodeLines (byteLines content.toList)).2 with
      | false => simp [ppPass]
      | true =>
        rw [hm]
        obtain ⟨out, w', h⟩ := clean_pass_ok (fileWorld cfg src.dropLast (joinPath src)) (sniffLE content.toList) first cfg.trailing fs1
          (decodeLines (byteLines content.toList)).1
        rw [h]
        simp [sinkEnd]
  · simp

theorem execFile_pool_mono (s : Coord.St) (f : Coord.File) (b : Bool) : ∀ u ∈ s.pool, u ∈ (execFile s f b).pool := by
  intro u hu
  unfold execFile
  split
  · exact hu
  · simp [hu]

theorem execFiles_pool_mono (s : Coord.St) (l : List Coord.File) (b : Bool) : ∀ u ∈ s.pool, u ∈ (execFiles s l b).pool := by
  induction l generalizing s with
  | nil => intro u hu; exact hu
  | cons f l ih => intro u hu; rw [Coord.execFiles_cons]; exact ih _ u (execFile_pool_mono s f b u hu)

theorem handle_ok_pool_mono (st st' : Coord.St) (f : Coord.File) (h : Coord.handle st (.ok f) = .cont st') :
    ∀ u ∈ st.pool, u ∈ st'.pool := by
  intro u hu
  simp only [Coord.handle] at h
  split at h
  · simp at h
  · injection h with h
    subst h
    exact execFiles_pool_mono _ _ false u hu

theorem execFiles_first_mem (l : List Coord.File) : ∀ (s : Coord.St), (∀ x ∈ s.seen, Coord.Task.pp x true ∈ s.pool) →
    (∀ x ∈ (execFiles s l true).seen, Coord.Task.pp x true ∈ (execFiles s l true).pool) ∧
    ∀ i ∈ l, Coord.Task.pp i true ∈ (execFiles s l true).pool := by
  induction l with
  | nil => intro s h; exact ⟨h, fun i hi => by simp at hi⟩
  | cons f l ih =>
    intro s h
    rw [Coord.execFiles_cons]
    have h1 : ∀ x ∈ (execFile s f true).seen, Coord.Task.pp x true ∈ (execFile s f true).pool := by
      intro x hx
      unfold execFile at hx ⊢
      by_cases hc : (true && s.seen.contains f) = true
      · rw [if_pos hc] at hx ⊢; exact h x hx
      · rw [if_neg hc] at hx ⊢
        simp only [if_true, List.mem_cons] at hx
        simp only [List.mem_append, List.mem_singleton]
        rcases hx with rfl | hx
        · right; rfl
        · left; exact h x hx
    have hf : Coord.Task.pp f true ∈ (execFile s f true).pool := by
      unfold execFile
      by_cases hc : (true && s.seen.contains f) = true
      · rw [if_pos hc]
        apply h f
        simpa using hc
      · rw [if_neg hc]; simp
    obtain ⟨i1, i2⟩ := ih _ h1
    refine ⟨i1, fun i hi => ?_⟩
    rcases List.mem_cons.1 hi with rfl | hi
    · exact execFiles_pool_mono _ l true _ hf
    · exact i2 i hi

theorem init_pool (idx : List Coord.File) : ∀ i ∈ idx, Coord.Task.pp i true ∈ (Coord.init idx).pool :=
  (execFiles_first_mem idx _ (fun x hx => by simp at hx)).2

/-- the core induction: in a clean run that ends `ok`, the scope (output, temp targets) of every file
    with a task in the pool is absent at the end -/
theorem runLoop_clean_removes (cfg : Cfg) (hm : cfg.mode = .clean) (fs0 : FS) : ∀ (fuel : Nat) (s : PSt),
    OnlyRemoved fs0 s.fs → (runLoop cfg fuel s).1 = .ok →
    ∀ f first, Coord.Task.pp f first ∈ s.st.pool → ∀ p, PassAllowed cfg fs0 (s.names.getD f []) p →
      (runLoop cfg fuel s).2.file? p = none := by
  intro fuel
  induction fuel with
  | zero => intro s _ hok; simp [runLoop] at hok
  | succ fuel ih =>
    intro s hor hok f first hmem p hp
    unfold runLoop at hok ⊢
    cases hpool : s.st.pool with
    | nil => rw [hpool] at hmem; simp at hmem
    | cons t rest =>
      cases t with
      | pp f0 first0 =>
        rw [hpool] at hok
        simp only at hok ⊢
        have hor' := hor.trans (runPass_clean_onlyRemoves cfg hm s.fs (s.names.getD f0 []) first0)
        cases hoc : (runPass cfg s.fs (s.names.getD f0 []) first0).1 with
        | err => rw [hoc] at hok; simp at hok
        | hasDeps deps => exact absurd hoc (runPass_clean_no_deps cfg hm _ _ _ deps)
        | ok =>
          rw [hoc] at hok
          simp only at hok ⊢
          cases hh : Coord.handle { s.st with pool := rest } (.ok f0) with
          | fail => rw [hh] at hok; simp at hok
          | panic => rw [hh] at hok; simp at hok
          | cont st' =>
            rw [hh] at hok
            simp only at hok ⊢
            rw [hpool] at hmem
            rcases List.mem_cons.1 hmem with heq | hrest
            · -- the task that was just run: its scope is absent now, and nothing is created afterwards
              injection heq with hf hfi
              subst hf
              have hpass : runPass cfg s.fs (s.names.getD f []) first0 = (.ok, (runPass cfg s.fs (s.names.getD f []) first0).2) := by
                rw [← hoc]
              have habs : (runPass cfg s.fs (s.names.getD f []) first0).2.file? p = none := by
                apply clean_runPass_removes cfg hm s.fs _ _ first0 hpass p
                obtain ⟨c0, hc0, hsc⟩ := hp
                obtain ⟨content, o, _, _, _, hfile, _, _, _, _⟩ := runPass_ok_inv cfg s.fs _ first0 _ hpass
                have hceq : content = c0 := by
                  rcases hor.2 (s.names.getD f []) with hn | he
                  · rw [hfile] at hn; cases hn
                  · rw [hfile, hc0] at he; exact Option.some.inj he
                subst hceq
                refine ⟨content, hfile, ?_⟩
                rcases hsc with ho | ht
                · exact Or.inl ho
                · exact Or.inr (TempTarget_dirs cfg s.fs fs0 _ _ p hor.1.symm ht)
              exact runLoop_inv cfg (fun w => w.file? p = none)
                (fun w src fi hw => by
                  rcases (runPass_clean_onlyRemoves cfg hm w src fi).2 p with h | h
                  · exact h
                  · rw [h]; exact hw) fuel _ habs
            · exact ih { s with st := st', fs := (runPass cfg s.fs (s.names.getD f0 []) first0).2 } hor' hok f first
                (handle_ok_pool_mono _ _ _ hh _ hrest) p hp

/-- **whole project (C07)**: after a clean run that ends `ok`, for every source the inputs resolve to
    (named, or found by the directory scans) neither its output nor any temp target of its text exists -/
theorem clean_project_removes (cfg : Cfg) (hm : cfg.mode = .clean) (fs : FS) (inputs : List Str)
    (hok : (runProject cfg fs inputs).1 = .ok) (files dirs : List Path)
    (hres : resolveInputs cfg fs inputs = some (files, dirs)) (src : Path)
    (hsrc : src ∈ files ++ scanAll fs cfg.recursive (fs.dirs.length + dirs.length + 2) dirs [])
    (p : Path) (hp : PassAllowed cfg fs src p) :
    (runProject cfg fs inputs).2.file? p = none := by
  unfold runProject at hok ⊢
  rw [hres] at hok ⊢
  simp only at hok ⊢
  obtain ⟨k, hk, hget⟩ := List.getElem_of_mem hsrc
  obtain ⟨hlen, _, _, hall⟩ := indexAll_spec (files ++ scanAll fs cfg.recursive (fs.dirs.length + dirs.length + 2) dirs []) []
  obtain ⟨hk', hname, _⟩ := hall k hk
  have hmem : Coord.Task.pp ((indexAll [] (files ++ scanAll fs cfg.recursive (fs.dirs.length + dirs.length + 2) dirs [])).2[k]) true ∈
      (Coord.init (indexAll [] (files ++ scanAll fs cfg.recursive (fs.dirs.length + dirs.length + 2) dirs [])).2).pool :=
    init_pool _ _ (List.getElem_mem hk')
  have := runLoop_clean_removes cfg hm fs (4 * (fs.files.length + 4))
    { names := (indexAll [] (files ++ scanAll fs cfg.recursive (fs.dirs.length + dirs.length + 2) dirs [])).1,
      st := Coord.init (indexAll [] (files ++ scanAll fs cfg.recursive (fs.dirs.length + dirs.length + 2) dirs [])).2, fs := fs }
    (OnlyRemoved.refl fs) hok _ true hmem p (by simp only; rw [hname, hget]; exact hp)
  exact this

/-- … and the run only removes: every path holds afterwards what it held before, or nothing -/
theorem clean_project_only_removes (cfg : Cfg) (hm : cfg.mode = .clean) (fs : FS) (inputs : List Str) :
    OnlyRemoved fs (runProject cfg fs inputs).2 :=
  runProject_inv cfg (OnlyRemoved fs) (fun w src first h => h.trans (runPass_clean_onlyRemoves cfg hm w src first)) fs inputs
    (OnlyRemoved.refl fs)

end Txt

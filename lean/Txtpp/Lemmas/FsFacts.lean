import Txtpp.Lemmas.PassInv
import Txtpp.Model.Fs
/-! Facts about the file-system model, the `World` a source sees and `runPass`, used by C06–C10. -/
namespace Txt

theorem find?_filter_ne (l : List (Path × ByteArray)) (p q : Path) (h : q ≠ p) :
    (l.filter (fun kv => kv.1 != p)).find? (fun kv => kv.1 == q) = l.find? (fun kv => kv.1 == q) := by
  induction l with
  | nil => rfl
  | cons kv rest ih =>
    simp only [List.filter_cons]
    by_cases hk : kv.1 = p
    · have hkq : (kv.1 == q) = false := by
        rw [hk]; exact beq_false_of_ne (fun e => h e.symm)
      simp [hk, List.find?_cons, ih]
      rw [hk] at hkq; simp [hkq]
    · have hk' : (kv.1 != p) = true := by simpa using hk
      simp only [hk', if_true, List.find?_cons, ih]

@[simp] theorem file?_write_same (fs : FS) (p : Path) (b : ByteArray) : (fs.write p b).file? p = some b := by
  simp [FS.write, FS.file?, FS.touch]

theorem file?_write_other (fs : FS) (p q : Path) (b : ByteArray) (h : q ≠ p) : (fs.write p b).file? q = fs.file? q := by
  simp only [FS.write, FS.file?, FS.touch]
  have hq : (p == q) = false := beq_false_of_ne (fun e => h e.symm)
  simp only [List.find?_cons, hq]
  rw [find?_filter_ne _ p q h]

@[simp] theorem file?_remove_same (fs : FS) (p : Path) : (fs.remove p).file? p = none := by
  simp only [FS.remove, FS.file?, FS.touch, Option.map_eq_none_iff, List.find?_eq_none]
  intro kv hkv
  simp only [List.mem_filter] at hkv
  simpa using hkv.2

theorem file?_remove_other (fs : FS) (p q : Path) (h : q ≠ p) : (fs.remove p).file? q = fs.file? q := by
  simp only [FS.remove, FS.file?, FS.touch]
  rw [find?_filter_ne _ p q h]

theorem mem_touch (fs : FS) (p q : Path) : q ∈ (fs.touch p).touched ↔ q = p ∨ q ∈ fs.touched := by
  simp only [FS.touch]
  by_cases h : p ∈ fs.touched
  · have : fs.touched.contains p = true := by simpa using h
    simp only [this, if_true]
    constructor
    · exact Or.inr
    · rintro (rfl | h')
      · exact h
      · exact h'
  · have : fs.touched.contains p = false := by simpa using h
    simp [h]

theorem touched_write (fs : FS) (p q : Path) (b : ByteArray) : q ∈ (fs.write p b).touched ↔ q = p ∨ q ∈ fs.touched := by
  simpa [FS.write] using mem_touch fs p q

theorem touched_remove (fs : FS) (p q : Path) : q ∈ (fs.remove p).touched ↔ q = p ∨ q ∈ fs.touched := by
  simpa [FS.remove] using mem_touch fs p q

theorem log_write (fs : FS) (p : Path) (b : ByteArray) : (fs.write p b).log = fs.log := rfl
theorem log_remove (fs : FS) (p : Path) : (fs.remove p).log = fs.log := rfl

/-- "every path whose content differs from `fs0` has been touched, and the marker log is `fs0`'s
    followed by what commands appended" — the soundness invariant of the touch set -/
def Untouched (fs0 fs : FS) : Prop :=
  (∀ p, p ∉ fs.touched → fs.file? p = fs0.file? p) ∧ (∀ p, p ∈ fs0.touched → p ∈ fs.touched)

theorem Untouched.refl (fs : FS) : Untouched fs fs := ⟨fun _ _ => rfl, fun _ h => h⟩

theorem Untouched.write (fs0 fs : FS) (p : Path) (b : ByteArray) (h : Untouched fs0 fs) : Untouched fs0 (fs.write p b) := by
  refine ⟨?_, fun q hq => (touched_write fs p q b).2 (Or.inr (h.2 q hq))⟩
  intro q hq
  have hq' := mt (touched_write fs p q b).2 hq
  simp only [not_or] at hq'
  rw [file?_write_other fs p q b hq'.1]; exact h.1 q hq'.2

theorem Untouched.remove (fs0 fs : FS) (p : Path) (h : Untouched fs0 fs) : Untouched fs0 (fs.remove p) := by
  refine ⟨?_, fun q hq => (touched_remove fs p q).2 (Or.inr (h.2 q hq))⟩
  intro q hq
  have hq' := mt (touched_remove fs p q).2 hq
  simp only [not_or] at hq'
  rw [file?_remove_other fs p q hq'.1]; exact h.1 q hq'.2

/-- vocabulary commands never change files or the touch set (they only append to the marker log) -/
theorem runAct_files (cfg : Cfg) (wd : Path) (src : Str) (fs : FS) (k a : Str) :
    (runAct cfg wd src fs k a).2.2.files = fs.files ∧ (runAct cfg wd src fs k a).2.2.touched = fs.touched ∧
    (runAct cfg wd src fs k a).2.2.dirs = fs.dirs := by
  unfold runAct
  split
  · exact ⟨rfl, rfl, rfl⟩
  · split
    · split
      · split <;> exact ⟨rfl, rfl, rfl⟩
      · exact ⟨rfl, rfl, rfl⟩
    · split
      · exact ⟨rfl, rfl, rfl⟩
      · split
        · exact ⟨rfl, rfl, rfl⟩
        · split
          · exact ⟨rfl, rfl, rfl⟩
          · split <;> exact ⟨rfl, rfl, rfl⟩

theorem runActs_files (cfg : Cfg) (wd : Path) (src : Str) (fs : FS) (acts : List (Str × Str)) (out : ByteArray) (ok : Bool) :
    (runActs cfg wd src fs acts out ok).2.2.files = fs.files ∧ (runActs cfg wd src fs acts out ok).2.2.touched = fs.touched := by
  induction acts generalizing fs out ok with
  | nil => exact ⟨rfl, rfl⟩
  | cons a rest ih =>
    obtain ⟨k, v⟩ := a
    simp only [runActs]
    have h1 := runAct_files cfg wd src fs k v
    have h2 := ih (runAct cfg wd src fs k v).2.2 (out ++ (runAct cfg wd src fs k v).1) (runAct cfg wd src fs k v).2.1
    exact ⟨h2.1.trans h1.1, h2.2.trans h1.2.1⟩

theorem untouched_of_same (fs0 fs fs' : FS) (h : Untouched fs0 fs) (hf : fs'.files = fs.files) (ht : fs'.touched = fs.touched) :
    Untouched fs0 fs' := by
  refine ⟨?_, ?_⟩
  · intro p hp; rw [ht] at hp; have := h.1 p hp; simpa [FS.file?, hf] using this
  · intro p hp; rw [ht]; exact h.2 p hp

/-- the operations of the world a source sees preserve the touch-set invariant, in every mode -/
theorem fileWorld_untouched (cfg : Cfg) (wd : Path) (src : Str) (mode : Mode) (fs0 : FS) :
    OpsPreserve (fileWorld cfg wd src) mode (Untouched fs0) where
  run := by
    intro _ fs c h
    simp only [fileWorld]
    split
    · exact h
    · rename_i acts _
      have := runActs_files cfg wd src fs acts ByteArray.empty true
      split <;> exact untouched_of_same fs0 fs _ h this.1 this.2
  writeTemp := by
    intro _ fs t c fs' h hw
    simp only [fileWorld] at hw
    split at hw
    · simp at hw
    · rename_i p _
      split at hw
      · simp at hw
      · have h1 : Untouched fs0 (if fs.isFile p then fs else fs.write p ByteArray.empty) := by
          split
          · exact h
          · exact Untouched.write fs0 fs p _ h
        generalize (if fs.isFile p then fs else fs.write p ByteArray.empty) = fs1 at hw h1
        split at hw
        · cases hw; exact h1
        · cases hw; exact Untouched.write fs0 _ p _ h1
  removeTemp := by
    intro _ fs t fs' h hr
    simp only [fileWorld] at hr
    split at hr
    · simp at hr; subst hr; exact h
    · rename_i p _
      split at hr
      · simp at hr; subst hr; exact Untouched.remove fs0 fs p h
      · split at hr
        · simp at hr
        · simp at hr; subst hr; exact h

/-- in clean mode nothing is executed: the marker log is unchanged by every permitted operation -/
theorem fileWorld_clean_log (cfg : Cfg) (wd : Path) (src : Str) (log0 : List Str) :
    OpsPreserve (fileWorld cfg wd src) .clean (fun fs => fs.log = log0) where
  run := by intro h; exact absurd rfl h
  writeTemp := by intro h; exact absurd rfl h
  removeTemp := by
    intro _ fs t fs' h hr
    simp only [fileWorld] at hr
    split at hr
    · simp at hr; subst hr; exact h
    · split at hr
      · simp at hr; subst hr; simpa [log_remove] using h
      · split at hr
        · simp at hr
        · simp at hr; subst hr; exact h

/-- streaming verification (`CtxOut::Verify`: remaining-length counter, chunk-wise comparison,
    `rem = 0` at the end) over any alphabet -/
def verifyStream {α : Type} [DecidableEq α] : List α → List (List α) → Bool
  | rest, [] => rest.isEmpty
  | rest, c :: cs =>
    if rest.length < c.length then false
    else if rest.take c.length = c then verifyStream (rest.drop c.length) cs else false

/-- it succeeds exactly when the existing content is the concatenation of the chunks: any change,
    truncation or extension of the existing file makes it fail -/
theorem verifyStream_iff {α : Type} [DecidableEq α] (existing : List α) (chunks : List (List α)) :
    verifyStream existing chunks = true ↔ existing = chunks.flatten := by
  induction chunks generalizing existing with
  | nil => simp [verifyStream]
  | cons c cs ih =>
    simp only [verifyStream, List.flatten_cons]
    by_cases hl : existing.length < c.length
    · simp only [hl, if_true, Bool.false_eq_true, false_iff]
      intro h; rw [h] at hl; simp at hl; omega
    · simp only [hl, if_false]
      by_cases ht : existing.take c.length = c
      · simp only [ht, if_true, ih]
        constructor
        · intro h
          rw [← List.take_append_drop c.length existing, ht, h]
        · intro h
          rw [h]; simp
      · simp only [ht, if_false, Bool.false_eq_true, false_iff]
        intro h; apply ht; rw [h]; simp

end Txt

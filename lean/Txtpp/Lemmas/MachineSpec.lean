import Txtpp.Model.Machine
namespace Refine
variable {D σ : Type}

def rhs (S : Sem D σ) (t : Bool) (st : σ) (pending : Bool) (out : Str) (bs : List (Block D)) : Option (σ × Str) :=
  (eval S st bs).map (fun r => (r.1, out ++ render S.le t pending r.2))

theorem rhs_text (S : Sem D σ) (t st pending out l bs) :
    rhs S t st pending out (.text l :: bs) =
      match S.text st l with
      | (st', some l') => rhs S t st' true (out ++ (if pending then S.le else []) ++ l') bs
      | (st', none) => rhs S t st' pending out bs := by
  simp only [rhs, eval]
  rcases h : S.text st l with ⟨st', o⟩
  cases o with
  | none => simp
  | some l' =>
    simp only
    cases h2 : eval S st' bs <;> simp [render, List.append_assoc]

theorem rhs_dir_none (S : Sem D σ) (t st pending out d e bs) (h : S.exec st d = none) :
    rhs S t st pending out (.dir d e :: bs) = none := by
  simp [rhs, eval, h]

theorem rhs_dir_skip (S : Sem D σ) (t st pending out d e bs st') (h : S.exec st d = some (st', none)) :
    rhs S t st pending out (.dir d e :: bs) = rhs S t st' pending out bs := by
  simp [rhs, eval, h]

theorem rhs_dir_out (S : Sem D σ) (t st pending out d e bs st' c) (h : S.exec st d = some (st', some c)) :
    rhs S t st pending out (.dir d e :: bs) =
      rhs S t st' e (out ++ (if pending then S.le else []) ++ c) bs := by
  simp only [rhs, eval, h]
  cases h2 : eval S st' bs <;> simp [render, List.append_assoc]

theorem map_dir_bind (S : Sem D σ) (t st pending out d e) (x : Option (List (Block D))) :
    (x.map (Block.dir d e :: ·)).bind (rhs S t st pending out) =
      match S.exec st d with
      | none => none
      | some (st', none) => x.bind (rhs S t st' pending out)
      | some (st', some c) => x.bind (rhs S t st' e (out ++ (if pending then S.le else []) ++ c)) := by
  cases hx : S.exec st d with
  | none => cases x <;> simp [rhs_dir_none _ _ _ _ _ _ _ _ hx]
  | some r =>
    obtain ⟨st', o⟩ := r
    cases o with
    | none => cases x <;> simp [rhs_dir_skip _ _ _ _ _ _ _ _ _ hx]
    | some c => cases x <;> simp [rhs_dir_out _ _ _ _ _ _ _ _ _ _ hx]

theorem map_text_bind (S : Sem D σ) (t st pending out l) (x : Option (List (Block D))) :
    (x.map (Block.text l :: ·)).bind (rhs S t st pending out) =
      match S.text st l with
      | (st', some l') => x.bind (rhs S t st' true (out ++ (if pending then S.le else []) ++ l'))
      | (st', none) => x.bind (rhs S t st' pending out) := by
  rcases h : S.text st l with ⟨st', o⟩
  cases x with
  | none => cases o <;> simp
  | some bs => simp only [Option.map_some, Option.bind_some, rhs_text, h]

/-- parse of a fresh line, as a function of the rest -/
def parseFresh (S : Sem D σ) (l : Str) (ls : List Str) : Option (List (Block D)) := parse S none (l :: ls)

theorem fresh_step (S : Sem D σ) (t : Bool) (l : Str) (ls : List Str)
    (ih : ∀ (cur : Option D) (st : σ) (pending : Bool) (out : Str),
      (feedAll S ⟨cur, st, pending, out⟩ ls).bind (finish S t) = (parse S cur ls).bind (rhs S t st pending out))
    (st : σ) (pending : Bool) (out : Str) :
    ((feedFresh S ⟨none, st, pending, out⟩ l).bind (fun m => feedAll S m ls)).bind (finish S t) =
    (parse S none (l :: ls)).bind (rhs S t st pending out) := by
  simp only [feedFresh, parse]
  cases hd : S.detect l with
  | some d =>
    simp only
    cases hb : S.badStart d <;> simp [ih]
  | none =>
    simp only [map_text_bind]
    rcases h : S.text st l with ⟨st', o⟩
    cases o with
    | none => simp [ih]
    | some l' => simp [emit, ih]

theorem feedAll_cons (S : Sem D σ) (m : MSt D σ) (l ls) :
    feedAll S m (l :: ls) = (feed S m l).bind (fun m' => feedAll S m' ls) := by
  simp only [feedAll]; cases feed S m l <;> rfl

/-- `parse (some d) (l :: ls)` when `l` does not continue `d` -/
theorem parse_tail (S : Sem D σ) (d : D) (l ls) (ha : S.addLine d l = none) :
    parse S (some d) (l :: ls) = (parse S none (l :: ls)).map (Block.dir d false :: ·) := by
  simp only [parse, ha]
  cases hd : S.detect l with
  | some e => simp only; cases hb : S.badStart e <;> simp
  | none => simp only [Option.map_map]; rfl

theorem key (S : Sem D σ) (t : Bool) : ∀ (ls : List Str) (cur : Option D) (st : σ) (pending : Bool) (out : Str),
    (feedAll S ⟨cur, st, pending, out⟩ ls).bind (finish S t) =
    (parse S cur ls).bind (rhs S t st pending out) := by
  intro ls
  induction ls with
  | nil =>
    intro cur st pending out
    cases cur with
    | none => simp [feedAll, finish, parse, rhs, eval, render]
    | some d =>
      simp only [feedAll, parse, Option.bind_some, finish, execD]
      cases hx : S.exec st d with
      | none => simp [rhs_dir_none _ _ _ _ _ _ _ _ hx]
      | some r =>
        obtain ⟨st', o⟩ := r
        cases o with
        | none => simp [rhs_dir_skip _ _ _ _ _ _ _ _ _ hx]; simp [rhs, eval, render]
        | some c => simp [rhs_dir_out _ _ _ _ _ _ _ _ _ _ hx, emit]; simp [rhs, eval, render]
  | cons l ls ih =>
    intro cur st pending out
    rw [feedAll_cons]
    cases cur with
    | none =>
      simp only [feed]
      exact fresh_step S t l ls ih st pending out
    | some d =>
      simp only [feed]
      cases ha : S.addLine d l with
      | some d' => simp [ih, parse, ha]
      | none =>
        rw [parse_tail S d l ls ha, map_dir_bind]
        simp only [execD]
        cases hx : S.exec st d with
        | none => simp
        | some r =>
          obtain ⟨st', o⟩ := r
          cases o with
          | none => simpa using fresh_step S t l ls ih st' pending out
          | some c =>
            simpa [emit] using fresh_step S t l ls ih st' false (out ++ (if pending then S.le else []) ++ c)

theorem machine_eq_spec (S : Sem D σ) (t : Bool) (s0 : σ) (lines : List Str) :
    machine S t s0 lines = spec S t s0 lines := by
  have h := key S t lines none s0 false []
  simp only [machine, spec]
  cases hf : feedAll S ⟨none, s0, false, []⟩ lines <;> cases hp : parse S none lines <;>
    simp only [hf, hp, Option.bind_none, Option.bind_some, rhs] at h ⊢
  · cases he : eval S s0 _ <;> simp_all
  · first | exact h | simp_all
  · rw [h]; cases eval S s0 _ <;> simp

#print axioms machine_eq_spec
end Refine

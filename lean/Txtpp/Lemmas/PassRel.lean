import Txtpp.Lemmas.TouchScope
/-! Relational reasoning about a pass: two runs of the same source text from two different states
    (file systems that differ in what earlier or interrupted runs left at generated paths) produce
    the same output as long as no directive reads a path on which the two states still differ. (C08) -/
namespace Refine
variable {D σ : Type}

/-- two optional results are related: both fail, or both succeed with related states and equal payloads -/
def OptRel {α : Type} (R : σ → σ → Prop) (x y : Option (σ × α)) : Prop :=
  (x = none ∧ y = none) ∨ ∃ a oa b ob, x = some (a, oa) ∧ y = some (b, ob) ∧ R a b ∧ oa = ob

/-- relational evaluation: the relation may depend on the blocks still to be evaluated -/
theorem eval_rel (S : Sem D σ) (R : List (Block D) → σ → σ → Prop)
    (hexec : ∀ a b d e bs, R (.dir d e :: bs) a b → OptRel (R bs) (S.exec a d) (S.exec b d))
    (htext : ∀ a b l bs, R (.text l :: bs) a b → R bs (S.text a l).1 (S.text b l).1 ∧ (S.text a l).2 = (S.text b l).2) :
    ∀ (bs : List (Block D)) (a b : σ), R bs a b → OptRel (R []) (eval S a bs) (eval S b bs) := by
  intro bs
  induction bs with
  | nil => intro a b h; exact Or.inr ⟨a, [], b, [], rfl, rfl, h, rfl⟩
  | cons blk bs ih =>
    intro a b h
    cases blk with
    | text l =>
      obtain ⟨hr, ho⟩ := htext a b l bs h
      simp only [eval]
      rcases hxa : S.text a l with ⟨a1, oa⟩
      rcases hxb : S.text b l with ⟨b1, ob⟩
      rw [hxa, hxb] at hr ho
      simp only at hr ho
      subst ho
      have := ih a1 b1 hr
      cases oa with
      | none => exact this
      | some l' =>
        rcases this with ⟨h1, h2⟩ | ⟨a2, ca, b2, cb, h1, h2, h3, h4⟩
        · left; simp [h1, h2]
        · right; exact ⟨a2, ⟨l', true⟩ :: ca, b2, ⟨l', true⟩ :: cb, by simp [h1], by simp [h2], h3, by rw [h4]⟩
    | dir d e =>
      simp only [eval]
      rcases hexec a b d e bs h with ⟨h1, h2⟩ | ⟨a1, oa, b1, ob, h1, h2, h3, h4⟩
      · left; simp [h1, h2]
      · subst h4
        have := ih a1 b1 h3
        rw [h1, h2]
        cases oa with
        | none => exact this
        | some c =>
          rcases this with ⟨g1, g2⟩ | ⟨a2, ca, b2, cb, g1, g2, g3, g4⟩
          · left; simp [g1, g2]
          · right; exact ⟨a2, ⟨c, e⟩ :: ca, b2, ⟨c, e⟩ :: cb, by simp [g1], by simp [g2], g3, by rw [g4]⟩

/-- relational version for the streaming machine (through the refinement theorem) -/
theorem machine_rel (S : Sem D σ) (R : List (Block D) → σ → σ → Prop) (t : Bool) (lines : List Str)
    (hexec : ∀ a b d e bs, R (.dir d e :: bs) a b → OptRel (R bs) (S.exec a d) (S.exec b d))
    (htext : ∀ a b l bs, R (.text l :: bs) a b → R bs (S.text a l).1 (S.text b l).1 ∧ (S.text a l).2 = (S.text b l).2)
    (a b : σ) (h : ∀ bs, parse S none lines = some bs → R bs a b) :
    OptRel (R []) (machine S t a lines) (machine S t b lines) := by
  rw [machine_eq_spec, machine_eq_spec]
  unfold spec
  cases hp : parse S none lines with
  | none => left; simp
  | some bs =>
    simp only
    rcases eval_rel S R hexec htext bs a b (h bs hp) with ⟨h1, h2⟩ | ⟨a2, ca, b2, cb, h1, h2, h3, h4⟩
    · left; simp [h1, h2]
    · right; subst h4
      exact ⟨a2, _, b2, _, by rw [h1], by rw [h2], h3, rfl⟩

end Refine

namespace Txt
open Refine (Sem machine parse Block OptRel)

/-- two file systems with the same directories that hold the same file (or none) at every path
    outside the stale set `S` -/
def Agree (S : List Path) (a b : FS) : Prop := a.dirs = b.dirs ∧ ∀ q, q ∉ S → a.file? q = b.file? q

theorem Agree.mono {S S' : List Path} {a b : FS} (h : Agree S a b) (hs : ∀ q, q ∈ S → q ∈ S') : Agree S' a b :=
  ⟨h.1, fun q hq => h.2 q (fun hm => hq (hs q hm))⟩

theorem Agree.resolve {S : List Path} {a b : FS} (h : Agree S a b) (cfg : Cfg) (wd : Path) (t : Str) :
    a.resolve cfg wd t = b.resolve cfg wd t := (resolve_dirs b a cfg wd t h.1)

theorem Agree.isDir {S : List Path} {a b : FS} (h : Agree S a b) (p : Path) : a.isDir p = b.isDir p := by
  simp only [FS.isDir, h.1]

theorem Agree.of_files {S : List Path} {a b a' b' : FS} (h : Agree S a b)
    (ha : a'.files = a.files) (hda : a'.dirs = a.dirs) (hb : b'.files = b.files) (hdb : b'.dirs = b.dirs) : Agree S a' b' := by
  refine ⟨by rw [hda, hdb]; exact h.1, fun q hq => ?_⟩
  have := h.2 q hq
  simp only [FS.file?, ha, hb] at this ⊢
  exact this

/-- after writing the same bytes to `p` on both sides, `p` is no longer stale -/
theorem Agree.write {S : List Path} {a b : FS} (h : Agree S a b) (p : Path) (x : ByteArray) :
    Agree (S.filter (· != p)) (a.write p x) (b.write p x) := by
  refine ⟨h.1, fun q hq => ?_⟩
  by_cases hqp : q = p
  · subst hqp; simp
  · rw [file?_write_other a p q x hqp, file?_write_other b p q x hqp]
    apply h.2 q
    intro hm
    exact hq (List.mem_filter.2 ⟨hm, by simpa using hqp⟩)

theorem runAct_rel (cfg : Cfg) (wd : Path) (src : Str) (S : List Path) (a b : FS) (hag : Agree S a b) (k arg : Str)
    (hcat : k = "cat".toList → ∀ p, a.resolve cfg wd arg = some p → p ∉ S) :
    (runAct cfg wd src a k arg).1 = (runAct cfg wd src b k arg).1 ∧
    (runAct cfg wd src a k arg).2.1 = (runAct cfg wd src b k arg).2.1 := by
  unfold runAct
  by_cases h1 : k = "lit".toList
  · simp [h1]
  · simp only [h1, if_false]
    by_cases h2 : k = "cat".toList
    · simp only [h2, if_true]
      rw [← hag.resolve cfg wd arg]
      cases hr : a.resolve cfg wd arg with
      | none => simp
      | some p =>
        simp only
        rw [← hag.2 p (hcat h2 p hr)]
        cases a.file? p <;> simp
    · simp only [h2, if_false]
      by_cases h3 : k = "mark".toList
      · simp [h3]
      · simp only [h3, if_false]
        by_cases h4 : k = "pwd".toList
        · simp [h4]
        · simp only [h4, if_false]
          by_cases h5 : k = "file".toList
          · simp [h5]
          · simp only [h5, if_false]
            split <;> exact ⟨rfl, rfl⟩

theorem runActs_rel (cfg : Cfg) (wd : Path) (src : Str) (S : List Path) (fs0 : FS) :
    ∀ (acts : List (Str × Str)) (a b : FS) (out : ByteArray) (ok : Bool), Agree S a b → a.dirs = fs0.dirs →
      (∀ p ∈ catReads cfg fs0 wd acts, p ∉ S) →
      (runActs cfg wd src a acts out ok).1 = (runActs cfg wd src b acts out ok).1 ∧
      (runActs cfg wd src a acts out ok).2.1 = (runActs cfg wd src b acts out ok).2.1 := by
  intro acts
  induction acts with
  | nil => intro a b out ok _ _ _; exact ⟨rfl, rfl⟩
  | cons ka rest ih =>
    intro a b out ok hag hd hc
    obtain ⟨k, arg⟩ := ka
    simp only [runActs]
    have h1 := runAct_rel cfg wd src S a b hag k arg (by
      intro hk p hr
      apply hc p
      simp only [catReads, List.filterMap_cons, hk, if_true]
      rw [← resolve_dirs fs0 a cfg wd arg hd, hr]
      simp)
    have fa := runAct_files cfg wd src a k arg
    have fb := runAct_files cfg wd src b k arg
    have hag' : Agree S (runAct cfg wd src a k arg).2.2 (runAct cfg wd src b k arg).2.2 :=
      hag.of_files fa.1 fa.2.2 fb.1 fb.2.2
    rw [h1.1, h1.2]
    apply ih _ _ _ _ hag' (fa.2.2.trans hd)
    intro p hp
    apply hc p
    simp only [catReads, List.filterMap_cons] at hp ⊢
    split
    · exact hp
    · exact List.mem_cons_of_mem _ hp

theorem run_rel (cfg : Cfg) (wd : Path) (src : Str) (S : List Path) (fs0 a b : FS) (cmd : Str) (hag : Agree S a b)
    (hd : a.dirs = fs0.dirs) (hc : ∀ p ∈ cmdReads cfg fs0 wd cmd, p ∉ S) :
    ((fileWorld cfg wd src).run a cmd).1 = ((fileWorld cfg wd src).run b cmd).1 ∧
    (∀ S', Agree S' a b → Agree S' ((fileWorld cfg wd src).run a cmd).2 ((fileWorld cfg wd src).run b cmd).2) ∧
    ((fileWorld cfg wd src).run a cmd).2.dirs = a.dirs := by
  simp only [fileWorld]
  unfold cmdReads at hc
  cases hf : cfg.cmds.find? (fun kv => kv.1 == cmd) with
  | none => exact ⟨rfl, fun _ h => h, rfl⟩
  | some kv =>
    obtain ⟨c, acts⟩ := kv
    simp only [hf] at hc ⊢
    have h := runActs_rel cfg wd src S fs0 acts a b ByteArray.empty true hag hd hc
    have fa := runActs_files cfg wd src a acts ByteArray.empty true
    have fb := runActs_files cfg wd src b acts ByteArray.empty true
    have da := runActs_dirs cfg wd src a acts ByteArray.empty true
    have db := runActs_dirs cfg wd src b acts ByteArray.empty true
    rcases hra : runActs cfg wd src a acts ByteArray.empty true with ⟨oa, oka, a'⟩
    rcases hrb : runActs cfg wd src b acts ByteArray.empty true with ⟨ob, okb, b'⟩
    rw [hra] at h fa da; rw [hrb] at h fb db
    simp only at h fa fb da db
    obtain ⟨h1, h2⟩ := h
    subst h1; subst h2
    refine ⟨?_, ?_, ?_⟩
    · cases oka <;> simp
    · intro S' hag'
      cases oka <;> exact hag'.of_files fa.1 da fb.1 db
    · cases oka <;> exact da

theorem readInclude_rel (cfg : Cfg) (wd : Path) (src : Str) (S : List Path) (fs0 a b : FS) (arg : Str) (hag : Agree S a b)
    (hd : a.dirs = fs0.dirs) (hc : ∀ p, fs0.resolve cfg wd arg = some p → p ∉ S) :
    (fileWorld cfg wd src).readInclude a arg = (fileWorld cfg wd src).readInclude b arg := by
  simp only [fileWorld]
  rw [← hag.resolve cfg wd arg]
  cases hr : a.resolve cfg wd arg with
  | none => rfl
  | some p =>
    simp only
    rw [hag.2 p (hc p (by rw [← resolve_dirs fs0 a cfg wd arg hd]; exact hr))]

/-- `write_temp_file` on two agreeing states: both fail, or both succeed and afterwards agree also at the target -/
theorem writeTemp_rel (cfg : Cfg) (wd : Path) (src : Str) (a b : FS) (t c : Str) (hd : a.dirs = b.dirs) :
    ((fileWorld cfg wd src).writeTemp a t c = none ∧ (fileWorld cfg wd src).writeTemp b t c = none) ∨
    ∃ p a' b', a.resolve cfg wd t = some p ∧ (fileWorld cfg wd src).writeTemp a t c = some a' ∧
      (fileWorld cfg wd src).writeTemp b t c = some b' ∧ a'.dirs = a.dirs ∧ b'.dirs = b.dirs ∧
      a'.file? p = b'.file? p ∧ (∀ q, q ≠ p → a'.file? q = a.file? q) ∧ (∀ q, q ≠ p → b'.file? q = b.file? q) := by
  have hres : a.resolve cfg wd t = b.resolve cfg wd t := resolve_dirs b a cfg wd t hd
  have hdir : ∀ p, a.isDir p = b.isDir p := fun p => by simp only [FS.isDir, hd]
  simp only [fileWorld]
  rw [← hres]
  cases hr : a.resolve cfg wd t with
  | none => left; exact ⟨rfl, rfl⟩
  | some p =>
    simp only
    rw [← hdir p]
    by_cases hp : a.isDir p = true
    · left; simp [hp]
    · right
      simp only [hp, if_false]
      have key : ∀ (x : FS), ∃ x', (if (if x.isFile p = true then x else x.write p ByteArray.empty).file? p = some (encodeUtf8 c)
            then some (if x.isFile p = true then x else x.write p ByteArray.empty)
            else some ((if x.isFile p = true then x else x.write p ByteArray.empty).write p (encodeUtf8 c))) = some x' ∧
          x'.dirs = x.dirs ∧ x'.file? p = some (encodeUtf8 c) ∧ ∀ q, q ≠ p → x'.file? q = x.file? q := by
        intro x
        by_cases hf : x.isFile p = true
        · simp only [hf, if_true]
          by_cases he : x.file? p = some (encodeUtf8 c)
          · exact ⟨x, if_pos he, rfl, he, fun _ _ => rfl⟩
          · exact ⟨x.write p (encodeUtf8 c), if_neg he, rfl, by simp, fun q hq => file?_write_other x p q _ hq⟩
        · simp only [hf]
          by_cases he : (x.write p ByteArray.empty).file? p = some (encodeUtf8 c)
          · exact ⟨x.write p ByteArray.empty, if_pos he, rfl, he, fun q hq => file?_write_other x p q _ hq⟩
          · refine ⟨(x.write p ByteArray.empty).write p (encodeUtf8 c), if_neg he, rfl, by simp, fun q hq => ?_⟩
            rw [file?_write_other _ p q _ hq, file?_write_other x p q _ hq]
      obtain ⟨a', ha1, ha2, ha3, ha4⟩ := key a
      obtain ⟨b', hb1, hb2, hb3, hb4⟩ := key b
      exact ⟨p, a', b', rfl, ha1, hb1, ha2, hb2, by rw [ha3, hb3], ha4, hb4⟩

theorem getTxtppFile_congr (ex ex' : Str → Bool) (n : Str) (h : ∀ c ∈ nameCands n, ex c = ex' c) :
    PathName.getTxtppFile ex n = PathName.getTxtppFile ex' n := by
  unfold PathName.getTxtppFile
  unfold nameCands at h
  by_cases ht : PathName.isTxtppFile n = true
  · simp [ht]
  · simp only [ht, if_false] at h ⊢
    cases he : PathName.extension n with
    | none =>
      simp only [he] at h ⊢
      rw [h _ (by simp)]
    | some e =>
      simp only [he] at h ⊢
      rw [h _ (by simp), h _ (by simp)]

theorem depOf_rel (cfg : Cfg) (wd : Path) (a b : FS) (arg : Str) (hd : a.dirs = b.dirs)
    (hp : ∀ p ∈ depProbes cfg a wd arg, a.isFile p = b.isFile p) :
    a.depOf cfg wd arg = b.depOf cfg wd arg := by
  unfold FS.depOf
  unfold depProbes at hp
  cases hs : depSplit cfg wd arg with
  | none => rfl
  | some pn =>
    obtain ⟨parentComps, name⟩ := pn
    simp only [hs] at hp ⊢
    have hw : ∀ comps cur, a.walk cur comps = b.walk cur comps := fun comps cur => walk_dirs b a hd comps cur
    split
    · rfl
    · have hex : ∀ c ∈ nameCands name, a.existsAt parentComps c = b.existsAt parentComps c := by
        intro c hc
        unfold FS.existsAt
        rw [← hw]
        cases hwk : a.walk [] (parentComps ++ [c]) with
        | none => rfl
        | some p =>
          simp only
          apply hp p
          simp only [List.mem_filterMap]
          exact ⟨c, hc, hwk⟩
      rw [getTxtppFile_congr _ _ name hex]
      cases PathName.getTxtppFile _ name with
      | none => rfl
      | some cand => simp only; rw [hw]

/-- order-aware: no block reads a path that is still stale when the block is reached; a `temp`
    block makes its target fresh -/
def Safe (cfg : Cfg) (fs0 : FS) (wd : Path) : List (Block Directive) → List Path → Prop
  | [], _ => True
  | .text _ :: bs, S => Safe cfg fs0 wd bs S
  | .dir d _ :: bs, S => (∀ p ∈ dirReads cfg fs0 wd d, p ∉ S) ∧ Safe cfg fs0 wd bs (staleAfterDir cfg fs0 wd d S)

/-- what is still stale after all blocks were executed -/
def staleAfter (cfg : Cfg) (fs0 : FS) (wd : Path) : List (Block Directive) → List Path → List Path
  | [], S => S
  | .text _ :: bs, S => staleAfter cfg fs0 wd bs S
  | .dir d _ :: bs, S => staleAfter cfg fs0 wd bs (staleAfterDir cfg fs0 wd d S)

def ProbesOK (cfg : Cfg) (fs0 : FS) (wd : Path) (S0 : List Path) (bs : List (Block Directive)) : Prop :=
  ∀ d e, Block.dir d e ∈ bs → ∀ p ∈ dirProbes cfg fs0 wd d, p ∉ S0

theorem safeB_iff (cfg : Cfg) (fs0 : FS) (wd : Path) : ∀ (bs : List (Block Directive)) (S : List Path),
    safeB cfg fs0 wd bs S = true ↔ Safe cfg fs0 wd bs S := by
  intro bs
  induction bs with
  | nil => intro S; simp [safeB, Safe]
  | cons b bs ih =>
    intro S
    cases b with
    | text l => simp only [safeB, Safe]; exact ih S
    | dir d e =>
      simp only [safeB, Safe, Bool.and_eq_true, List.all_eq_true, Bool.not_eq_true', ih]
      constructor
      · rintro ⟨h1, h2⟩
        exact ⟨fun p hp hm => by have := h1 p hp; simp [hm] at this, h2⟩
      · rintro ⟨h1, h2⟩
        exact ⟨fun p hp => by simpa using h1 p hp, h2⟩

theorem probesB_iff (cfg : Cfg) (fs0 : FS) (wd : Path) (S0 : List Path) (bs : List (Block Directive)) :
    probesB cfg fs0 wd S0 bs = true ↔ ProbesOK cfg fs0 wd S0 bs := by
  simp only [probesB, ProbesOK, List.all_eq_true]
  constructor
  · intro h d e hm p hp hc
    have := h _ hm
    simp only [List.all_eq_true] at this
    have := this p hp
    simp [hc] at this
  · intro h b hb
    cases b with
    | text l => rfl
    | dir d e =>
      simp only [List.all_eq_true, Bool.not_eq_true']
      intro p hp
      simpa using h d e hb p hp

/-- the relation between the two runs, indexed by the blocks still to come -/
def PRel (cfg : Cfg) (fs0 : FS) (wd : Path) (S0 Sfin : List Path) (bs : List (Block Directive)) (x y : PpState FS) : Prop :=
  x.tags = y.tags ∧ x.pm = y.pm ∧ x.w.dirs = fs0.dirs ∧ Agree S0 x.w y.w ∧ ProbesOK cfg fs0 wd S0 bs ∧
  (x.pm.isExecute = true → ∃ S, Agree S x.w y.w ∧ Safe cfg fs0 wd bs S ∧ staleAfter cfg fs0 wd bs S = Sfin)

theorem depProbes_dirs (cfg : Cfg) (a b : FS) (wd : Path) (arg : Str) (h : a.dirs = b.dirs) :
    depProbes cfg a wd arg = depProbes cfg b wd arg := by
  unfold depProbes
  cases depSplit cfg wd arg with
  | none => rfl
  | some pn =>
    obtain ⟨pc, n⟩ := pn
    simp only
    congr 1
    funext cand
    exact walk_dirs b a h _ _

theorem Agree.isFile {S : List Path} {a b : FS} (h : Agree S a b) (p : Path) (hp : p ∉ S) : a.isFile p = b.isFile p := by
  simp only [FS.isFile, h.2 p hp]

theorem world_depOf_rel (cfg : Cfg) (wd : Path) (src : Str) (fs0 a b : FS) (S0 : List Path) (arg : Str)
    (hd : a.dirs = fs0.dirs) (hag : Agree S0 a b) (hp : ∀ p ∈ depProbes cfg fs0 wd arg, p ∉ S0) :
    (fileWorld cfg wd src).depOf a arg = (fileWorld cfg wd src).depOf b arg := by
  simp only [fileWorld]
  rw [depOf_rel cfg wd a b arg hag.1 (fun p hpm => hag.isFile p (hp p (by rw [← depProbes_dirs cfg a fs0 wd arg hd]; exact hpm)))]

theorem rel_some (R : PpState FS → PpState FS → Prop) (sx sy : PpState FS) (o : Option Str) (h : R sx sy) :
    OptRel R (some (sx, o)) (some (sy, o)) := Or.inr ⟨sx, o, sy, o, rfl, rfl, h, rfl⟩

theorem rel_none (R : PpState FS → PpState FS → Prop) : OptRel (α := Option Str) R none none := Or.inl ⟨rfl, rfl⟩

theorem route_rel (R : PpState FS → PpState FS → Prop) (le ws raw : Str) (t : TagState) (pm : PpMode) (wx wy : FS)
    (h : ∀ t', R ⟨t', pm, wx⟩ ⟨t', pm, wy⟩) :
    OptRel R (some (routeOutput le ⟨t, pm, wx⟩ ws raw)) (some (routeOutput le ⟨t, pm, wy⟩ ws raw)) := by
  unfold routeOutput
  simp only
  cases t.tryStore raw with
  | none => exact rel_some R _ _ _ (h t)
  | some t' => exact rel_some R _ _ _ (h t')

theorem exec_rel (cfg : Cfg) (wd : Path) (src : Str) (mode : Mode) (hm : mode ≠ .clean) (le : Str) (fs0 : FS) (S0 Sfin : List Path)
    (x y : PpState FS) (d : Directive) (e : Bool) (bs : List (Block Directive))
    (h : PRel cfg fs0 wd S0 Sfin (.dir d e :: bs) x y) :
    OptRel (PRel cfg fs0 wd S0 Sfin bs) (execDirective (fileWorld cfg wd src) mode le x d)
      (execDirective (fileWorld cfg wd src) mode le y d) := by
  obtain ⟨tx, px, wx⟩ := x
  obtain ⟨ty, py, wy⟩ := y
  obtain ⟨h1, h2, hd, hag0, hprobes, hex⟩ := h
  simp only at h1 h2 hd hag0 hex
  subst h1; subst h2
  have hprobes' : ProbesOK cfg fs0 wd S0 bs := fun d' e' hm' => hprobes d' e' (List.mem_cons_of_mem _ hm')
  have nowrite : d.ty ≠ .temp → dirWrites cfg fs0 wd d = none := by
    intro hne; simp [dirWrites, hne]
  have keep : ∀ (t' : TagState) (pm' : PpMode), (pm'.isExecute = true → pm' = px ∧ dirWrites cfg fs0 wd d = none) →
      PRel cfg fs0 wd S0 Sfin bs ⟨t', pm', wx⟩ ⟨t', pm', wy⟩ := by
    intro t' pm' hc
    refine ⟨rfl, rfl, hd, hag0, hprobes', fun he => ?_⟩
    obtain ⟨hpe, hw⟩ := hc he
    subst hpe
    obtain ⟨S, hS, hsafe, hfin⟩ := hex he
    refine ⟨S, hS, ?_, ?_⟩
    · simp only [Safe, staleAfterDir, hw] at hsafe; exact hsafe.2
    · simp only [staleAfter, staleAfterDir, hw] at hfin; exact hfin
  have reads : px.isExecute = true → ∃ S, Agree S wx wy ∧ (∀ p ∈ dirReads cfg fs0 wd d, p ∉ S) := by
    intro he
    obtain ⟨S, hS, hsafe, _⟩ := hex he
    exact ⟨S, hS, hsafe.1⟩
  have hdepeq : (d.ty = .include ∨ d.ty = .after) →
      (fileWorld cfg wd src).depOf wx (d.args.head?.getD []) = (fileWorld cfg wd src).depOf wy (d.args.head?.getD []) := by
    intro hia
    apply world_depOf_rel cfg wd src fs0 wx wy S0 _ hd hag0
    have := hprobes d e (List.mem_cons_self)
    simp only [dirProbes, hia, if_true, List.headD_eq_head?_getD] at this
    exact this
  -- the world after a command: same relation, same directories
  have runrel : px.isExecute = true → d.ty = .run →
      ((fileWorld cfg wd src).run wx (joinWith [' '] d.args)).1 = ((fileWorld cfg wd src).run wy (joinWith [' '] d.args)).1 ∧
      ∀ t', PRel cfg fs0 wd S0 Sfin bs ⟨t', px, ((fileWorld cfg wd src).run wx (joinWith [' '] d.args)).2⟩
        ⟨t', px, ((fileWorld cfg wd src).run wy (joinWith [' '] d.args)).2⟩ := by
    intro he hrun
    obtain ⟨S, hS, hsafe, hfin⟩ := hex he
    have hr : ∀ p ∈ cmdReads cfg fs0 wd (joinWith [' '] d.args), p ∉ S := by
      have := hsafe.1
      simp only [dirReads, hrun] at this
      exact this
    obtain ⟨r1, r2, r3⟩ := run_rel cfg wd src S fs0 wx wy (joinWith [' '] d.args) hS hd hr
    refine ⟨r1, fun t' => ⟨rfl, rfl, r3.trans hd, r2 S0 hag0, hprobes', fun _ => ⟨S, r2 S hS, ?_, ?_⟩⟩⟩
    · have hw := nowrite (by rw [hrun]; decide)
      simp only [Safe, staleAfterDir, hw] at hsafe; exact hsafe.2
    · have hw := nowrite (by rw [hrun]; decide)
      simp only [staleAfter, staleAfterDir, hw] at hfin; exact hfin
  have increl : px.isExecute = true → d.ty = .include →
      (fileWorld cfg wd src).readInclude wx (d.args.head?.getD []) = (fileWorld cfg wd src).readInclude wy (d.args.head?.getD []) := by
    intro he hinc
    obtain ⟨S, hS, hr⟩ := reads he
    apply readInclude_rel cfg wd src S fs0 wx wy _ hS hd
    intro p hp
    apply hr p
    simp only [dirReads, hinc, List.headD_eq_head?_getD, hp]
    simp
  have temprel : px.isExecute = true → d.ty = .temp →
      (execTemp (fileWorld cfg wd src) le wx d.args false = none ∧ execTemp (fileWorld cfg wd src) le wy d.args false = none) ∨
      ∃ a' b', execTemp (fileWorld cfg wd src) le wx d.args false = some a' ∧
        execTemp (fileWorld cfg wd src) le wy d.args false = some b' ∧
        PRel cfg fs0 wd S0 Sfin bs ⟨tx, px, a'⟩ ⟨tx, px, b'⟩ := by
    intro he htemp
    unfold execTemp
    cases hargs : d.args with
    | nil => left; exact ⟨rfl, rfl⟩
    | cons t body =>
      simp only
      by_cases hnt : isTxtppPath t = true
      · left; simp only [hnt, if_true]; exact ⟨trivial, trivial⟩
      · simp only [hnt, Bool.false_eq_true, if_false]
        rcases writeTemp_rel cfg wd src wx wy t (joinWith le body) hag0.1 with ⟨n1, n2⟩ | ⟨p, a', b', hres, ha, hb, hda, hdb, hpp, hfa, hfb⟩
        · left; exact ⟨n1, n2⟩
        · right
          refine ⟨a', b', ha, hb, ?_⟩
          have hagree : ∀ S, Agree S wx wy → Agree (S.filter (· != p)) a' b' := by
            intro S hS
            refine ⟨by rw [hda, hdb]; exact hS.1, fun q hq => ?_⟩
            by_cases hqp : q = p
            · rw [hqp]; exact hpp
            · rw [hfa q hqp, hfb q hqp]
              apply hS.2 q
              intro hmem
              exact hq (List.mem_filter.2 ⟨hmem, by simpa using hqp⟩)
          have hw : dirWrites cfg fs0 wd d = some p := by
            simp only [dirWrites, htemp, if_true, hargs, hnt, Bool.false_eq_true, if_false]
            rw [← resolve_dirs fs0 wx cfg wd t hd]; exact hres
          refine ⟨rfl, rfl, hda.trans hd, (hagree S0 hag0).mono (fun q hq => (List.mem_filter.1 hq).1), hprobes', fun _ => ?_⟩
          obtain ⟨S, hS, hsafe, hfin⟩ := hex he
          refine ⟨S.filter (· != p), hagree S hS, ?_, ?_⟩
          · simp only [Safe, staleAfterDir, hw] at hsafe; exact hsafe.2
          · simp only [staleAfter, staleAfterDir, hw] at hfin; exact hfin
  have hEx1 : PpMode.firstExec.isExecute = true := rfl
  have hEx2 : PpMode.exec.isExecute = true := rfl
  have hNoEx : ∀ deps, (PpMode.collect deps).isExecute = true → False := by intro deps h; simp [PpMode.isExecute] at h
  cases hty : d.ty <;> cases hpm : px <;> simp [execDirective, hm, hty, PpMode.isExecute]
  -- empty
  · exact rel_some _ _ _ _ (keep _ _ (fun _ => ⟨hpm.symm, nowrite (by rw [hty]; decide)⟩))
  · exact rel_some _ _ _ _ (keep _ _ (fun _ => ⟨hpm.symm, nowrite (by rw [hty]; decide)⟩))
  · exact rel_some _ _ _ _ (keep _ _ (fun h => (hNoEx _ h).elim))
  -- include
  · rw [hdepeq (Or.inl hty)]
    cases (fileWorld cfg wd src).depOf wy (d.args.head?.getD []) with
    | none => exact rel_none _
    | some od =>
      cases od with
      | some dep => exact rel_some _ _ _ _ (keep _ _ (fun h => (hNoEx _ h).elim))
      | none =>
        simp only
        rw [increl (by rw [hpm]; rfl) hty]
        cases (fileWorld cfg wd src).readInclude wy (d.args.head?.getD []) with
        | none => exact rel_none _
        | some c => exact route_rel _ le d.ws c tx _ wx wy (fun t' => keep t' _ (fun _ => ⟨hpm.symm, nowrite (by rw [hty]; decide)⟩))
  · rw [increl (by rw [hpm]; rfl) hty]
    cases (fileWorld cfg wd src).readInclude wy (d.args.head?.getD []) with
    | none => exact rel_none _
    | some c => exact route_rel _ le d.ws c tx _ wx wy (fun t' => keep t' _ (fun _ => ⟨hpm.symm, nowrite (by rw [hty]; decide)⟩))
  · rw [hdepeq (Or.inl hty)]
    cases (fileWorld cfg wd src).depOf wy (d.args.head?.getD []) with
    | none => exact rel_none _
    | some od =>
      cases od with
      | some dep => exact rel_some _ _ _ _ (keep _ _ (fun h => (hNoEx _ h).elim))
      | none => exact rel_some _ _ _ _ (keep _ _ (fun h => (hNoEx _ h).elim))
  -- after
  · rw [hdepeq (Or.inr hty)]
    cases (fileWorld cfg wd src).depOf wy (d.args.head?.getD []) with
    | none => exact rel_none _
    | some od =>
      cases od with
      | some dep => exact rel_some _ _ _ _ (keep _ _ (fun h => (hNoEx _ h).elim))
      | none => exact rel_some _ _ _ _ (keep _ _ (fun _ => ⟨hpm.symm, nowrite (by rw [hty]; decide)⟩))
  · exact rel_some _ _ _ _ (keep _ _ (fun _ => ⟨hpm.symm, nowrite (by rw [hty]; decide)⟩))
  · rw [hdepeq (Or.inr hty)]
    cases (fileWorld cfg wd src).depOf wy (d.args.head?.getD []) with
    | none => exact rel_none _
    | some od =>
      cases od with
      | some dep => exact rel_some _ _ _ _ (keep _ _ (fun h => (hNoEx _ h).elim))
      | none => exact rel_some _ _ _ _ (keep _ _ (fun h => (hNoEx _ h).elim))
  -- run
  · obtain ⟨r1, r2⟩ := runrel (by rw [hpm]; rfl) hty
    rcases hra : (fileWorld cfg wd src).run wx (joinWith [' '] d.args) with ⟨oa, wa⟩
    rcases hrb : (fileWorld cfg wd src).run wy (joinWith [' '] d.args) with ⟨ob, wb⟩
    rw [hra, hrb] at r1 r2
    simp only at r1 r2
    subst r1
    cases oa with
    | none => exact rel_none _
    | some out => exact route_rel _ le d.ws out tx _ wa wb (fun t' => by have := r2 t'; rw [hpm] at this; exact this)
  · obtain ⟨r1, r2⟩ := runrel (by rw [hpm]; rfl) hty
    rcases hra : (fileWorld cfg wd src).run wx (joinWith [' '] d.args) with ⟨oa, wa⟩
    rcases hrb : (fileWorld cfg wd src).run wy (joinWith [' '] d.args) with ⟨ob, wb⟩
    rw [hra, hrb] at r1 r2
    simp only at r1 r2
    subst r1
    cases oa with
    | none => exact rel_none _
    | some out => exact route_rel _ le d.ws out tx _ wa wb (fun t' => by have := r2 t'; rw [hpm] at this; exact this)
  · exact rel_some _ _ _ _ (keep _ _ (fun h => (hNoEx _ h).elim))
  -- tag
  · cases tx.create (d.args.head?.getD []) with
    | none => exact rel_none _
    | some t' => exact rel_some _ _ _ _ (keep _ _ (fun _ => ⟨hpm.symm, nowrite (by rw [hty]; decide)⟩))
  · cases tx.create (d.args.head?.getD []) with
    | none => exact rel_none _
    | some t' => exact rel_some _ _ _ _ (keep _ _ (fun _ => ⟨hpm.symm, nowrite (by rw [hty]; decide)⟩))
  · exact rel_some _ _ _ _ (keep _ _ (fun h => (hNoEx _ h).elim))
  -- temp
  · rcases temprel (by rw [hpm]; rfl) hty with ⟨n1, n2⟩ | ⟨a', b', ha, hb, hr⟩
    · rw [n1, n2]; exact rel_none _
    · rw [ha, hb]; rw [hpm] at hr; exact rel_some _ _ _ _ hr
  · rcases temprel (by rw [hpm]; rfl) hty with ⟨n1, n2⟩ | ⟨a', b', ha, hb, hr⟩
    · rw [n1, n2]; exact rel_none _
    · rw [ha, hb]; rw [hpm] at hr; exact rel_some _ _ _ _ hr
  · exact rel_some _ _ _ _ (keep _ _ (fun h => (hNoEx _ h).elim))
  -- write
  · exact route_rel _ le d.ws _ tx _ wx wy (fun t' => keep t' _ (fun _ => ⟨hpm.symm, nowrite (by rw [hty]; decide)⟩))
  · exact route_rel _ le d.ws _ tx _ wx wy (fun t' => keep t' _ (fun _ => ⟨hpm.symm, nowrite (by rw [hty]; decide)⟩))
  · exact rel_some _ _ _ _ (keep _ _ (fun h => (hNoEx _ h).elim))

theorem text_rel (cfg : Cfg) (wd : Path) (src : Str) (mode : Mode) (le : Str) (fs0 : FS) (S0 Sfin : List Path)
    (x y : PpState FS) (l : Str) (bs : List (Block Directive)) (h : PRel cfg fs0 wd S0 Sfin (.text l :: bs) x y) :
    PRel cfg fs0 wd S0 Sfin bs ((txtppSem (fileWorld cfg wd src) mode le).text x l).1 ((txtppSem (fileWorld cfg wd src) mode le).text y l).1 ∧
    ((txtppSem (fileWorld cfg wd src) mode le).text x l).2 = ((txtppSem (fileWorld cfg wd src) mode le).text y l).2 := by
  obtain ⟨tx, px, wx⟩ := x
  obtain ⟨ty, py, wy⟩ := y
  obtain ⟨h1, h2, hd, hag0, hprobes, hex⟩ := h
  simp only at h1 h2 hd hag0 hex
  subst h1; subst h2
  have hprobes' : ProbesOK cfg fs0 wd S0 bs := fun d' e' hm' => hprobes d' e' (List.mem_cons_of_mem _ hm')
  simp only [txtppSem]
  by_cases he : px.isExecute = true
  · simp only [he, if_true]
    exact ⟨⟨rfl, rfl, hd, hag0, hprobes', fun _ => hex he⟩, trivial⟩
  · simp only [he]
    exact ⟨⟨rfl, rfl, hd, hag0, hprobes', fun h => absurd h he⟩, rfl⟩

theorem mem_staleAfter (cfg : Cfg) (fs0 : FS) (wd : Path) (q : Path) :
    ∀ (bs : List (Block Directive)) (S : List Path),
      q ∈ staleAfter cfg fs0 wd bs S ↔ q ∈ S ∧ ∀ d e, Block.dir d e ∈ bs → dirWrites cfg fs0 wd d ≠ some q := by
  intro bs
  induction bs with
  | nil => intro S; simp [staleAfter]
  | cons b bs ih =>
    intro S
    cases b with
    | text l =>
      simp only [staleAfter, ih, List.mem_cons, reduceCtorEq, false_or]
    | dir d e =>
      simp only [staleAfter, ih, List.mem_cons, Block.dir.injEq]
      unfold staleAfterDir
      cases hw : dirWrites cfg fs0 wd d with
      | none =>
        simp only
        constructor
        · rintro ⟨h1, h2⟩
          refine ⟨h1, fun d' e' hm => ?_⟩
          rcases hm with ⟨rfl, rfl⟩ | hm
          · rw [hw]; simp
          · exact h2 d' e' hm
        · rintro ⟨h1, h2⟩
          exact ⟨h1, fun d' e' hm => h2 d' e' (Or.inr hm)⟩
      | some p =>
        simp only [List.mem_filter, bne_iff_ne, ne_eq]
        constructor
        · rintro ⟨⟨h1, hne⟩, h2⟩
          refine ⟨h1, fun d' e' hm => ?_⟩
          rcases hm with ⟨rfl, rfl⟩ | hm
          · rw [hw]; intro hc; exact hne (Option.some.inj hc).symm
          · exact h2 d' e' hm
        · rintro ⟨h1, h2⟩
          refine ⟨⟨h1, fun hc => ?_⟩, fun d' e' hm => h2 d' e' (Or.inr hm)⟩
          exact h2 d e (Or.inl ⟨rfl, rfl⟩) (by rw [hw, hc])

/-- how two pass results are related: same verdict, same payload, agreeing worlds -/
def PassResRel (fs0 : FS) (S Sfin : List Path) : PassResult FS → PassResult FS → Prop
  | .err, .err => True
  | .hasDeps d1 a', .hasDeps d2 b' => d1 = d2 ∧ a'.dirs = fs0.dirs ∧ Agree S a' b'
  | .ok o1 a', .ok o2 b' => o1 = o2 ∧ a'.dirs = fs0.dirs ∧ Agree S a' b' ∧ Agree Sfin a' b'
  | _, _ => False

/-- **relational pass theorem**: the line loop of a pass run from two states that agree outside `S`
    gives the same verdict and the same output text, provided no block reads a path that is still
    stale when it is reached (`Safe`) and no dependency lookup probes a stale path (`ProbesOK`) -/
theorem ppPass_rel (cfg : Cfg) (wd : Path) (src : Str) (mode : Mode) (hm : mode ≠ .clean) (le : Str) (first trailing : Bool)
    (fs0 a b : FS) (S : List Path) (lines : List Str) (readOk : Bool) (bs : List (Block Directive))
    (hbs : srcBlocks mode lines = some bs)
    (hd : a.dirs = fs0.dirs) (hag : Agree S a b)
    (hsafe : Safe cfg fs0 wd bs S) (hprobes : ProbesOK cfg fs0 wd S bs) :
    PassResRel fs0 S (staleAfter cfg fs0 wd bs S)
      (ppPass (fileWorld cfg wd src) mode le first trailing a lines readOk)
      (ppPass (fileWorld cfg wd src) mode le first trailing b lines readOk) := by
  cases readOk with
  | false => simp [ppPass, PassResRel]
  | true =>
    unfold ppPass
    simp only [Bool.not_true, Bool.false_eq_true, if_false]
    have hrel := Refine.machine_rel (txtppSem (fileWorld cfg wd src) mode le)
      (PRel cfg fs0 wd S (staleAfter cfg fs0 wd bs S)) trailing lines
      (fun x y d e bs' h => exec_rel cfg wd src mode hm le fs0 S _ x y d e bs' h)
      (fun x y l bs' h => text_rel cfg wd src mode le fs0 S _ x y l bs' h)
      ⟨TagState.empty, if first then .firstExec else .exec, a⟩ ⟨TagState.empty, if first then .firstExec else .exec, b⟩
      (by
        intro bs' hp
        rw [parse_eq_srcBlocks, hbs] at hp
        cases hp
        exact ⟨rfl, rfl, hd, hag, hprobes, fun _ => ⟨S, hag, hsafe, rfl⟩⟩)
    rcases hrel with ⟨h1, h2⟩ | ⟨x, ox, y, oy, h1, h2, h3, h4⟩
    · rw [h1, h2]; simp [PassResRel]
    · rw [h1, h2]
      subst h4
      obtain ⟨ht, hp, hdx, hag0, _, hex⟩ := h3
      simp only
      rw [← ht, ← hp]
      cases hpm : x.pm with
      | collect deps => simp only [PassResRel]; exact ⟨trivial, hdx, hag0⟩
      | firstExec =>
        simp only
        split
        · simp [PassResRel]
        · obtain ⟨S', hS', _, hfin⟩ := hex (by rw [hpm]; rfl)
          simp only [staleAfter] at hfin
          subst hfin
          exact ⟨rfl, hdx, hag0, hS'⟩
      | exec =>
        simp only
        split
        · simp [PassResRel]
        · obtain ⟨S', hS', _, hfin⟩ := hex (by rw [hpm]; rfl)
          simp only [staleAfter] at hfin
          subst hfin
          exact ⟨rfl, hdx, hag0, hS'⟩

theorem sinkStart_rel (mode : Mode) (hm : mode = .build ∨ mode = .inMemory) (S : List Path) (a b : FS) (o : Path)
    (hag : Agree S a b) :
    (sinkStart mode a o = none ∧ sinkStart mode b o = none) ∨
    ∃ a1 b1, sinkStart mode a o = some a1 ∧ sinkStart mode b o = some b1 ∧ a1.dirs = a.dirs ∧ Agree (staleOpen mode S o) a1 b1 := by
  rcases hm with rfl | rfl
  · have hb := hag.isDir o
    cases hd : a.isDir o with
    | true =>
      left
      rw [hd] at hb
      exact ⟨by simp [sinkStart, hd], by simp [sinkStart, ← hb]⟩
    | false =>
      right
      rw [hd] at hb
      exact ⟨a.write o ByteArray.empty, b.write o ByteArray.empty, by simp [sinkStart, hd], by simp [sinkStart, ← hb], rfl,
        hag.write o _⟩
  · right
    exact ⟨a, b, rfl, rfl, rfl, hag⟩

theorem sinkEnd_rel (mode : Mode) (hm : mode = .build ∨ mode = .inMemory) (S : List Path) (a b : FS) (o : Path) (new : ByteArray)
    (hag : Agree S a b) :
    (sinkEnd mode a o new).1 = (sinkEnd mode b o new).1 ∧ Agree S (sinkEnd mode a o new).2 (sinkEnd mode b o new).2 ∧
    ((sinkEnd mode a o new).1 = .ok → Agree (S.filter (· != o)) (sinkEnd mode a o new).2 (sinkEnd mode b o new).2) := by
  have hsub : ∀ q, q ∈ S.filter (· != o) → q ∈ S := fun q hq => (List.mem_filter.1 hq).1
  rcases hm with rfl | rfl
  · simp only [sinkEnd]
    exact ⟨trivial, (hag.write o new).mono hsub, fun _ => hag.write o new⟩
  · simp only [sinkEnd]
    rw [← hag.isDir o]
    cases hd : a.isDir o with
    | true =>
      simp only [if_true]
      exact ⟨trivial, hag, fun h => by simp at h⟩
    | false =>
      simp only [Bool.false_eq_true, if_false]
      have key : ∀ (x : FS), (if x.file? o = some new then (Outcome.ok, x) else (Outcome.ok, x.write o new)).1 = .ok ∧
          (if x.file? o = some new then (Outcome.ok, x) else (Outcome.ok, x.write o new)).2.dirs = x.dirs ∧
          (if x.file? o = some new then (Outcome.ok, x) else (Outcome.ok, x.write o new)).2.file? o = some new ∧
          ∀ q, q ≠ o → (if x.file? o = some new then (Outcome.ok, x) else (Outcome.ok, x.write o new)).2.file? q = x.file? q := by
        intro x
        by_cases he : x.file? o = some new
        · simp only [if_pos he]; exact ⟨trivial, trivial, he, fun _ _ => trivial⟩
        · simp only [if_neg he]; exact ⟨trivial, rfl, by simp, fun q hq => file?_write_other x o q new hq⟩
      obtain ⟨a1, a2, a3, a4⟩ := key a
      obtain ⟨b1, b2, b3, b4⟩ := key b
      have hfin : Agree (S.filter (· != o)) (if a.file? o = some new then (Outcome.ok, a) else (Outcome.ok, a.write o new)).2
          (if b.file? o = some new then (Outcome.ok, b) else (Outcome.ok, b.write o new)).2 := by
        refine ⟨by rw [a2, b2]; exact hag.1, fun q hq => ?_⟩
        by_cases hqo : q = o
        · rw [hqo, a3, b3]
        · rw [a4 q hqo, b4 q hqo]
          apply hag.2 q
          intro hmem
          exact hq (List.mem_filter.2 ⟨hmem, by simpa using hqo⟩)
      exact ⟨by rw [a1, b1], hfin.mono hsub, fun _ => hfin⟩

/-- **C08, one pass**: a build (or only-if-needed build) pass over `src` run from two file systems
    that agree outside the stale set `S` (what earlier or interrupted runs left behind: anything or
    nothing at those paths) gives the same verdict, and afterwards the two file systems agree outside
    what is still stale — which no longer contains the output path nor any temp target that was
    written — provided the source itself is not stale and no block reads a path while it is stale. -/
theorem runPass_rel (cfg : Cfg) (hm : cfg.mode = .build ∨ cfg.mode = .inMemory) (a b : FS) (S : List Path) (src : Path) (first : Bool)
    (hag : Agree S a b) (hsrc : src ∉ S)
    (hsafe : ∀ content o bs, a.file? src = some content → outputPath src = some o →
      srcBlocks cfg.mode (decodeLines (byteLines content.toList)).1 = some bs →
      Safe cfg a src.dropLast bs (staleOpen cfg.mode S o) ∧ ProbesOK cfg a src.dropLast (staleOpen cfg.mode S o) bs) :
    (runPass cfg a src first).1 = (runPass cfg b src first).1 ∧
    Agree S (runPass cfg a src first).2 (runPass cfg b src first).2 ∧
    ((runPass cfg a src first).1 = .ok → ∀ content o bs, a.file? src = some content → outputPath src = some o →
      srcBlocks cfg.mode (decodeLines (byteLines content.toList)).1 = some bs →
      Agree ((staleAfter cfg a src.dropLast bs (staleOpen cfg.mode S o)).filter (· != o))
        (runPass cfg a src first).2 (runPass cfg b src first).2) := by
  have hmc : cfg.mode ≠ .clean := by rcases hm with h | h <;> rw [h] <;> decide
  unfold runPass
  rw [← hag.2 src hsrc]
  cases hfile : a.file? src with
  | none => exact ⟨rfl, hag, fun h => by simp at h⟩
  | some content =>
    cases hout : outputPath src with
    | none => exact ⟨rfl, hag, fun h => by simp at h⟩
    | some o =>
      simp only
      unfold runPassAt
      have hsub : ∀ q, q ∈ staleOpen cfg.mode S o → q ∈ S := by
        intro q hq
        unfold staleOpen at hq
        rcases hm with h | h <;> rw [h] at hq <;> simp only at hq
        · exact (List.mem_filter.1 hq).1
        · exact hq
      rcases sinkStart_rel cfg.mode hm S a b o hag with ⟨n1, n2⟩ | ⟨a1, b1, ha, hb, hda, hag1⟩
      · rw [n1, n2]; exact ⟨rfl, hag, fun h => by simp at h⟩
      · rw [ha, hb]
        simp only
        cases hbs : srcBlocks cfg.mode (decodeLines (byteLines content.toList)).1 with
        | none =>
          -- the text does not parse: both passes fail in the same way
          have hnone : ∀ (w : FS), ppPass (fileWorld cfg src.dropLast (joinPath src)) cfg.mode (sniffLE content.toList) first cfg.trailing w
              (decodeLines (byteLines content.toList)).1 (decodeLines (byteLines content.toList)).2 = .err := by
            intro w
            cases hro : (decodeLines (byteLines content.toList)).2 with
            | false => simp [ppPass]
            | true =>
              unfold ppPass
              simp only [Bool.not_true, Bool.false_eq_true, if_false]
              rw [Refine.machine_eq_spec]
              unfold Refine.spec
              rw [parse_eq_srcBlocks, hbs]
          rw [hnone a1, hnone b1]
          exact ⟨rfl, hag1.mono hsub, fun h => by simp at h⟩
        | some bs =>
          obtain ⟨hsf, hpr⟩ := hsafe content o bs hfile hout hbs
          have hrel := ppPass_rel cfg src.dropLast (joinPath src) cfg.mode hmc (sniffLE content.toList) first cfg.trailing a a1 b1
            (staleOpen cfg.mode S o) (decodeLines (byteLines content.toList)).1 (decodeLines (byteLines content.toList)).2 bs hbs hda hag1 hsf hpr
          rcases hra : ppPass (fileWorld cfg src.dropLast (joinPath src)) cfg.mode (sniffLE content.toList) first cfg.trailing a1
              (decodeLines (byteLines content.toList)).1 (decodeLines (byteLines content.toList)).2 with _ | _ | _ <;>
          rcases hrb : ppPass (fileWorld cfg src.dropLast (joinPath src)) cfg.mode (sniffLE content.toList) first cfg.trailing b1
              (decodeLines (byteLines content.toList)).1 (decodeLines (byteLines content.toList)).2 with _ | _ | _ <;>
          rw [hra, hrb] at hrel <;> simp only [PassResRel] at hrel
          · rename_i oa a2 ob b2
            obtain ⟨h1, _, h2, h3⟩ := hrel
            subst h1
            simp only
            have he0 := sinkEnd_rel cfg.mode hm _ a2 b2 o (encodeUtf8 oa) h2
            have he1 := sinkEnd_rel cfg.mode hm _ a2 b2 o (encodeUtf8 oa) h3
            refine ⟨he0.1, he0.2.1.mono hsub, ?_⟩
            intro hok content' o' bs' hc' ho' hb'
            cases hc'; cases ho'
            rw [hbs] at hb'; cases hb'
            exact he1.2.2 hok
          · rename_i da a2 db b2
            obtain ⟨h1, _, h2⟩ := hrel
            subst h1
            exact ⟨rfl, h2.mono hsub, fun h => by simp at h⟩
          · exact ⟨rfl, hag1.mono hsub, fun h => by simp at h⟩

theorem mem_generated (cfg : Cfg) (fs0 : FS) (wd : Path) (o : Path) (bs : List (Block Directive)) (q : Path) :
    q ∈ generated cfg fs0 wd o bs ↔ q = o ∨ ∃ d e, Block.dir d e ∈ bs ∧ dirWrites cfg fs0 wd d = some q := by
  simp only [generated, List.mem_cons, List.mem_filterMap]
  constructor
  · rintro (h | ⟨b, hb, hq⟩)
    · exact Or.inl h
    · cases b with
      | text l => simp at hq
      | dir d e => exact Or.inr ⟨d, e, hb, hq⟩
  · rintro (h | ⟨d, e, hb, hq⟩)
    · exact Or.inl h
    · exact Or.inr ⟨.dir d e, hb, hq⟩

/-- **C08 headline, one pass**: if the two file systems differ only at paths this very pass generates
    (its output, its temp targets — holding stale text, truncated content, arbitrary bytes, or
    nothing), the verdicts are equal and after a pass that ends `ok` the two file systems hold the same
    bytes at *every* path. -/
theorem runPass_leftovers_irrelevant (cfg : Cfg) (hm : cfg.mode = .build ∨ cfg.mode = .inMemory) (a b : FS) (S : List Path)
    (src : Path) (first : Bool) (content : ByteArray) (o : Path) (bs : List (Block Directive))
    (hfile : a.file? src = some content) (hout : outputPath src = some o)
    (hbs : srcBlocks cfg.mode (decodeLines (byteLines content.toList)).1 = some bs)
    (hag : Agree S a b) (hsrc : src ∉ S) (hgen : ∀ p ∈ S, p ∈ generated cfg a src.dropLast o bs)
    (hsafe : Safe cfg a src.dropLast bs (staleOpen cfg.mode S o)) (hprobes : ProbesOK cfg a src.dropLast (staleOpen cfg.mode S o) bs) :
    (runPass cfg a src first).1 = (runPass cfg b src first).1 ∧
    ((runPass cfg a src first).1 = .ok → ∀ q, (runPass cfg a src first).2.file? q = (runPass cfg b src first).2.file? q) := by
  have h := runPass_rel cfg hm a b S src first hag hsrc (by
    intro c' o' bs' hc' ho' hb'
    rw [hfile] at hc'; cases hc'
    rw [hout] at ho'; cases ho'
    rw [hbs] at hb'; cases hb'
    exact ⟨hsafe, hprobes⟩)
  refine ⟨h.1, fun hok q => ?_⟩
  have hfin := h.2.2 hok content o bs hfile hout hbs
  apply hfin.2 q
  intro hq
  obtain ⟨hq1, hqo⟩ := List.mem_filter.1 hq
  have hqo' : q ≠ o := by simpa using hqo
  obtain ⟨hqS, hnw⟩ := (mem_staleAfter cfg a src.dropLast q bs _).1 hq1
  have hqS' : q ∈ S := by
    unfold staleOpen at hqS
    rcases hm with h' | h' <;> rw [h'] at hqS <;> simp only at hqS
    · exact (List.mem_filter.1 hqS).1
    · exact hqS
  rcases (mem_generated cfg a src.dropLast o bs q).1 (hgen q hqS') with h1 | ⟨d, e, hmem, hw⟩
  · exact hqo' h1
  · exact hnw d e hmem hw

theorem passAllowed_generated (cfg : Cfg) (a : FS) (src : Path) (content : ByteArray) (o : Path) (bs : List (Block Directive))
    (hfile : a.file? src = some content) (hout : outputPath src = some o)
    (hbs : srcBlocks cfg.mode (decodeLines (byteLines content.toList)).1 = some bs) (q : Path)
    (h : PassAllowed cfg a src q) : q ∈ generated cfg a src.dropLast o bs := by
  obtain ⟨c, hc, hs⟩ := h
  rw [hfile] at hc; cases hc
  rw [mem_generated]
  rcases hs with ho | ⟨bs', d, e, t, body, h1, h2, h3, h4, h5, h6⟩
  · left; rw [hout] at ho; exact (Option.some.inj ho).symm
  · right
    rw [hbs] at h1; cases h1
    refine ⟨d, e, h2, ?_⟩
    simp only [dirWrites, h3, if_true, h4, h5, Bool.false_eq_true, if_false]
    exact h6

/-- **building twice equals building once (one source)**: after a build pass that ended `ok`, a second
    build pass of the same source ends `ok` and leaves every path exactly as the first one left it -/
theorem runPass_idempotent (cfg : Cfg) (hm : cfg.mode = .build ∨ cfg.mode = .inMemory) (a a' : FS) (src : Path) (first : Bool)
    (content : ByteArray) (o : Path) (bs : List (Block Directive))
    (hfile : a.file? src = some content) (hout : outputPath src = some o)
    (hbs : srcBlocks cfg.mode (decodeLines (byteLines content.toList)).1 = some bs)
    (hsrc : src ∉ generated cfg a src.dropLast o bs)
    (hsafe : Safe cfg a src.dropLast bs (staleOpen cfg.mode (generated cfg a src.dropLast o bs) o))
    (hprobes : ProbesOK cfg a src.dropLast (staleOpen cfg.mode (generated cfg a src.dropLast o bs) o) bs)
    (h1 : runPass cfg a src first = (.ok, a')) :
    (runPass cfg a' src first).1 = .ok ∧ ∀ q, (runPass cfg a' src first).2.file? q = a'.file? q := by
  have hsc := runPass_scope cfg a src first
  rw [h1] at hsc
  have hag : Agree (generated cfg a src.dropLast o bs) a a' := by
    refine ⟨hsc.1.symm, fun q hq => ?_⟩
    exact (hsc.2.2 q (fun hpa => hq (passAllowed_generated cfg a src content o bs hfile hout hbs q hpa))).symm
  have h := runPass_leftovers_irrelevant cfg hm a a' _ src first content o bs hfile hout hbs hag hsrc (fun _ hp => hp) hsafe hprobes
  rw [h1] at h
  simp only at h
  exact ⟨h.1.symm, fun q => (h.2 trivial q).symm⟩

/-- the executable side condition computed by the driver (`srcSafeB`) is exactly the hypotheses of
    the one-source theorems, with everything the pass generates taken as stale -/
theorem srcSafeB_spec (cfg : Cfg) (fs : FS) (src : Path) (h : srcSafeB cfg fs src = some true) :
    ∃ content o bs, fs.file? src = some content ∧ outputPath src = some o ∧
      srcBlocks cfg.mode (decodeLines (byteLines content.toList)).1 = some bs ∧
      src ∉ generated cfg fs src.dropLast o bs ∧
      Safe cfg fs src.dropLast bs (generated cfg fs src.dropLast o bs) ∧
      ProbesOK cfg fs src.dropLast (generated cfg fs src.dropLast o bs) bs := by
  unfold srcSafeB at h
  cases hf : fs.file? src with
  | none => simp [hf] at h
  | some content =>
    cases ho : outputPath src with
    | none => simp [hf, ho] at h
    | some o =>
      cases hb : srcBlocks cfg.mode (decodeLines (byteLines content.toList)).1 with
      | none => simp [hf, ho, hb] at h
      | some bs =>
        simp only [hf, ho, hb, Option.some.injEq, Bool.and_eq_true, Bool.not_eq_true'] at h
        obtain ⟨⟨⟨⟨h1, h2⟩, h3⟩, _⟩, _⟩ := h
        exact ⟨content, o, bs, rfl, rfl, hb, by simpa using h1, (safeB_iff cfg fs _ bs _).1 h2, (probesB_iff cfg fs _ _ bs).1 h3⟩

theorem staleAfterDir_mono (cfg : Cfg) (fs0 : FS) (wd : Path) (d : Directive) (S S' : List Path) (h : ∀ q, q ∈ S' → q ∈ S) :
    ∀ q, q ∈ staleAfterDir cfg fs0 wd d S' → q ∈ staleAfterDir cfg fs0 wd d S := by
  intro q hq
  unfold staleAfterDir at hq ⊢
  cases hw : dirWrites cfg fs0 wd d with
  | none => rw [hw] at hq; exact h q hq
  | some p =>
    rw [hw] at hq
    simp only [List.mem_filter] at hq ⊢
    exact ⟨h q hq.1, hq.2⟩

/-- fewer stale paths: still safe -/
theorem Safe.mono (cfg : Cfg) (fs0 : FS) (wd : Path) : ∀ (bs : List (Block Directive)) (S S' : List Path),
    (∀ q, q ∈ S' → q ∈ S) → Safe cfg fs0 wd bs S → Safe cfg fs0 wd bs S' := by
  intro bs
  induction bs with
  | nil => intro S S' _ _; trivial
  | cons b bs ih =>
    intro S S' hsub hs
    cases b with
    | text l => exact ih S S' hsub hs
    | dir d e =>
      exact ⟨fun p hp hm => hs.1 p hp (hsub p hm), ih _ _ (staleAfterDir_mono cfg fs0 wd d S S' hsub) hs.2⟩

theorem ProbesOK.mono (cfg : Cfg) (fs0 : FS) (wd : Path) (bs : List (Block Directive)) (S S' : List Path)
    (hsub : ∀ q, q ∈ S' → q ∈ S) (h : ProbesOK cfg fs0 wd S bs) : ProbesOK cfg fs0 wd S' bs :=
  fun d e hm p hp hc => h d e hm p hp (hsub p hc)

/-- the two extra facts `srcSafeB` checks: the output path is not a directory and not a temp target -/
theorem srcSafeB_output (cfg : Cfg) (fs : FS) (src : Path) (h : srcSafeB cfg fs src = some true) :
    ∀ o, outputPath src = some o → fs.isDir o = false ∧
      ∀ content bs, fs.file? src = some content → srcBlocks cfg.mode (decodeLines (byteLines content.toList)).1 = some bs →
        ∀ d e, Block.dir d e ∈ bs → dirWrites cfg fs src.dropLast d ≠ some o := by
  intro o ho
  unfold srcSafeB at h
  cases hf : fs.file? src with
  | none => simp [hf] at h
  | some content =>
    cases hb : srcBlocks cfg.mode (decodeLines (byteLines content.toList)).1 with
    | none => simp [hf, ho, hb] at h
    | some bs =>
      simp only [hf, ho, hb, Option.some.injEq, Bool.and_eq_true, Bool.not_eq_true'] at h
      obtain ⟨⟨_, h4⟩, h5⟩ := h
      refine ⟨h4, fun c' bs' hc' hb' d e hm hw => ?_⟩
      cases hc'
      rw [hb] at hb'; cases hb'
      have : o ∈ (generated cfg fs src.dropLast o bs).tail := by
        simp only [generated, List.tail_cons, List.mem_filterMap]
        exact ⟨.dir d e, hm, hw⟩
      simp [this] at h5

theorem staleOpen_sub (mode : Mode) (S : List Path) (o : Path) : ∀ q, q ∈ staleOpen mode S o → q ∈ S := by
  intro q hq
  unfold staleOpen at hq
  cases mode <;> simp only at hq
  · exact (List.mem_filter.1 hq).1
  all_goals exact hq

/-- where the executable check answers `true`, building twice equals building once -/
theorem idempotent_where_checked (cfg : Cfg) (hm : cfg.mode = .build ∨ cfg.mode = .inMemory) (a a' : FS) (src : Path)
    (first : Bool) (hs : srcSafeB cfg a src = some true) (h1 : runPass cfg a src first = (.ok, a')) :
    (runPass cfg a' src first).1 = .ok ∧ ∀ q, (runPass cfg a' src first).2.file? q = a'.file? q := by
  obtain ⟨content, o, bs, hfile, hout, hbs, hsrc, hsafe, hprobes⟩ := srcSafeB_spec cfg a src hs
  exact runPass_idempotent cfg hm a a' src first content o bs hfile hout hbs hsrc
    (Safe.mono cfg a _ bs _ _ (staleOpen_sub cfg.mode _ o) hsafe)
    (ProbesOK.mono cfg a _ bs _ _ (staleOpen_sub cfg.mode _ o) hprobes) h1

/-- … and leftovers at the generated paths are irrelevant -/
theorem leftovers_where_checked (cfg : Cfg) (hm : cfg.mode = .build ∨ cfg.mode = .inMemory) (a b : FS) (src : Path)
    (first : Bool) (hs : srcSafeB cfg a src = some true)
    (hag : ∀ content o bs, a.file? src = some content → outputPath src = some o →
      srcBlocks cfg.mode (decodeLines (byteLines content.toList)).1 = some bs → Agree (generated cfg a src.dropLast o bs) a b) :
    (runPass cfg a src first).1 = (runPass cfg b src first).1 ∧
    ((runPass cfg a src first).1 = .ok → ∀ q, (runPass cfg a src first).2.file? q = (runPass cfg b src first).2.file? q) := by
  obtain ⟨content, o, bs, hfile, hout, hbs, hsrc, hsafe, hprobes⟩ := srcSafeB_spec cfg a src hs
  exact runPass_leftovers_irrelevant cfg hm a b _ src first content o bs hfile hout hbs (hag content o bs hfile hout hbs) hsrc
    (fun _ hp => hp) (Safe.mono cfg a _ bs _ _ (staleOpen_sub cfg.mode _ o) hsafe)
    (ProbesOK.mono cfg a _ bs _ _ (staleOpen_sub cfg.mode _ o) hprobes)

end Txt

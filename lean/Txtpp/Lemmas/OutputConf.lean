import Txtpp.Lemmas.LineEnding
import Txtpp.Lemmas.PassInv
/-! C12, composition: if the source lines are terminator-free and every `\r` in included files and
    command output is followed by `\n`, then the whole output of a pass, and every temp content,
    uses only the source's line ending. -/
namespace Txt

theorem LEonly_nil (le : Str) : LEonly le [] := ⟨[[]], by simp [clean_nil], rfl⟩

theorem LEonly_le (le : Str) : LEonly le le := ⟨[[], []], by simp [clean_nil], by simp [joinWith]⟩

theorem LEonly_clean (le a : Str) (h : Clean a) : LEonly le a := ⟨[a], by simpa using h, rfl⟩

theorem joinWith_merge (le : Str) (xs : List Str) (a b : Str) (ys : List Str) :
    joinWith le (xs ++ [a]) ++ joinWith le (b :: ys) = joinWith le (xs ++ (a ++ b) :: ys) := by
  induction xs with
  | nil =>
    cases ys with
    | nil => simp [joinWith]
    | cons y ys => simp [joinWith, List.append_assoc]
  | cons x xs ih =>
    cases hxs : xs ++ [a] with
    | nil => simp at hxs
    | cons z zs =>
      have h2 : ∃ z' zs', xs ++ (a ++ b) :: ys = z' :: zs' := by
        cases xs <;> simp
      obtain ⟨z', zs', h2⟩ := h2
      simp only [List.cons_append, hxs, h2, joinWith_cons_cons]
      rw [← hxs, ← h2, List.append_assoc, List.append_assoc, ih]; simp [List.append_assoc]

theorem LEonly_append (le a b : Str) (ha : LEonly le a) (hb : LEonly le b) : LEonly le (a ++ b) := by
  obtain ⟨la, hla, rfl⟩ := ha
  obtain ⟨lb, hlb, rfl⟩ := hb
  cases lb with
  | nil => simp only [joinWith, List.append_nil]; exact ⟨la, hla, rfl⟩
  | cons b0 bs =>
    rcases List.eq_nil_or_concat la with rfl | ⟨xs, a0, rfl⟩
    · simp only [joinWith, List.nil_append]; exact ⟨b0 :: bs, hlb, rfl⟩
    · refine ⟨xs ++ (a0 ++ b0) :: bs, ?_, ?_⟩
      · intro l hl
        simp only [List.mem_append, List.mem_cons] at hl
        rcases hl with hl | rfl | hl
        · exact hla l (by simp [hl])
        · exact clean_append _ _ (hla a0 (by simp)) (hlb b0 (by simp))
        · exact hlb l (by simp [hl])
      · simpa using joinWith_merge le xs a0 b0 bs

theorem clean_take (l : Str) (n : Nat) (h : Clean l) : Clean (l.take n) :=
  ⟨fun hm => h.1 (List.mem_of_mem_take hm), fun hm => h.2 (List.mem_of_mem_take hm)⟩

theorem clean_drop (l : Str) (n : Nat) (h : Clean l) : Clean (l.drop n) :=
  ⟨fun hm => h.1 (List.mem_of_mem_drop hm), fun hm => h.2 (List.mem_of_mem_drop hm)⟩

/-- the substitution loop keeps the line-ending discipline: pieces of a terminator-free line and
    normalised tag values -/
theorem injLoop_LEonly (le line : Str) (hline : Clean line) (ms : List Match) (lastEnd : Nat) (acc : Str) (rem : List Str)
    (hms : ∀ m ∈ ms, crDom m.2.2 = true) (hacc : LEonly le acc) :
    LEonly le (injLoop (replaceLE le) line ms lastEnd acc rem).1 := by
  induction ms generalizing lastEnd acc rem with
  | nil =>
    simp only [injLoop]
    exact LEonly_append _ _ _ hacc (LEonly_clean le _ (clean_drop line lastEnd hline))
  | cons m ms ih =>
    obtain ⟨i, k, v⟩ := m
    simp only [injLoop]
    split
    · exact ih lastEnd acc rem (fun m hm => hms m (by simp [hm])) hacc
    · apply ih _ _ _ (fun m hm => hms m (by simp [hm]))
      apply LEonly_append
      · apply LEonly_append _ _ _ hacc
        exact LEonly_clean le _ (clean_take _ _ (clean_drop line lastEnd hline))
      · exact replaceLE_LEonly le v (hms (i, k, v) (by simp))

theorem sortM_mem (l : List Match) (m : Match) : m ∈ sortM l ↔ m ∈ l := by
  have : ∀ (a : Match) (l : List Match), ∀ x, x ∈ insertM a l ↔ x = a ∨ x ∈ l := by
    intro a l
    induction l with
    | nil => intro x; simp [insertM]
    | cons b bs ih =>
      intro x
      simp only [insertM]
      split
      · simp
      · simp only [List.mem_cons, ih]; constructor <;> (rintro (h | h | h) <;> simp [h])
  induction l with
  | nil => simp [sortM]
  | cons a l ih =>
    have ih' : m ∈ sortM l ↔ m ∈ l := ih
    show m ∈ insertM a (sortM l) ↔ m ∈ a :: l
    rw [this]; simp only [List.mem_cons]
    constructor
    · rintro (h | h)
      · exact Or.inl h
      · exact Or.inr (ih'.1 h)
    · rintro (h | h)
      · exact Or.inl h
      · exact Or.inr (ih'.2 h)

/-- all stored tag values come from directive output in which every `\r` is followed by `\n` -/
def TagsCr (t : TagState) : Prop := ∀ kv ∈ t.stored, crDom kv.2 = true

theorem injectLE_LEonly (le line : Str) (t : TagState) (hline : Clean line) (ht : TagsCr t) :
    LEonly le (t.injectLE le line).1 ∧ TagsCr (t.injectLE le line).2 := by
  constructor
  · simp only [TagState.injectLE, TagState.inject]
    apply injLoop_LEonly le line hline _ 0 [] [] _ (LEonly_nil le)
    intro m hm
    rw [sortM_mem] at hm
    simp only [matchesOf, List.mem_filterMap, Option.map_eq_some_iff] at hm
    obtain ⟨kv, hkv, i, _, rfl⟩ := hm
    exact ht kv hkv
  · intro kv hkv
    simp only [TagState.injectLE, TagState.inject, List.mem_filter] at hkv
    exact ht kv hkv.1

end Txt

namespace Refine
variable {D σ : Type}

/-- generic: if every chunk the semantics can produce satisfies `P` (closed under concatenation,
    containing `[]` and `le`), so does the whole output. `J` is an invariant of the semantic state,
    `K` of the open directive, `Q` a property of the source lines. -/
theorem feedAll_out_inv (S : Sem D σ) (J : σ → Prop) (K : D → Prop) (P Q : Str → Prop)
    (hPle : P S.le) (hPapp : ∀ a b, P a → P b → P (a ++ b))
    (hdetK : ∀ l d, Q l → S.detect l = some d → K d)
    (haddK : ∀ d l d', K d → Q l → S.addLine d l = some d' → K d')
    (hexecJ : ∀ s d s' o, J s → K d → S.exec s d = some (s', o) → J s')
    (hexecP : ∀ s d s' c, J s → K d → S.exec s d = some (s', some c) → P c)
    (htextJ : ∀ s l, J s → Q l → J (S.text s l).1)
    (htextP : ∀ s l l', J s → Q l → (S.text s l).2 = some l' → P l')
    (lines : List Str) (hQ : ∀ l ∈ lines, Q l) (m m' : MSt D σ)
    (hJ : J m.st) (hK : ∀ d, m.cur = some d → K d) (hPo : P m.out)
    (h : feedAll S m lines = some m') : J m'.st ∧ (∀ d, m'.cur = some d → K d) ∧ P m'.out := by
  have emitP : ∀ (m0 : MSt D σ) c b, P m0.out → P c → P (emit S m0 c b).out := by
    intro m0 c b h1 h2
    simp only [emit]
    apply hPapp _ _ _ h2
    split
    · exact hPapp _ _ h1 hPle
    · simpa using h1
  induction lines generalizing m with
  | nil => simp [feedAll] at h; subst h; exact ⟨hJ, hK, hPo⟩
  | cons l ls ih =>
    have hl := hQ l (by simp)
    simp only [feedAll] at h
    cases hf : feed S m l with
    | none => simp [hf] at h
    | some m1 =>
      simp only [hf] at h
      have fresh : ∀ (m0 m2 : MSt D σ), J m0.st → P m0.out → m0.cur = none → feedFresh S m0 l = some m2 →
          J m2.st ∧ (∀ d, m2.cur = some d → K d) ∧ P m2.out := by
        intro m0 m2 hj hp hc hff
        unfold feedFresh at hff
        split at hff
        · rename_i d hd
          split at hff
          · simp at hff
          · simp at hff; subst hff
            exact ⟨hj, fun d' hd' => by simp at hd'; subst hd'; exact hdetK l d hl hd, hp⟩
        · have hjt := htextJ m0.st l hj hl
          have hpt := htextP m0.st l
          rcases hx : S.text m0.st l with ⟨st', o⟩
          rw [hx] at hff hjt hpt
          cases o with
          | none => simp at hff; subst hff; exact ⟨hjt, by simp [hc], hp⟩
          | some l' =>
            simp at hff; subst hff
            refine ⟨hjt, by simp [emit, hc], ?_⟩
            exact emitP _ _ _ hp (hpt l' hj hl rfl)
      have step : J m1.st ∧ (∀ d, m1.cur = some d → K d) ∧ P m1.out := by
        unfold feed at hf
        split at hf
        · rename_i hc; exact fresh m m1 hJ hPo hc hf
        · rename_i d hcur
          have hKd := hK d hcur
          split at hf
          · rename_i d' ha
            simp at hf; subst hf
            exact ⟨hJ, fun d2 hd2 => by simp at hd2; subst hd2; exact haddK d l d' hKd hl ha, hPo⟩
          · split at hf
            · simp at hf
            · rename_i m2 hex
              have h2 : J m2.st ∧ P m2.out ∧ m2.cur = none := by
                unfold execD at hex
                split at hex
                · simp at hex
                · rename_i st' he; simp at hex; subst hex; exact ⟨hexecJ _ _ _ _ hJ hKd he, hPo, rfl⟩
                · rename_i st' c he
                  simp at hex; subst hex
                  exact ⟨hexecJ _ _ _ _ hJ hKd he, emitP _ _ _ hPo (hexecP _ _ _ _ hJ hKd he), by simp [emit]⟩
              exact fresh m2 m1 h2.1 h2.2.1 h2.2.2 hf
      exact ih (fun x hx => hQ x (by simp [hx])) m1 step.1 step.2.1 step.2.2 h

theorem machine_out_inv (S : Sem D σ) (J : σ → Prop) (K : D → Prop) (P Q : Str → Prop)
    (hP0 : P []) (hPle : P S.le) (hPapp : ∀ a b, P a → P b → P (a ++ b))
    (hdetK : ∀ l d, Q l → S.detect l = some d → K d)
    (haddK : ∀ d l d', K d → Q l → S.addLine d l = some d' → K d')
    (hexecJ : ∀ s d s' o, J s → K d → S.exec s d = some (s', o) → J s')
    (hexecP : ∀ s d s' c, J s → K d → S.exec s d = some (s', some c) → P c)
    (htextJ : ∀ s l, J s → Q l → J (S.text s l).1)
    (htextP : ∀ s l l', J s → Q l → (S.text s l).2 = some l' → P l')
    (t : Bool) (s0 : σ) (lines : List Str) (hQ : ∀ l ∈ lines, Q l) (hJ : J s0)
    (s : σ) (out : Str) (h : machine S t s0 lines = some (s, out)) : P out := by
  rw [machine_def] at h
  cases hf : feedAll S ⟨none, s0, false, []⟩ lines with
  | none => simp [hf] at h
  | some m =>
    obtain ⟨hj, hk, hp⟩ := feedAll_out_inv S J K P Q hPle hPapp hdetK haddK hexecJ hexecP htextJ htextP lines hQ
      ⟨none, s0, false, []⟩ m hJ (by simp) hP0 hf
    simp only [hf, Option.bind_some, finish_eq] at h
    cases hc : finishCore S m with
    | none => simp [hc] at h
    | some m' =>
      simp only [hc, Option.map_some, Option.some.injEq, Prod.mk.injEq] at h
      obtain ⟨_, h2⟩ := h
      subst h2
      have hpm : P m'.out := by
        unfold finishCore at hc
        split at hc
        · simp at hc; subst hc; exact hp
        · rename_i d hcur
          unfold execD at hc
          split at hc
          · simp at hc
          · simp at hc; subst hc; exact hp
          · rename_i st' c he
            simp at hc; subst hc
            simp only [emit]
            apply hPapp _ _ _ (hexecP _ _ _ _ hj (hk d hcur) he)
            split
            · exact hPapp _ _ hp hPle
            · simpa using hp
      split
      · exact hPapp _ _ hpm hPle
      · simpa using hpm

end Refine

import Txtpp.Lemmas.CoordInv2
namespace Coord

/-! ### top level: every reachable state satisfies the invariant; no panic -/

theorem inv_init (w : World) (inputs : List File) : Inv w (init inputs) := by
  let s0 : St := ⟨[], 0, 0, ⟨fun _ => none, fun _ => [], []⟩, []⟩
  obtain ⟨e1, e2, e3, e4, e5⟩ := execFiles_first s0 inputs (by simp [s0]) (by simp [s0]) (by simp [s0])
  have hdm : (init inputs).dm = s0.dm := execFiles_dm _ _ _
  have hpool : ∀ f b, Task.pp f b ∈ (init inputs).pool → b = true := by
    intro f b h; have := (e4 _).1 h; simp [s0] at this; obtain ⟨g, _, _, hg⟩ := this; exact hg
  constructor
  · exact execFiles_acct _ _ _ (by simp [s0])
  · exact e1
  · exact e2
  · rw [hdm]; simp [s0]
  · exact e5
  · rw [hdm]; simp [s0]
  · intro f hf
    have := (e3 f).1 hf; simp [s0] at this
    exact Or.inl ((e4 _).2 (Or.inr ⟨f, this, by simp [s0], rfl⟩))
  · intro f hf; rw [hdm]
    refine ⟨fun h => absurd (hpool f false h) (by decide), ?_, ?_⟩
    · intro d hd; simp [s0] at hd
    · intro hd; simp [s0] at hd
  · intro f hf; cases hpool f false hf
  · intro f d h; rw [hdm] at h; simp [s0] at h
  · intro d a h; rw [hdm] at h; simp [s0] at h
  · intro d; rw [hdm]; simp [s0]
  · intro a h; rw [hdm] at h; simp [s0] at h
  · intro a h; rw [hdm] at h; simp [s0] at h
  · intro a h; cases hpool a false h
  · intro a h; rw [hdm] at h; simp [s0] at h
  · intro a _; rw [hdm]
  · intro a _; rw [hdm]

/-- what a delivery does, case by case -/
theorem deliver_cases (w : World) (s : St) (t : Task) (hI : Inv w s) (ht : t ∈ s.pool) :
    handle { s with pool := s.pool.erase t } (w.result t) = .fail ∨
    ∃ s', handle { s with pool := s.pool.erase t } (w.result t) = .cont s' ∧ Inv w s' := by
  cases t with
  | pp a first =>
    cases first with
    | true =>
      by_cases hd : w.deps a = []
      · by_cases hf : (w.failFirst a || w.failFinal a) = true
        · left; simp [World.result, hd, hf, handle]
        · right
          have : w.result (Task.pp a true) = .ok a := by simp [World.result, hd, hf]
          rw [this]
          exact finish_preserves w s a _ hI ht (Or.inl rfl) (by simp [hd])
      · by_cases hf : w.failFirst a = true
        · left; simp [World.result, hd, hf, handle]
        · right
          have : w.result (Task.pp a true) = .hasDeps a (w.deps a) := by simp [World.result, hd, hf]
          rw [this]
          exact hasDeps_preserves w s a hI ht hd
    | false =>
      by_cases hf : w.failFinal a = true
      · left; simp [World.result, hf, handle]
      · right
        have : w.result (Task.pp a false) = .ok a := by simp [World.result, hf]
        rw [this]
        exact finish_preserves w s a _ hI ht (Or.inr rfl) (hI.secondDeps a ht)

theorem step_preserves (w : World) (s s' : St) (hI : Inv w s) (h : Step w s s') : Inv w s' := by
  cases h with
  | deliver t ht h =>
    rcases deliver_cases w s t hI ht with hf | ⟨s'', hc, hI'⟩
    · rw [hf] at h; cases h
    · rw [hc] at h; cases h; exact hI'

theorem reach_inv (w : World) (inputs : List File) (s : St) (h : Reach w inputs s) : Inv w s := by
  induction h with
  | init => exact inv_init w inputs
  | step s s' _ hs ih => exact step_preserves w s s' ih hs

/-- C18 (dependency.rs:66): the `unwrap` in `notify_finish` never panics -/
theorem never_panics (w : World) (inputs : List File) (s : St) (h : Reach w inputs s) (t : Task) (ht : t ∈ s.pool) :
    handle { s with pool := s.pool.erase t } (w.result t) ≠ .panic := by
  rcases deliver_cases w s t (reach_inv w inputs s h) ht with hf | ⟨s', hc, _⟩
  · rw [hf]; simp
  · rw [hc]; simp

/-- C03: `done == total` is exactly "nothing in flight" -/
theorem acct (w : World) (inputs : List File) (s : St) (h : Reach w inputs s) :
    s.done = s.total ↔ s.pool = [] := by
  have := (reach_inv w inputs s h).acct
  constructor
  · intro e; exact List.eq_nil_of_length_eq_zero (by omega)
  · intro e; simp [e] at this; omega

/-- C02: a second pass is only ever in flight when all dependencies of the file have finished -/
theorem second_pass_after_deps (w : World) (inputs : List File) (s : St) (h : Reach w inputs s) (a : File)
    (ha : Task.pp a false ∈ s.pool) : ∀ d ∈ w.deps a, d ∈ s.dm.fin :=
  (reach_inv w inputs s h).secondDeps a ha

/-- C02/C03: a finished file has nothing in flight (its output is never written again) -/
theorem finished_is_quiet (w : World) (inputs : List File) (s : St) (h : Reach w inputs s) (a : File)
    (ha : a ∈ s.dm.fin) (b : Bool) : Task.pp a b ∉ s.pool := by
  have hI := reach_inv w inputs s h
  cases b
  · exact fun hm => (hI.ex2 a hm).2 ha
  · exact fun hm => (hI.ex1 a hm).2.2 ha

/-- at most one task per file at any time -/
theorem one_task_per_file (w : World) (inputs : List File) (s : St) (h : Reach w inputs s) (a : File) :
    ¬ (Task.pp a true ∈ s.pool ∧ Task.pp a false ∈ s.pool) ∧ s.pool.Nodup := by
  have hI := reach_inv w inputs s h
  exact ⟨fun ⟨h1, h2⟩ => (hI.ex1 a h1).1 h2, hI.poolND⟩

/-! ### C05: at quiescence, leftover edges ⇔ a seen file waits; waiting files sit on/above a cycle -/

/-- `take_remaining` is non-empty iff some in-edge list is non-empty -/
def Leftover (s : St) : Prop := ∃ d a, a ∈ s.dm.inE d

theorem quiescent_cover (w : World) (inputs : List File) (s : St) (h : Reach w inputs s) (hq : s.pool = []) :
    ∀ f ∈ s.seen, (∃ d, f ∈ s.dm.inE d) ∨ f ∈ s.dm.fin := by
  intro f hf
  rcases (reach_inv w inputs s h).cover f hf with h | h | h | h
  · simp [hq] at h
  · simp [hq] at h
  · exact Or.inl h
  · exact Or.inr h

/-- a waiting file at quiescence has a dependency that is itself waiting -/
theorem waiting_has_waiting_dep (w : World) (inputs : List File) (s : St) (h : Reach w inputs s) (hq : s.pool = [])
    (f : File) (hf : ∃ d, f ∈ s.dm.inE d) : ∃ d, d ∈ w.deps f ∧ d ∈ s.seen ∧ ∃ e, d ∈ s.dm.inE e := by
  have hI := reach_inv w inputs s h
  obtain ⟨d, hd⟩ := hf
  obtain ⟨h1, h2, h3, _⟩ := hI.edge d f hd
  rcases quiescent_cover w inputs s h hq d h3 with hw | hfin
  · exact ⟨d, h1, h3, hw⟩
  · exact absurd hfin h2

end Coord

import Txtpp.Lemmas.OutputConfTxtpp
import Txtpp.Lemmas.PassInv
/-! C12 relative to an invariant of the world: included text is CR-clean *because* the file system is, and the file
    system stays CR-clean because every temp body the pass writes is. -/
namespace Refine
variable {D σ : Type}

/-- like `machine_out_inv`, also returning the state invariant at the end -/
theorem machine_out_inv_state (S : Sem D σ) (J : σ → Prop) (K : D → Prop) (P Q : Str → Prop)
    (hP0 : P []) (hPle : P S.le) (hPapp : ∀ a b, P a → P b → P (a ++ b))
    (hdetK : ∀ l d, Q l → S.detect l = some d → K d)
    (haddK : ∀ d l d', K d → Q l → S.addLine d l = some d' → K d')
    (hexecJ : ∀ s d s' o, J s → K d → S.exec s d = some (s', o) → J s')
    (hexecP : ∀ s d s' c, J s → K d → S.exec s d = some (s', some c) → P c)
    (htextJ : ∀ s l, J s → Q l → J (S.text s l).1)
    (htextP : ∀ s l l', J s → Q l → (S.text s l).2 = some l' → P l')
    (t : Bool) (s0 : σ) (lines : List Str) (hQ : ∀ l ∈ lines, Q l) (hJ : J s0)
    (s : σ) (out : Str) (h : machine S t s0 lines = some (s, out)) : J s ∧ P out := by
  refine ⟨?_, machine_out_inv S J K P Q hP0 hPle hPapp hdetK haddK hexecJ hexecP htextJ htextP t s0 lines hQ hJ s out h⟩
  rw [machine_def] at h
  cases hf : feedAll S ⟨none, s0, false, []⟩ lines with
  | none => simp [hf] at h
  | some m =>
    obtain ⟨hj, hk, _⟩ := feedAll_out_inv S J K P Q hPle hPapp hdetK haddK hexecJ hexecP htextJ htextP lines hQ
      ⟨none, s0, false, []⟩ m hJ (by simp) hP0 hf
    simp only [hf, Option.bind_some, finish_eq] at h
    cases hc : finishCore S m with
    | none => simp [hc] at h
    | some m' =>
      simp only [hc, Option.map_some, Option.some.injEq, Prod.mk.injEq] at h
      obtain ⟨h1, _⟩ := h
      subst h1
      unfold finishCore at hc
      split at hc
      · simp at hc; subst hc; exact hj
      · rename_i d hcur
        unfold execD at hc
        split at hc
        · simp at hc
        · rename_i st' he; simp at hc; subst hc; exact hexecJ _ _ _ _ hj (hk d hcur) he
        · rename_i st' c he; simp at hc; subst hc; exact hexecJ _ _ _ _ hj (hk d hcur) he
end Refine

namespace Txt
open Refine (machine)
variable {W : Type}

/-- where the world of a directive's result comes from: unchanged, the world after a command, or the
    world after writing / removing the temp target with the body of this very directive -/
theorem execDirective_world (Wd : World W) (mode : Mode) (le : Str) (s s' : PpState W) (d : Directive) (o : Option Str)
    (h : execDirective Wd mode le s d = some (s', o)) :
    s'.w = s.w ∨ (∃ out, Wd.run s.w (joinWith [' '] d.args) = (some out, s'.w)) ∨
    (∃ t body, d.args = t :: body ∧
      (Wd.writeTemp s.w t (joinWith le body) = some s'.w ∨ Wd.removeTemp s.w t = some s'.w)) := by
  unfold execDirective at h
  by_cases hm : mode = .clean
  · simp only [hm, if_true] at h
    cases hty : d.ty <;> simp only [hty] at h <;> (try (simp at h; obtain ⟨h1, _⟩ := h; subst h1; exact Or.inl rfl))
    cases ht : execTemp Wd le s.w d.args true with
    | none => simp [ht] at h; obtain ⟨h1, _⟩ := h; subst h1; exact Or.inl rfl
    | some w' =>
      simp [ht] at h; obtain ⟨h1, _⟩ := h; subst h1
      right; right
      unfold execTemp at ht
      split at ht
      · simp at ht
      · rename_i t body hargs
        split at ht
        · simp at ht
        · simp at ht
          exact ⟨t, body, hargs, Or.inr ht⟩
  · simp only [hm, if_false] at h
    split at h
    · simp at h
    · rename_i s1 hc
      simp at h; obtain ⟨h1, _⟩ := h; subst h1
      left
      split at hc
      · simp at hc
      · split at hc
        · split at hc
          · simp at hc
          · split at hc <;> simp at hc <;> subst hc <;> rfl
          · simp at hc
        · simp at hc
    · split at h
      · simp at h; obtain ⟨h1, _⟩ := h; subst h1; exact Or.inl rfl
      · cases hty : d.ty <;> simp only [hty] at h
        · simp at h; obtain ⟨h1, _⟩ := h; subst h1; exact Or.inl rfl
        · split at h
          · simp at h
          · have h' := Option.some.inj h
            have e : s' = (routeOutput le s d.ws _).1 := (congrArg Prod.fst h').symm
            left; rw [e, routeOutput_w]
        · simp at h; obtain ⟨h1, _⟩ := h; subst h1; exact Or.inl rfl
        · split at h
          · simp at h
          · rename_i out w' hr
            have h' := Option.some.inj h
            have e : s' = (routeOutput le { s with w := w' } d.ws out).1 := (congrArg Prod.fst h').symm
            right; left
            rw [e, routeOutput_w]
            exact ⟨out, hr⟩
        · split at h
          · simp at h
          · simp at h; obtain ⟨h1, _⟩ := h; subst h1; exact Or.inl rfl
        · split at h
          · simp at h
          · rename_i w' ht
            simp at h; obtain ⟨h1, _⟩ := h; subst h1
            right; right
            unfold execTemp at ht
            split at ht
            · simp at ht
            · rename_i t body hargs
              split at ht
              · simp at ht
              · simp at ht
                exact ⟨t, body, hargs, Or.inl ht⟩
        · have h' := Option.some.inj h
          have e : s' = (routeOutput le s d.ws (joinWith ['\n'] d.args)).1 := (congrArg Prod.fst h').symm
          left; rw [e, routeOutput_w]

theorem crDom_cr_nl (t : Str) : crDom ('\r' :: '\n' :: t) = crDom t := by
  rw [crDom]

theorem crDom_joinCrlf (L : List Str) (hL : ∀ l ∈ L, Clean l) : crDom (joinWith ['\r', '\n'] L) = true := by
  induction L with
  | nil => rfl
  | cons a rest ih =>
    cases rest with
    | nil =>
      simp only [joinWith]
      have := crDom_clean_append a [] (hL a List.mem_cons_self)
      simp only [List.append_nil] at this
      rw [this]; rfl
    | cons b rest' =>
      simp only [joinWith, List.append_assoc]
      rw [crDom_clean_append a _ (hL a List.mem_cons_self)]
      show crDom ('\r' :: '\n' :: joinWith ['\r', '\n'] (b :: rest')) = true
      rw [crDom_cr_nl]
      exact ih (fun l hl => hL l (List.mem_cons_of_mem _ hl))

/-- text whose only line terminators are LF (or CRLF) has every CR followed by LF -/
theorem LEonly_crDom (le x : Str) (hle : le = ['\n'] ∨ le = ['\r', '\n']) (h : LEonly le x) : crDom x = true := by
  obtain ⟨ls, hc, rfl⟩ := h
  rcases hle with rfl | rfl
  · exact crDom_joinNl ls hc
  · exact crDom_joinCrlf ls hc

theorem execDirective_conf_on (Wd : World W) (I : W → Prop)
    (hinc : ∀ w a c, I w → Wd.readInclude w a = some c → crDom c = true)
    (hrun : ∀ w c out w', I w → Wd.run w c = (some out, w') → crDom out = true)
    (mode : Mode) (le : Str) (s s' : PpState W)
    (d : Directive) (o : Option Str) (hs : TagsCr s.tags) (hI : I s.w) (hd : DirClean d)
    (h : execDirective Wd mode le s d = some (s', o)) :
    TagsCr s'.tags ∧ ∀ c, o = some c → LEonly le c := by
  unfold execDirective at h
  by_cases hm : mode = .clean
  · simp only [hm, if_true] at h
    cases hty : d.ty <;> simp only [hty] at h <;> (try (simp at h; obtain ⟨h1, h2⟩ := h; subst h1; subst h2; exact ⟨hs, by simp⟩))
    cases ht : execTemp Wd le s.w d.args true with
    | none => simp [ht] at h; obtain ⟨h1, h2⟩ := h; subst h1; subst h2; exact ⟨hs, by simp⟩
    | some w' => simp [ht] at h; obtain ⟨h1, h2⟩ := h; subst h1; subst h2; exact ⟨hs, by simp⟩
  · simp only [hm, if_false] at h
    split at h
    · simp at h
    · rename_i s1 hc
      simp at h; obtain ⟨h1, h2⟩ := h; subst h1; subst h2
      have : s1.tags = s.tags := by
        split at hc
        · simp at hc
        · split at hc
          · split at hc
            · simp at hc
            · split at hc <;> simp at hc <;> subst hc <;> rfl
            · simp at hc
          · simp at hc
      exact ⟨by rw [this]; exact hs, by simp⟩
    · split at h
      · simp at h; obtain ⟨h1, h2⟩ := h; subst h1; subst h2; exact ⟨hs, by simp⟩
      · cases hty : d.ty <;> simp only [hty] at h
        · simp at h; obtain ⟨h1, h2⟩ := h; subst h1; subst h2; exact ⟨hs, by simp⟩
        · split at h
          · simp at h
          · rename_i c hinc'
            have h' := Option.some.inj h
            have e1 : s' = (routeOutput le s d.ws c).1 := (congrArg Prod.fst h').symm
            have e2 : o = (routeOutput le s d.ws c).2 := (congrArg Prod.snd h').symm
            have := routeOutput_facts le s d.ws c hs (hinc _ _ _ hI hinc') hd.1
            rw [e1, e2]; exact this
        · simp at h; obtain ⟨h1, h2⟩ := h; subst h1; subst h2; exact ⟨hs, by simp⟩
        · split at h
          · simp at h
          · rename_i out w' hr
            have h' := Option.some.inj h
            have e1 : s' = (routeOutput le { s with w := w' } d.ws out).1 := (congrArg Prod.fst h').symm
            have e2 : o = (routeOutput le { s with w := w' } d.ws out).2 := (congrArg Prod.snd h').symm
            have := routeOutput_facts le { s with w := w' } d.ws out hs (hrun _ _ _ _ hI hr) hd.1
            rw [e1, e2]; exact this
        · split at h
          · simp at h
          · rename_i t' hcr
            simp at h; obtain ⟨h1, h2⟩ := h; subst h1; subst h2
            refine ⟨?_, by simp⟩
            unfold TagState.create at hcr
            split at hcr
            · simp at hcr
            · split at hcr
              · simp at hcr
              · simp at hcr; subst hcr; exact hs
        · split at h
          · simp at h
          · simp at h; obtain ⟨h1, h2⟩ := h; subst h1; subst h2; exact ⟨hs, by simp⟩
        · have h' := Option.some.inj h
          have e1 : s' = (routeOutput le s d.ws (joinWith ['\n'] d.args)).1 := (congrArg Prod.fst h').symm
          have e2 : o = (routeOutput le s d.ws (joinWith ['\n'] d.args)).2 := (congrArg Prod.snd h').symm
          have := routeOutput_facts le s d.ws _ hs (crDom_joinNl d.args hd.2) hd.1
          rw [e1, e2]; exact this


/-- the pass, relative to a world invariant `I`: if included text and command output are CR-clean
    whenever `I` holds, and writing a CR-clean temp body / removing a temp file / running a command keeps
    `I`, then the output has one line ending and `I` holds afterwards -/
theorem output_conf_on (Wd : World W) (I : W → Prop) (mode : Mode) (le : Str) (hle : le = ['\n'] ∨ le = ['\r', '\n'])
    (hinc : ∀ w a c, I w → Wd.readInclude w a = some c → crDom c = true)
    (hrun : ∀ w c out w', I w → Wd.run w c = (some out, w') → crDom out = true)
    (hrunI : ∀ w c, I w → I (Wd.run w c).2)
    (hwt : ∀ w t c w', I w → crDom c = true → Wd.writeTemp w t c = some w' → I w')
    (hrm : ∀ w t w', I w → Wd.removeTemp w t = some w' → I w')
    (first trailing : Bool) (w : W) (hI : I w) (lines : List Str) (hlines : ∀ l ∈ lines, Clean l) :
    match ppPass Wd mode le first trailing w lines true with
    | .ok out w' => LEonly le out ∧ I w'
    | .hasDeps _ w' => I w'
    | .err => True := by
  unfold ppPass
  simp only [Bool.not_true, Bool.false_eq_true, if_false]
  cases hm : machine (txtppSem Wd mode le) trailing ⟨TagState.empty, if first then .firstExec else .exec, w⟩ lines with
  | none => simp
  | some r =>
    obtain ⟨s, o⟩ := r
    have ho : (TagsCr s.tags ∧ I s.w) ∧ LEonly le o := by
      apply Refine.machine_out_inv_state (txtppSem Wd mode le) (fun s => TagsCr s.tags ∧ I s.w) DirClean (LEonly le) Clean
        (LEonly_nil le) (LEonly_le le) (LEonly_append le) ?_ ?_ ?_ ?_ ?_ ?_ trailing _ lines hlines ?_ s o hm
      · intro l d hl hd
        simp only [txtppSem] at hd
        cases hdf : detectFrom l with
        | none => simp [hdf] at hd
        | some d' =>
          simp only [hdf] at hd
          split at hd
          · simp at hd
          · simp at hd; subst hd; exact detect_dirClean l d' hl hdf
      · intro d l d' hd hl ha; exact addLine_dirClean d d' l hd hl ha
      · intro s d s' o hj hk he
        refine ⟨(execDirective_conf_on Wd I hinc hrun mode le s s' d o hj.1 hj.2 hk he).1, ?_⟩
        rcases execDirective_world Wd mode le s s' d o he with hw | ⟨out, hr⟩ | ⟨t, body, hargs, hw | hw⟩
        · rw [hw]; exact hj.2
        · have := hrunI s.w (joinWith [' '] d.args) hj.2
          rw [hr] at this; exact this
        · apply hwt s.w t (joinWith le body) s'.w hj.2 ?_ hw
          apply LEonly_crDom le _ hle
          exact tempBody_LEonly le _ (fun l hl => hk.2 l (by rw [hargs]; exact List.mem_cons_of_mem _ hl))
        · exact hrm s.w t s'.w hj.2 hw
      · intro s d s' c hj hk he; exact (execDirective_conf_on Wd I hinc hrun mode le s s' d (some c) hj.1 hj.2 hk he).2 c rfl
      · intro s l hj hl
        simp only [txtppSem]
        split
        · exact ⟨(injectLE_LEonly le l s.tags hl hj.1).2, hj.2⟩
        · exact hj
      · intro s l l' hj hl he
        simp only [txtppSem] at he
        split at he
        · simp at he; subst he; exact (injectLE_LEonly le l s.tags hl hj.1).1
        · simp at he
      · exact ⟨by intro kv hkv; simp [TagState.empty] at hkv, hI⟩
    simp only
    cases hp : s.pm with
    | collect deps => exact ho.1.2
    | firstExec =>
      by_cases hb : (s.tags.hasTags && mode != .clean) = true
      · simp [hb]
      · simp only [hb]; exact ⟨ho.2, ho.1.2⟩
    | exec =>
      by_cases hb : (s.tags.hasTags && mode != .clean) = true
      · simp [hb]
      · simp only [hb]; exact ⟨ho.2, ho.1.2⟩

end Txt

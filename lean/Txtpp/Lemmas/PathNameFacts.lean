import Txtpp.Model.PathName
/-! The naming algebra of C11: the three source-name shapes and their output names. -/
namespace PathName

theorem takeWhile_ne_dot (e rest : Str) (h : '.' ∉ e) :
    (e ++ '.' :: rest).takeWhile (· != '.') = e ∧ (e ++ '.' :: rest).dropWhile (· != '.') = '.' :: rest := by
  induction e with
  | nil => simp
  | cons c cs ih =>
    simp only [List.mem_cons, not_or] at h
    have hc : (c != '.') = true := by simpa using fun e => h.1 e.symm
    have := ih h.2
    simp [List.takeWhile_cons, List.dropWhile_cons, hc, this.1, this.2]

theorem splitLastDot_append (a e : Str) (h : '.' ∉ e) : splitLastDot (a ++ '.' :: e) = some (a, e) := by
  unfold splitLastDot
  have hr : (a ++ '.' :: e).reverse = e.reverse ++ '.' :: a.reverse := by simp
  have hmem : '.' ∈ (a ++ '.' :: e).reverse := by simp
  have he : '.' ∉ e.reverse := by simpa using h
  obtain ⟨t1, t2⟩ := takeWhile_ne_dot e.reverse a.reverse he
  simp only [hmem, if_true, hr, t1, t2]
  simp

theorem ne_dotdot_of_len (n : Str) (h : 3 ≤ n.length) : n ≠ dotdot := by
  intro e; rw [e] at h; simp [dotdot] at h

theorem extension_append (a e : Str) (ha : a ≠ []) (he : '.' ∉ e) (hne : e ≠ []) : extension (a ++ '.' :: e) = some e := by
  unfold extension
  have hd : a ++ '.' :: e ≠ dotdot := by
    apply ne_dotdot_of_len
    cases a with
    | nil => exact absurd rfl ha
    | cons x xs => cases e with
      | nil => exact absurd rfl hne
      | cons y ys => simp; omega
  simp [hd, splitLastDot_append a e he, ha]

theorem fileStem_append (a e : Str) (ha : a ≠ []) (he : '.' ∉ e) (hne : e ≠ []) : fileStem (a ++ '.' :: e) = a := by
  unfold fileStem
  have hd : a ++ '.' :: e ≠ dotdot := by
    apply ne_dotdot_of_len
    cases a with
    | nil => exact absurd rfl ha
    | cons x xs => cases e with
      | nil => exact absurd rfl hne
      | cons y ys => simp; omega
  simp [hd, splitLastDot_append a e he, ha]

theorem setExtension_nil_append (a e : Str) (ha : a ≠ []) (he : '.' ∉ e) (hne : e ≠ []) :
    setExtension (a ++ '.' :: e) [] = a := by
  simp [setExtension, fileStem_append a e ha he hne]

theorem txtpp_nodot : '.' ∉ txtpp := by decide
theorem txtpp_ne_nil : txtpp ≠ [] := by decide

/-- shape `foo.txtpp` (and `foo.ext.txtpp`): a txtpp file whose output is `foo` -/
theorem isTxtpp_suffix (foo : Str) (h : foo ≠ []) : isTxtppFile (foo ++ '.' :: txtpp) = true := by
  simp [isTxtppFile, extension_append foo txtpp h txtpp_nodot txtpp_ne_nil]

theorem out_txtpp (foo : Str) (h1 : foo ≠ []) (h2 : extension foo ≠ some txtpp) :
    removeTxtpp (foo ++ '.' :: txtpp) = some foo := by
  unfold removeTxtpp
  have hx : (extension foo == some txtpp) = false := by
    cases he : extension foo with
    | none => rfl
    | some e => simp; intro h; exact h2 (by rw [he, h])
  simp [isTxtpp_suffix foo h1, setExtension_nil_append foo txtpp h1 txtpp_nodot txtpp_ne_nil, hx]

/-- shape `foo.ext.txtpp` → `foo.ext`, for every non-empty `foo` (dots allowed) and every
    non-empty dot-free `ext` other than `txtpp` -/
theorem out_ext_txtpp (foo ext : Str) (h1 : foo ≠ []) (h2 : '.' ∉ ext) (h3 : ext ≠ []) (h4 : ext ≠ txtpp) :
    removeTxtpp ((foo ++ '.' :: ext) ++ '.' :: txtpp) = some (foo ++ '.' :: ext) := by
  apply out_txtpp
  · simp
  · rw [extension_append foo ext h1 h2 h3]; simpa using h4

/-- shape `foo.txtpp.ext` → `foo.ext` (with the repair of F6 also when `foo` contains dots) -/
theorem out_txtpp_ext (foo ext : Str) (h1 : foo ≠ []) (h2 : '.' ∉ ext) (h3 : ext ≠ []) (h4 : ext ≠ txtpp) :
    isTxtppFile ((foo ++ '.' :: txtpp) ++ '.' :: ext) = true ∧
    removeTxtpp ((foo ++ '.' :: txtpp) ++ '.' :: ext) = some (foo ++ '.' :: ext) := by
  have hne : foo ++ '.' :: txtpp ≠ [] := by simp
  have e1 := extension_append (foo ++ '.' :: txtpp) ext hne h2 h3
  have s1 := setExtension_nil_append (foo ++ '.' :: txtpp) ext hne h2 h3
  have e2 := extension_append foo txtpp h1 txtpp_nodot txtpp_ne_nil
  have s2 := setExtension_nil_append foo txtpp h1 txtpp_nodot txtpp_ne_nil
  have hx : (ext == txtpp) = false := by simpa using h4
  generalize hN : (foo ++ '.' :: txtpp) ++ '.' :: ext = N at e1 s1 ⊢
  generalize hM : foo ++ '.' :: txtpp = M at e2 s2 s1
  have ht : isTxtppFile N = true := by
    simp only [isTxtppFile, e1, s1, e2, hx, Bool.false_or]; simp
  refine ⟨ht, ?_⟩
  unfold removeTxtpp
  simp only [ht, Bool.not_true, Bool.false_eq_true, if_false, s1, e2, e1, s2]; simp

/-- names that look similar but are not txtpp files -/
theorem lookalikes_not_txtpp :
    isTxtppFile txtpp = false ∧ isTxtppFile ('.' :: txtpp) = false ∧
    isTxtppFile ['a', '.', 't', 'x', 't', 'p', 'p', '.', 'b', '.', 'c'] = false ∧
    isTxtppFile ['a', '.', 't', 'x', 't'] = false ∧ isTxtppFile ['a', '.', 't', 'x', 't', 'p', 'p', '~'] = false := by
  decide

end PathName

namespace PathName

theorem mem_takeWhile_pred (p : Char → Bool) (l : Str) (x : Char) (h : x ∈ l.takeWhile p) : p x = true := by
  induction l with
  | nil => simp at h
  | cons c cs ih =>
    simp only [List.takeWhile_cons] at h
    split at h
    · simp only [List.mem_cons] at h
      rcases h with rfl | h
      · assumption
      · exact ih h
    · simp at h

theorem dropWhile_head_pred (p : Char → Bool) (l : Str) (c : Char) (r : Str) (h : l.dropWhile p = c :: r) : p c = false := by
  induction l with
  | nil => simp at h
  | cons x xs ih =>
    simp only [List.dropWhile_cons] at h
    split at h
    · exact ih h
    · rename_i hx; simp only [List.cons.injEq] at h; rw [← h.1]; simpa using hx

theorem splitLastDot_some (n a e : Str) (h : splitLastDot n = some (a, e)) : n = a ++ '.' :: e ∧ '.' ∉ e := by
  unfold splitLastDot at h
  simp only at h
  split at h
  · rename_i hm
    simp only [Option.some.injEq, Prod.mk.injEq] at h
    obtain ⟨ha, he⟩ := h
    have hsplit := (List.takeWhile_append_dropWhile (p := (· != '.')) (l := n.reverse))
    -- the dropWhile part starts with '.'
    have hd : ∃ r, n.reverse.dropWhile (· != '.') = '.' :: r := by
      cases hdw : n.reverse.dropWhile (· != '.') with
      | nil =>
        exfalso
        have : n.reverse.takeWhile (· != '.') = n.reverse := by rw [hdw, List.append_nil] at hsplit; exact hsplit
        have hall : ∀ c ∈ n.reverse.takeWhile (· != '.'), (c != '.') = true := fun c hc => mem_takeWhile_pred _ _ c hc
        rw [this] at hall
        have := hall '.' hm
        simp at this
      | cons c r =>
        have : (c != '.') = false := dropWhile_head_pred _ _ c r hdw
        have hc : c = '.' := by simpa using this
        exact ⟨r, by rw [hc]⟩
    obtain ⟨r, hr⟩ := hd
    rw [hr] at ha hsplit
    simp only [List.tail_cons] at ha
    generalize htw : n.reverse.takeWhile (· != '.') = tw at he hsplit
    have hn : n = r.reverse ++ '.' :: tw.reverse := by
      have := congrArg List.reverse hsplit
      simp only [List.reverse_append, List.reverse_cons, List.reverse_reverse] at this
      rw [← this]; simp
    refine ⟨by rw [← ha, ← he]; exact hn, ?_⟩
    rw [← he]
    intro hmem
    have h1 : '.' ∈ tw := by simpa using hmem
    rw [← htw] at h1
    have := mem_takeWhile_pred _ _ _ h1
    simp at this
  · simp at h

/-- no trailing dot: if the name has a last dot, something follows it -/
def NoTrailingDot (n : Str) : Prop := ∀ a e, splitLastDot n = some (a, e) → e ≠ []

/-- C11: naming a file by its output name finds a source whose output is exactly that name
    (both candidate shapes), for every output name without a trailing dot -/
theorem get_remove (ex : Str → Bool) (n s : Str) (hn : n ≠ []) (hwd : NoTrailingDot n)
    (h : getTxtppFile ex n = some s) : removeTxtpp s = some n ∧ ex s = true := by
  unfold getTxtppFile at h
  split at h
  · simp at h
  · rename_i hnt
    have hnt' : isTxtppFile n = false := by simpa using hnt
    split at h
    · rename_i e hext
      -- n = a.e with a ≠ []
      have hsl : ∃ a, splitLastDot n = some (a, e) ∧ a ≠ [] := by
        unfold extension at hext
        split at hext
        · simp at hext
        · split at hext
          · simp at hext
          · rename_i b a' hs
            split at hext
            · simp at hext
            · rename_i hb; simp at hext; subst hext; exact ⟨b, hs, hb⟩
      obtain ⟨a, hs, ha⟩ := hsl
      obtain ⟨hna, hde⟩ := splitLastDot_some n a e hs
      have hee : e ≠ [] := hwd a e hs
      have het : e ≠ txtpp := by
        intro he
        have : isTxtppFile n = true := by rw [hna, he]; exact isTxtpp_suffix a ha
        rw [this] at hnt'; cases hnt'
      have hstem : fileStem n = a := by rw [hna]; exact fileStem_append a e ha hde hee
      have hp1 : setExtension n (e ++ '.' :: txtpp) = n ++ '.' :: txtpp := by
        have hx : e ++ '.' :: txtpp ≠ [] := by simp
        unfold setExtension
        rw [hstem, if_neg hx]
        conv => rhs; rw [hna]
        simp
      have hextn : extension n ≠ some txtpp := by
        rw [hna, extension_append a e ha hde hee]; simpa using het
      simp only [hp1] at h
      split at h
      · rename_i hex
        cases h
        exact ⟨out_txtpp n hn hextn, hex⟩
      · have hs1 : setExtension (n ++ '.' :: txtpp) [] = n := setExtension_nil_append n txtpp hn txtpp_nodot txtpp_ne_nil
        have hp2 : setExtension n (txtpp ++ '.' :: e) = (a ++ '.' :: txtpp) ++ '.' :: e := by
          have hx : txtpp ++ '.' :: e ≠ [] := by simp [txtpp]
          unfold setExtension
          rw [hstem, if_neg hx]; simp
        simp only [hs1, hp2] at h
        split at h
        · rename_i hex
          cases h
          refine ⟨?_, hex⟩
          rw [hna]; exact (out_txtpp_ext a e ha hde hee het).2
        · simp at h
    · rename_i hext
      have hstem : fileStem n = n := by
        unfold extension at hext
        unfold fileStem
        split at hext
        · rename_i hdd; simp [hdd]
        · rename_i hdd
          simp only [hdd, if_false]
          split at hext
          · rename_i hs; simp [hs]
          · rename_i b a' hs
            split at hext
            · rename_i hb; simp [hs, hb]
            · simp at hext
      have hp : setExtension n txtpp = n ++ '.' :: txtpp := by
        simp [setExtension, hstem, txtpp_ne_nil]
      simp only [hp] at h
      split at h
      · rename_i hex
        cases h
        exact ⟨out_txtpp n hn (by rw [hext]; simp), hex⟩
      · simp at h

end PathName

import Txtpp.Lemmas.CoordTop
namespace Coord

inductive Path (deps : File → List File) : File → File → Prop where
  | refl (f : File) : Path deps f f
  | step (f d g : File) : d ∈ deps f → Path deps d g → Path deps f g

theorem Path.trans {deps} {a b c : File} (h1 : Path deps a b) (h2 : Path deps b c) : Path deps a c := by
  induction h1 with
  | refl => exact h2
  | step f d g hd _ ih => exact Path.step f d c hd (ih h2)

theorem Path.snoc {deps} {a b c : File} (h1 : Path deps a b) (h2 : c ∈ deps b) : Path deps a c :=
  h1.trans (Path.step b c c h2 (Path.refl c))

/-- `f` can reach a file that lies on a cycle -/
def ReachesCycle (deps : File → List File) (f : File) : Prop :=
  ∃ g d, Path deps f g ∧ d ∈ deps g ∧ Path deps d g

/-- in a finite set in which every member has a successor inside the set, every member reaches a cycle -/
theorem reaches_cycle_of_closed (deps : File → List File) (V : List File)
    (hV : ∀ x ∈ V, ∃ y, y ∈ deps x ∧ y ∈ V) (x : File) (hx : x ∈ V) : ReachesCycle deps x := by
  have aux : ∀ k : Nat, ∀ (p : List File) (z : File), p.Nodup → (∀ y ∈ p, y ∈ V) → z ∈ p →
      (∀ y ∈ p, Path deps x y ∧ Path deps y z) → V.length - p.length ≤ k → ReachesCycle deps x := by
    intro k
    induction k with
    | zero =>
      intro p z hp hpV hz hpath hk
      obtain ⟨y, hy, hyV⟩ := hV z (hpV z hz)
      by_cases hyp : y ∈ p
      · exact ⟨z, y, (hpath z hz).1, hy, (hpath y hyp).2⟩
      · have hnd : (y :: p).Nodup := List.nodup_cons.2 ⟨hyp, hp⟩
        have hsub : (y :: p) ⊆ V := by
          intro a ha; simp at ha; rcases ha with rfl | ha; exact hyV; exact hpV a ha
        have := hnd.length_le_of_subset hsub
        simp at this; omega
    | succ k ih =>
      intro p z hp hpV hz hpath hk
      obtain ⟨y, hy, hyV⟩ := hV z (hpV z hz)
      by_cases hyp : y ∈ p
      · exact ⟨z, y, (hpath z hz).1, hy, (hpath y hyp).2⟩
      · refine ih (y :: p) y (List.nodup_cons.2 ⟨hyp, hp⟩) ?_ (by simp) ?_ (by simp; omega)
        · intro a ha; simp at ha; rcases ha with rfl | ha; exact hyV; exact hpV a ha
        · intro a ha; simp at ha
          rcases ha with rfl | ha
          · exact ⟨(hpath z hz).1.snoc hy, Path.refl _⟩
          · exact ⟨(hpath a ha).1, (hpath a ha).2.snoc hy⟩
  exact aux V.length [x] x (by simp) (by simpa using hx) (by simp) (by simp; exact Path.refl x) (by omega)

/-- C05 (⇐): at quiescence every file that is still waiting can reach a dependency cycle -/
theorem waiting_reaches_cycle (w : World) (inputs : List File) (s : St) (h : Reach w inputs s) (hq : s.pool = [])
    (f : File) (hf : ∃ d, f ∈ s.dm.inE d) : ReachesCycle w.deps f := by
  have hI := reach_inv w inputs s h
  -- V = the seen files that are waiting
  let V := s.seen.filter (fun x => decide (x ∉ s.dm.fin))
  have hVmem : ∀ x, x ∈ V ↔ x ∈ s.seen ∧ x ∉ s.dm.fin := by intro x; simp [V]
  have hwait : ∀ x, x ∈ V → ∃ d, x ∈ s.dm.inE d := by
    intro x hx
    rcases quiescent_cover w inputs s h hq x ((hVmem x).1 hx).1 with h' | h'
    · exact h'
    · exact absurd h' ((hVmem x).1 hx).2
  apply reaches_cycle_of_closed w.deps V
  · intro x hx
    obtain ⟨d, hd1, hd2, e, hd3⟩ := waiting_has_waiting_dep w inputs s h hq x (hwait x hx)
    exact ⟨d, hd1, (hVmem d).2 ⟨hd2, hI.ex3 d e hd3⟩⟩
  · obtain ⟨d, hd⟩ := hf
    exact (hVmem f).2 ⟨(hI.edge d f hd).2.2.2, hI.ex3 f d hd⟩

#print axioms waiting_reaches_cycle
end Coord

import Txtpp.Model.Tag
namespace Txt

abbrev Match := Nat × Str × Str

def matchesOf (stored : List (Str × Str)) (line : Str) : List Match :=
  stored.filterMap (fun kv => (findIdx kv.1 line).map (fun i => (i, kv.1, kv.2)))

def mle (a b : Match) : Bool := decide (a.1 ≤ b.1)

def sortM (l : List Match) : List Match := l.mergeSort mle

/-- the `for (i, key, value) in &to_inject` loop of `inject_tags`; `norm` = `replace_line_ending(le, false)` -/
def injLoop (norm : Str → Str) (line : Str) : List Match → Nat → Str → List Str → Str × List Str
  | [], lastEnd, acc, rem => (acc ++ line.drop lastEnd, rem)
  | (i, k, v) :: ms, lastEnd, acc, rem =>
    if i < lastEnd then injLoop norm line ms lastEnd acc rem
    else injLoop norm line ms (i + k.length) (acc ++ (line.drop lastEnd).take (i - lastEnd) ++ norm v) (k :: rem)

def TagState.inject (t : TagState) (norm : Str → Str) (line : Str) : Str × TagState :=
  let r := injLoop norm line (sortM (matchesOf t.stored line)) 0 [] []
  (r.1, { t with stored := t.stored.filter (fun kv => !r.2.contains kv.1) })

theorem findIdx_prefix (k line : Str) (i : Nat) (h : findIdx k line = some i) : k <+: line.drop i := by
  unfold findIdx at h
  cases hf : findSub k line with
  | none => simp [hf] at h
  | some r =>
    obtain ⟨a, b⟩ := r
    simp [hf] at h; subst h
    obtain ⟨h1, h2, _⟩ := findSub_some _ _ _ _ hf
    rw [h1]; simpa using h2

theorem prefix_related (a b l : Str) (ha : a <+: l) (hb : b <+: l) : related a b = true := by
  simp only [related, Bool.or_eq_true, List.isPrefixOf_iff_prefix]
  rcases Nat.le_total a.length b.length with h | h
  · exact Or.inl (List.prefix_of_prefix_length_le ha hb h)
  · exact Or.inr (List.prefix_of_prefix_length_le hb ha h)

theorem pairwise_eq_of_related (l : List (Str × Str)) (h : PrefixFree l) (a b : Str × Str)
    (ha : a ∈ l) (hb : b ∈ l) (hr : related a.1 b.1 = true) : a = b := by
  induction l with
  | nil => simp at ha
  | cons x xs ih =>
    unfold PrefixFree at h
    rw [List.pairwise_cons] at h
    simp at ha hb
    rcases ha with rfl | ha <;> rcases hb with rfl | hb
    · rfl
    · have := h.1 b hb; rw [hr] at this; cases this
    · have := h.1 a ha; rw [related_symm, hr] at this; cases this
    · exact ih h.2 ha hb

theorem match_same_index (stored : List (Str × Str)) (hpf : PrefixFree stored) (line : Str)
    (a b : Match) (ha : a ∈ matchesOf stored line) (hb : b ∈ matchesOf stored line) (hi : a.1 = b.1) : a = b := by
  simp only [matchesOf, List.mem_filterMap, Option.map_eq_some_iff] at ha hb
  obtain ⟨kva, hkva, ia, hia, rfl⟩ := ha
  obtain ⟨kvb, hkvb, ib, hib, rfl⟩ := hb
  simp at hi; subst hi
  have h1 := findIdx_prefix _ _ _ hia
  have h2 := findIdx_prefix _ _ _ hib
  have := pairwise_eq_of_related stored hpf kva kvb hkva hkvb (prefix_related _ _ _ h1 h2)
  subst this; rfl

theorem sortM_perm_eq (m1 m2 : List Match) (hp : m1.Perm m2)
    (hinj : ∀ a b, a ∈ m1 → b ∈ m1 → a.1 = b.1 → a = b) : sortM m1 = sortM m2 := by
  have htrans : ∀ (a b c : Match), mle a b = true → mle b c = true → mle a c = true := by
    intro a b c; simp only [mle, decide_eq_true_eq]; omega
  have htotal : ∀ (a b : Match), (mle a b || mle b a) = true := by
    intro a b; simp only [mle, Bool.or_eq_true, decide_eq_true_eq]; omega
  have s1 := List.pairwise_mergeSort htrans htotal m1
  have s2 := List.pairwise_mergeSort htrans htotal m2
  have p1 : (sortM m1).Perm m1 := List.mergeSort_perm m1 mle
  have p2 : (sortM m2).Perm m2 := List.mergeSort_perm m2 mle
  apply List.Perm.eq_of_pairwise (le := fun a b => mle a b = true) ?_ s1 s2 (p1.trans (hp.trans p2.symm))
  intro a b ha hb hab hba
  simp only [mle, decide_eq_true_eq] at hab hba
  have ha' : a ∈ m1 := p1.subset ha
  have hb' : b ∈ m1 := hp.symm.subset (p2.subset hb)
  exact hinj a b ha' hb' (by omega)

/-- C14 determinism: the result of `inject_tags` does not depend on the iteration order of the map -/
theorem inject_perm (l : Option Str) (s1 s2 : List (Str × Str)) (norm : Str → Str) (line : Str)
    (hp : s1.Perm s2) (hpf : PrefixFree s1) :
    ((TagState.mk l s1).inject norm line).1 = ((TagState.mk l s2).inject norm line).1 ∧
    ((TagState.mk l s1).inject norm line).2.stored.Perm ((TagState.mk l s2).inject norm line).2.stored := by
  have hm : (matchesOf s1 line).Perm (matchesOf s2 line) := hp.filterMap _
  have hs : sortM (matchesOf s1 line) = sortM (matchesOf s2 line) :=
    sortM_perm_eq _ _ hm (fun a b ha hb => match_same_index s1 hpf line a b ha hb)
  simp only [TagState.inject, hs]
  exact ⟨trivial, hp.filter _⟩

#print axioms inject_perm
end Txt

import Txtpp.Model.Tag
namespace Txt

theorem findIdx_prefix (k line : Str) (i : Nat) (h : findIdx k line = some i) : k <+: line.drop i := by
  unfold findIdx at h
  cases hf : findSub k line with
  | none => simp [hf] at h
  | some r =>
    obtain ⟨a, b⟩ := r
    simp [hf] at h; subst h
    obtain ⟨h1, h2, _⟩ := findSub_some _ _ _ _ hf
    rw [h1]; simpa using h2

theorem prefix_related (a b l : Str) (ha : a <+: l) (hb : b <+: l) : related a b = true := by
  simp only [related, Bool.or_eq_true, List.isPrefixOf_iff_prefix]
  rcases Nat.le_total a.length b.length with h | h
  · exact Or.inl (List.prefix_of_prefix_length_le ha hb h)
  · exact Or.inr (List.prefix_of_prefix_length_le hb ha h)

theorem pairwise_eq_of_related (l : List (Str × Str)) (h : PrefixFree l) (a b : Str × Str)
    (ha : a ∈ l) (hb : b ∈ l) (hr : related a.1 b.1 = true) : a = b := by
  induction l with
  | nil => simp at ha
  | cons x xs ih =>
    unfold PrefixFree at h
    rw [List.pairwise_cons] at h
    simp at ha hb
    rcases ha with rfl | ha <;> rcases hb with rfl | hb
    · rfl
    · have := h.1 b hb; rw [hr] at this; cases this
    · have := h.1 a ha; rw [related_symm, hr] at this; cases this
    · exact ih h.2 ha hb

theorem match_same_index (stored : List (Str × Str)) (hpf : PrefixFree stored) (line : Str)
    (a b : Match) (ha : a ∈ matchesOf stored line) (hb : b ∈ matchesOf stored line) (hi : a.1 = b.1) : a = b := by
  simp only [matchesOf, List.mem_filterMap, Option.map_eq_some_iff] at ha hb
  obtain ⟨kva, hkva, ia, hia, rfl⟩ := ha
  obtain ⟨kvb, hkvb, ib, hib, rfl⟩ := hb
  simp at hi; subst hi
  have h1 := findIdx_prefix _ _ _ hia
  have h2 := findIdx_prefix _ _ _ hib
  have := pairwise_eq_of_related stored hpf kva kvb hkva hkvb (prefix_related _ _ _ h1 h2)
  subst this; rfl

theorem insertM_perm (a : Match) (l : List Match) : (insertM a l).Perm (a :: l) := by
  induction l with
  | nil => exact List.Perm.refl _
  | cons b bs ih =>
    simp only [insertM]
    split
    · exact List.Perm.refl _
    · exact (List.Perm.cons b ih).trans (List.Perm.swap a b bs)

theorem sortM_perm (l : List Match) : (sortM l).Perm l := by
  induction l with
  | nil => exact List.Perm.refl _
  | cons a l ih => exact (insertM_perm a _).trans (List.Perm.cons a ih)

def SortedM (l : List Match) : Prop := l.Pairwise (fun a b => a.1 ≤ b.1)

theorem insertM_sorted (a : Match) (l : List Match) (h : SortedM l) : SortedM (insertM a l) := by
  induction l with
  | nil => simp [insertM, SortedM]
  | cons b bs ih =>
    simp only [insertM]
    unfold SortedM at h ih ⊢
    rw [List.pairwise_cons] at h
    split
    · rename_i hab
      rw [List.pairwise_cons]
      refine ⟨?_, List.pairwise_cons.2 h⟩
      intro c hc
      simp only [List.mem_cons] at hc
      rcases hc with rfl | hc
      · exact hab
      · exact Nat.le_trans hab (h.1 c hc)
    · rename_i hab
      rw [List.pairwise_cons]
      refine ⟨?_, ih h.2⟩
      intro c hc
      have := (insertM_perm a bs).subset hc
      simp only [List.mem_cons] at this
      rcases this with rfl | hc'
      · omega
      · exact h.1 c hc'

theorem sortM_sorted (l : List Match) : SortedM (sortM l) := by
  induction l with
  | nil => simp [sortM, SortedM]
  | cons a l ih => exact insertM_sorted a _ ih

theorem sortM_perm_eq (m1 m2 : List Match) (hp : m1.Perm m2)
    (hinj : ∀ a b, a ∈ m1 → b ∈ m1 → a.1 = b.1 → a = b) : sortM m1 = sortM m2 := by
  have p1 := sortM_perm m1
  have p2 := sortM_perm m2
  have s1 : (sortM m1).Pairwise (fun a b => a.1 ≤ b.1) := sortM_sorted m1
  have s2 : (sortM m2).Pairwise (fun a b => a.1 ≤ b.1) := sortM_sorted m2
  apply List.Perm.eq_of_pairwise (le := fun a b => a.1 ≤ b.1) ?_ s1 s2 (p1.trans (hp.trans p2.symm))
  intro a b ha hb hab hba
  have ha' : a ∈ m1 := p1.subset ha
  have hb' : b ∈ m1 := hp.symm.subset (p2.subset hb)
  exact hinj a b ha' hb' (by omega)

/-- C14 determinism: the result of `inject_tags` does not depend on the iteration order of the map -/
theorem inject_perm (l : Option Str) (s1 s2 : List (Str × Str)) (norm : Str → Str) (line : Str)
    (hp : s1.Perm s2) (hpf : PrefixFree s1) :
    ((TagState.mk l s1).inject norm line).1 = ((TagState.mk l s2).inject norm line).1 ∧
    ((TagState.mk l s1).inject norm line).2.stored.Perm ((TagState.mk l s2).inject norm line).2.stored := by
  have hm : (matchesOf s1 line).Perm (matchesOf s2 line) := hp.filterMap _
  have hs : sortM (matchesOf s1 line) = sortM (matchesOf s2 line) :=
    sortM_perm_eq _ _ hm (fun a b ha hb => match_same_index s1 hpf line a b ha hb)
  simp only [TagState.inject, hs]
  exact ⟨trivial, hp.filter _⟩

#print axioms inject_perm
end Txt

import Txtpp.Lemmas.RunPassFacts
import Txtpp.Model.Project
/-! Whole-run facts about the reference model `runProject`: frame condition and "clean executes
    nothing" for the complete run (all passes of all files), by induction over the coordinator loop. -/
namespace Txt

theorem Untouched.trans (a b c : FS) (h1 : Untouched a b) (h2 : Untouched b c) : Untouched a c := by
  refine ⟨?_, fun p hp => h2.2 p (h1.2 p hp)⟩
  intro p hp
  have hb : p ∉ b.touched := fun hm => hp (h2.2 p hm)
  rw [h2.1 p hp, h1.1 p hb]

/-- any predicate on the file system that every pass preserves is preserved by the whole loop -/
theorem runLoop_inv (cfg : Cfg) (I : FS → Prop)
    (hpass : ∀ fs src first, I fs → I (runPass cfg fs src first).2)
    (fuel : Nat) (s : PSt) (h : I s.fs) : I (runLoop cfg fuel s).2 := by
  induction fuel generalizing s with
  | zero => simpa [runLoop] using h
  | succ n ih =>
    unfold runLoop
    split
    · exact h
    · rename_i f first rest hpool
      have hp := hpass s.fs (s.names.getD f []) first h
      dsimp only
      cases hrp : runPass cfg s.fs (s.names.getD f []) first with
      | mk oc fs' =>
        rw [hrp] at hp
        simp only at hp
        cases oc with
        | err => exact hp
        | ok =>
          simp only
          split
          · exact ih _ hp
          · exact hp
          · exact hp
        | hasDeps deps =>
          simp only
          split
          · exact ih _ hp
          · exact hp
          · exact hp

theorem runProject_inv (cfg : Cfg) (I : FS → Prop)
    (hpass : ∀ fs src first, I fs → I (runPass cfg fs src first).2)
    (fs : FS) (inputs : List Str) (h : I fs) : I (runProject cfg fs inputs).2 := by
  unfold runProject
  split
  · exact h
  · exact runLoop_inv cfg I hpass _ _ h

/-- C10, whole run: after a complete run in any mode, whatever the verdict, every path outside
    the touch set has the bytes it had before the run -/
theorem runProject_untouched (cfg : Cfg) (fs : FS) (inputs : List Str) : Untouched fs (runProject cfg fs inputs).2 :=
  runProject_inv cfg (Untouched fs)
    (fun fs1 src first h => Untouched.trans fs fs1 _ h (runPass_untouched cfg fs1 src first)) fs inputs (Untouched.refl fs)

/-- C07, whole run: a complete clean run executes no command -/
theorem runProject_clean_log (cfg : Cfg) (hm : cfg.mode = .clean) (fs : FS) (inputs : List Str) :
    (runProject cfg fs inputs).2.log = fs.log :=
  runProject_inv cfg (fun f => f.log = fs.log)
    (fun fs1 src first h => by rw [runPass_clean_log cfg fs1 src first hm]; exact h) fs inputs rfl

end Txt

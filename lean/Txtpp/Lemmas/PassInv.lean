import Txtpp.Lemmas.MachineFacts
import Txtpp.Model.Pp
/-! Invariants of the world along a pass: whatever property of the world is preserved by the
    operations a pass may perform (run a command, write a temp file, remove a temp file) holds
    after the pass. Used by C06 (verify is read-only), C07 (clean executes nothing, keeps
    everything else), C10 (frame condition). -/
namespace Refine
variable {D σ : Type}

/-- generic: a predicate on the semantic state preserved by `exec` and `text` holds throughout -/
theorem feedAll_inv (S : Sem D σ) (J : σ → Prop)
    (hexec : ∀ s d s' o, J s → S.exec s d = some (s', o) → J s')
    (htext : ∀ s l, J s → J (S.text s l).1)
    (lines : List Str) (m m' : MSt D σ) (h0 : J m.st) (h : feedAll S m lines = some m') : J m'.st := by
  induction lines generalizing m with
  | nil => simp [feedAll] at h; subst h; exact h0
  | cons l ls ih =>
    simp only [feedAll] at h
    cases hf : feed S m l with
    | none => simp [hf] at h
    | some m1 =>
      simp only [hf] at h
      apply ih m1 _ h
      -- one line
      have fresh : ∀ (m0 m2 : MSt D σ), J m0.st → feedFresh S m0 l = some m2 → J m2.st := by
        intro m0 m2 hj hff
        unfold feedFresh at hff
        split at hff
        · split at hff
          · simp at hff
          · simp at hff; subst hff; exact hj
        · rename_i hd
          have ht := htext m0.st l hj
          rcases hx : S.text m0.st l with ⟨st', o⟩
          rw [hx] at hff ht
          cases o with
          | none => simp at hff; subst hff; exact ht
          | some l' => simp [emit] at hff; subst hff; exact ht
      unfold feed at hf
      split at hf
      · exact fresh m m1 h0 hf
      · rename_i d hcur
        split at hf
        · simp at hf; subst hf; exact h0
        · split at hf
          · simp at hf
          · rename_i m2 hex
            have hj2 : J m2.st := by
              unfold execD at hex
              split at hex
              · simp at hex
              · rename_i st' he; simp at hex; subst hex; exact hexec _ _ _ _ h0 he
              · rename_i st' c he; simp [emit] at hex; subst hex; exact hexec _ _ _ _ h0 he
            exact fresh m2 m1 hj2 hf

theorem machine_inv (S : Sem D σ) (J : σ → Prop)
    (hexec : ∀ s d s' o, J s → S.exec s d = some (s', o) → J s')
    (htext : ∀ s l, J s → J (S.text s l).1)
    (t : Bool) (s0 : σ) (lines : List Str) (s : σ) (out : Str) (h0 : J s0)
    (h : machine S t s0 lines = some (s, out)) : J s := by
  rw [machine_def] at h
  cases hf : feedAll S ⟨none, s0, false, []⟩ lines with
  | none => simp [hf] at h
  | some m =>
    have hm := feedAll_inv S J hexec htext lines ⟨none, s0, false, []⟩ m h0 hf
    simp only [hf, Option.bind_some, finish_eq] at h
    cases hc : finishCore S m with
    | none => simp [hc] at h
    | some m' =>
      simp [hc] at h
      obtain ⟨h1, _⟩ := h
      subst h1
      unfold finishCore at hc
      split at hc
      · simp at hc; subst hc; exact hm
      · rename_i d hcur
        unfold execD at hc
        split at hc
        · simp at hc
        · rename_i st' he; simp at hc; subst hc; exact hexec _ _ _ _ hm he
        · rename_i st' c he; simp [emit] at hc; subst hc; exact hexec _ _ _ _ hm he

end Refine

namespace Txt
open Refine (Sem machine)
variable {W : Type}

/-- which world operations a pass in `mode` can perform -/
structure OpsPreserve (Wd : World W) (mode : Mode) (I : W → Prop) : Prop where
  run : mode ≠ .clean → ∀ w c, I w → I (Wd.run w c).2
  writeTemp : mode ≠ .clean → ∀ w t c w', I w → Wd.writeTemp w t c = some w' → I w'
  removeTemp : mode = .clean → ∀ w t w', I w → Wd.removeTemp w t = some w' → I w'

theorem execTemp_inv (Wd : World W) (mode : Mode) (I : W → Prop) (hp : OpsPreserve Wd mode I) (le : Str) (w w' : W)
    (args : List Str) (hI : I w) (h : execTemp Wd le w args (decide (mode = .clean)) = some w') : I w' := by
  unfold execTemp at h
  split at h
  · simp at h
  · split at h
    · simp at h
    · by_cases hm : mode = .clean
      · simp [hm] at h; exact hp.removeTemp hm _ _ _ hI h
      · simp [hm] at h; exact hp.writeTemp hm _ _ _ _ hI h

theorem routeOutput_w (le : Str) (s : PpState W) (ws raw : Str) : (routeOutput le s ws raw).1.w = s.w := by
  unfold routeOutput; split <;> rfl

theorem execDirective_inv (Wd : World W) (mode : Mode) (I : W → Prop) (hp : OpsPreserve Wd mode I) (le : Str)
    (s s' : PpState W) (d : Directive) (o : Option Str) (hI : I s.w)
    (h : execDirective Wd mode le s d = some (s', o)) : I s'.w := by
  unfold execDirective at h
  by_cases hm : mode = .clean
  · simp only [hm, if_true] at h
    cases hty : d.ty <;> simp only [hty] at h <;> (try (simp at h; obtain ⟨h1, _⟩ := h; subst h1; exact hI))
    -- temp
    cases ht : execTemp Wd le s.w d.args true with
    | none => simp [ht] at h; obtain ⟨h1, _⟩ := h; subst h1; exact hI
    | some w' =>
      simp [ht] at h; obtain ⟨h1, _⟩ := h; subst h1
      have := execTemp_inv Wd mode I hp le s.w w' d.args hI (by simpa [hm] using ht)
      exact this
  · simp only [hm, if_false] at h
    -- dependency collection never touches the world
    split at h
    · simp at h
    · rename_i s1 hc
      simp at h; obtain ⟨h1, _⟩ := h; subst h1
      -- s1 differs from s only in `pm`
      have : s1.w = s.w := by
        split at hc
        · simp at hc
        · split at hc
          · split at hc
            · simp at hc
            · split at hc <;> simp at hc <;> subst hc <;> rfl
            · simp at hc
          · simp at hc
      rw [this]; exact hI
    · split at h
      · simp at h; obtain ⟨h1, _⟩ := h; subst h1; exact hI
      · cases hty : d.ty <;> simp only [hty] at h
        · simp at h; obtain ⟨h1, _⟩ := h; subst h1; exact hI
        · -- include
          split at h
          · simp at h
          · have h' := Option.some.inj h
            have e : s' = (routeOutput le s d.ws _).1 := (congrArg Prod.fst h').symm
            rw [e, routeOutput_w]; exact hI
        · simp at h; obtain ⟨h1, _⟩ := h; subst h1; exact hI
        · -- run
          split at h
          · simp at h
          · rename_i out w' hr
            have h' := Option.some.inj h
            have e : s' = (routeOutput le { s with w := w' } d.ws out).1 := (congrArg Prod.fst h').symm
            rw [e, routeOutput_w]
            have := hp.run hm s.w (joinWith [' '] d.args) hI
            rw [hr] at this; exact this
        · -- tag
          split at h
          · simp at h
          · simp at h; obtain ⟨h1, _⟩ := h; subst h1; exact hI
        · -- temp
          split at h
          · simp at h
          · rename_i w' ht
            simp at h; obtain ⟨h1, _⟩ := h; subst h1
            exact execTemp_inv Wd mode I hp le s.w w' d.args hI (by simpa [hm] using ht)
        · -- write
          have h' := Option.some.inj h
          have e : s' = (routeOutput le s d.ws (joinWith ['\n'] d.args)).1 := (congrArg Prod.fst h').symm
          rw [e, routeOutput_w]; exact hI

/-- `I` holds of the world a pass result carries -/
def PassPost (I : W → Prop) : PassResult W → Prop
  | .ok _ w' => I w'
  | .hasDeps _ w' => I w'
  | .err => True

/-- Whatever property of the world the permitted operations preserve holds after a pass
    (successful or interrupted by the discovery of dependencies). -/
theorem ppPass_world_inv (Wd : World W) (mode : Mode) (I : W → Prop) (hp : OpsPreserve Wd mode I)
    (le : Str) (first trailing : Bool) (w : W) (lines : List Str) (hI : I w) :
    PassPost I (ppPass Wd mode le first trailing w lines true) := by
  unfold ppPass
  simp only [Bool.not_true, Bool.false_eq_true, if_false]
  cases hm : machine (txtppSem Wd mode le) trailing ⟨TagState.empty, if first then .firstExec else .exec, w⟩ lines with
  | none => simp [PassPost]
  | some r =>
    obtain ⟨s, out⟩ := r
    have hs : I s.w := by
      apply Refine.machine_inv (txtppSem Wd mode le) (fun s => I s.w) ?_ ?_ trailing _ lines s out hI hm
      · intro s d s' o hj he
        exact execDirective_inv Wd mode I hp le s s' d o hj he
      · intro s l hj
        simp only [txtppSem]
        split <;> exact hj
    simp only
    cases s.pm with
    | collect deps => exact hs
    | firstExec => by_cases hb : (s.tags.hasTags && mode != .clean) = true <;> simp [hb, PassPost] <;> exact hs
    | exec => by_cases hb : (s.tags.hasTags && mode != .clean) = true <;> simp [hb, PassPost] <;> exact hs

end Txt

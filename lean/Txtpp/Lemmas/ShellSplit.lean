import Txtpp.Model.Shell
namespace Txt

theorem splitWhitespace_go_spec (s acc : Str) (hacc : ∀ c ∈ acc, isWs c = false) :
    ∀ t ∈ splitWhitespace.go s acc, t ≠ [] ∧ ∀ c ∈ t, isWs c = false := by
  induction s generalizing acc with
  | nil =>
    intro t ht
    unfold splitWhitespace.go at ht
    split at ht
    · simp at ht
    · rename_i hne
      simp only [List.mem_singleton] at ht
      subst ht
      refine ⟨by simpa using hne, fun c hc => hacc c (by simpa using hc)⟩
  | cons c cs ih =>
    intro t ht
    unfold splitWhitespace.go at ht
    by_cases hw : isWs c = true
    · simp only [hw, if_true] at ht
      split at ht
      · exact ih [] (by simp) t ht
      · rename_i hne
        rcases List.mem_cons.1 ht with rfl | ht
        · exact ⟨by simpa using hne, fun c hc => hacc c (by simpa using hc)⟩
        · exact ih [] (by simp) t ht
    · simp only [hw] at ht
      refine ih (c :: acc) ?_ t ht
      intro x hx
      rcases List.mem_cons.1 hx with rfl | hx
      · simpa using hw
      · exact hacc x hx

/-- every token of `split_whitespace` is non-empty and free of white space -/
theorem splitWhitespace_tokens (s : Str) : ∀ t ∈ splitWhitespace s, t ≠ [] ∧ ∀ c ∈ t, isWs c = false :=
  splitWhitespace_go_spec s [] (by simp)

theorem splitWhitespace_go_blank (s : Str) (h : ∀ c ∈ s, isWs c = true) : splitWhitespace.go s [] = [] := by
  induction s with
  | nil => simp [splitWhitespace.go]
  | cons c cs ih =>
    unfold splitWhitespace.go
    simp [h c (by simp), ih (fun x hx => h x (by simp [hx]))]

/-- a blank shell setting has no tokens -/
theorem splitWhitespace_blank (s : Str) (h : ∀ c ∈ s, isWs c = true) : splitWhitespace s = [] :=
  splitWhitespace_go_blank s h

/-- `Shell::new`: the executable and every fixed argument are non-empty and free of white space (the setting is
    split at white space and nowhere else, no quoting), and a blank setting is the default `sh -c` -/
theorem shellOf_tokens (cmd : Str) :
    (∀ t ∈ (shellOf cmd).1 :: (shellOf cmd).2, t ≠ [] ∧ ∀ c ∈ t, isWs c = false) ∧
    ((∀ c ∈ cmd, isWs c = true) → shellOf cmd = ("sh".toList, ["-c".toList])) := by
  constructor
  · unfold shellOf
    cases h : splitWhitespace cmd with
    | nil => decide
    | cons exe args =>
      intro t ht
      exact splitWhitespace_tokens cmd t (by rw [h]; exact ht)
  · intro hb
    simp [shellOf, splitWhitespace_blank cmd hb]

end Txt

import Txtpp.Model.Shell
namespace Txt

/-- whatever the configured shell and whatever the command contains (blanks, quotes, newlines …): the
    command is exactly one argument, the last one, passed verbatim -/
theorem shellArgv_last (shellCmd command : Str) :
    (shellArgv shellCmd command).getLast? = some command ∧
    (shellArgv shellCmd command).length = (shellOf shellCmd).2.length + 2 := by
  unfold shellArgv
  rcases shellOf shellCmd with ⟨exe, args⟩
  refine ⟨?_, by simp⟩
  have : exe :: (args ++ [command]) = (exe :: args) ++ [command] := rfl
  simp only [this, List.getLast?_append, List.getLast?_singleton]
  rfl

theorem shellOf_default : shellOf [] = ("sh".toList, ["-c".toList]) := rfl

end Txt

import Txtpp.Model.Project
/-! C11: `scan_dir` / the directory walk of `Txtpp::run`, against its specification: the files found
    are exactly the txtpp-named files whose directory is an input directory or (recursive mode) a
    descendant of one, and the fuel given by `runProject` always suffices. -/
namespace Txt

/-- `q` is a sub-directory of `d` as `scan_dir` sees it -/
def IsChild (fs : FS) (d q : Path) : Prop := q ∈ fs.dirs ∧ q ≠ [] ∧ q.dropLast = d

/-- directories reached from the roots (only the roots themselves unless recursive) -/
inductive Desc (fs : FS) (recursive : Bool) (roots : List Path) : Path → Prop
  | root {d} : d ∈ roots → Desc fs recursive roots d
  | child {d q} : recursive = true → Desc fs recursive roots d → IsChild fs d q → Desc fs recursive roots q

/-- `p` is a txtpp source directly inside directory `d` -/
def IsSrcIn (fs : FS) (d p : Path) : Prop :=
  (∃ b, (p, b) ∈ fs.files) ∧ p ≠ [] ∧ p.dropLast = d ∧ ∃ n, p.getLast? = some n ∧ PathName.isTxtppFile n = true

theorem mem_scanDir_files (fs : FS) (r : Bool) (d p : Path) : p ∈ (scanDir fs r d).1 ↔ IsSrcIn fs d p := by
  simp only [scanDir, List.mem_map, List.mem_filter, IsSrcIn]
  constructor
  · rintro ⟨⟨p', b⟩, ⟨hm, hc⟩, rfl⟩
    simp only [Bool.and_eq_true, beq_iff_eq, bne_iff_ne, ne_eq] at hc
    obtain ⟨⟨h1, h2⟩, h3⟩ := hc
    refine ⟨⟨b, hm⟩, h2, h1, ?_⟩
    cases hl : p'.getLast? with
    | none => simp [hl] at h3
    | some n => simp only [hl] at h3; exact ⟨n, rfl, h3⟩
  · rintro ⟨⟨b, hm⟩, h2, h1, n, hn, ht⟩
    refine ⟨(p, b), ⟨hm, ?_⟩, rfl⟩
    simp only [Bool.and_eq_true, beq_iff_eq, bne_iff_ne, ne_eq, hn]
    exact ⟨⟨h1, h2⟩, ht⟩

theorem mem_scanDir_subs (fs : FS) (r : Bool) (d q : Path) : q ∈ (scanDir fs r d).2 ↔ r = true ∧ IsChild fs d q := by
  simp only [scanDir, IsChild]
  cases r with
  | false => simp
  | true =>
    simp only [if_true, List.mem_filter, Bool.and_eq_true, bne_iff_ne, ne_eq, beq_iff_eq, true_and]

/-- soundness: whatever the fuel, every file found is a txtpp source in a directory reached from the queue -/
theorem scanAll_sound (fs : FS) (r : Bool) (roots : List Path) :
    ∀ (fuel : Nat) (ds seen : List Path), (∀ d ∈ ds, Desc fs r roots d) →
      ∀ p ∈ scanAll fs r fuel ds seen, ∃ d, Desc fs r roots d ∧ IsSrcIn fs d p := by
  intro fuel
  induction fuel with
  | zero => intro ds seen _ p hp; simp [scanAll] at hp
  | succ n ih =>
    intro ds seen hds p hp
    cases ds with
    | nil => simp [scanAll] at hp
    | cons d rest =>
      simp only [scanAll] at hp
      split at hp
      · exact ih rest seen (fun x hx => hds x (List.mem_cons_of_mem _ hx)) p hp
      · have hd := hds d List.mem_cons_self
        rcases List.mem_append.1 hp with h1 | h2
        · exact ⟨d, hd, (mem_scanDir_files fs r d p).1 h1⟩
        · apply ih (rest ++ (scanDir fs r d).2) (d :: seen) ?_ p h2
          intro x hx
          rcases List.mem_append.1 hx with hx | hx
          · exact hds x (List.mem_cons_of_mem _ hx)
          · obtain ⟨hr, hc⟩ := (mem_scanDir_subs fs r d x).1 hx
            exact Desc.child hr hd hc

/-- sub-directories not yet handed to the queue: those whose parent has not been scanned -/
def unscannedP (seen : List Path) (q : Path) : Bool := q != [] && !(seen.contains q.dropLast)
def childP (d : Path) (q : Path) : Bool := q != [] && q.dropLast == d
def unscanned (fs : FS) (seen : List Path) : List Path := fs.dirs.filter (unscannedP seen)

theorem count_split (l : List Path) (seen : List Path) (d : Path) (hd : d ∉ seen) :
    (l.filter (unscannedP (d :: seen))).length + (l.filter (childP d)).length = (l.filter (unscannedP seen)).length := by
  unfold unscannedP childP
  induction l with
  | nil => rfl
  | cons q rest ih =>
    simp only [List.filter_cons]
    by_cases hq : q = []
    · simp [hq]; simpa using ih
    · have hq' : (q != []) = true := by simpa using hq
      simp only [hq', Bool.true_and]
      by_cases hpd : q.dropLast = d
      · have h1 : (d :: seen).contains q.dropLast = true := by simp [hpd]
        have h2 : seen.contains q.dropLast = false := by
          rw [hpd]; simpa using hd
        have h3 : (q.dropLast == d) = true := by simpa using hpd
        simp only [h1, h2, h3, Bool.not_true, Bool.not_false, Bool.false_eq_true, if_false, if_true, List.length_cons]
        omega
      · have h3 : (q.dropLast == d) = false := by simpa using hpd
        have h4 : (d :: seen).contains q.dropLast = seen.contains q.dropLast := by
          simp only [List.contains_cons, h3, Bool.false_or]
        simp only [h3, h4, Bool.false_eq_true, if_false]
        by_cases hs : seen.contains q.dropLast = true
        · simp only [hs, Bool.not_true, Bool.false_eq_true, if_false]; exact ih
        · have hs' : seen.contains q.dropLast = false := by simpa using hs
          simp only [hs', Bool.not_false, if_true, List.length_cons]; omega

theorem subs_length (fs : FS) (r : Bool) (d : Path) :
    (scanDir fs r d).2.length ≤ (fs.dirs.filter (childP d)).length := by
  simp only [scanDir]
  cases r with
  | false => simp
  | true => exact Nat.le_refl _

/-- the worklist lemma: with enough fuel the walk ends with a set `V` of visited directories that
    contains the queue and everything seen before, and every directory newly visited has had its
    files emitted and its sub-directories visited -/
theorem scanAll_visits (fs : FS) (r : Bool) :
    ∀ (fuel : Nat) (ds seen : List Path), ds.length + (unscanned fs seen).length < fuel →
      ∃ V : List Path, (∀ x ∈ seen, x ∈ V) ∧ (∀ x ∈ ds, x ∈ V) ∧
        ∀ d ∈ V, d ∉ seen → (∀ p, IsSrcIn fs d p → p ∈ scanAll fs r fuel ds seen) ∧
          (∀ q, r = true → IsChild fs d q → q ∈ V) := by
  intro fuel
  induction fuel with
  | zero => intro ds seen h; omega
  | succ n ih =>
    intro ds seen hfuel
    cases ds with
    | nil =>
      exact ⟨seen, fun x hx => hx, fun x hx => by simp at hx, fun d hd hnd => absurd hd hnd⟩
    | cons d rest =>
      by_cases hs : seen.contains d = true
      · obtain ⟨V, h1, h2, h3⟩ := ih rest seen (by simp only [List.length_cons] at hfuel; omega)
        refine ⟨V, h1, ?_, ?_⟩
        · intro x hx
          rcases List.mem_cons.1 hx with rfl | hx
          · exact h1 x (by simpa using hs)
          · exact h2 x hx
        · intro x hx hnx
          simp only [scanAll, hs, if_true]
          exact h3 x hx hnx
      · have hd : d ∉ seen := by simpa using hs
        have hcount := count_split fs.dirs seen d hd
        have hsub := subs_length fs r d
        obtain ⟨V, h1, h2, h3⟩ := ih (rest ++ (scanDir fs r d).2) (d :: seen) (by
          simp only [List.length_cons, List.length_append, unscanned] at hfuel ⊢
          omega)
        refine ⟨V, fun x hx => h1 x (List.mem_cons_of_mem _ hx), ?_, ?_⟩
        · intro x hx
          rcases List.mem_cons.1 hx with rfl | hx
          · exact h1 x List.mem_cons_self
          · exact h2 x (List.mem_append_left _ hx)
        · intro x hx hnx
          simp only [scanAll, hs, Bool.false_eq_true, if_false]
          by_cases hxd : x = d
          · subst hxd
            refine ⟨fun p hp => List.mem_append_left _ ((mem_scanDir_files fs r x p).2 hp), fun q hr hc => ?_⟩
            exact h2 q (List.mem_append_right _ ((mem_scanDir_subs fs r x q).2 ⟨hr, hc⟩))
          · obtain ⟨g1, g2⟩ := h3 x hx (by simp [hxd, hnx])
            exact ⟨fun p hp => List.mem_append_right _ (g1 p hp), g2⟩

/-- completeness: started from the input directories with the fuel `runProject` gives, every txtpp
    source in an input directory (or, recursive, below one) is found -/
theorem scanAll_complete (fs : FS) (r : Bool) (roots : List Path) (fuel : Nat) (hf : roots.length + fs.dirs.length < fuel)
    (d p : Path) (hd : Desc fs r roots d) (hp : IsSrcIn fs d p) : p ∈ scanAll fs r fuel roots [] := by
  have hu : (unscanned fs []).length ≤ fs.dirs.length := by
    simp only [unscanned]; exact List.length_filter_le _ _
  obtain ⟨V, _, h2, h3⟩ := scanAll_visits fs r fuel roots [] (by omega)
  have hV : ∀ x, Desc fs r roots x → x ∈ V := by
    intro x hx
    induction hx with
    | root hm => exact h2 _ hm
    | child hr _ hc ih => exact (h3 _ ih (by simp)).2 _ hr hc
  exact (h3 d (hV d hd) (by simp)).1 p hp

/-- **`scan_dir` specification**: the sources found by walking the input directories are exactly the
    txtpp-named files directly inside an input directory or, in recursive mode, inside a directory
    below one -/
theorem scanAll_spec (fs : FS) (r : Bool) (roots : List Path) (p : Path) :
    p ∈ scanAll fs r (fs.dirs.length + roots.length + 2) roots [] ↔ ∃ d, Desc fs r roots d ∧ IsSrcIn fs d p := by
  constructor
  · exact scanAll_sound fs r roots _ roots [] (fun d hd => Desc.root hd) p
  · rintro ⟨d, hd, hp⟩
    exact scanAll_complete fs r roots _ (by omega) d p hd hp
end Txt

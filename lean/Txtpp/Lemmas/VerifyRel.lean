import Txtpp.Lemmas.NeededRel
/-! C06: a verify pass succeeds exactly when a build pass of the same source from the same tree
    succeeds and leaves the output file with the bytes it already has. -/
namespace Txt
open Refine (Block)
variable {W : Type}

theorem execDirective_verify (Wd : World W) (le : Str) (s : PpState W) (d : Directive) :
    execDirective Wd .verify le s d = execDirective Wd .build le s d := by
  unfold execDirective
  simp

theorem txtppSem_verify (Wd : World W) (le : Str) : txtppSem Wd .verify le = txtppSem Wd .build le := by
  unfold txtppSem
  congr 1

/-- what a pass computes does not depend on build vs verify -/
theorem ppPass_verify (Wd : World W) (le : Str) (first trailing : Bool) (w : W) (lines : List Str) (readOk : Bool) :
    ppPass Wd .verify le first trailing w lines readOk = ppPass Wd .build le first trailing w lines readOk := by
  unfold ppPass
  rw [txtppSem_verify]
  simp

theorem tempTarget_dirWrites (cfg : Cfg) (a : FS) (wd : Path) (lines : List Str) (bs : List (Block Directive))
    (hbs : srcBlocks cfg.mode lines = some bs) (p : Path) (h : TempTarget cfg a wd lines p) :
    ∃ d e, Block.dir d e ∈ bs ∧ dirWrites cfg a wd d = some p := by
  obtain ⟨bs', d, e, t, body, h1, h2, h3, h4, h5, h6⟩ := h
  rw [hbs] at h1; cases h1
  refine ⟨d, e, h2, ?_⟩
  simp only [dirWrites, h3, if_true, h4, h5, Bool.false_eq_true, if_false]
  exact h6

def Cfg.toVerify (cfg : Cfg) : Cfg := { cfg with mode := .verify }

/-- **C06, one pass**: verify succeeds iff a build pass from the same tree succeeds and writes to
    the output path exactly the bytes that are already there -/
theorem verify_pass_iff (cfg : Cfg) (hb : cfg.mode = .build) (a : FS) (src : Path) (first : Bool)
    (content : ByteArray) (o : Path) (bs : List (Block Directive))
    (hfile : a.file? src = some content) (hout : outputPath src = some o) (hnd : a.isDir o = false)
    (hbs : srcBlocks .build (decodeLines (byteLines content.toList)).1 = some bs)
    (hsafe : Safe cfg a src.dropLast bs [o]) (hprobes : ProbesOK cfg a src.dropLast [o] bs)
    (hnot : ∀ d e, Block.dir d e ∈ bs → dirWrites cfg a src.dropLast d ≠ some o) :
    (runPass cfg.toVerify a src first).1 = .ok ↔
      ((runPass cfg a src first).1 = .ok ∧ (runPass cfg a src first).2.file? o = a.file? o) := by
  unfold runPass
  simp only [hfile, hout]
  unfold runPassAt
  have hmV : cfg.toVerify.mode = .verify := rfl
  have hfw : fileWorld cfg.toVerify src.dropLast (joinPath src) = fileWorld cfg src.dropLast (joinPath src) :=
    fileWorld_congr cfg cfg.toVerify rfl rfl _ _
  have htr : cfg.toVerify.trailing = cfg.trailing := rfl
  rw [hmV, hb, hfw, htr]
  simp only [ppPass_verify]
  simp only [sinkStart, hnd, Bool.false_eq_true, if_false]
  have hpe : a.pathExists o = a.isFile o := by simp [FS.pathExists, hnd]
  rw [hpe]
  cases hf : a.isFile o with
  | false =>
    simp only [Bool.false_eq_true, if_false]
    have hnone : a.file? o = none := by
      simp only [FS.isFile] at hf
      cases hx : a.file? o with
      | none => rfl
      | some b => simp [hx] at hf
    constructor
    · intro h; simp at h
    · rintro ⟨h1, h2⟩
      rcases hr : ppPass (fileWorld cfg src.dropLast (joinPath src)) .build (sniffLE content.toList) first cfg.trailing
          (a.write o ByteArray.empty) (decodeLines (byteLines content.toList)).1 (decodeLines (byteLines content.toList)).2 with _ | _ | _
      · simp only [hr, sinkEnd] at h2
        rw [hnone] at h2
        simp at h2
      · simp only [hr] at h1; cases h1
      · simp only [hr] at h1; cases h1
  | true =>
    simp only [if_true]
    have hag1 : Agree [o] (a.write o ByteArray.empty) a := agree_cons_write (S := []) ⟨rfl, fun _ _ => rfl⟩ o _
    have hrel := ppPass_rel cfg src.dropLast (joinPath src) .build (by decide) (sniffLE content.toList) first cfg.trailing a
      (a.write o ByteArray.empty) a [o] (decodeLines (byteLines content.toList)).1
      (decodeLines (byteLines content.toList)).2 bs hbs rfl hag1 hsafe hprobes
    have hsc := ppPass_scope cfg src.dropLast (joinPath src) (sniffLE content.toList) first a a
      (TempTarget cfg a src.dropLast (decodeLines (byteLines content.toList)).1) (decodeLines (byteLines content.toList)).1
      (decodeLines (byteLines content.toList)).2 (Scope.refl a _) (fun _ hp => hp)
    rw [hb] at hsc
    have hnt : ¬ TempTarget cfg a src.dropLast (decodeLines (byteLines content.toList)).1 o := by
      intro ht
      obtain ⟨d, e, hm, hw⟩ := tempTarget_dirWrites cfg a src.dropLast _ bs (by rw [hb]; exact hbs) o ht
      exact hnot d e hm hw
    rcases hra : ppPass (fileWorld cfg src.dropLast (joinPath src)) .build (sniffLE content.toList) first cfg.trailing
        (a.write o ByteArray.empty) (decodeLines (byteLines content.toList)).1 (decodeLines (byteLines content.toList)).2 with _ | _ | _ <;>
    rcases hrb : ppPass (fileWorld cfg src.dropLast (joinPath src)) .build (sniffLE content.toList) first cfg.trailing a
        (decodeLines (byteLines content.toList)).1 (decodeLines (byteLines content.toList)).2 with _ | _ | _ <;>
    rw [hra, hrb] at hrel <;> simp only [PassResRel] at hrel
    · rename_i oa a2 ob b2
      obtain ⟨h1, _, _, _⟩ := hrel
      subst h1
      rw [hrb] at hsc
      have hb2 : b2.file? o = a.file? o := hsc.2.2 o hnt
      simp only [sinkEnd]
      rw [hb2]
      constructor
      · intro h
        by_cases he : a.file? o = some (encodeUtf8 oa)
        · exact ⟨trivial, by rw [he]; simp⟩
        · simp [he] at h
      · rintro ⟨_, h2⟩
        have : a.file? o = some (encodeUtf8 oa) := by rw [← h2]; simp
        simp [this]
    · simp
    · simp
/-- where the executable side condition answers `true`: verify passes iff the output is up to date -/
theorem verify_iff_where_checked (cfg : Cfg) (hb : cfg.mode = .build) (a : FS) (src : Path) (first : Bool)
    (hs : srcSafeB cfg a src = some true) :
    ∃ o, outputPath src = some o ∧
      ((runPass cfg.toVerify a src first).1 = .ok ↔
        ((runPass cfg a src first).1 = .ok ∧ (runPass cfg a src first).2.file? o = a.file? o)) := by
  obtain ⟨content, o, bs, hfile, hout, hbs, _, hsafe, hprobes⟩ := srcSafeB_spec cfg a src hs
  obtain ⟨hnd, hnot⟩ := srcSafeB_output cfg a src hs o hout
  have hnot' := hnot content bs hfile hbs
  rw [hb] at hbs
  exact ⟨o, hout, verify_pass_iff cfg hb a src first content o bs hfile hout hnd hbs
    (Safe.mono cfg a _ bs _ _ (singleton_sub_generated cfg a _ o bs) hsafe)
    (ProbesOK.mono cfg a _ bs _ _ (singleton_sub_generated cfg a _ o bs) hprobes) hnot'⟩

end Txt

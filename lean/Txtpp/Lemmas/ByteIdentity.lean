import Txtpp.Lemmas.ByteLines
/-! Byte-level facts about UTF-8 text split into lines: the encoding of a line without CR / LF contains
    neither byte 13 nor byte 10, decoding inverts encoding, and `BufRead::lines` on "lines each followed
    by the same line ending" gives back exactly those lines. Used for the byte-for-byte identity of C16. -/

theorem ByteArray.toList_loop_eq (bs : ByteArray) (i : Nat) (r : List UInt8) (hi : i ≤ bs.size) :
    ByteArray.toList.loop bs i r = r.reverse ++ bs.data.toList.drop i := by
  have hsz : bs.data.toList.length = bs.size := by
    rw [Array.length_toList]; rfl
  induction h : bs.size - i generalizing i r with
  | zero =>
    have : i = bs.size := by omega
    subst this
    rw [ByteArray.toList.loop]
    have : ¬ (bs.size < bs.size) := Nat.lt_irrefl _
    rw [if_neg this, List.drop_of_length_le (by omega)]
    exact (List.append_nil _).symm
  | succ n ih =>
    rw [ByteArray.toList.loop]
    have hlt : i < bs.size := by omega
    rw [if_pos hlt, ih (i + 1) _ (by omega) (by omega)]
    have hlt' : i < bs.data.toList.length := by omega
    rw [List.drop_eq_getElem_cons hlt']
    have hg : bs.get! i = bs.data.toList[i] := by
      show bs.data[i]! = _
      rw [getElem!_pos bs.data i (by rw [← Array.length_toList]; exact hlt')]
      exact (Array.getElem_toList _).symm
    rw [hg, List.reverse_cons, List.append_assoc]
    rfl

theorem ByteArray.toList_eq (bs : ByteArray) : bs.toList = bs.data.toList := by
  unfold ByteArray.toList
  rw [ByteArray.toList_loop_eq bs 0 [] (Nat.zero_le _)]
  rfl

namespace Txt

theorem or80_ne (a : UInt8) : a ||| 0x80 ≠ 10 ∧ a ||| 0x80 ≠ 13 := by
  have h : ∀ n : Fin 256, (UInt8.ofNat n.val ||| 0x80) ≠ 10 ∧ (UInt8.ofNat n.val ||| 0x80) ≠ 13 := by decide +kernel
  have := h ⟨a.toNat, a.toNat_lt⟩
  simpa using this
theorem orC0_ne (a : UInt8) : a ||| 0xc0 ≠ 10 ∧ a ||| 0xc0 ≠ 13 := by
  have h : ∀ n : Fin 256, (UInt8.ofNat n.val ||| 0xc0) ≠ 10 ∧ (UInt8.ofNat n.val ||| 0xc0) ≠ 13 := by decide +kernel
  have := h ⟨a.toNat, a.toNat_lt⟩
  simpa using this
theorem orE0_ne (a : UInt8) : a ||| 0xe0 ≠ 10 ∧ a ||| 0xe0 ≠ 13 := by
  have h : ∀ n : Fin 256, (UInt8.ofNat n.val ||| 0xe0) ≠ 10 ∧ (UInt8.ofNat n.val ||| 0xe0) ≠ 13 := by decide +kernel
  have := h ⟨a.toNat, a.toNat_lt⟩
  simpa using this
theorem orF0_ne (a : UInt8) : a ||| 0xf0 ≠ 10 ∧ a ||| 0xf0 ≠ 13 := by
  have h : ∀ n : Fin 256, (UInt8.ofNat n.val ||| 0xf0) ≠ 10 ∧ (UInt8.ofNat n.val ||| 0xf0) ≠ 13 := by decide +kernel
  have := h ⟨a.toNat, a.toNat_lt⟩
  simpa using this

/-- a byte 10 / 13 in the UTF-8 encoding of a character is that character itself being LF / CR -/
theorem encodeChar_nl (c : Char) (b : UInt8) (hb : b ∈ String.utf8EncodeChar c) :
    (b = 10 → c = '\n') ∧ (b = 13 → c = '\r') := by
  rcases Char.utf8Size_eq c with h | h | h | h
  · rw [String.utf8EncodeChar_eq_singleton h] at hb
    simp only [List.mem_singleton] at hb
    have hle : c.val ≤ 127 := Char.utf8Size_eq_one_iff.1 h
    have hlt : c.val.toNat < 128 := by
      have := UInt32.le_iff_toNat_le.1 hle
      have h127 : (127 : UInt32).toNat = 127 := rfl
      omega
    constructor
    · intro h10
      rw [h10] at hb
      apply Char.ext
      apply UInt32.toNat_inj.1
      have : (c.val.toUInt8).toNat = 10 := by rw [← hb]; rfl
      simp only [UInt32.toNat_toUInt8] at this
      have h2 : c.val.toNat % 256 = c.val.toNat := Nat.mod_eq_of_lt (by omega)
      rw [h2] at this
      rw [this]; rfl
    · intro h13
      rw [h13] at hb
      apply Char.ext
      apply UInt32.toNat_inj.1
      have : (c.val.toUInt8).toNat = 13 := by rw [← hb]; rfl
      simp only [UInt32.toNat_toUInt8] at this
      have h2 : c.val.toNat % 256 = c.val.toNat := Nat.mod_eq_of_lt (by omega)
      rw [h2] at this
      rw [this]; rfl
  · rw [String.utf8EncodeChar_eq_cons_cons h] at hb
    simp only [List.mem_cons, List.not_mem_nil, or_false] at hb
    rcases hb with rfl | rfl
    · exact ⟨fun e => absurd e (orC0_ne _).1, fun e => absurd e (orC0_ne _).2⟩
    · exact ⟨fun e => absurd e (or80_ne _).1, fun e => absurd e (or80_ne _).2⟩
  · rw [String.utf8EncodeChar_eq_cons_cons_cons h] at hb
    simp only [List.mem_cons, List.not_mem_nil, or_false] at hb
    rcases hb with rfl | rfl | rfl
    · exact ⟨fun e => absurd e (orE0_ne _).1, fun e => absurd e (orE0_ne _).2⟩
    · exact ⟨fun e => absurd e (or80_ne _).1, fun e => absurd e (or80_ne _).2⟩
    · exact ⟨fun e => absurd e (or80_ne _).1, fun e => absurd e (or80_ne _).2⟩
  · rw [String.utf8EncodeChar_eq_cons_cons_cons_cons h] at hb
    simp only [List.mem_cons, List.not_mem_nil, or_false] at hb
    rcases hb with rfl | rfl | rfl | rfl
    · exact ⟨fun e => absurd e (orF0_ne _).1, fun e => absurd e (orF0_ne _).2⟩
    · exact ⟨fun e => absurd e (or80_ne _).1, fun e => absurd e (or80_ne _).2⟩
    · exact ⟨fun e => absurd e (or80_ne _).1, fun e => absurd e (or80_ne _).2⟩
    · exact ⟨fun e => absurd e (or80_ne _).1, fun e => absurd e (or80_ne _).2⟩

theorem mem_encode_inv (l : List Char) (b : UInt8) (hb : b ∈ l.utf8Encode.data.toList) :
    ∃ c ∈ l, b ∈ String.utf8EncodeChar c := by
  induction l with
  | nil => simp at hb
  | cons x xs ih =>
    rw [List.utf8Encode_cons, ByteArray.data_append, List.utf8Encode_singleton] at hb
    simp only [Array.toList_append, List.mem_append] at hb
    rcases hb with hb | hb
    · exact ⟨x, List.mem_cons_self, by simpa using hb⟩
    · obtain ⟨c, hc, hcb⟩ := ih hb
      exact ⟨c, List.mem_cons_of_mem _ hc, hcb⟩

/-- the bytes of the encoding of a line without CR / LF contain neither 13 nor 10 -/
theorem encode_clean (l : Str) (h : Clean l) :
    (10 : UInt8) ∉ (encodeUtf8 l).data.toList ∧ (13 : UInt8) ∉ (encodeUtf8 l).data.toList := by
  have he : (encodeUtf8 l) = l.utf8Encode := by
    simp [encodeUtf8, String.toUTF8]
  rw [he]
  constructor
  · intro hm
    obtain ⟨c, hc, hcb⟩ := mem_encode_inv l 10 hm
    have := (encodeChar_nl c 10 hcb).1 rfl
    exact h.2 (this ▸ hc)
  · intro hm
    obtain ⟨c, hc, hcb⟩ := mem_encode_inv l 13 hm
    have := (encodeChar_nl c 13 hcb).2 rfl
    exact h.1 (this ▸ hc)

/-- decoding inverts encoding -/
theorem decode_encode (l : Str) : decodeUtf8 (encodeUtf8 l) = some l := by
  have he : (encodeUtf8 l) = l.utf8Encode := by
    simp [encodeUtf8, String.toUTF8]
  rw [he]
  unfold decodeUtf8 String.fromUTF8?
  have hv : l.utf8Encode.IsValidUTF8 := ByteArray.isValidUTF8_utf8Encode
  simp only [hv, dite_true, Option.map_some, Option.some.injEq]
  have : (String.fromUTF8 l.utf8Encode hv) = String.ofList l := by
    apply String.toByteArray_inj.1
    rw [String.toByteArray_ofList]
    rfl
  rw [this]; simp


def lineBytes (l : Str) : List UInt8 := (encodeUtf8 l).data.toList

/-- what the splitting loop emits when it meets byte 10 with `acc` (reversed) collected: one byte 13 in
    front of the 10 belongs to the terminator -/
def fin13 (acc : List UInt8) : List UInt8 := if acc.head? == some 13 then acc.tail.reverse else acc.reverse

/-- the splitting loop on a piece without byte 10 followed by byte 10 -/
theorem go_piece (x rest acc : List UInt8) (hx : (10 : UInt8) ∉ x) :
    byteLines.go (x ++ 10 :: rest) acc = fin13 (x.reverse ++ acc) :: byteLines.go rest [] := by
  induction x generalizing acc with
  | nil => simp [byteLines.go, fin13]
  | cons b bs ih =>
    have hb : b ≠ 10 := fun e => hx (by simp [e])
    have hbs : (10 : UInt8) ∉ bs := fun hm => hx (List.mem_cons_of_mem _ hm)
    simp only [List.cons_append]
    rw [byteLines.go]
    · rw [ih (b :: acc) hbs]; simp
    · exact hb

theorem fin13_clean (x : List UInt8) (h : (13 : UInt8) ∉ x) : fin13 (x.reverse ++ []) = x := by
  unfold fin13
  simp only [List.append_nil]
  cases hl : x.reverse.head? with
  | none => simp
  | some b =>
    have hb : b ∈ x := by
      have := List.mem_of_mem_head? hl
      simpa using this
    have : b ≠ 13 := fun e => h (e ▸ hb)
    simp [this]

theorem fin13_cr (x : List UInt8) : fin13 ((x ++ [13]).reverse ++ []) = x := by
  unfold fin13; simp

/-- a source made of the lines `lines`, each terminated by the same line ending -/
def srcBytes (crlf : Bool) (lines : List Str) : List UInt8 :=
  lines.flatMap (fun l => lineBytes l ++ (if crlf then [13, 10] else [10]))

def leOf (crlf : Bool) : Str := if crlf then ['\r', '\n'] else ['\n']

theorem lineBytes_append (a b : Str) : lineBytes (a ++ b) = lineBytes a ++ lineBytes b := by
  have he : ∀ l : Str, encodeUtf8 l = l.utf8Encode := by intro l; simp [encodeUtf8, String.toUTF8]
  simp only [lineBytes, he, List.utf8Encode_append, ByteArray.data_append, Array.toList_append]

theorem lineBytes_le (crlf : Bool) : lineBytes (leOf crlf) = if crlf then [13, 10] else [10] := by
  cases crlf <;> rfl

theorem go_src (crlf : Bool) (lines : List Str) (hc : ∀ l ∈ lines, Clean l) :
    byteLines.go (srcBytes crlf lines) [] = lines.map lineBytes := by
  induction lines with
  | nil => simp [srcBytes, byteLines.go]
  | cons l ls ih =>
    have hcl := encode_clean l (hc l List.mem_cons_self)
    have hx : (10 : UInt8) ∉ lineBytes l ++ (if crlf then [13] else []) := by
      intro hm
      rcases List.mem_append.1 hm with h | h
      · exact hcl.1 h
      · cases crlf <;> simp at h
    have hsplit : srcBytes crlf (l :: ls) = (lineBytes l ++ (if crlf then [13] else [])) ++ 10 :: srcBytes crlf ls := by
      cases crlf <;> simp [srcBytes]
    rw [hsplit, go_piece _ _ [] hx, ih (fun l' h' => hc l' (List.mem_cons_of_mem _ h'))]
    simp only [List.map_cons, List.cons.injEq, and_true]
    cases crlf with
    | true => simp only [if_true]; exact fin13_cr _
    | false =>
      simp only [Bool.false_eq_true, if_false, List.append_nil]
      have := fin13_clean (lineBytes l) hcl.2
      simpa using this

theorem byteLines_src (crlf : Bool) (lines : List Str) (hc : ∀ l ∈ lines, Clean l) :
    byteLines (srcBytes crlf lines) = lines.map lineBytes := by
  cases lines with
  | nil => rfl
  | cons l ls =>
    have hne : srcBytes crlf (l :: ls) ≠ [] := by cases crlf <;> simp [srcBytes]
    have hb : byteLines (srcBytes crlf (l :: ls)) = byteLines.go (srcBytes crlf (l :: ls)) [] := by
      cases hs : srcBytes crlf (l :: ls) with
      | nil => exact absurd hs hne
      | cons b bs => rfl
    rw [hb, go_src crlf (l :: ls) hc]

theorem decodeLines_src (lines : List Str) : decodeLines (lines.map lineBytes) = (lines, true) := by
  induction lines with
  | nil => rfl
  | cons l ls ih =>
    simp only [List.map_cons, decodeLines]
    have : (ByteArray.mk (lineBytes l).toArray) = encodeUtf8 l := by
      simp [lineBytes]
    rw [this, decode_encode, ih]

theorem sniffLE_src (crlf : Bool) (l : Str) (ls : List Str) (hc : Clean l) : sniffLE (srcBytes crlf (l :: ls)) = leOf crlf := by
  have hcl := encode_clean l hc
  have hsplit : srcBytes crlf (l :: ls) = (lineBytes l ++ (if crlf then [13] else [])) ++ 10 :: srcBytes crlf ls := by
    cases crlf <;> simp [srcBytes]
  have hx : ∀ b ∈ lineBytes l ++ (if crlf then [13] else []), (b != 10) = true := by
    intro b hb
    rcases List.mem_append.1 hb with h | h
    · have hne : b ≠ 10 := fun e => hcl.1 (e ▸ h)
      simpa using hne
    · cases crlf <;> simp at h
      subst h; decide
  unfold sniffLE
  rw [hsplit, List.takeWhile_append_of_pos hx]
  simp only [List.takeWhile_cons, bne_self_eq_false, Bool.false_eq_true, if_false, List.append_nil]
  have hlen : (lineBytes l ++ (if crlf then [13] else [])).length < ((lineBytes l ++ (if crlf then [13] else [])) ++ 10 :: srcBytes crlf ls).length := by
    simp
  simp only [hlen, decide_true, Bool.true_and]
  cases crlf with
  | true => simp [leOf]
  | false =>
    simp only [Bool.false_eq_true, if_false, List.append_nil, leOf]
    have : ((lineBytes l).getLast? == some 13) = false := by
      cases hl : (lineBytes l).getLast? with
      | none => rfl
      | some b =>
        have hb : b ∈ lineBytes l := List.mem_of_getLast? hl
        have : b ≠ 13 := fun e => hcl.2 (e ▸ hb)
        simp [this]
    simp [this]

/-- the text the pass emits for plain lines (each followed by the line ending) encodes to the source bytes -/
theorem encode_joined (crlf : Bool) (lines : List Str) (hne : lines ≠ []) :
    lineBytes (joinWith (leOf crlf) lines ++ leOf crlf) = srcBytes crlf lines := by
  induction lines with
  | nil => exact absurd rfl hne
  | cons l ls ih =>
    cases ls with
    | nil => simp [joinWith, srcBytes, lineBytes_append, lineBytes_le]
    | cons l2 ls2 =>
      have := ih (by simp)
      simp only [joinWith, List.append_assoc, lineBytes_append, lineBytes_le] at this ⊢
      simp only [srcBytes, List.flatMap_cons] at this ⊢
      rw [← this]
      simp [List.append_assoc]

end Txt

import Txtpp.Lemmas.CoordInv
namespace Coord

/-- first pass of `a` reported dependencies -/
theorem hasDeps_preserves (w : World) (s : St) (a : File) (hI : Inv w s)
    (ht : Task.pp a true ∈ s.pool) (hne : w.deps a ≠ []) :
    ∃ s', handle { s with pool := s.pool.erase (Task.pp a true) } (.hasDeps a (w.deps a)) = .cont s' ∧ Inv w s' := by
  obtain ⟨hnoSecond, haW, haF⟩ := hI.ex1 a ht
  have haS : a ∈ s.seen := hI.poolSeen _ _ ht
  have hcnt0 : s.dm.cnt a = none := hI.cntP1 a ht
  obtain ⟨hin, hadded, L, hL, hLm, hLc⟩ := addDepLoop_spec a (w.deps a) s.dm.inE s.dm.fin 0 false
  -- simplify the membership of L using that `a` waits for nothing yet
  have hLm' : ∀ d, d ∈ L ↔ d ∈ w.deps a ∧ d ∉ s.dm.fin := by
    intro d; rw [hLm d]; simp [haW d]
  have hin' : ∀ d x, x ∈ (addDepLoop a (w.deps a) s.dm.inE s.dm.fin 0 false).1 d ↔
      (x = a ∧ d ∈ L) ∨ x ∈ s.dm.inE d := by
    intro d x; rw [hin d]
    by_cases hd : d ∈ w.deps a ∧ d ∉ s.dm.fin ∧ a ∉ s.dm.inE d
    · simp [hd, hLm' d, hd.1, hd.2.1]
    · have : d ∉ L := by rw [hLm d]; exact hd
      simp [hd, this]
  let r := addDepLoop a (w.deps a) s.dm.inE s.dm.fin 0 false
  let dm' : DepMgr := { s.dm with inE := r.1, cnt := upd s.dm.cnt a (some r.2.1) }
  have haddDep : addDependency s.dm a (w.deps a) = (dm', r.2.2) := by
    simp [addDependency, hne, hcnt0, dm', r]
  let s0 : St := { s with pool := s.pool.erase (Task.pp a true), done := s.done + 1, dm := dm' }
  have hpool0 : s0.pool.Nodup := hI.poolND.erase _
  have hpoolmem0 : ∀ u, u ∈ s0.pool ↔ u ≠ Task.pp a true ∧ u ∈ s.pool := by
    intro u; simp only [s0]; rw [mem_erase_nodup hI.poolND]
  have hps0 : ∀ f b, Task.pp f b ∈ s0.pool → f ∈ s0.seen := by
    intro f b hm; exact hI.poolSeen f b ((hpoolmem0 _).1 hm).2
  have hacct0 : s0.total = s0.done + s0.pool.length := by
    have hlen : (s.pool.erase (Task.pp a true)).length + 1 = s.pool.length := by
      rw [List.length_erase_of_mem ht]; have := List.length_pos_of_mem ht; omega
    simp [s0]; have := hI.acct; omega
  have hfin' : dm'.fin = s.dm.fin := rfl
  have hcnt' : ∀ x, x ≠ a → dm'.cnt x = s.dm.cnt x := by intro x hx; simp [dm', upd_other _ _ _ _ hx]
  have hcnta : dm'.cnt a = some L.length := by simp [dm', r, hLc]
  have hinE' : ∀ d x, x ∈ dm'.inE d ↔ (x = a ∧ d ∈ L) ∨ x ∈ s.dm.inE d := hin'
  by_cases hadd : r.2.2 = true
  · -- some dependency is unfinished: `a` waits, the dependencies are scheduled
    have hLne : ∃ d, d ∈ L := by
      rw [hadded] at hadd; simp at hadd
      obtain ⟨d, hd, hdf⟩ := hadd
      exact ⟨d, (hLm' d).2 ⟨hd, hdf⟩⟩
    obtain ⟨e1, e2, e3, e4, e5⟩ := execFiles_first s0 (w.deps a) hI.seenND hpool0 hps0
    refine ⟨execFiles s0 (w.deps a) true, ?_, ?_⟩
    · simp only [handle, haddDep, hadd, if_true]; rfl
    · have hdm : (execFiles s0 (w.deps a) true).dm = dm' := by rw [execFiles_dm]
      have hpoolmem : ∀ u, u ∈ (execFiles s0 (w.deps a) true).pool ↔
          (u ≠ Task.pp a true ∧ u ∈ s.pool) ∨ ∃ f ∈ w.deps a, f ∉ s.seen ∧ u = Task.pp f true := by
        intro u; rw [e4 u, hpoolmem0]
      have hseen : ∀ x, x ∈ (execFiles s0 (w.deps a) true).seen ↔ x ∈ s.seen ∨ x ∈ w.deps a := e3
      constructor
      · exact execFiles_acct _ _ _ hacct0
      · exact e1
      · exact e2
      · rw [hdm]; exact hI.finND
      · exact e5
      · intro f hf; rw [hdm] at hf; rw [hseen]; exact Or.inl (hI.finSeen f hf)
      · -- cover
        intro f hf; rw [hseen] at hf; simp only [hpoolmem, hdm, hinE', hfin']
        by_cases hfa : f = a
        · subst hfa; obtain ⟨d, hd⟩ := hLne
          exact Or.inr (Or.inr (Or.inl ⟨d, Or.inl ⟨rfl, hd⟩⟩))
        · by_cases hfs : f ∈ s.seen
          · rcases hI.cover f hfs with h | h | ⟨d, hd⟩ | h
            · exact Or.inl (Or.inl ⟨by simpa using hfa, h⟩)
            · exact Or.inr (Or.inl (Or.inl ⟨by simp, h⟩))
            · exact Or.inr (Or.inr (Or.inl ⟨d, Or.inr hd⟩))
            · exact Or.inr (Or.inr (Or.inr h))
          · rcases hf with hf | hf
            · exact absurd hf hfs
            · exact Or.inl (Or.inr ⟨f, hf, hfs, rfl⟩)
      · -- ex1
        intro f hm; simp only [hpoolmem, hdm, hinE', hfin'] at hm ⊢
        rcases hm with ⟨hne', hm⟩ | ⟨g, hg, hgs, he⟩
        · have hfa : f ≠ a := by rintro rfl; exact hne' rfl
          obtain ⟨x1, x2, x3⟩ := hI.ex1 f hm
          refine ⟨?_, ?_, x3⟩
          · rintro (⟨_, h⟩ | ⟨g, _, _, he⟩); exact x1 h; cases he
          · intro d; rintro (⟨h, _⟩ | h); exact hfa h; exact x2 d h
        · cases he
          refine ⟨?_, ?_, fun h => hgs (hI.finSeen f h)⟩
          · rintro (⟨_, h⟩ | ⟨g, _, _, he⟩); exact hgs (hI.poolSeen _ _ h); cases he
          · intro d; rintro (⟨h, _⟩ | h)
            · subst h; exact hgs haS
            · exact hgs (hI.edge d f h).2.2.2
      · -- ex2
        intro f hm; simp only [hpoolmem, hdm, hinE', hfin'] at hm ⊢
        rcases hm with ⟨_, hm⟩ | ⟨g, _, _, he⟩
        · obtain ⟨x2, x3⟩ := hI.ex2 f hm
          have hfa : f ≠ a := by rintro rfl; exact hnoSecond hm
          exact ⟨by intro d; rintro (⟨h, _⟩ | h); exact hfa h; exact x2 d h, x3⟩
        · cases he
      · -- ex3
        intro f d h; simp only [hdm, hinE', hfin'] at h ⊢
        rcases h with ⟨rfl, _⟩ | h
        · exact haF
        · exact hI.ex3 f d h
      · -- edge
        intro d x h; simp only [hdm, hinE', hfin'] at h ⊢; simp only [hseen]
        rcases h with ⟨rfl, hd⟩ | h
        · have := (hLm' d).1 hd
          exact ⟨this.1, this.2, Or.inr this.1, Or.inl haS⟩
        · obtain ⟨y1, y2, y3, y4⟩ := hI.edge d x h
          exact ⟨y1, y2, Or.inl y3, Or.inl y4⟩
      · -- inEND
        intro d; rw [hdm]; show (r.1 d).Nodup
        rw [hin d]
        split
        · rename_i h; exact List.nodup_cons.2 ⟨h.2.2, hI.inEND d⟩
        · exact hI.inEND d
      · -- count
        intro x hx; simp only [hdm, hinE'] at hx ⊢
        by_cases hxa : x = a
        · subst hxa
          refine ⟨L, hL, hcnta, ?_⟩
          intro d; constructor
          · intro h; exact Or.inl ⟨rfl, h⟩
          · rintro (⟨_, h⟩ | h); exact h; exact absurd h (haW d)
        · obtain ⟨d0, hd0⟩ := hx
          have hd0' : x ∈ s.dm.inE d0 := by rcases hd0 with ⟨h, _⟩ | h; exact absurd h hxa; exact h
          obtain ⟨L', hL', hc', hm'⟩ := hI.count x ⟨d0, hd0'⟩
          refine ⟨L', hL', by rw [hcnt' x hxa]; exact hc', ?_⟩
          intro d; rw [hm' d]; constructor
          · exact fun h => Or.inr h
          · rintro (⟨h, _⟩ | h); exact absurd h hxa; exact h
      · -- waitDeps
        intro x hx d hd; simp only [hdm, hinE', hfin'] at hx ⊢
        by_cases hxa : x = a
        · subst hxa
          by_cases hdf : d ∈ s.dm.fin
          · exact Or.inl hdf
          · exact Or.inr (Or.inl ⟨rfl, (hLm' d).2 ⟨hd, hdf⟩⟩)
        · obtain ⟨d0, hd0⟩ := hx
          have hd0' : x ∈ s.dm.inE d0 := by rcases hd0 with ⟨h, _⟩ | h; exact absurd h hxa; exact h
          rcases hI.waitDeps x ⟨d0, hd0'⟩ d hd with h | h
          · exact Or.inl h
          · exact Or.inr (Or.inr h)
      · -- secondDeps
        intro x hm d hd; simp only [hpoolmem, hdm, hfin'] at hm ⊢
        rcases hm with ⟨_, hm⟩ | ⟨g, _, _, he⟩
        · exact hI.secondDeps x hm d hd
        · cases he
      · -- finDeps
        intro x hx d hd; rw [hdm] at hx ⊢; exact hI.finDeps x hx d hd
      · -- cntP1
        intro x hm; simp only [hpoolmem] at hm; rw [hdm]
        rcases hm with ⟨hne', hm⟩ | ⟨g, hg, hgs, he⟩
        · have hxa : x ≠ a := by rintro rfl; exact hne' rfl
          rw [hcnt' x hxa]; exact hI.cntP1 x hm
        · cases he
          have hxa : x ≠ a := by rintro rfl; exact hgs haS
          rw [hcnt' x hxa]; exact hI.cntUnseen x hgs
      · -- cntUnseen
        intro x hx; rw [hseen] at hx; rw [hdm]
        have hxs : x ∉ s.seen := fun h => hx (Or.inl h)
        have hxa : x ≠ a := by rintro rfl; exact hxs haS
        rw [hcnt' x hxa]; exact hI.cntUnseen x hxs
  · -- every dependency already finished: second pass of `a` right away
    have hadd' : r.2.2 = false := by simpa using hadd
    have hallfin : ∀ d ∈ w.deps a, d ∈ s.dm.fin := by
      rw [hadded] at hadd'; simpa using hadd'
    have hLnil : ∀ d, d ∉ L := by intro d hd; exact ((hLm' d).1 hd).2 (hallfin d ((hLm' d).1 hd).1)
    have hinE'' : ∀ d x, x ∈ dm'.inE d ↔ x ∈ s.dm.inE d := by
      intro d x; rw [hinE']; constructor
      · rintro (⟨_, h⟩ | h); exact absurd h (hLnil d); exact h
      · exact fun h => Or.inr h
    let s1 : St := { s0 with total := s0.total + 1, pool := s0.pool ++ [Task.pp a false] }
    have hs1 : execFile s0 a false = s1 := by simp [execFile, s1]
    have hnotin : Task.pp a false ∉ s0.pool := fun h => hnoSecond ((hpoolmem0 _).1 h).2
    refine ⟨s1, ?_, ?_⟩
    · simp only [handle, haddDep, hadd']; exact congrArg Out.cont hs1
    · have hpoolmem : ∀ u, u ∈ s1.pool ↔ (u ≠ Task.pp a true ∧ u ∈ s.pool) ∨ u = Task.pp a false := by
        intro u; simp only [s1, List.mem_append, List.mem_singleton, hpoolmem0]
      constructor
      · rw [← hs1]; exact execFile_acct _ _ _ hacct0
      · exact hI.seenND
      · exact nodup_snoc _ _ hpool0 hnotin
      · exact hI.finND
      · intro f b hm; rw [hpoolmem] at hm
        rcases hm with ⟨_, hm⟩ | he
        · exact hI.poolSeen f b hm
        · cases he; exact haS
      · exact hI.finSeen
      · -- cover
        intro f hf; simp only [hpoolmem]
        show _ ∨ _ ∨ (∃ d, f ∈ dm'.inE d) ∨ f ∈ s.dm.fin
        simp only [hinE'']
        by_cases hfa : f = a
        · subst hfa; exact Or.inr (Or.inl (Or.inr rfl))
        · rcases hI.cover f hf with h | h | h | h
          · exact Or.inl (Or.inl ⟨by simpa using hfa, h⟩)
          · exact Or.inr (Or.inl (Or.inl ⟨by simp, h⟩))
          · exact Or.inr (Or.inr (Or.inl h))
          · exact Or.inr (Or.inr (Or.inr h))
      · -- ex1
        intro f hm; simp only [hpoolmem] at hm ⊢
        show _ ∧ (∀ d, f ∉ dm'.inE d) ∧ f ∉ s.dm.fin
        simp only [hinE'']
        rcases hm with ⟨hne', hm⟩ | he
        · have hfa : f ≠ a := by rintro rfl; exact hne' rfl
          obtain ⟨x1, x2, x3⟩ := hI.ex1 f hm
          refine ⟨?_, x2, x3⟩
          rintro (⟨_, h⟩ | he); exact x1 h; cases he; exact hfa rfl
        · cases he
      · -- ex2
        intro f hm; simp only [hpoolmem] at hm
        show (∀ d, f ∉ dm'.inE d) ∧ f ∉ s.dm.fin
        simp only [hinE'']
        rcases hm with ⟨_, hm⟩ | he
        · exact hI.ex2 f hm
        · cases he; exact ⟨haW, haF⟩
      · intro f d h; exact hI.ex3 f d ((hinE'' d f).1 h)
      · intro d x h; exact hI.edge d x ((hinE'' d x).1 h)
      · -- inEND
        intro d; show (r.1 d).Nodup
        rw [hin d]
        split
        · rename_i h; exact List.nodup_cons.2 ⟨h.2.2, hI.inEND d⟩
        · exact hI.inEND d
      · -- count
        intro x hx
        show ∃ L : List File, L.Nodup ∧ dm'.cnt x = some L.length ∧ ∀ d, d ∈ L ↔ x ∈ dm'.inE d
        have hx' : ∃ d, x ∈ s.dm.inE d := by obtain ⟨d, hd⟩ := hx; exact ⟨d, (hinE'' d x).1 hd⟩
        simp only [hinE'']
        have hxa : x ≠ a := by rintro rfl; obtain ⟨d, hd⟩ := hx'; exact haW d hd
        rw [hcnt' x hxa]; exact hI.count x hx'
      · -- waitDeps
        intro x hx d hd
        show d ∈ s.dm.fin ∨ x ∈ dm'.inE d
        have hx' : ∃ d, x ∈ s.dm.inE d := by obtain ⟨d, hd⟩ := hx; exact ⟨d, (hinE'' d x).1 hd⟩
        simp only [hinE'']
        exact hI.waitDeps x hx' d hd
      · -- secondDeps
        intro x hm d hd; simp only [hpoolmem] at hm
        rcases hm with ⟨_, hm⟩ | he
        · exact hI.secondDeps x hm d hd
        · cases he; exact hallfin d hd
      · exact hI.finDeps
      · -- cntP1
        intro x hm; simp only [hpoolmem] at hm
        rcases hm with ⟨hne', hm⟩ | he
        · have hxa : x ≠ a := by rintro rfl; exact hne' rfl
          show dm'.cnt x = none
          rw [hcnt' x hxa]; exact hI.cntP1 x hm
        · cases he
      · intro x hx
        have hxa : x ≠ a := by rintro rfl; exact hx haS
        show dm'.cnt x = none
        rw [hcnt' x hxa]; exact hI.cntUnseen x hx

end Coord

import Txtpp.Model.Text
namespace Txt

theorem takeWhile_dropWhile_of (p : Char → Bool) (ws rest : Str)
    (h1 : ∀ c ∈ ws, p c = true) (h2 : ∀ c, rest.head? = some c → p c = false) :
    (ws ++ rest).takeWhile p = ws ∧ (ws ++ rest).dropWhile p = rest := by
  induction ws with
  | nil =>
    cases rest with
    | nil => simp
    | cons r rs => have := h2 r (by simp); simp [this]
  | cons w ws ih =>
    have hw := h1 w (by simp)
    have := ih (fun c hc => h1 c (by simp [hc]))
    simp [hw, this.1, this.2]

theorem findSub_complete (pat pre after : Str)
    (hmin : ∀ j, j < pre.length → ¬ pat <+: (pre ++ pat ++ after).drop j) :
    findSub pat (pre ++ pat ++ after) = some (pre, pat ++ after) := by
  induction pre with
  | nil =>
    cases hpa : pat ++ after with
    | nil =>
      have : pat = [] := by cases pat <;> simp_all
      subst this; simp at hpa; subst hpa; simp [findSub]
    | cons c cs =>
      have : pat.isPrefixOf (c :: cs) = true := by
        rw [List.isPrefixOf_iff_prefix, ← hpa]; exact List.prefix_append _ _
      simp [findSub, hpa, this]
  | cons x xs ih =>
    have h0 := hmin 0 (by simp)
    simp only [List.drop_zero] at h0
    have hx : pat.isPrefixOf (x :: xs ++ pat ++ after) = false := by
      cases hb : pat.isPrefixOf (x :: xs ++ pat ++ after) with
      | false => rfl
      | true => exact absurd (List.isPrefixOf_iff_prefix.1 hb) h0
    have ih' := ih (by intro j hj; have := hmin (j + 1) (by simp; omega); simpa using this)
    simp only [List.cons_append] at hx ⊢
    simp only [findSub, hx]
    simp only [List.append_assoc] at ih' ⊢
    simp [ih']

theorem splitOnceSpace_complete (n r : Str) (h : ' ' ∉ n) : splitOnceSpace (n ++ ' ' :: r) = some (n, r) := by
  induction n with
  | nil => simp [splitOnceSpace]
  | cons c cs ih =>
    simp only [List.mem_cons, not_or] at h
    have hc : c ≠ ' ' := fun e => h.1 e.symm
    simp [splitOnceSpace, hc, ih h.2]

theorem splitOnceSpace_none_of (s : Str) (h : ' ' ∉ s) : splitOnceSpace s = none := by
  induction s with
  | nil => rfl
  | cons c cs ih =>
    simp only [List.mem_cons, not_or] at h
    have hc : c ≠ ' ' := fun e => h.1 e.symm
    simp [splitOnceSpace, hc, ih h.2]

theorem detectFrom_complete (line : Str) (d : Directive) (h : IsDirectiveLine line d) : detectFrom line = some d := by
  obtain ⟨rest, after, name, hline, hws, hhead, hrest, hmin, hname, hty⟩ := h
  obtain ⟨tw, dw⟩ := takeWhile_dropWhile_of isWs d.ws rest hws hhead
  subst hline
  have hf : findSub hash rest = some (d.pre, hash ++ after) := by
    rw [hrest]; rw [hrest] at hmin
    have := findSub_complete hash d.pre after hmin
    simpa [List.append_assoc] using this
  unfold detectFrom
  simp only [tw, dw, hf]
  have hdrop : (hash ++ after).drop hash.length = after := by simp
  rw [hdrop]
  rcases hname with ⟨ha, hsp, hargs⟩ | ⟨r, ha, hsp, hargs⟩
  · subst ha
    rw [splitOnceSpace_none_of _ hsp]
    simp only [hty, Option.map_some]
    cases d; simp_all
  · subst ha
    rw [splitOnceSpace_complete _ _ hsp]
    simp only [hty, Option.map_some]
    cases d; simp_all

/-- C15, first sentence: `detect_from` accepts exactly the lines the grammar describes -/
theorem detectFrom_iff (line : Str) (d : Directive) : detectFrom line = some d ↔ IsDirectiveLine line d :=
  ⟨detectFrom_sound line d, detectFrom_complete line d⟩

#print axioms detectFrom_iff
end Txt

import Txtpp.Lemmas.LineEnding
import Txtpp.Lemmas.TextIff
import Txtpp.Lemmas.AddLineIff
import Txtpp.Lemmas.MachineFacts
import Txtpp.Model.Pp
/-! C16: `str::lines` undoes `join("\n")` on terminator-free lines, so the output of a `write`
    directive is exactly its argument lines joined by the line ending. -/
namespace Txt

theorem rustLines_eq_nil (t : Str) : rustLines t = [] ↔ t = [] := by
  constructor
  · intro h
    cases t with
    | nil => rfl
    | cons c cs =>
      exfalso
      rw [rustLines.eq_def] at h
      split at h <;> simp_all
      split at h <;> simp_all
  · rintro rfl; rfl

/-- a terminator-free piece followed by `\n` is one line -/
theorem rustLines_clean_cons (a t : Str) (ha : Clean a) : rustLines (a ++ '\n' :: t) = a :: rustLines t := by
  induction a with
  | nil => simp [rustLines]
  | cons c cs ih =>
    have hc : c ≠ '\n' ∧ c ≠ '\r' := by
      simp only [Clean, List.mem_cons, not_or] at ha
      exact ⟨fun e => ha.2.1 e.symm, fun e => ha.1.1 e.symm⟩
    have hcs : Clean cs := by
      simp only [Clean, List.mem_cons, not_or] at ha ⊢; exact ⟨ha.1.2, ha.2.2⟩
    have := ih hcs
    simp only [List.cons_append]
    rw [rustLines.eq_def]
    split
    · simp at *
    · rename_i h; simp at h; exact absurd h.1 hc.1
    · rename_i h; simp at h; exact absurd h.1 hc.2
    · rename_i c' cs' _ _ h
      simp only [List.cons.injEq] at h
      obtain ⟨rfl, rfl⟩ := h
      rw [this]

theorem rustLines_clean_single (a : Str) (ha : Clean a) : rustLines a = if a = [] then [] else [a] := by
  induction a with
  | nil => rfl
  | cons c cs ih =>
    have hc : c ≠ '\n' ∧ c ≠ '\r' := by
      simp only [Clean, List.mem_cons, not_or] at ha
      exact ⟨fun e => ha.2.1 e.symm, fun e => ha.1.1 e.symm⟩
    have hcs : Clean cs := by
      simp only [Clean, List.mem_cons, not_or] at ha ⊢; exact ⟨ha.1.2, ha.2.2⟩
    have := ih hcs
    rw [rustLines.eq_def]
    split
    · simp at *
    · rename_i h; simp at h; exact absurd h.1 hc.1
    · rename_i h; simp at h; exact absurd h.1 hc.2
    · rename_i c' cs' _ _ h
      simp only [List.cons.injEq] at h
      obtain ⟨rfl, rfl⟩ := h
      rw [this]
      by_cases hn : cs = [] <;> simp [hn]

theorem endsNl_clean (a : Str) (ha : Clean a) : endsNl a = false := by
  unfold endsNl
  cases h : a.getLast? with
  | none => simp
  | some c =>
    have : c ∈ a := List.mem_of_getLast? h
    have hne : c ≠ '\n' := fun e => ha.2 (e ▸ this)
    simp [hne]

theorem endsNl_append_nl (a t : Str) : endsNl (a ++ '\n' :: t) = if t = [] then true else endsNl t := by
  unfold endsNl
  by_cases ht : t = []
  · subst ht; simp
  · simp only [ht, if_false]
    have : (a ++ '\n' :: t).getLast? = t.getLast? := by
      rw [List.getLast?_append]
      have : ('\n' :: t).getLast? = t.getLast? := by
        cases t with
        | nil => exact absurd rfl ht
        | cons x xs => simp [List.getLast?_cons_cons]
      rw [this]
      cases h : t.getLast? with
      | none => exact absurd (List.getLast?_eq_none_iff.1 h) ht
      | some c => simp
    rw [this]

/-- `format_directive_output` with no indentation -/
def fmt (le t : Str) : Str := joinWith le (rustLines t) ++ (if endsNl t then le else [])

theorem formatOutput_nil_ws (le t : Str) : formatOutput le [] t = fmt le t := by
  simp [formatOutput, fmt]

theorem joinWith_cons (le a : Str) (R : List Str) : joinWith le (a :: R) = if R = [] then a else a ++ le ++ joinWith le R := by
  cases R <;> simp [joinWith]

theorem fmt_clean_cons (le a t : Str) (ha : Clean a) : fmt le (a ++ '\n' :: t) = a ++ le ++ fmt le t := by
  unfold fmt
  rw [rustLines_clean_cons a t ha, endsNl_append_nl, joinWith_cons]
  by_cases ht : t = []
  · subst ht; simp [rustLines, endsNl, joinWith]
  · have hR : rustLines t ≠ [] := fun h => ht ((rustLines_eq_nil t).1 h)
    simp [ht, hR, List.append_assoc]

/-- C16: the formatted output of `write` (argument lines joined by `\n`, re-split by `str::lines`,
    re-joined by the line ending) is the argument lines joined by the line ending -/
theorem fmt_join_nl (le : Str) (L : List Str) (hL : ∀ l ∈ L, Clean l) (hne : L ≠ []) :
    fmt le (joinWith ['\n'] L) = joinWith le L := by
  induction L with
  | nil => exact absurd rfl hne
  | cons a rest ih =>
    have ha : Clean a := hL a (by simp)
    cases rest with
    | nil =>
      simp only [joinWith, fmt, rustLines_clean_single a ha, endsNl_clean a ha]
      by_cases h : a = [] <;> simp [h, joinWith]
    | cons b rest' =>
      have := ih (fun l hl => hL l (by simp [hl])) (by simp)
      rw [joinWith_cons_cons, joinWith_cons_cons]
      show fmt le (a ++ ['\n'] ++ joinWith ['\n'] (b :: rest')) = _
      rw [show a ++ ['\n'] ++ joinWith ['\n'] (b :: rest') = a ++ '\n' :: joinWith ['\n'] (b :: rest') by simp]
      rw [fmt_clean_cons le a _ ha, this]

end Txt

namespace Txt
open Refine (Sem machine feedAll feed feedFresh execD finish emit MSt)

def dash : Str := ['-']
def writeKw : Str := ['w', 'r', 'i', 't', 'e']

/-- the escaped form of a text `L0 :: Ls`: `-TXTPP#write L0`, `-L1`, … -/
def escapeLines (L0 : Str) (Ls : List Str) : List Str :=
  (dash ++ hash ++ writeKw ++ ' ' :: L0) :: Ls.map (dash ++ ·)

def writeDir (args : List Str) : Directive := ⟨[], dash, .write, args⟩

theorem detect_escape_head (L0 : Str) (h0 : trim L0 = L0) :
    detectFrom (dash ++ hash ++ writeKw ++ ' ' :: L0) = some (writeDir [L0]) := by
  apply (detectFrom_iff _ _).2
  refine ⟨dash ++ hash ++ writeKw ++ ' ' :: L0, writeKw ++ ' ' :: L0, writeKw, ?_, ?_, ?_, ?_, ?_, ?_, ?_⟩
  · simp [writeDir]
  · simp [writeDir]
  · intro c hc; simp [dash] at hc; subst hc; decide
  · simp [writeDir, List.append_assoc]
  · intro j hj
    simp [writeDir, dash] at hj
    subst hj
    simp only [List.drop_zero, dash, hash]
    intro hp
    obtain ⟨t, ht⟩ := hp
    simp at ht
  · right
    exact ⟨L0, by simp, by decide, by simp [writeDir, h0]⟩
  · simp [writeDir]; decide

theorem addLine_escape (args : List Str) (l : Str) (hl : trimEnd l = l) :
    addLine (writeDir args) (dash ++ l) = some (writeDir (args ++ [l])) := by
  have hm : (writeDir args).ty.multi = true := rfl
  have := addLine_complete (writeDir args) (dash ++ l) l hm
    ⟨dash ++ l, by simp [writeDir], Or.inr (Or.inl ⟨l, by simp [writeDir], hl.symm⟩)⟩
  simpa [Directive.push, writeDir] using this

theorem feedAll_escape_conts {W : Type} (Wd : World W) (le : Str) (st : PpState W) (p : Bool) (out : Str)
    (args : List Str) (Ls : List Str) (hLs : ∀ l ∈ Ls, trimEnd l = l) :
    feedAll (txtppSem Wd .build le) ⟨some (writeDir args), st, p, out⟩ (Ls.map (dash ++ ·)) =
      some ⟨some (writeDir (args ++ Ls)), st, p, out⟩ := by
  induction Ls generalizing args with
  | nil => simp [feedAll]
  | cons l ls ih =>
    have h1 := addLine_escape args l (hLs l (by simp))
    simp only [List.map_cons, feedAll, feed, txtppSem, h1]
    have := ih (args ++ [l]) (fun x hx => hLs x (by simp [hx]))
    simp only [txtppSem, List.append_assoc, List.singleton_append] at this
    exact this

/-- C16 (write escape): for every non-empty text `L0 :: Ls` of terminator-free lines, the first
    without leading or trailing blanks, the others without trailing blanks, with no tag waiting, the
    source `-TXTPP#write L0 / -L1 / …` produces exactly the lines joined by the line ending (plus the
    final one iff the trailing option is on) — whatever directive or tag look-alikes the text contains. -/
theorem write_escape_roundtrip {W : Type} (Wd : World W) (le : Str) (trailing : Bool) (w : W) (L0 : Str) (Ls : List Str)
    (h0 : trim L0 = L0) (hLs : ∀ l ∈ Ls, trimEnd l = l) (hclean : ∀ l ∈ L0 :: Ls, Clean l) :
    ppPass Wd .build le false trailing w (escapeLines L0 Ls) true =
      .ok (joinWith le (L0 :: Ls) ++ (if trailing then le else [])) w := by
  unfold ppPass
  simp only [Bool.not_true, Bool.false_eq_true, if_false]
  have hmach : machine (txtppSem Wd .build le) trailing ⟨TagState.empty, .exec, w⟩ (escapeLines L0 Ls) =
      some (⟨TagState.empty, .exec, w⟩, joinWith le (L0 :: Ls) ++ (if trailing then le else [])) := by
    rw [Refine.machine_def]
    simp only [escapeLines, feedAll]
    have hd : (txtppSem Wd .build le).detect (dash ++ hash ++ writeKw ++ ' ' :: L0) = some (writeDir [L0]) := by
      have := detect_escape_head L0 h0
      simp only [txtppSem]
      rw [this]
      simp
    have hb : (txtppSem Wd .build le).badStart (writeDir [L0]) = false := by
      simp [txtppSem, badStart, writeDir, dash]
    simp only [feed, feedFresh, hd, hb, Bool.false_eq_true, if_false]
    have := feedAll_escape_conts Wd le ⟨TagState.empty, .exec, w⟩ false [] [L0] Ls hLs
    simp only [List.singleton_append] at this
    rw [this]
    simp only [Option.bind_some, finish, execD]
    have hex : (txtppSem Wd .build le).exec ⟨TagState.empty, .exec, w⟩ (writeDir (L0 :: Ls)) =
        some (⟨TagState.empty, .exec, w⟩, some (joinWith le (L0 :: Ls))) := by
      simp only [txtppSem, execDirective, writeDir]
      simp [routeOutput, TagState.tryStore, TagState.empty, PpMode.isExecute, formatOutput_nil_ws,
        fmt_join_nl le (L0 :: Ls) hclean (by simp)]
    simp only [hex, emit]
    cases trailing <;> simp [txtppSem]
  rw [hmach]
  simp [TagState.hasTags, TagState.empty]

end Txt

import Txtpp.Model.Cli
import Txtpp.Model.Fs
/-! The guard at the top of `main` (src/main.rs) and the value `Shell::run` puts into `TXTPP_FILE`. -/
namespace Txt

theorem entry_none_iff (e : EnvVar) (p : CliParsed) :
    entry e p = none ↔ ∃ s, e = .val s ∧ s ≠ [] := by
  cases e with
  | unset => simp [entry, EnvVar.refuses]
  | notUnicode => simp [entry, EnvVar.refuses]
  | val s => cases s <;> simp [entry, EnvVar.refuses]

theorem entry_some (e : EnvVar) (p : CliParsed) (c : RunConfig) (h : entry e p = some c) : c = p.config := by
  unfold entry at h
  split at h
  · cases h
  · exact (Option.some.inj h).symm

/-- the displayed path of a file is never empty: a path with at least two components contains a `/`, a path
    with one component is that (non-empty) name -/
theorem joinPath_file_ne_nil (dir : Path) (name : Str) (hn : name ≠ []) : joinPath (dir ++ [name]) ≠ [] := by
  unfold joinPath
  induction dir with
  | nil => simpa [joinWith] using hn
  | cons d ds ih =>
    cases hds : ds ++ [name] with
    | nil => simp at hds
    | cons x xs =>
      have : (d :: ds) ++ [name] = d :: x :: xs := by simp [hds]
      rw [this]
      simp [joinWith]

end Txt

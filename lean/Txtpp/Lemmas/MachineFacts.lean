import Txtpp.Lemmas.MachineSpec
import Txtpp.Model.Lines
/-! Facts about the streaming machine used by C13 (trailing option) and C16 (pass-through). -/
namespace Refine
variable {D σ : Type}

/-- `machine` = run the line loop, then `finish`; only `finish` looks at the trailing option -/
theorem machine_def (S : Sem D σ) (t : Bool) (s0 : σ) (lines : List Str) :
    machine S t s0 lines = (feedAll S ⟨none, s0, false, []⟩ lines).bind (finish S t) := by
  unfold machine; cases feedAll S ⟨none, s0, false, []⟩ lines <;> rfl

/-- the state before the last optional line ending -/
def finishCore (S : Sem D σ) (m : MSt D σ) : Option (MSt D σ) :=
  match m.cur with
  | none => some m
  | some d => execD S m d false

theorem finish_eq (S : Sem D σ) (t : Bool) (m : MSt D σ) :
    finish S t m = (finishCore S m).map (fun m' => (m'.st, m'.out ++ (if m'.pending && t then S.le else []))) := by
  unfold finish finishCore
  cases m.cur with
  | none => rfl
  | some d => simp only; cases execD S m d false <;> rfl

/-- C13: the two settings succeed/fail together, end in the same state (hence the same temp files,
    executed commands, tags) and the outputs are identical except for at most one final line ending. -/
theorem trailing_only_final (S : Sem D σ) (s0 : σ) (lines : List Str) :
    (machine S true s0 lines = none ∧ machine S false s0 lines = none) ∨
    (∃ s out, machine S false s0 lines = some (s, out) ∧
      (machine S true s0 lines = some (s, out) ∨ machine S true s0 lines = some (s, out ++ S.le))) := by
  simp only [machine_def]
  cases feedAll S ⟨none, s0, false, []⟩ lines with
  | none => left; simp
  | some m =>
    simp only [Option.bind_some, finish_eq]
    cases hfc : finishCore S m with
    | none => left; simp
    | some m' =>
      right
      refine ⟨m'.st, m'.out, by simp, ?_⟩
      cases hp : m'.pending <;> simp [hp]

/-- text emitted by a run of ordinary lines when `p` says a line ending is owed -/
def body (le : Str) : Bool → List Str → Str
  | _, [] => []
  | p, l :: ls => (if p then le else []) ++ l ++ body le true ls

theorem body_true (le : Str) (ls : List Str) : body le true ls = (ls.map (le ++ ·)).flatten := by
  induction ls with
  | nil => rfl
  | cons l ls ih => simp [body, ih]

theorem body_false (le : Str) (ls : List Str) : body le false ls = Txt.joinWith le ls := by
  cases ls with
  | nil => rfl
  | cons l ls =>
    simp only [body, Bool.false_eq_true, if_false, List.nil_append]
    induction ls generalizing l with
    | nil => simp [body, Txt.joinWith]
    | cons l2 ls ih =>
      simp only [body, if_true, Txt.joinWith]
      rw [← ih l2]; simp [List.append_assoc]

theorem feedAll_passthrough (S : Sem D σ) (s0 : σ) (lines : List Str)
    (h1 : ∀ l ∈ lines, S.detect l = none) (h2 : ∀ l ∈ lines, S.text s0 l = (s0, some l)) (p : Bool) (out : Str) :
    feedAll S ⟨none, s0, p, out⟩ lines = some ⟨none, s0, p || !lines.isEmpty, out ++ body S.le p lines⟩ := by
  induction lines generalizing p out with
  | nil => simp [feedAll, body]
  | cons l ls ih =>
    have hd := h1 l (by simp)
    have ht := h2 l (by simp)
    simp only [feedAll, feed, feedFresh, hd, ht, emit]
    rw [ih (fun x hx => h1 x (by simp [hx])) (fun x hx => h2 x (by simp [hx]))]
    simp [body, List.append_assoc]

/-- C16: a source without directive lines (and with no tag to substitute) is reproduced line for
    line: lines joined by the line ending, plus the final one iff the trailing option is on. -/
theorem passthrough (S : Sem D σ) (t : Bool) (s0 : σ) (lines : List Str)
    (h1 : ∀ l ∈ lines, S.detect l = none) (h2 : ∀ l ∈ lines, S.text s0 l = (s0, some l)) :
    machine S t s0 lines =
      some (s0, Txt.joinWith S.le lines ++ (if !lines.isEmpty && t then S.le else [])) := by
  rw [machine_def, feedAll_passthrough S s0 lines h1 h2]
  simp [finish, body_false]

/-- if no detected directive is rejected and no directive fails, the machine never fails -/
theorem feedAll_total (S : Sem D σ) (hbad : ∀ l d, S.detect l = some d → S.badStart d = false)
    (hexec : ∀ s d, (S.exec s d).isSome) (lines : List Str) (m : MSt D σ) : (feedAll S m lines).isSome := by
  have execD_some : ∀ (m : MSt D σ) d b, (execD S m d b).isSome := by
    intro m d b
    unfold execD
    have := hexec m.st d
    cases hx : S.exec m.st d with
    | none => simp [hx] at this
    | some r => obtain ⟨s', o⟩ := r; cases o <;> simp
  have fresh_some : ∀ (m : MSt D σ) l, (feedFresh S m l).isSome := by
    intro m l
    unfold feedFresh
    cases hd : S.detect l with
    | some d => simp [hbad l d hd]
    | none =>
      simp only
      rcases hx : S.text m.st l with ⟨st', o⟩
      cases o <;> simp
  induction lines generalizing m with
  | nil => simp [feedAll]
  | cons l ls ih =>
    simp only [feedAll]
    have hf : (feed S m l).isSome := by
      unfold feed
      cases hc : m.cur with
      | none => exact fresh_some m l
      | some d =>
        simp only
        cases ha : S.addLine d l with
        | some d' => simp
        | none =>
          simp only
          have := execD_some m d true
          cases hx : execD S m d true with
          | none => simp [hx] at this
          | some m' => exact fresh_some m' l
    cases hx : feed S m l with
    | none => simp [hx] at hf
    | some m' => exact ih m'

theorem machine_total (S : Sem D σ) (hbad : ∀ l d, S.detect l = some d → S.badStart d = false)
    (hexec : ∀ s d, (S.exec s d).isSome) (t : Bool) (s0 : σ) (lines : List Str) : (machine S t s0 lines).isSome := by
  rw [machine_def]
  have h1 := feedAll_total S hbad hexec lines ⟨none, s0, false, []⟩
  cases hf : feedAll S ⟨none, s0, false, []⟩ lines with
  | none => simp [hf] at h1
  | some m =>
    simp only [Option.bind_some, finish_eq]
    unfold finishCore
    cases hc : m.cur with
    | none => simp
    | some d =>
      simp only
      have := hexec m.st d
      unfold execD
      cases hx : S.exec m.st d with
      | none => simp [hx] at this
      | some r => obtain ⟨s', o⟩ := r; cases o <;> simp

end Refine

import Txtpp.Lemmas.MachineSpec
import Txtpp.Model.Lines
/-! Facts about the streaming machine used by C13 (trailing option) and C16 (pass-through). -/
namespace Refine
variable {D σ : Type}

/-- `machine` = run the line loop, then `finish`; only `finish` looks at the trailing option -/
theorem machine_def (S : Sem D σ) (t : Bool) (s0 : σ) (lines : List Str) :
    machine S t s0 lines = (feedAll S ⟨none, s0, false, []⟩ lines).bind (finish S t) := by
  unfold machine; cases feedAll S ⟨none, s0, false, []⟩ lines <;> rfl

/-- the state before the last optional line ending -/
def finishCore (S : Sem D σ) (m : MSt D σ) : Option (MSt D σ) :=
  match m.cur with
  | none => some m
  | some d => execD S m d false

theorem finish_eq (S : Sem D σ) (t : Bool) (m : MSt D σ) :
    finish S t m = (finishCore S m).map (fun m' => (m'.st, m'.out ++ (if m'.pending && t then S.le else []))) := by
  unfold finish finishCore
  cases m.cur with
  | none => rfl
  | some d => simp only; cases execD S m d false <;> rfl

/-- C13: the two settings succeed/fail together, end in the same state (hence the same temp files,
    executed commands, tags) and the outputs are identical except for at most one final line ending. -/
theorem trailing_only_final (S : Sem D σ) (s0 : σ) (lines : List Str) :
    (machine S true s0 lines = none ∧ machine S false s0 lines = none) ∨
    (∃ s out, machine S false s0 lines = some (s, out) ∧
      (machine S true s0 lines = some (s, out) ∨ machine S true s0 lines = some (s, out ++ S.le))) := by
  simp only [machine_def]
  cases feedAll S ⟨none, s0, false, []⟩ lines with
  | none => left; simp
  | some m =>
    simp only [Option.bind_some, finish_eq]
    cases hfc : finishCore S m with
    | none => left; simp
    | some m' =>
      right
      refine ⟨m'.st, m'.out, by simp, ?_⟩
      cases hp : m'.pending <;> simp [hp]

/-- text emitted by a run of ordinary lines when `p` says a line ending is owed -/
def body (le : Str) : Bool → List Str → Str
  | _, [] => []
  | p, l :: ls => (if p then le else []) ++ l ++ body le true ls

theorem body_true (le : Str) (ls : List Str) : body le true ls = (ls.map (le ++ ·)).flatten := by
  induction ls with
  | nil => rfl
  | cons l ls ih => simp [body, ih]

theorem body_false (le : Str) (ls : List Str) : body le false ls = Txt.joinWith le ls := by
  cases ls with
  | nil => rfl
  | cons l ls =>
    simp only [body, Bool.false_eq_true, if_false, List.nil_append]
    induction ls generalizing l with
    | nil => simp [body, Txt.joinWith]
    | cons l2 ls ih =>
      simp only [body, if_true, Txt.joinWith]
      rw [← ih l2]; simp [List.append_assoc]

theorem feedAll_passthrough (S : Sem D σ) (s0 : σ) (lines : List Str)
    (h1 : ∀ l ∈ lines, S.detect l = none) (h2 : ∀ l ∈ lines, S.text s0 l = (s0, some l)) (p : Bool) (out : Str) :
    feedAll S ⟨none, s0, p, out⟩ lines = some ⟨none, s0, p || !lines.isEmpty, out ++ body S.le p lines⟩ := by
  induction lines generalizing p out with
  | nil => simp [feedAll, body]
  | cons l ls ih =>
    have hd := h1 l (by simp)
    have ht := h2 l (by simp)
    simp only [feedAll, feed, feedFresh, hd, ht, emit]
    rw [ih (fun x hx => h1 x (by simp [hx])) (fun x hx => h2 x (by simp [hx]))]
    simp [body, List.append_assoc]

/-- C16: a source without directive lines (and with no tag to substitute) is reproduced line for
    line: lines joined by the line ending, plus the final one iff the trailing option is on. -/
theorem passthrough (S : Sem D σ) (t : Bool) (s0 : σ) (lines : List Str)
    (h1 : ∀ l ∈ lines, S.detect l = none) (h2 : ∀ l ∈ lines, S.text s0 l = (s0, some l)) :
    machine S t s0 lines =
      some (s0, Txt.joinWith S.le lines ++ (if !lines.isEmpty && t then S.le else [])) := by
  rw [machine_def, feedAll_passthrough S s0 lines h1 h2]
  simp [finish, body_false]

/-- if no detected directive is rejected and no directive fails, the machine never fails -/
theorem feedAll_total (S : Sem D σ) (hbad : ∀ l d, S.detect l = some d → S.badStart d = false)
    (hexec : ∀ s d, (S.exec s d).isSome) (lines : List Str) (m : MSt D σ) : (feedAll S m lines).isSome := by
  have execD_some : ∀ (m : MSt D σ) d b, (execD S m d b).isSome := by
    intro m d b
    unfold execD
    have := hexec m.st d
    cases hx : S.exec m.st d with
    | none => simp [hx] at this
    | some r => obtain ⟨s', o⟩ := r; cases o <;> simp
  have fresh_some : ∀ (m : MSt D σ) l, (feedFresh S m l).isSome := by
    intro m l
    unfold feedFresh
    cases hd : S.detect l with
    | some d => simp [hbad l d hd]
    | none =>
      simp only
      rcases hx : S.text m.st l with ⟨st', o⟩
      cases o <;> simp
  induction lines generalizing m with
  | nil => simp [feedAll]
  | cons l ls ih =>
    simp only [feedAll]
    have hf : (feed S m l).isSome := by
      unfold feed
      cases hc : m.cur with
      | none => exact fresh_some m l
      | some d =>
        simp only
        cases ha : S.addLine d l with
        | some d' => simp
        | none =>
          simp only
          have := execD_some m d true
          cases hx : execD S m d true with
          | none => simp [hx] at this
          | some m' => exact fresh_some m' l
    cases hx : feed S m l with
    | none => simp [hx] at hf
    | some m' => exact ih m'

theorem machine_total (S : Sem D σ) (hbad : ∀ l d, S.detect l = some d → S.badStart d = false)
    (hexec : ∀ s d, (S.exec s d).isSome) (t : Bool) (s0 : σ) (lines : List Str) : (machine S t s0 lines).isSome := by
  rw [machine_def]
  have h1 := feedAll_total S hbad hexec lines ⟨none, s0, false, []⟩
  cases hf : feedAll S ⟨none, s0, false, []⟩ lines with
  | none => simp [hf] at h1
  | some m =>
    simp only [Option.bind_some, finish_eq]
    unfold finishCore
    cases hc : m.cur with
    | none => simp
    | some d =>
      simp only
      have := hexec m.st d
      unfold execD
      cases hx : S.exec m.st d with
      | none => simp [hx] at this
      | some r => obtain ⟨s', o⟩ := r; cases o <;> simp

theorem feedAll_append (S : Sem D σ) (m : MSt D σ) (ls : List Str) (l : Str) :
    feedAll S m (ls ++ [l]) = (feedAll S m ls).bind (fun m' => feed S m' l) := by
  induction ls generalizing m with
  | nil => simp only [List.nil_append, feedAll, Option.bind_some]; cases feed S m l <;> rfl
  | cons x xs ih =>
    simp only [List.cons_append, feedAll]
    cases feed S m x with
    | none => rfl
    | some m1 => exact ih m1

/-- feeding an ordinary last line (not a directive, continuing nothing, written) leaves the machine
    with no open directive, an owed line ending, and the line at the end of the output -/
theorem feed_text_line (S : Sem D σ) (m m1 : MSt D σ) (l : Str) (hd : S.detect l = none)
    (hcont : ∀ d, S.addLine d l = none) (htext : ∀ s, ∃ l', (S.text s l).2 = some l')
    (h : feed S m l = some m1) : m1.cur = none ∧ m1.pending = true ∧ ∃ pre l', m1.out = pre ++ l' ∧ ∃ s, (S.text s l).2 = some l' := by
  have fresh : ∀ (m0 m2 : MSt D σ), m0.cur = none → feedFresh S m0 l = some m2 →
      m2.cur = none ∧ m2.pending = true ∧ ∃ pre l', m2.out = pre ++ l' ∧ ∃ s, (S.text s l).2 = some l' := by
    intro m0 m2 hc hf
    unfold feedFresh at hf
    simp only [hd] at hf
    obtain ⟨l', hl'⟩ := htext m0.st
    rcases hx : S.text m0.st l with ⟨st', o⟩
    rw [hx] at hf hl'
    simp only at hl'
    subst hl'
    simp only [Option.some.injEq] at hf
    subst hf
    exact ⟨by simp [emit, hc], by simp [emit], m0.out ++ (if m0.pending then S.le else []), l', by simp [emit], m0.st, by rw [hx]⟩
  unfold feed at h
  split at h
  · rename_i hc; exact fresh m m1 hc h
  · rename_i d hc
    simp only [hcont d] at h
    split at h
    · simp at h
    · rename_i m2 hex
      have hc2 : m2.cur = none := by
        unfold execD at hex
        split at hex
        · simp at hex
        · simp at hex; subst hex; rfl
        · simp [emit] at hex; subst hex; rfl
      exact fresh m2 m1 hc2 h

/-- C13: when the source ends with an ordinary text line, the output without the option ends with
    that line (as written after tag substitution) and the option adds exactly one line ending -/
theorem trailing_text_last (S : Sem D σ) (s0 : σ) (ls : List Str) (l : Str) (hd : S.detect l = none)
    (hcont : ∀ d, S.addLine d l = none) (htext : ∀ s, ∃ l', (S.text s l).2 = some l')
    (s : σ) (out : Str) (h : machine S false s0 (ls ++ [l]) = some (s, out)) :
    machine S true s0 (ls ++ [l]) = some (s, out ++ S.le) ∧
    ∃ pre l', out = pre ++ l' ∧ ∃ s', (S.text s' l).2 = some l' := by
  rw [machine_def, feedAll_append] at h ⊢
  cases hf : feedAll S ⟨none, s0, false, []⟩ ls with
  | none => simp [hf] at h
  | some m =>
    simp only [hf, Option.bind_some] at h ⊢
    cases hl : feed S m l with
    | none => simp [hl] at h
    | some m1 =>
      obtain ⟨hc, hp, pre, l', ho, hs⟩ := feed_text_line S m m1 l hd hcont htext hl
      simp only [hl, Option.bind_some, finish, hc, hp, Bool.true_and, Bool.and_false] at h ⊢
      simp only [Bool.false_eq_true, if_false, List.append_nil, Option.some.injEq, Prod.mk.injEq] at h
      obtain ⟨h1, h2⟩ := h
      subst h1; subst h2
      exact ⟨by simp, pre, l', ho, hs⟩

end Refine

import Txtpp.Lemmas.ByteIdentity
import Txtpp.Lemmas.MachineFacts
import Txtpp.Lemmas.FsFacts
namespace Txt
variable {W : Type}

theorem inject_empty' (le l : Str) : TagState.empty.injectLE le l = (l, TagState.empty) := by
  simp [TagState.injectLE, TagState.inject, TagState.empty, matchesOf, sortM, injLoop]

theorem plain_ppPass (Wd : World W) (le : Str) (first trailing : Bool) (w : W)
    (lines : List Str) (h : ∀ l ∈ lines, detectFrom l = none) :
    ppPass Wd .build le first trailing w lines true =
      .ok (joinWith le lines ++ (if !lines.isEmpty && trailing then le else [])) w := by
  have h1 : ∀ l ∈ lines, (txtppSem Wd .build le).detect l = none := by
    intro l hl; simp [txtppSem, h l hl]
  have h2 : ∀ l ∈ lines, (txtppSem Wd .build le).text ⟨TagState.empty, if first then .firstExec else .exec, w⟩ l =
      (⟨TagState.empty, if first then .firstExec else .exec, w⟩, some l) := by
    intro l _; cases first <;> simp [txtppSem, PpMode.isExecute, inject_empty']
  unfold ppPass
  simp only [Bool.not_true, Bool.false_eq_true, if_false]
  rw [Refine.passthrough _ trailing _ lines h1 h2]
  cases first <;> simp [TagState.hasTags, TagState.empty, txtppSem]

/-- **C16, byte for byte**: a source that consists of plain lines (no directive line, no CR / LF
    inside a line), each terminated by the same line ending (LF or CRLF), is reproduced exactly - the
    output file holds the very bytes of the source (build mode, trailing newline on) -/
theorem plain_source_identity (cfg : Cfg) (hb : cfg.mode = .build) (ht : cfg.trailing = true) (fs : FS) (src o : Path) (first : Bool)
    (crlf : Bool) (lines : List Str) (hne : lines ≠ []) (hclean : ∀ l ∈ lines, Clean l)
    (hplain : ∀ l ∈ lines, detectFrom l = none)
    (hfile : fs.file? src = some (ByteArray.mk (srcBytes crlf lines).toArray)) (hout : outputPath src = some o)
    (hdir : fs.isDir o = false) :
    (runPass cfg fs src first).1 = .ok ∧
    (runPass cfg fs src first).2.file? o = some (ByteArray.mk (srcBytes crlf lines).toArray) := by
  unfold runPass
  simp only [hfile, hout]
  unfold runPassAt
  have hcontent : (ByteArray.mk (srcBytes crlf lines).toArray).toList = srcBytes crlf lines := by
    rw [ByteArray.toList_eq]
  rw [hcontent, hb, ht]
  simp only [sinkStart, hdir, Bool.false_eq_true, if_false]
  obtain ⟨l, ls, rfl⟩ : ∃ l ls, lines = l :: ls := by
    cases lines with
    | nil => exact absurd rfl hne
    | cons l ls => exact ⟨l, ls, rfl⟩
  rw [sniffLE_src crlf l ls (hclean l List.mem_cons_self), byteLines_src crlf _ hclean, decodeLines_src]
  simp only
  rw [plain_ppPass _ _ first true _ _ hplain]
  simp only [List.isEmpty_cons, Bool.not_false, Bool.and_self, if_true, sinkEnd]
  refine ⟨trivial, ?_⟩
  rw [file?_write_same]
  congr 1
  have := encode_joined crlf (l :: ls) (by simp)
  unfold lineBytes at this
  apply ByteArray.ext
  apply Array.ext'
  simpa using this
end Txt

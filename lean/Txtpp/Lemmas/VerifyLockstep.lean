import Txtpp.Lemmas.ProjectRel
import Txtpp.Lemmas.VerifyRel
/-! Whole-project soundness of verify (C06): lockstep of the verify run with the only-if-needed run of the same tree. -/
namespace Txt
open Refine (Sem machine parse Block OptRel)

/-- like `runLoop_rel`, but the second run may stop with an error at any pass (verify meets a mismatch):
    either it does, or the two runs stay in lockstep to the end -/
theorem runLoop_rel_until (cfg cfg2 : Cfg) (tr : FS → List Path → Path → Bool → Outcome → Option (List Path))
    (hpass : ∀ (a b : FS) (S S' : List Path) (src : Path) (first : Bool), Agree S a b →
      tr a S src first (runPass cfg a src first).1 = some S' →
      (runPass cfg2 b src first).1 = .err ∨
      ((runPass cfg a src first).1 = (runPass cfg2 b src first).1 ∧
       Agree S' (runPass cfg a src first).2 (runPass cfg2 b src first).2)) :
    ∀ (fuel : Nat) (s1 s2 : PSt) (S Sfin : List Path), s1.names = s2.names → s1.st = s2.st → Agree S s1.fs s2.fs →
      loopStale cfg tr fuel s1 S = some Sfin →
      (runLoop cfg2 fuel s2).1 = .err ∨
      ((runLoop cfg fuel s1).1 = (runLoop cfg2 fuel s2).1 ∧ Agree Sfin (runLoop cfg fuel s1).2 (runLoop cfg2 fuel s2).2) := by
  intro fuel
  induction fuel with
  | zero =>
    intro s1 s2 S Sfin _ _ hag h
    simp only [loopStale, Option.some.injEq] at h
    subst h
    exact Or.inr ⟨rfl, hag⟩
  | succ fuel ih =>
    intro s1 s2 S Sfin hn hst hag h
    unfold runLoop
    unfold loopStale at h
    rw [← hst, ← hn]
    cases hp : s1.st.pool with
    | nil =>
      rw [hp] at h
      simp only [Option.some.injEq] at h
      subst h
      simp only
      have : remaining s1 = remaining s2 := by unfold remaining; rw [hn, hst]
      rw [this]
      exact Or.inr ⟨rfl, hag⟩
    | cons t rest =>
      cases t with
      | pp f first =>
        rw [hp] at h
        simp only at h ⊢
        cases htr : tr s1.fs S (s1.names.getD f []) first (runPass cfg s1.fs (s1.names.getD f []) first).1 with
        | none => rw [htr] at h; simp at h
        | some S' =>
          rw [htr] at h
          simp only at h
          rcases hpass s1.fs s2.fs S S' (s1.names.getD f []) first hag htr with herr | ⟨hoc, hag'⟩
          · left; rw [herr]
          · rw [← hoc]
            cases hoc1 : (runPass cfg s1.fs (s1.names.getD f []) first).1 with
            | err =>
              rw [hoc1] at h
              simp only [Option.some.injEq] at h
              subst h
              exact Or.inr ⟨rfl, hag'⟩
            | ok =>
              rw [hoc1] at h
              simp only at h ⊢
              cases hh : Coord.handle { s1.st with pool := rest } (.ok f) with
              | cont st' =>
                rw [hh] at h
                simp only at h ⊢
                exact ih _ _ S' Sfin rfl rfl hag' h
              | fail =>
                rw [hh] at h
                simp only [Option.some.injEq] at h
                subst h
                exact Or.inr ⟨rfl, hag'⟩
              | panic =>
                rw [hh] at h
                simp only [Option.some.injEq] at h
                subst h
                exact Or.inr ⟨rfl, hag'⟩
            | hasDeps deps =>
              rw [hoc1] at h
              simp only at h ⊢
              cases hh : Coord.handle { s1.st with pool := rest }
                  (.hasDeps f (indexAll s1.names (deps.map (fun d => (splitOn '/' d)))).2) with
              | cont st' =>
                rw [hh] at h
                simp only at h ⊢
                exact ih _ _ S' Sfin rfl rfl hag' h
              | fail =>
                rw [hh] at h
                simp only [Option.some.injEq] at h
                subst h
                exact Or.inr ⟨rfl, hag'⟩
              | panic =>
                rw [hh] at h
                simp only [Option.some.injEq] at h
                subst h
                exact Or.inr ⟨rfl, hag'⟩

theorem safe_nil (cfg : Cfg) (fs0 : FS) (wd : Path) : ∀ bs : List (Block Directive), Safe cfg fs0 wd bs [] := by
  intro bs
  induction bs with
  | nil => trivial
  | cons b bs ih =>
    cases b with
    | text l => exact ih
    | dir d e =>
      refine ⟨fun p _ hm => by simp at hm, ?_⟩
      have : staleAfterDir cfg fs0 wd d [] = [] := by unfold staleAfterDir; split <;> rfl
      rw [this]; exact ih

theorem probesOK_nil (cfg : Cfg) (fs0 : FS) (wd : Path) (bs : List (Block Directive)) : ProbesOK cfg fs0 wd [] bs :=
  fun _ _ _ _ _ hm => by simp at hm

theorem staleAfter_nil (cfg : Cfg) (fs0 : FS) (wd : Path) : ∀ bs : List (Block Directive), staleAfter cfg fs0 wd bs [] = [] := by
  intro bs
  induction bs with
  | nil => rfl
  | cons b bs ih =>
    cases b with
    | text l => exact ih
    | dir d e =>
      have : staleAfterDir cfg fs0 wd d [] = [] := by unfold staleAfterDir; split <;> rfl
      simp only [staleAfter, this]; exact ih

/-- **one pass, only-if-needed vs verify, from trees holding the same files**: verify fails, or the two
    passes have the same outcome and leave the same files (the only-if-needed pass found its output
    already equal and wrote nothing). No side condition on what the source reads: the trees are equal. -/
theorem needed_vs_verify_pass (cfg : Cfg) (a b : FS) (src : Path) (first : Bool) (hag : Agree [] a b)
    (hnd : ∀ o, outputPath src = some o → a.isDir o = false) :
    (runPass cfg.toVerify b src first).1 = .err ∨
    ((runPass cfg.toNeeded a src first).1 = (runPass cfg.toVerify b src first).1 ∧
     Agree [] (runPass cfg.toNeeded a src first).2 (runPass cfg.toVerify b src first).2) := by
  unfold runPass
  rw [← hag.2 src (by simp)]
  cases hfile : a.file? src with
  | none => left; rfl
  | some content =>
    cases hout : outputPath src with
    | none => left; rfl
    | some o =>
      simp only
      unfold runPassAt
      have hmN : cfg.toNeeded.mode = .inMemory := rfl
      have hmV : cfg.toVerify.mode = .verify := rfl
      have hfwN : fileWorld cfg.toNeeded src.dropLast (joinPath src) = fileWorld cfg src.dropLast (joinPath src) :=
        fileWorld_congr cfg cfg.toNeeded rfl rfl _ _
      have hfwV : fileWorld cfg.toVerify src.dropLast (joinPath src) = fileWorld cfg src.dropLast (joinPath src) :=
        fileWorld_congr cfg cfg.toVerify rfl rfl _ _
      have htrN : cfg.toNeeded.trailing = cfg.trailing := rfl
      have htrV : cfg.toVerify.trailing = cfg.trailing := rfl
      rw [hmN, hmV, hfwN, hfwV, htrN, htrV]
      simp only [ppPass_needed, ppPass_verify, sinkStart]
      by_cases hex : b.pathExists o = true
      · simp only [hex, if_true]
        cases hbs : srcBlocks .build (decodeLines (byteLines content.toList)).1 with
        | none =>
          have hnone : ∀ (w : FS), ppPass (fileWorld cfg src.dropLast (joinPath src)) .build (sniffLE content.toList) first cfg.trailing w
              (decodeLines (byteLines content.toList)).1 (decodeLines (byteLines content.toList)).2 = .err := by
            intro w
            cases hro : (decodeLines (byteLines content.toList)).2 with
            | false => simp [ppPass]
            | true =>
              unfold ppPass
              simp only [Bool.not_true, Bool.false_eq_true, if_false]
              rw [Refine.machine_eq_spec]
              unfold Refine.spec
              rw [parse_eq_srcBlocks, hbs]
          rw [hnone b]; left; rfl
        | some bs =>
          have hrel := ppPass_rel cfg src.dropLast (joinPath src) .build (by decide) (sniffLE content.toList) first cfg.trailing a
            a b [] (decodeLines (byteLines content.toList)).1 (decodeLines (byteLines content.toList)).2 bs hbs rfl hag
            (safe_nil cfg a _ bs) (probesOK_nil cfg a _ bs)
          rcases hra : ppPass (fileWorld cfg src.dropLast (joinPath src)) .build (sniffLE content.toList) first cfg.trailing a
              (decodeLines (byteLines content.toList)).1 (decodeLines (byteLines content.toList)).2 with _ | _ | _ <;>
          rcases hrb : ppPass (fileWorld cfg src.dropLast (joinPath src)) .build (sniffLE content.toList) first cfg.trailing b
              (decodeLines (byteLines content.toList)).1 (decodeLines (byteLines content.toList)).2 with _ | _ | _ <;>
          rw [hra, hrb] at hrel <;> simp only [PassResRel] at hrel
          · rename_i oa a2 ob b2
            obtain ⟨h1, hda2, h2, _⟩ := hrel
            subst h1
            have ha2d : a2.isDir o = false := by
              simp only [FS.isDir, hda2]; simpa [FS.isDir] using hnd o hout
            simp only [sinkEnd, ha2d, Bool.false_eq_true, if_false]
            rw [← h2.2 o (by simp)]
            by_cases he : a2.file? o = some (encodeUtf8 oa)
            · right; simp only [if_pos he]; exact ⟨trivial, h2⟩
            · left; simp only [if_neg he]
          · rename_i da a2 db b2
            obtain ⟨h1, _, h2⟩ := hrel
            subst h1
            right; exact ⟨rfl, h2⟩
          · left; rfl
      · left; simp only [hex]; rfl

theorem trVerify_sound (cfg : Cfg) (a b : FS) (S S' : List Path) (src : Path) (first : Bool) (hag : Agree S a b)
    (h : trVerify a S src first (runPass cfg.toNeeded a src first).1 = some S') :
    (runPass cfg.toVerify b src first).1 = .err ∨
    ((runPass cfg.toNeeded a src first).1 = (runPass cfg.toVerify b src first).1 ∧
     Agree S' (runPass cfg.toNeeded a src first).2 (runPass cfg.toVerify b src first).2) := by
  unfold trVerify at h
  have hS : S = [] ∧ S' = [] ∧ ∀ o, outputPath src = some o → a.isDir o = false := by
    cases hout : outputPath src with
    | none =>
      rw [hout] at h
      simp only at h
      by_cases he : S.isEmpty = true
      · rw [if_pos he] at h; exact ⟨by simpa using he, by simpa using h.symm, fun o ho => by cases ho⟩
      · rw [if_neg he] at h; simp at h
    | some o =>
      rw [hout] at h
      simp only at h
      by_cases hd : a.isDir o = true
      · rw [if_pos hd] at h; simp at h
      · rw [if_neg hd] at h
        by_cases he : S.isEmpty = true
        · rw [if_pos he] at h
          exact ⟨by simpa using he, by simpa using h.symm, fun o' ho' => by cases ho'; simpa using hd⟩
        · rw [if_neg he] at h; simp at h
  obtain ⟨h1, h2, h3⟩ := hS
  subst h1; subst h2
  exact needed_vs_verify_pass cfg a b src first hag h3

theorem trVerify_nil (a : FS) (S S' : List Path) (src : Path) (first : Bool) (oc : Outcome)
    (h : trVerify a S src first oc = some S') : S' = [] := by
  unfold trVerify at h
  split at h
  · split at h
    · simp at h
    · split at h
      · simpa using h.symm
      · simp at h
  · split at h
    · simpa using h.symm
    · simp at h

theorem loopStale_verify_nil (cfg : Cfg) : ∀ (fuel : Nat) (s : PSt) (Sfin : List Path),
    loopStale cfg trVerify fuel s [] = some Sfin → Sfin = [] := by
  intro fuel
  induction fuel with
  | zero => intro s Sfin h; simpa [loopStale] using h.symm
  | succ fuel ih =>
    intro s Sfin h
    unfold loopStale at h
    cases hp : s.st.pool with
    | nil => rw [hp] at h; simpa using h.symm
    | cons t rest =>
      cases t with
      | pp f first =>
        rw [hp] at h
        simp only at h
        cases htr : trVerify s.fs [] (s.names.getD f []) first (runPass cfg s.fs (s.names.getD f []) first).1 with
        | none => rw [htr] at h; simp at h
        | some S' =>
          rw [htr] at h
          have hS' := trVerify_nil _ _ _ _ _ _ htr
          subst hS'
          simp only at h
          cases hoc1 : (runPass cfg s.fs (s.names.getD f []) first).1 with
          | err => rw [hoc1] at h; simpa using h.symm
          | ok =>
            rw [hoc1] at h
            simp only at h
            cases hh : Coord.handle { s.st with pool := rest } (.ok f) with
            | cont st' => rw [hh] at h; exact ih _ _ h
            | fail => rw [hh] at h; simpa using h.symm
            | panic => rw [hh] at h; simpa using h.symm
          | hasDeps deps =>
            rw [hoc1] at h
            simp only at h
            cases hh : Coord.handle { s.st with pool := rest }
                (.hasDeps f (indexAll s.names (deps.map (fun d => (splitOn '/' d)))).2) with
            | cont st' => rw [hh] at h; exact ih _ _ h
            | fail => rw [hh] at h; simpa using h.symm
            | panic => rw [hh] at h; simpa using h.symm

theorem projStart_cfg_congr (cfg cfg' : Cfg) (h1 : cfg'.baseAbs = cfg.baseAbs) (h2 : cfg'.recursive = cfg.recursive) (fs : FS)
    (inputs : List Str) : projStart cfg' fs inputs = projStart cfg fs inputs := by
  unfold projStart
  rw [resolveInputs_congr cfg cfg' h1, h2]

/-- **whole project (C06, soundness of verify)**: if the verify run of a tree succeeds, the only-if-needed
    run of the same tree succeeds as well and the two leave the same bytes at every path - the
    only-if-needed run found every output already equal to what it computed. -/
theorem verify_project_ok_means_needed_finds_all_equal (cfg : Cfg) (fs : FS) (inputs : List Str) (Sfin : List Path)
    (hst : projStale cfg.toNeeded trVerify fs inputs [] = some Sfin)
    (hok : (runProject cfg.toVerify fs inputs).1 = .ok) :
    (runProject cfg.toNeeded fs inputs).1 = .ok ∧
    ∀ q, (runProject cfg.toNeeded fs inputs).2.file? q = (runProject cfg.toVerify fs inputs).2.file? q := by
  rw [runProject_eq cfg.toNeeded fs, runProject_eq cfg.toVerify fs,
    projStart_cfg_congr cfg cfg.toVerify rfl rfl, projStart_cfg_congr cfg cfg.toNeeded rfl rfl] at *
  unfold projStale at hst
  rw [projStart_cfg_congr cfg cfg.toNeeded rfl rfl] at hst
  cases hs : projStart cfg fs inputs with
  | none => rw [hs] at hok; simp at hok
  | some s =>
    rw [hs] at hst hok
    simp only at hst hok ⊢
    have hnil := loopStale_verify_nil cfg.toNeeded (projFuel fs) s Sfin hst
    subst hnil
    rcases runLoop_rel_until cfg.toNeeded cfg.toVerify trVerify
      (fun a b S S' src first hag h => trVerify_sound cfg a b S S' src first hag h)
      (projFuel fs) s s [] [] rfl rfl ⟨rfl, fun _ _ => rfl⟩ hst with herr | ⟨hv, hag⟩
    · rw [herr] at hok; simp at hok
    · rw [hv]
      exact ⟨hok, fun q => hag.2 q (by simp)⟩

/-- … hence (with the C09 whole-project theorem) a normal build of that tree succeeds and leaves exactly
    the bytes the verified tree holds -/
theorem verify_project_ok_means_build_reproduces (cfg : Cfg) (hb : cfg.mode = .build) (fs : FS) (inputs : List Str) (Sv : List Path)
    (hstV : projStale cfg.toNeeded trVerify fs inputs [] = some Sv)
    (hstN : projStale cfg (trNeeded cfg) fs inputs [] = some [])
    (hok : (runProject cfg.toVerify fs inputs).1 = .ok) :
    (runProject cfg fs inputs).1 = .ok ∧
    ∀ q, (runProject cfg fs inputs).2.file? q = (runProject cfg.toVerify fs inputs).2.file? q := by
  obtain ⟨h1, h2⟩ := verify_project_ok_means_needed_finds_all_equal cfg fs inputs Sv hstV hok
  obtain ⟨h3, h4⟩ := needed_project_vs_build_project cfg hb fs inputs [] hstN
  exact ⟨h3.trans h1, fun q => (h4.2 q (by simp)).trans (h2 q)⟩

end Txt

import Txtpp.Lemmas.NeededRel
/-! C13 at the level of one `preprocess` call on the file system: the trailing-newline option changes
    nothing but (at most) one final line ending of the output file. -/
namespace Txt
open Refine (machine)
variable {W : Type}

/-- the pass result with the option on, from the result with the option off -/
theorem ppPass_trailing (Wd : World W) (mode : Mode) (le : Str) (first : Bool) (w : W) (lines : List Str) (readOk : Bool) :
    (ppPass Wd mode le first false w lines readOk = .err ∧ ppPass Wd mode le first true w lines readOk = .err) ∨
    (∃ d w', ppPass Wd mode le first false w lines readOk = .hasDeps d w' ∧ ppPass Wd mode le first true w lines readOk = .hasDeps d w') ∨
    (∃ o w', ppPass Wd mode le first false w lines readOk = .ok o w' ∧
      (ppPass Wd mode le first true w lines readOk = .ok o w' ∨ ppPass Wd mode le first true w lines readOk = .ok (o ++ le) w')) := by
  cases readOk with
  | false => left; simp [ppPass]
  | true =>
    unfold ppPass
    simp only [Bool.not_true, Bool.false_eq_true, if_false]
    rcases Refine.trailing_only_final (txtppSem Wd mode le) ⟨TagState.empty, if first then .firstExec else .exec, w⟩ lines with
      ⟨h1, h0⟩ | ⟨s, out, h0, h1 | h1⟩
    · left; simp [h0, h1]
    · simp only [h0, h1]
      cases s.pm with
      | collect deps => right; left; exact ⟨deps, s.w, rfl, rfl⟩
      | firstExec =>
        cases (s.tags.hasTags && mode != .clean) with
        | true => left; simp
        | false => right; right; exact ⟨out, s.w, by simp, Or.inl (by simp)⟩
      | exec =>
        cases (s.tags.hasTags && mode != .clean) with
        | true => left; simp
        | false => right; right; exact ⟨out, s.w, by simp, Or.inl (by simp)⟩
    · simp only [h0, h1]
      cases s.pm with
      | collect deps => right; left; exact ⟨deps, s.w, rfl, rfl⟩
      | firstExec =>
        cases (s.tags.hasTags && mode != .clean) with
        | true => left; simp
        | false => right; right; exact ⟨out, s.w, by simp, Or.inr (by simp [txtppSem])⟩
      | exec =>
        cases (s.tags.hasTags && mode != .clean) with
        | true => left; simp
        | false => right; right; exact ⟨out, s.w, by simp, Or.inr (by simp [txtppSem])⟩

def Cfg.withTrailing (cfg : Cfg) (t : Bool) : Cfg := { cfg with trailing := t }

/-- **C13, one `preprocess` call in build mode**: with the option on or off the verdict is the same,
    every path other than the output holds the same bytes, and the output text with the option on is
    the text with the option off, or that text followed by one line ending -/
theorem runPass_trailing (cfg : Cfg) (hb : cfg.mode = .build) (fs : FS) (src : Path) (first : Bool) :
    (runPass (cfg.withTrailing false) fs src first).1 = (runPass (cfg.withTrailing true) fs src first).1 ∧
    (∀ q, outputPath src ≠ some q →
      (runPass (cfg.withTrailing false) fs src first).2.file? q = (runPass (cfg.withTrailing true) fs src first).2.file? q) ∧
    ((runPass (cfg.withTrailing false) fs src first).1 = .ok → ∃ o out le, outputPath src = some o ∧
      (runPass (cfg.withTrailing false) fs src first).2.file? o = some (encodeUtf8 out) ∧
      ((runPass (cfg.withTrailing true) fs src first).2.file? o = some (encodeUtf8 out) ∨
       (runPass (cfg.withTrailing true) fs src first).2.file? o = some (encodeUtf8 (out ++ le)))) := by
  unfold runPass
  cases hfile : fs.file? src with
  | none => exact ⟨rfl, fun _ _ => rfl, fun h => by simp at h⟩
  | some content =>
    cases hout : outputPath src with
    | none => exact ⟨rfl, fun _ _ => rfl, fun h => by simp at h⟩
    | some o =>
      simp only
      unfold runPassAt
      have hm0 : (cfg.withTrailing false).mode = .build := hb
      have hm1 : (cfg.withTrailing true).mode = .build := hb
      have hw0 : fileWorld (cfg.withTrailing false) src.dropLast (joinPath src) = fileWorld cfg src.dropLast (joinPath src) :=
        fileWorld_congr cfg (cfg.withTrailing false) rfl rfl _ _
      have hw1 : fileWorld (cfg.withTrailing true) src.dropLast (joinPath src) = fileWorld cfg src.dropLast (joinPath src) :=
        fileWorld_congr cfg (cfg.withTrailing true) rfl rfl _ _
      have ht0 : (cfg.withTrailing false).trailing = false := rfl
      have ht1 : (cfg.withTrailing true).trailing = true := rfl
      rw [hm0, hm1, hw0, hw1, ht0, ht1]
      cases hs : sinkStart .build fs o with
      | none => exact ⟨rfl, fun _ _ => rfl, fun h => by simp at h⟩
      | some fs1 =>
        simp only
        rcases ppPass_trailing (fileWorld cfg src.dropLast (joinPath src)) .build (sniffLE content.toList) first fs1
            (decodeLines (byteLines content.toList)).1 (decodeLines (byteLines content.toList)).2 with
          ⟨h0, h1⟩ | ⟨d, w', h0, h1⟩ | ⟨out, w', h0, h1 | h1⟩
        · rw [h0, h1]; exact ⟨rfl, fun _ _ => rfl, fun h => by simp at h⟩
        · rw [h0, h1]; exact ⟨rfl, fun _ _ => rfl, fun h => by simp at h⟩
        · rw [h0, h1]; exact ⟨rfl, fun _ _ => rfl, fun _ => ⟨o, out, [], rfl, by simp [sinkEnd], Or.inl (by simp [sinkEnd])⟩⟩
        · rw [h0, h1]
          refine ⟨rfl, fun q hq => ?_, fun _ => ⟨o, out, sniffLE content.toList, rfl, by simp [sinkEnd], Or.inr (by simp [sinkEnd])⟩⟩
          have hqo : q ≠ o := fun e => hq (by rw [e])
          simp only [sinkEnd]
          rw [file?_write_other _ o q _ hqo, file?_write_other _ o q _ hqo]
end Txt

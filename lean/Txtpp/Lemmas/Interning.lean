import Txtpp.Model.Project
/-! C11: the file table of a run. Paths are interned in `names`; equal paths get equal indices, so a
    file named several ways (after OS path resolution) is one file for the coordinator. -/
namespace Txt

theorem indexOf_spec (names : List Path) (p : Path) :
    (indexOf names p).1.getD (indexOf names p).2 [] = p ∧ (indexOf names p).2 < (indexOf names p).1.length ∧
    (∃ ext, (indexOf names p).1 = names ++ ext) ∧ (names.Nodup → (indexOf names p).1.Nodup) ∧
    (p ∈ names → (indexOf names p).1 = names) := by
  unfold indexOf
  cases h : names.findIdx? (· == p) with
  | some i =>
    simp only
    obtain ⟨hlt, hp, _⟩ := List.findIdx?_eq_some_iff_getElem.1 h
    have hp' : names[i] = p := by simpa using hp
    refine ⟨?_, hlt, ⟨[], by simp⟩, fun hn => hn, fun _ => trivial⟩
    simp [List.getD, hlt, hp']
  | none =>
    simp only
    have hnot : p ∉ names := by
      intro hm
      have := List.findIdx?_eq_none_iff.1 h p hm
      simp at this
    refine ⟨by simp [List.getD], by simp, ⟨[p], rfl⟩, fun hn => ?_, fun hm => absurd hm hnot⟩
    rw [List.nodup_append]
    exact ⟨hn, by simp, fun a ha b hb => by simp at hb; subst hb; exact fun e => hnot (e ▸ ha)⟩

/-- interning a list of paths: every index designates its path in the final table, the table only grows,
    and stays duplicate-free - so equal paths have equal indices and different paths different ones -/
theorem indexAll_spec : ∀ (ps : List Path) (names : List Path),
    (indexAll names ps).2.length = ps.length ∧
    (∃ ext, (indexAll names ps).1 = names ++ ext) ∧
    (names.Nodup → (indexAll names ps).1.Nodup) ∧
    (∀ k (hk : k < ps.length), ∃ hk' : k < (indexAll names ps).2.length,
      (indexAll names ps).1.getD ((indexAll names ps).2[k]) [] = ps[k] ∧ (indexAll names ps).2[k] < (indexAll names ps).1.length) := by
  intro ps
  induction ps with
  | nil => intro names; exact ⟨rfl, ⟨[], by simp [indexAll]⟩, fun h => h, fun k hk => by simp at hk⟩
  | cons p ps ih =>
    intro names
    obtain ⟨h1, h2, ⟨e1, h3⟩, h4, _⟩ := indexOf_spec names p
    obtain ⟨g1, ⟨e2, g2⟩, g3, g4⟩ := ih (indexOf names p).1
    simp only [indexAll]
    refine ⟨by simp [g1], ⟨e1 ++ e2, by rw [g2, h3, List.append_assoc]⟩, fun hn => g3 (h4 hn), ?_⟩
    intro k hk
    cases k with
    | zero =>
      refine ⟨by simp, ?_, ?_⟩
      · simp only [List.getElem_cons_zero]
        rw [g2]
        have : (indexOf names p).2 < (indexOf names p).1.length := h2
        simp only [List.getD_eq_getElem?_getD, List.getElem?_append_left this]
        simpa [List.getD_eq_getElem?_getD] using h1
      · simp only [List.getElem_cons_zero]
        rw [g2]; simp; omega
    | succ k =>
      have hk2 : k < ps.length := by simpa using hk
      obtain ⟨hk', a, b⟩ := g4 k hk2
      exact ⟨by simp [g1]; omega, by simpa using a, by simpa using b⟩

/-- two occurrences of the same path in the interned list have the same index -/
theorem indexAll_same (ps names : List Path) (hn : names.Nodup) (i j : Nat) (hi : i < ps.length) (hj : j < ps.length)
    (h : ps[i] = ps[j]) :
    (indexAll names ps).2[i]'(by rw [(indexAll_spec ps names).1]; exact hi) =
    (indexAll names ps).2[j]'(by rw [(indexAll_spec ps names).1]; exact hj) := by
  obtain ⟨_, _, hnd, hall⟩ := indexAll_spec ps names
  obtain ⟨_, a1, a2⟩ := hall i hi
  obtain ⟨_, b1, b2⟩ := hall j hj
  have hnd' := hnd hn
  exact (List.getD_inj a2 b2 hnd').1 (by rw [a1, b1, h])

/-- `.` and empty components do not move -/
theorem walk_dot (fs : FS) (cur : Path) (cs : List Str) (h : fs.isDir cur = true) :
    fs.walk cur (dot :: cs) = fs.walk cur cs ∧ fs.walk cur ([] :: cs) = fs.walk cur cs := by
  constructor <;> simp [FS.walk, h]

/-- `d/..` is where one started (for a directory `d` one level down) -/
theorem walk_down_up (fs : FS) (cur : Path) (c : Str) (cs : List Str) (h : fs.isDir cur = true)
    (hc : fs.isDir (cur ++ [c]) = true) (h1 : c ≠ []) (h2 : c ≠ dot) (h3 : c ≠ dotdot) :
    fs.walk cur (c :: dotdot :: cs) = fs.walk cur cs := by
  have hne : cur ++ [c] ≠ [] := by simp
  have hnd : (dotdot = ([] : Str)) = False := by simp [dotdot]
  have hnd2 : (dotdot = dot) = False := by simp [dotdot, dot]
  simp [FS.walk, h, hc, h1, h2, h3, hnd, hnd2]

end Txt

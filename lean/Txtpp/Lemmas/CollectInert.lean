import Txtpp.Lemmas.PassInv
/-! C02: once a first pass has met a dependency (`PpMode::CollectDeps`) it executes nothing, writes
    nothing and never leaves that mode: commands after an `after X` / `include X` line run only in
    the second pass. -/
namespace Txt
variable {W : Type}

def isCollect : PpMode → Bool
  | .collect _ => true
  | _ => false

/-- in collect mode a directive changes neither the world nor the tags, produces no output and the
    mode stays `collect` -/
theorem execDirective_collect (Wd : World W) (mode : Mode) (hm : mode ≠ .clean) (le : Str) (s s' : PpState W)
    (d : Directive) (o : Option Str) (hc : isCollect s.pm = true)
    (h : execDirective Wd mode le s d = some (s', o)) :
    s'.w = s.w ∧ s'.tags = s.tags ∧ o = none ∧ isCollect s'.pm = true := by
  obtain ⟨ds, hds⟩ : ∃ ds, s.pm = .collect ds := by
    cases hp : s.pm with
    | collect ds => exact ⟨ds, rfl⟩
    | firstExec => simp [hp, isCollect] at hc
    | exec => simp [hp, isCollect] at hc
  unfold execDirective at h
  simp only [hm, if_false, hds] at h
  have hne : (PpMode.collect ds = PpMode.exec) = False := by simp
  simp only [hne, if_false] at h
  split at h
  · simp at h
  · rename_i s1 hcol
    simp only [Option.some.injEq, Prod.mk.injEq] at h
    obtain ⟨h1, h2⟩ := h
    subst h1; subst h2
    split at hcol
    · split at hcol
      · simp at hcol
      · simp only [Option.some.injEq] at hcol
        subst hcol
        simp [isCollect]
      · simp at hcol
    · simp at hcol
  · simp only [PpMode.isExecute, Bool.not_false, if_true, Option.some.injEq, Prod.mk.injEq] at h
    obtain ⟨h1, h2⟩ := h
    subst h1; subst h2
    simp [hds, isCollect]

/-- The machine invariant: from the moment the pass is in collect mode the world is frozen. -/
theorem collect_freezes_world (Wd : World W) (mode : Mode) (hm : mode ≠ .clean) (le : Str) (w0 : W)
    (s s' : PpState W) (d : Directive) (o : Option Str)
    (hJ : isCollect s.pm = true → s.w = w0)
    (h : execDirective Wd mode le s d = some (s', o)) (hc : isCollect s.pm = true) :
    s'.w = w0 ∧ isCollect s'.pm = true := by
  obtain ⟨a, _, _, b⟩ := execDirective_collect Wd mode hm le s s' d o hc h
  exact ⟨by rw [a]; exact hJ hc, b⟩

/-- ordinary lines are not written (and tags not substituted) in collect mode -/
theorem text_collect (Wd : World W) (mode : Mode) (le : Str) (s : PpState W) (l : Str) (hc : isCollect s.pm = true) :
    (txtppSem Wd mode le).text s l = (s, none) := by
  cases hp : s.pm with
  | collect ds => simp [txtppSem, hp, PpMode.isExecute]
  | firstExec => simp [hp, isCollect] at hc
  | exec => simp [hp, isCollect] at hc

end Txt

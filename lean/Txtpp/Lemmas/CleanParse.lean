import Txtpp.Lemmas.MachineSpec
import Txtpp.Model.Pp
/-! C07: clean sees exactly the directive blocks build saw (same grouping of lines into
    directives, same arguments), and does to each temp block's target what build did — remove
    instead of write. -/
namespace Txt
open Refine (Sem parse Block)
variable {W : Type}

/-- if the build parse succeeds, the clean parse of the same lines is the same list of blocks -/
theorem parse_clean_eq_build (Wd : World W) (mode : Mode) (hm : mode ≠ .clean) (le : Str) (lines : List Str)
    (cur : Option Directive) (bs : List (Block Directive))
    (h : parse (txtppSem Wd mode le) cur lines = some bs) :
    parse (txtppSem Wd .clean le) cur lines = some bs := by
  have hdet : ∀ l, (txtppSem Wd mode le).detect l = detectFrom l := by
    intro l; simp only [txtppSem]
    cases detectFrom l with
    | none => rfl
    | some d => simp [hm]
  have hdetc : ∀ l, (txtppSem Wd .clean le).detect l =
      (match detectFrom l with | some d => if badStart d then none else some d | none => none) := by
    intro l; simp only [txtppSem]
    cases detectFrom l with
    | none => rfl
    | some d => simp
  induction lines generalizing cur bs with
  | nil => cases cur <;> simpa [parse] using h
  | cons l ls ih =>
    cases cur with
    | none =>
      simp only [parse, hdet, hdetc] at h ⊢
      cases hd : detectFrom l with
      | none =>
        simp only [hd] at h ⊢
        cases hp : parse (txtppSem Wd mode le) none ls with
        | none => simp [hp] at h
        | some bs' => simp [hp] at h; subst h; simp [ih none bs' hp]
      | some d =>
        simp only [hd] at h ⊢
        by_cases hb : badStart d = true
        · simp [txtppSem, hb] at h
        · have hb' : badStart d = false := by simpa using hb
          simp only [txtppSem, hb', Bool.false_eq_true, if_false] at h ⊢
          exact ih (some d) bs h
    | some d0 =>
      simp only [parse] at h ⊢
      have hadd : (txtppSem Wd .clean le).addLine = (txtppSem Wd mode le).addLine := rfl
      rw [hadd]
      cases ha : (txtppSem Wd mode le).addLine d0 l with
      | some d' => simp only [ha] at h ⊢; exact ih (some d') bs h
      | none =>
        simp only [ha, hdet, hdetc] at h ⊢
        cases hd : detectFrom l with
        | none =>
          simp only [hd] at h ⊢
          cases hp : parse (txtppSem Wd mode le) none ls with
          | none => simp [hp] at h
          | some bs' => simp [hp] at h; subst h; simp [ih none bs' hp]
        | some d =>
          simp only [hd] at h ⊢
          by_cases hb : badStart d = true
          · simp [txtppSem, hb] at h
          · have hb' : badStart d = false := by simpa using hb
            simp only [txtppSem, hb', Bool.false_eq_true, if_false, Option.map_eq_some_iff] at h ⊢
            obtain ⟨bs', hp, rfl⟩ := h
            exact ⟨bs', ih (some d) bs' hp, rfl⟩

/-- what build does with a temp block: write the joined body to the target -/
theorem build_temp_block (Wd : World W) (le : Str) (s : PpState W) (d : Directive) (target : Str) (body : List Str)
    (hty : d.ty = .temp) (hargs : d.args = target :: body) (hpm : s.pm = .exec) (hn : isTxtppPath target = false) :
    execDirective Wd .build le s d =
      (match Wd.writeTemp s.w target (joinWith le body) with
       | none => none
       | some w' => some ({ s with w := w' }, none)) := by
  simp [execDirective, hty, hargs, hpm, PpMode.isExecute, execTemp, hn]
  cases Wd.writeTemp s.w target (joinWith le body) <;> simp

/-- what clean does with the same block: remove the same target (errors ignored), nothing else -/
theorem clean_temp_block (Wd : World W) (le : Str) (s : PpState W) (d : Directive) (target : Str) (body : List Str)
    (hty : d.ty = .temp) (hargs : d.args = target :: body) (hn : isTxtppPath target = false) :
    execDirective Wd .clean le s d =
      (match Wd.removeTemp s.w target with
       | none => some (s, none)
       | some w' => some ({ s with w := w' }, none)) := by
  simp [execDirective, hty, hargs, execTemp, hn]
  cases Wd.removeTemp s.w target <;> simp

/-- every other block is a no-op for clean -/
theorem clean_other_block (Wd : World W) (le : Str) (s : PpState W) (d : Directive) (hty : d.ty ≠ .temp) :
    execDirective Wd .clean le s d = some (s, none) := by
  cases h : d.ty <;> simp_all [execDirective]

end Txt

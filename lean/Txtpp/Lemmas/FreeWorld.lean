import Txtpp.Lemmas.CoordTop
import Txtpp.Lemmas.Hermetic
import Txtpp.Lemmas.Worker
/-! Executions of the coordinator with *arbitrary, history-dependent* task results (what the concrete
    preprocessor delivers depends on the file system at that moment) are executions of the abstract
    coordinator for some static world: every task is delivered at most once, so the results seen so
    far can be tabulated. All theorems about `Reach w inputs s` therefore apply to the concrete run. -/
namespace Coord

/-- the result fits the task: a final pass never reports dependencies, a dependency list is never empty -/
def WellTyped : Task → Res → Prop
  | .pp f _, .ok g => g = f
  | .pp f true, .hasDeps g deps => g = f ∧ deps ≠ []
  | _, _ => False

/-- executions with free results; the history records what was delivered -/
inductive FReach (inputs : List File) : St → List (Task × Res) → Prop where
  | init : FReach inputs (init inputs) []
  | step (s s' : St) (hist : List (Task × Res)) (t : Task) (r : Res) : FReach inputs s hist → t ∈ s.pool → WellTyped t r →
      handle { s with pool := s.pool.erase t } r = .cont s' → FReach inputs s' (hist ++ [(t, r)])

/-- replay: an execution with free results is an execution of every world that tabulates its history -/
theorem freach_replay (w : World) (inputs : List File) (s : St) (hist : List (Task × Res)) (h : FReach inputs s hist)
    (hw : ∀ t r, (t, r) ∈ hist → w.result t = r) : Reach w inputs s := by
  induction h with
  | init => exact Reach.init
  | step s s' hist t r _ ht _ hc ih =>
    have hr := ih (fun t' r' hm => hw t' r' (List.mem_append_left _ hm))
    have : w.result t = r := hw t r (List.mem_append_right _ (by simp))
    exact Reach.step s s' hr (Step.deliver s s' t ht (by rw [this]; exact hc))

/-- record one more result in the world -/
def setWorld (w : World) (t : Task) (r : Res) : World :=
  match t, r with
  | .pp f true, .ok _ => { deps := upd w.deps f [], failFirst := upd w.failFirst f false, failFinal := upd w.failFinal f false }
  | .pp f true, .hasDeps _ deps => { w with deps := upd w.deps f deps, failFirst := upd w.failFirst f false }
  | .pp f false, .ok _ => { w with failFinal := upd w.failFinal f false }
  | _, _ => w

theorem setWorld_result (w : World) (t : Task) (r : Res) (h : WellTyped t r) : (setWorld w t r).result t = r := by
  cases t with
  | pp f b =>
    cases r with
    | err => simp [WellTyped] at h
    | ok g =>
      simp only [WellTyped] at h
      subst h
      cases b <;> simp [setWorld, World.result]
    | hasDeps g deps =>
      cases b with
      | false => simp [WellTyped] at h
      | true =>
        simp only [WellTyped] at h
        obtain ⟨rfl, hne⟩ := h
        simp [setWorld, World.result, hne]

theorem setWorld_other (w : World) (f g : File) (b c : Bool) (r : Res) (hne : g ≠ f) :
    (setWorld w (.pp f b) r).result (.pp g c) = w.result (.pp g c) := by
  cases b <;> cases r <;> cases c <;> simp only [setWorld, World.result, upd_other, hne, ne_eq, not_false_eq_true] <;> rfl

theorem result_first_deps (w : World) (f : File) (h : w.deps f ≠ []) :
    w.result (.pp f true) = if w.failFirst f then .err else .hasDeps f (w.deps f) := by
  simp [World.result, h]

theorem execFile_pool_first (s : St) (f g : File) (b : Bool) (hg : g ∈ s.seen) (hn : Task.pp g true ∉ s.pool) :
    Task.pp g true ∉ (execFile s f b).pool := by
  unfold execFile
  split
  · exact hn
  · rename_i hc
    simp only [List.mem_append, List.mem_singleton, not_or]
    refine ⟨hn, ?_⟩
    intro he
    injection he with h1 h2
    subst h1; subst h2
    simp at hc
    exact hc hg

theorem execFiles_pool_first (l : List File) : ∀ (s : St) (g : File) (b : Bool), g ∈ s.seen → Task.pp g true ∉ s.pool →
    Task.pp g true ∉ (execFiles s l b).pool := by
  induction l with
  | nil => intro s g b _ hn; exact hn
  | cons f l ih =>
    intro s g b hg hn
    rw [execFiles_cons]
    exact ih _ g b (execFile_seen_mono s f b g hg) (execFile_pool_first s f g b hg hn)

theorem handle_pool_first (s s' : St) (r : Res) (h : handle s r = .cont s') (g : File) (hg : g ∈ s.seen)
    (hn : Task.pp g true ∉ s.pool) : Task.pp g true ∉ s'.pool := by
  unfold handle at h
  cases r with
  | err => simp at h
  | hasDeps a deps =>
    simp only at h
    split at h
    · simp only [Out.cont.injEq] at h; subst h; exact execFiles_pool_first deps _ g true hg hn
    · simp only [Out.cont.injEq] at h; subst h; exact execFile_pool_first _ a g false hg hn
  | ok b =>
    simp only at h
    split at h
    · simp at h
    · simp only [Out.cont.injEq] at h; subst h; exact execFiles_pool_first _ _ g false hg hn

theorem handle_fin_mono (s s' : St) (r : Res) (h : handle s r = .cont s') : ∀ x ∈ s.dm.fin, x ∈ s'.dm.fin := by
  intro x hx
  cases r with
  | err => simp [handle] at h
  | ok a => rw [handle_ok_fin s s' a h]; exact List.mem_cons_of_mem _ hx
  | hasDeps a deps =>
    unfold handle at h
    simp only at h
    split at h
    · simp only [Out.cont.injEq] at h; subst h; rw [execFiles_dm]; simp only; rw [addDependency_fin]; exact hx
    · simp only [Out.cont.injEq] at h; subst h; rw [execFile_dm]; simp only; rw [addDependency_fin]; exact hx

/-- what the history says about the present state -/
structure HistInv (s : St) (hist : List (Task × Res)) : Prop where
  typed : ∀ t r, (t, r) ∈ hist → WellTyped t r
  first : ∀ f r, (Task.pp f true, r) ∈ hist → f ∈ s.seen ∧ Task.pp f true ∉ s.pool
  final : ∀ f r, (Task.pp f false, r) ∈ hist → f ∈ s.dm.fin
  firstOk : ∀ f g, (Task.pp f true, Res.ok g) ∈ hist → f ∈ s.dm.fin
  finHist : ∀ f ∈ s.dm.fin, ∃ b, (Task.pp f b, Res.ok f) ∈ hist

/-- recording the result of a task that is in the pool does not disturb what the world says about the
    tasks delivered earlier: nothing about that file's pass was delivered before -/
theorem setWorld_agrees (w : World) (s : St) (hist : List (Task × Res))
    (hw : ∀ t r, (t, r) ∈ hist → w.result t = r) (hH : HistInv s hist) (hI : Inv w s)
    (t : Task) (r : Res) (ht : t ∈ s.pool) (hty : WellTyped t r) :
    ∀ t' r', (t', r') ∈ hist → (setWorld w t r).result t' = r' := by
  intro t' r' hm
  rw [← hw t' r' hm]
  cases t with
  | pp f b =>
    cases t' with
    | pp g c =>
      by_cases hgf : g = f
      · subst hgf
        cases b with
        | true =>
          exfalso
          cases c with
          | true => exact (hH.first g r' hm).2 ht
          | false => exact (hI.ex1 g ht).2.2 (hH.final g r' hm)
        | false =>
          cases c with
          | false => exact absurd (hH.final g r' hm) (hI.ex2 g ht).2
          | true =>
            have hty' := hH.typed _ _ hm
            cases r' with
            | err => simp [WellTyped] at hty'
            | ok a => exact absurd (hH.firstOk g a hm) (hI.ex2 g ht).2
            | hasDeps a deps =>
              simp only [WellTyped] at hty'
              obtain ⟨rfl, hne⟩ := hty'
              have hwr := hw _ _ hm
              have hdeps : w.deps a ≠ [] := by
                intro he
                simp only [World.result, he, if_true] at hwr
                split at hwr <;> simp at hwr
              cases r with
              | err => simp [WellTyped] at hty
              | hasDeps a' deps' => simp [WellTyped] at hty
              | ok a' =>
                rw [result_first_deps (setWorld w (Task.pp a false) (Res.ok a')) a hdeps, result_first_deps w a hdeps]
                rfl
      · exact setWorld_other w f g b c r hgf

/-- **every execution with free results is an execution of a static world** that tabulates exactly the
    results that were delivered -/
theorem freach_world (inputs : List File) (s : St) (hist : List (Task × Res)) (h : FReach inputs s hist) :
    ∃ w : World, (∀ t r, (t, r) ∈ hist → w.result t = r) ∧ HistInv s hist := by
  induction h with
  | init =>
    exact ⟨⟨fun _ => [], fun _ => false, fun _ => false⟩, fun t r hm => by simp at hm,
      ⟨fun t r hm => by simp at hm, fun f r hm => by simp at hm, fun f r hm => by simp at hm, fun f g hm => by simp at hm,
       fun f hf => by simp [init, execFiles_dm] at hf⟩⟩
  | step s s' hist t r hprev ht hty hc ih =>
    obtain ⟨w, hw, hH⟩ := ih
    have hR : Reach w inputs s := freach_replay w inputs s hist hprev hw
    have hI : Inv w s := reach_inv w inputs s hR
    have hseen : ∀ x ∈ s.seen, x ∈ s'.seen := handle_seen_mono { s with pool := s.pool.erase t } s' r hc
    have hfin : ∀ x ∈ s.dm.fin, x ∈ s'.dm.fin := handle_fin_mono { s with pool := s.pool.erase t } s' r hc
    cases t with
    | pp f b =>
      have hfseen : f ∈ s.seen := hI.poolSeen f b ht
      -- the new history invariant
      have hH' : HistInv s' (hist ++ [(Task.pp f b, r)]) := by
        refine ⟨?_, ?_, ?_, ?_, ?_⟩
        · intro t' r' hm
          rcases List.mem_append.1 hm with hm | hm
          · exact hH.typed t' r' hm
          · simp only [List.mem_singleton, Prod.mk.injEq] at hm; obtain ⟨rfl, rfl⟩ := hm; exact hty
        · intro g r' hm
          have key : g ∈ s.seen ∧ Task.pp g true ∉ s.pool.erase (Task.pp f b) := by
            rcases List.mem_append.1 hm with hm | hm
            · obtain ⟨h1, h2⟩ := hH.first g r' hm
              exact ⟨h1, fun hc' => h2 (List.mem_of_mem_erase hc')⟩
            · simp only [List.mem_singleton, Prod.mk.injEq] at hm
              obtain ⟨h1, _⟩ := hm
              injection h1 with h1 h2
              subst h1; subst h2
              exact ⟨hfseen, fun hc' => ((mem_erase_nodup hI.poolND _ _).1 hc').1 rfl⟩
          exact ⟨hseen g key.1, handle_pool_first _ s' r hc g key.1 key.2⟩
        · intro g r' hm
          rcases List.mem_append.1 hm with hm | hm
          · exact hfin g (hH.final g r' hm)
          · simp only [List.mem_singleton, Prod.mk.injEq] at hm
            obtain ⟨h1, h2⟩ := hm
            injection h1 with h1 h3
            subst h1; subst h3; subst h2
            cases r' with
            | err => simp [WellTyped] at hty
            | hasDeps a deps => simp [WellTyped] at hty
            | ok a =>
              simp only [WellTyped] at hty; subst hty
              rw [handle_ok_fin _ s' _ hc]; exact List.mem_cons_self
        · intro g a hm
          rcases List.mem_append.1 hm with hm | hm
          · exact hfin g (hH.firstOk g a hm)
          · simp only [List.mem_singleton, Prod.mk.injEq] at hm
            obtain ⟨h1, h2⟩ := hm
            injection h1 with h1 h3
            subst h1; subst h3; subst h2
            simp only [WellTyped] at hty; subst hty
            rw [handle_ok_fin _ s' _ hc]; exact List.mem_cons_self
        · intro g hg
          cases r with
          | err => simp [WellTyped] at hty
          | hasDeps a deps =>
            have hfe : s'.dm.fin = s.dm.fin := by
              have hc' := hc
              unfold handle at hc'
              simp only at hc'
              split at hc'
              · simp only [Out.cont.injEq] at hc'; subst hc'; rw [execFiles_dm]; simp only; rw [addDependency_fin]
              · simp only [Out.cont.injEq] at hc'; subst hc'; rw [execFile_dm]; simp only; rw [addDependency_fin]
            rw [hfe] at hg
            obtain ⟨b', hb'⟩ := hH.finHist g hg
            exact ⟨b', List.mem_append_left _ hb'⟩
          | ok a =>
            simp only [WellTyped] at hty; subst hty
            rw [handle_ok_fin _ s' _ hc] at hg
            rcases List.mem_cons.1 hg with rfl | hg
            · exact ⟨b, List.mem_append_right _ (by simp)⟩
            · obtain ⟨b', hb'⟩ := hH.finHist g hg
              exact ⟨b', List.mem_append_left _ hb'⟩
      refine ⟨setWorld w (Task.pp f b) r, ?_, hH'⟩
      intro t' r' hm0
      rcases List.mem_append.1 hm0 with hmo | hmn
      · exact setWorld_agrees w s hist hw hH hI (Task.pp f b) r ht hty t' r' hmo
      · simp only [List.mem_singleton, Prod.mk.injEq] at hmn
        obtain ⟨rfl, rfl⟩ := hmn
        exact setWorld_result w _ _ hty

/-- corollary: the coordinator invariant, and with it every theorem about `Reach`, holds along
    executions with free results -/
theorem freach_reach (inputs : List File) (s : St) (hist : List (Task × Res)) (h : FReach inputs s hist) :
    ∃ w : World, Reach w inputs s ∧ ∀ t r, (t, r) ∈ hist → w.result t = r := by
  obtain ⟨w, hw, _⟩ := freach_world inputs s hist h
  exact ⟨w, freach_replay w inputs s hist h hw, hw⟩

/-- C18 along executions with free results: the `unwrap` in `notify_finish` never panics -/
theorem freach_never_panics (inputs : List File) (s : St) (hist : List (Task × Res)) (h : FReach inputs s hist)
    (t : Task) (r : Res) (ht : t ∈ s.pool) (hty : WellTyped t r) :
    handle { s with pool := s.pool.erase t } r ≠ .panic := by
  obtain ⟨w, hw, hH⟩ := freach_world inputs s hist h
  have hR : Reach w inputs s := freach_replay w inputs s hist h hw
  have hI : Inv w s := reach_inv w inputs s hR
  have hag := setWorld_agrees w s hist hw hH hI t r ht hty
  have hR' : Reach (setWorld w t r) inputs s := freach_replay _ inputs s hist h hag
  have := never_panics (setWorld w t r) inputs s hR' t ht
  rw [setWorld_result w t r hty] at this
  exact this

/-- C02 along executions with free results: when the final pass of a file is in flight, every dependency
    its first pass reported has already completed a pass that ended `ok` -/
theorem freach_second_pass_after_deps (inputs : List File) (s : St) (hist : List (Task × Res)) (h : FReach inputs s hist)
    (a : File) (ha : Task.pp a false ∈ s.pool) (deps : List File) (hd : (Task.pp a true, Res.hasDeps a deps) ∈ hist) :
    ∀ d ∈ deps, ∃ b, (Task.pp d b, Res.ok d) ∈ hist := by
  obtain ⟨w, hw, hH⟩ := freach_world inputs s hist h
  have hR : Reach w inputs s := freach_replay w inputs s hist h hw
  have hwr := hw _ _ hd
  have hdeps : w.deps a = deps := by
    by_cases he : w.deps a = []
    · simp only [World.result, he, if_true] at hwr
      split at hwr <;> simp at hwr
    · rw [result_first_deps w a he] at hwr
      split at hwr
      · simp at hwr
      · simp only [Res.hasDeps.injEq] at hwr; exact hwr.2
  intro d hdm
  have := second_pass_after_deps w inputs s hR a ha d (by rw [hdeps]; exact hdm)
  exact hH.finHist d this

end Coord

import Txtpp.Lemmas.CoordTop
/-! Scheduling additional first-pass files at any time (what a finished directory scan does)
    preserves the coordinator invariant. -/
namespace Coord

theorem inject_preserves (w : World) (s : St) (fs : List File) (hI : Inv w s) : Inv w (execFiles s fs true) := by
  obtain ⟨e1, e2, e3, e4, e5⟩ := execFiles_first s fs hI.seenND hI.poolND hI.poolSeen
  have hdm : (execFiles s fs true).dm = s.dm := execFiles_dm _ _ _
  -- new tasks are first passes of files that were unseen
  have hnew : ∀ t, t ∈ (execFiles s fs true).pool → t ∈ s.pool ∨ ∃ f, f ∉ s.seen ∧ t = Task.pp f true := by
    intro t ht
    rcases (e4 t).1 ht with h | ⟨f, _, hf, rfl⟩
    · exact Or.inl h
    · exact Or.inr ⟨f, hf, rfl⟩
  have unseen_clean : ∀ f, f ∉ s.seen → (∀ d, f ∉ s.dm.inE d) ∧ f ∉ s.dm.fin ∧ Task.pp f false ∉ s.pool ∧ Task.pp f true ∉ s.pool := by
    intro f hf
    refine ⟨fun d hd => hf (hI.edge d f hd).2.2.2, fun h => hf (hI.finSeen f h), fun h => hf (hI.poolSeen f false h), fun h => hf (hI.poolSeen f true h)⟩
  constructor
  · exact execFiles_acct _ _ _ hI.acct
  · exact e1
  · exact e2
  · rw [hdm]; exact hI.finND
  · exact e5
  · intro f hf; rw [hdm] at hf; exact (e3 f).2 (Or.inl (hI.finSeen f hf))
  · -- cover
    intro f hf
    rw [hdm]
    rcases (e3 f).1 hf with h | h
    · rcases hI.cover f h with c | c | c | c
      · exact Or.inl ((e4 _).2 (Or.inl c))
      · exact Or.inr (Or.inl ((e4 _).2 (Or.inl c)))
      · exact Or.inr (Or.inr (Or.inl c))
      · exact Or.inr (Or.inr (Or.inr c))
    · by_cases hs : f ∈ s.seen
      · rcases hI.cover f hs with c | c | c | c
        · exact Or.inl ((e4 _).2 (Or.inl c))
        · exact Or.inr (Or.inl ((e4 _).2 (Or.inl c)))
        · exact Or.inr (Or.inr (Or.inl c))
        · exact Or.inr (Or.inr (Or.inr c))
      · exact Or.inl ((e4 _).2 (Or.inr ⟨f, h, hs, rfl⟩))
  · -- ex1
    intro f hf
    rw [hdm]
    rcases hnew _ hf with h | ⟨g, hg, hfg⟩
    · obtain ⟨a, b, c⟩ := hI.ex1 f h
      refine ⟨?_, b, c⟩
      intro h2
      rcases hnew _ h2 with h3 | ⟨g, _, hg⟩
      · exact a h3
      · cases hg
    · cases hfg
      obtain ⟨a, b, c, _⟩ := unseen_clean f hg
      refine ⟨?_, a, b⟩
      intro h2
      rcases hnew _ h2 with h3 | ⟨g', _, hg'⟩
      · exact c h3
      · cases hg'
  · -- ex2
    intro f hf
    rw [hdm]
    rcases hnew _ hf with h | ⟨g, _, hg⟩
    · exact hI.ex2 f h
    · cases hg
  · intro f d h; rw [hdm] at h ⊢; exact hI.ex3 f d h
  · intro d a h
    rw [hdm] at h ⊢
    obtain ⟨a1, a2, a3, a4⟩ := hI.edge d a h
    exact ⟨a1, a2, (e3 d).2 (Or.inl a3), (e3 a).2 (Or.inl a4)⟩
  · intro d; rw [hdm]; exact hI.inEND d
  · intro a h; rw [hdm] at h ⊢; exact hI.count a h
  · intro a h; rw [hdm] at h ⊢; exact hI.waitDeps a h
  · intro a h
    rw [hdm]
    rcases hnew _ h with h' | ⟨g, _, hg⟩
    · exact hI.secondDeps a h'
    · cases hg
  · intro a h; rw [hdm] at h ⊢; exact hI.finDeps a h
  · intro a h
    rw [hdm]
    rcases hnew _ h with h' | ⟨g, hg, hfg⟩
    · exact hI.cntP1 a h'
    · cases hfg; exact hI.cntUnseen a hg
  · intro a h
    rw [hdm]
    exact hI.cntUnseen a (fun hs => h ((e3 a).2 (Or.inl hs)))

end Coord

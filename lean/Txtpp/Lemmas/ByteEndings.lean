import Txtpp.Lemmas.ByteIdentity
import Txtpp.Lemmas.LineEnding
/-! C12 on bytes: a text whose only line terminators are `le` encodes to bytes in which 13 / 10 occur only
    as that terminator. -/
namespace Txt

/-- bytes in which 13 and 10 occur only as the pair 13 10 -/
def crlfOnly : List UInt8 → Bool
  | [] => true
  | 13 :: 10 :: r => crlfOnly r
  | 13 :: _ => false
  | 10 :: _ => false
  | _ :: r => crlfOnly r

theorem crlfOnly_clean_append (x r : List UInt8) (h10 : (10 : UInt8) ∉ x) (h13 : (13 : UInt8) ∉ x) :
    crlfOnly (x ++ r) = crlfOnly r := by
  induction x with
  | nil => rfl
  | cons b bs ih =>
    have hb10 : b ≠ 10 := fun e => h10 (by simp [e])
    have hb13 : b ≠ 13 := fun e => h13 (by simp [e])
    have := ih (fun hm => h10 (List.mem_cons_of_mem _ hm)) (fun hm => h13 (List.mem_cons_of_mem _ hm))
    simp only [List.cons_append]
    rw [crlfOnly]
    · exact this
    · intro r' h _; exact hb13 h
    · intro h; exact hb13 h
    · intro h; exact hb10 h

theorem lineBytes_join (le : Str) : ∀ ls : List Str, lineBytes (joinWith le ls) =
    match ls with
    | [] => []
    | l :: rest => lineBytes l ++ (rest.flatMap (fun l' => lineBytes le ++ lineBytes l'))
  | [] => by simp [joinWith, lineBytes, encodeUtf8]
  | [l] => by simp [joinWith]
  | l :: l2 :: rest => by
    have ih := lineBytes_join le (l2 :: rest)
    simp only [joinWith, lineBytes_append, ih, List.flatMap_cons, List.append_assoc]

/-- CRLF text: 13 and 10 occur only as the pair -/
theorem bytes_crlf_only (out : Str) (h : LEonly ['\r', '\n'] out) : crlfOnly (lineBytes out) = true := by
  obtain ⟨ls, hc, rfl⟩ := h
  rw [lineBytes_join]
  cases ls with
  | nil => rfl
  | cons l rest =>
    simp only
    have hl := encode_clean l (hc l List.mem_cons_self)
    rw [crlfOnly_clean_append (lineBytes l) _ hl.1 hl.2]
    have hrest : ∀ l' ∈ rest, Clean l' := fun l' h' => hc l' (List.mem_cons_of_mem _ h')
    clear hl hc
    induction rest with
    | nil => rfl
    | cons l2 r2 ih =>
      simp only [List.flatMap_cons, List.append_assoc]
      have hle : lineBytes ['\r', '\n'] = [13, 10] := rfl
      rw [hle]
      show crlfOnly (13 :: 10 :: (lineBytes l2 ++ _)) = true
      rw [crlfOnly]
      have hl2 := encode_clean l2 (hrest l2 List.mem_cons_self)
      rw [crlfOnly_clean_append (lineBytes l2) _ hl2.1 hl2.2]
      exact ih (fun l' h' => hrest l' (List.mem_cons_of_mem _ h'))

/-- LF text: no byte 13 at all -/
theorem bytes_lf_only (out : Str) (h : LEonly ['\n'] out) : (13 : UInt8) ∉ lineBytes out := by
  obtain ⟨ls, hc, rfl⟩ := h
  rw [lineBytes_join]
  cases ls with
  | nil => simp
  | cons l rest =>
    simp only [List.mem_append, List.mem_flatMap, not_or, not_exists, not_and]
    refine ⟨(encode_clean l (hc l List.mem_cons_self)).2, fun l' hl' => ?_⟩
    have hle : lineBytes ['\n'] = [10] := rfl
    rw [hle]
    exact ⟨by decide, (encode_clean l' (hc l' (List.mem_cons_of_mem _ hl'))).2⟩

end Txt

import Txtpp.Lemmas.MachineSpec
import Txtpp.Model.Safe
import Txtpp.Lemmas.ProjectFacts
/-! The write scope of a pass, stated over the *source text*: every path a pass (and a whole run)
    adds to the touch set is the output path of a processed source or the resolution of the first
    argument of a `temp` block of that source's text. Uses the refinement `machine = parse→eval→render`
    so that "the directives executed" are "the blocks of the parse of the lines". (C10) -/
namespace Refine
variable {D σ : Type}

/-- invariant along `eval`, where the step hypothesis may use that the directive is a block of the
    evaluated list -/
theorem eval_inv_mem (S : Sem D σ) (J : σ → Prop) (all : List (Block D))
    (hexec : ∀ s d e s' o, Block.dir d e ∈ all → J s → S.exec s d = some (s', o) → J s')
    (htext : ∀ s l, J s → J (S.text s l).1) :
    ∀ (bs : List (Block D)) (s s' : σ) (cs : List Chunk), (∀ b ∈ bs, b ∈ all) → J s → eval S s bs = some (s', cs) → J s' := by
  intro bs
  induction bs with
  | nil => intro s s' cs _ hj h; simp [eval] at h; rw [← h.1]; exact hj
  | cons b bs ih =>
    intro s s' cs hsub hj h
    have hsub' : ∀ b' ∈ bs, b' ∈ all := fun b' hb => hsub b' (List.mem_cons_of_mem _ hb)
    cases b with
    | text l =>
      simp only [eval] at h
      have ht := htext s l hj
      rcases hx : S.text s l with ⟨s1, o⟩
      rw [hx] at h ht
      cases o with
      | none => exact ih s1 s' cs hsub' ht h
      | some l' =>
        simp only [Option.map_eq_some_iff] at h
        obtain ⟨⟨s2, cs2⟩, he, hq⟩ := h
        simp at hq
        rw [← hq.1]
        exact ih s1 s2 cs2 hsub' ht he
    | dir d e =>
      simp only [eval] at h
      have hmem : Block.dir d e ∈ all := hsub _ (List.mem_cons_self)
      cases hx : S.exec s d with
      | none => simp [hx] at h
      | some r =>
        obtain ⟨s1, o⟩ := r
        have hj1 := hexec s d e s1 o hmem hj hx
        cases o with
        | none => simp only [hx] at h; exact ih s1 s' cs hsub' hj1 h
        | some c =>
          simp only [hx, Option.map_eq_some_iff] at h
          obtain ⟨⟨s2, cs2⟩, he, hq⟩ := h
          simp at hq
          rw [← hq.1]
          exact ih s1 s2 cs2 hsub' hj1 he

/-- a successful run of the streaming machine is an evaluation of the parse of its lines -/
theorem machine_some_spec (S : Sem D σ) (t : Bool) (s0 : σ) (lines : List Str) (s : σ) (out : Str)
    (h : machine S t s0 lines = some (s, out)) :
    ∃ bs cs, parse S none lines = some bs ∧ eval S s0 bs = some (s, cs) := by
  rw [machine_eq_spec] at h
  unfold spec at h
  cases hp : parse S none lines with
  | none => simp [hp] at h
  | some bs =>
    simp only [hp] at h
    cases he : eval S s0 bs with
    | none => simp [he] at h
    | some r =>
      obtain ⟨s1, cs⟩ := r
      simp only [he] at h
      simp at h
      exact ⟨bs, cs, rfl, by rw [← h.1]; exact he⟩

/-- the invariant version of `machine_inv` in which the step may use that the directive is a block
    of the parse of the source lines -/
theorem machine_inv_mem (S : Sem D σ) (J : σ → Prop) (t : Bool) (s0 : σ) (lines : List Str) (s : σ) (out : Str)
    (hexec : ∀ bs s d e s' o, parse S none lines = some bs → Block.dir d e ∈ bs → J s → S.exec s d = some (s', o) → J s')
    (htext : ∀ s l, J s → J (S.text s l).1)
    (h0 : J s0) (h : machine S t s0 lines = some (s, out)) : J s := by
  obtain ⟨bs, cs, hp, he⟩ := machine_some_spec S t s0 lines s out h
  exact eval_inv_mem S J bs (fun s d e s' o hm hj hx => hexec bs s d e s' o hp hm hj hx) htext bs s0 s cs (fun _ hb => hb) h0 he

/-- the block structure depends only on the grammar part of the semantics -/
theorem parse_congr {σ' : Type} (S : Sem D σ) (S' : Sem D σ') (hd : S.detect = S'.detect) (hb : S.badStart = S'.badStart)
    (ha : S.addLine = S'.addLine) : ∀ (lines : List Str) (cur : Option D), parse S cur lines = parse S' cur lines := by
  intro lines
  induction lines with
  | nil => intro cur; cases cur <;> rfl
  | cons l ls ih =>
    intro cur
    cases cur with
    | none => simp only [parse, hd, hb, ih]
    | some d => simp only [parse, hd, hb, ha, ih]

end Refine

namespace Txt
open Refine (Sem machine parse Block)

theorem parse_eq_srcBlocks {W : Type} (Wd : World W) (mode : Mode) (le : Str) (lines : List Str) :
    parse (txtppSem Wd mode le) none lines = srcBlocks mode lines :=
  Refine.parse_congr (txtppSem Wd mode le) (txtppSem nullWorld mode []) rfl rfl rfl lines none

/-- `p` is the resolution, from directory `wd`, of the target of a `temp` block of the source text -/
def TempTarget (cfg : Cfg) (fs : FS) (wd : Path) (lines : List Str) (p : Path) : Prop :=
  ∃ bs d e target body, srcBlocks cfg.mode lines = some bs ∧ Block.dir d e ∈ bs ∧ d.ty = .temp ∧
    d.args = target :: body ∧ isTxtppPath target = false ∧ fs.resolve cfg wd target = some p

theorem walk_dirs (fs fs' : FS) (h : fs'.dirs = fs.dirs) : ∀ (comps : List Str) (cur : Path), fs'.walk cur comps = fs.walk cur comps := by
  intro comps
  induction comps with
  | nil => intro cur; rfl
  | cons c cs ih => intro cur; simp only [FS.walk, FS.isDir, h, ih]; rfl

theorem resolve_dirs (fs fs' : FS) (cfg : Cfg) (wd : Path) (arg : Str) (h : fs'.dirs = fs.dirs) :
    fs'.resolve cfg wd arg = fs.resolve cfg wd arg := by
  unfold FS.resolve
  split
  · rfl
  · exact walk_dirs fs fs' h _ _

/-- scope invariant: directories unchanged, and the touch set grew only by allowed paths -/
def Scope (fs0 : FS) (A : Path → Prop) (fs : FS) : Prop :=
  fs.dirs = fs0.dirs ∧ (∀ p ∈ fs.touched, p ∈ fs0.touched ∨ A p) ∧ (∀ q, ¬ A q → fs.file? q = fs0.file? q)

theorem Scope.mono (fs0 : FS) (A B : Path → Prop) (fs : FS) (hAB : ∀ p, A p → B p) (h : Scope fs0 A fs) : Scope fs0 B fs :=
  ⟨h.1, fun p hp => (h.2.1 p hp).imp id (hAB p), fun q hq => h.2.2 q (fun ha => hq (hAB q ha))⟩

theorem Scope.write (fs0 : FS) (A : Path → Prop) (fs : FS) (p : Path) (b : ByteArray) (h : Scope fs0 A fs) (hp : A p) :
    Scope fs0 A (fs.write p b) := by
  refine ⟨h.1, fun q hq => ?_, fun q hq => ?_⟩
  · rcases (touched_write fs p q b).1 hq with rfl | hq
    · exact Or.inr hp
    · exact h.2.1 q hq
  · have hne : q ≠ p := fun e => hq (e ▸ hp)
    rw [file?_write_other fs p q b hne]; exact h.2.2 q hq

theorem Scope.remove (fs0 : FS) (A : Path → Prop) (fs : FS) (p : Path) (h : Scope fs0 A fs) (hp : A p) :
    Scope fs0 A (fs.remove p) := by
  refine ⟨h.1, fun q hq => ?_, fun q hq => ?_⟩
  · rcases (touched_remove fs p q).1 hq with rfl | hq
    · exact Or.inr hp
    · exact h.2.1 q hq
  · have hne : q ≠ p := fun e => hq (e ▸ hp)
    rw [file?_remove_other fs p q hne]; exact h.2.2 q hq

theorem runActs_dirs (cfg : Cfg) (wd : Path) (src : Str) (fs : FS) (acts : List (Str × Str)) (out : ByteArray) (ok : Bool) :
    (runActs cfg wd src fs acts out ok).2.2.dirs = fs.dirs := by
  induction acts generalizing fs out ok with
  | nil => rfl
  | cons a rest ih =>
    obtain ⟨k, a⟩ := a
    simp only [runActs]
    rw [ih]
    exact (runAct_files cfg wd src fs k a).2.2

variable {W : Type}

/-- like `OpsPreserve`, but the temp operations only have to preserve `I` for the target of the
    directive being executed -/
structure OpsPreserveAt (Wd : World W) (mode : Mode) (I : W → Prop) (d : Directive) : Prop where
  run : mode ≠ .clean → ∀ w c, I w → I (Wd.run w c).2
  writeTemp : mode ≠ .clean → d.ty = .temp → ∀ w t body c w', d.args = t :: body → isTxtppPath t = false → I w →
    Wd.writeTemp w t c = some w' → I w'
  removeTemp : mode = .clean → d.ty = .temp → ∀ w t body w', d.args = t :: body → isTxtppPath t = false → I w →
    Wd.removeTemp w t = some w' → I w'

theorem execTemp_inv_at (Wd : World W) (mode : Mode) (I : W → Prop) (d : Directive) (hty : d.ty = .temp)
    (hp : OpsPreserveAt Wd mode I d) (le : Str) (w w' : W)
    (hI : I w) (h : execTemp Wd le w d.args (decide (mode = .clean)) = some w') : I w' := by
  unfold execTemp at h
  split at h
  · simp at h
  · rename_i target body hargs
    split at h
    · simp at h
    · rename_i hnt
      have hnt' : isTxtppPath target = false := by simpa using hnt
      by_cases hm : mode = .clean
      · simp [hm] at h; exact hp.removeTemp hm hty _ _ _ _ hargs hnt' hI h
      · simp [hm] at h; exact hp.writeTemp hm hty _ _ _ _ _ hargs hnt' hI h

theorem execDirective_inv_at (Wd : World W) (mode : Mode) (I : W → Prop) (le : Str)
    (s s' : PpState W) (d : Directive) (hp : OpsPreserveAt Wd mode I d) (o : Option Str) (hI : I s.w)
    (h : execDirective Wd mode le s d = some (s', o)) : I s'.w := by
  unfold execDirective at h
  by_cases hm : mode = .clean
  · simp only [hm, if_true] at h
    cases hty : d.ty <;> simp only [hty] at h <;> (try (simp at h; obtain ⟨h1, _⟩ := h; subst h1; exact hI))
    cases ht : execTemp Wd le s.w d.args true with
    | none => simp [ht] at h; obtain ⟨h1, _⟩ := h; subst h1; exact hI
    | some w' =>
      simp [ht] at h; obtain ⟨h1, _⟩ := h; subst h1
      exact execTemp_inv_at Wd mode I d hty hp le s.w w' hI (by simpa [hm] using ht)
  · simp only [hm, if_false] at h
    split at h
    · simp at h
    · rename_i s1 hc
      simp at h; obtain ⟨h1, _⟩ := h; subst h1
      have : s1.w = s.w := by
        split at hc
        · simp at hc
        · split at hc
          · split at hc
            · simp at hc
            · split at hc <;> simp at hc <;> subst hc <;> rfl
            · simp at hc
          · simp at hc
      rw [this]; exact hI
    · split at h
      · simp at h; obtain ⟨h1, _⟩ := h; subst h1; exact hI
      · cases hty : d.ty <;> simp only [hty] at h
        · simp at h; obtain ⟨h1, _⟩ := h; subst h1; exact hI
        · split at h
          · simp at h
          · have h' := Option.some.inj h
            have e : s' = (routeOutput le s d.ws _).1 := (congrArg Prod.fst h').symm
            rw [e, routeOutput_w]; exact hI
        · simp at h; obtain ⟨h1, _⟩ := h; subst h1; exact hI
        · split at h
          · simp at h
          · rename_i out w' hr
            have h' := Option.some.inj h
            have e : s' = (routeOutput le { s with w := w' } d.ws out).1 := (congrArg Prod.fst h').symm
            rw [e, routeOutput_w]
            have := hp.run hm s.w (joinWith [' '] d.args) hI
            rw [hr] at this; exact this
        · split at h
          · simp at h
          · simp at h; obtain ⟨h1, _⟩ := h; subst h1; exact hI
        · split at h
          · simp at h
          · rename_i w' ht
            simp at h; obtain ⟨h1, _⟩ := h; subst h1
            exact execTemp_inv_at Wd mode I d hty hp le s.w w' hI (by simpa [hm] using ht)
        · have h' := Option.some.inj h
          have e : s' = (routeOutput le s d.ws (joinWith ['\n'] d.args)).1 := (congrArg Prod.fst h').symm
          rw [e, routeOutput_w]; exact hI

/-- the operations of `fileWorld` keep the scope invariant when the temp target is an allowed path -/
theorem fileWorld_scope (cfg : Cfg) (wd : Path) (src : Str) (mode : Mode) (fs0 : FS) (A : Path → Prop) (d : Directive)
    (hA : ∀ t body p, d.ty = .temp → d.args = t :: body → isTxtppPath t = false → fs0.resolve cfg wd t = some p → A p) :
    OpsPreserveAt (fileWorld cfg wd src) mode (Scope fs0 A) d where
  run := by
    intro _ fs c h
    simp only [fileWorld]
    split
    · exact h
    · rename_i acts _
      have hf := runActs_files cfg wd src fs acts ByteArray.empty true
      have hd := runActs_dirs cfg wd src fs acts ByteArray.empty true
      have hfile : ∀ q, (runActs cfg wd src fs acts ByteArray.empty true).2.2.file? q = fs.file? q := by
        intro q; simp only [FS.file?, hf.1]
      split <;> exact ⟨hd.trans h.1, fun p hp => h.2.1 p (hf.2 ▸ hp), fun q hq => (hfile q).trans (h.2.2 q hq)⟩
  writeTemp := by
    intro _ hty fs t body c fs' hargs hnt h hw
    simp only [fileWorld] at hw
    split at hw
    · simp at hw
    · rename_i p hres
      have hp : A p := hA t body p hty hargs hnt (by rw [← resolve_dirs fs0 fs cfg wd t h.1]; exact hres)
      split at hw
      · simp at hw
      · have h1 : Scope fs0 A (if fs.isFile p then fs else fs.write p ByteArray.empty) := by
          split
          · exact h
          · exact Scope.write fs0 A fs p _ h hp
        generalize (if fs.isFile p then fs else fs.write p ByteArray.empty) = fs1 at hw h1
        split at hw
        · cases hw; exact h1
        · cases hw; exact Scope.write fs0 A _ p _ h1 hp
  removeTemp := by
    intro _ hty fs t body fs' hargs hnt h hr
    simp only [fileWorld] at hr
    split at hr
    · simp at hr; subst hr; exact h
    · rename_i p hres
      have hp : A p := hA t body p hty hargs hnt (by rw [← resolve_dirs fs0 fs cfg wd t h.1]; exact hres)
      split at hr
      · simp at hr; subst hr; exact Scope.remove fs0 A fs p h hp
      · split at hr
        · simp at hr
        · simp at hr; subst hr; exact h

/-- the line loop of a pass touches only resolved targets of `temp` blocks of the source text -/
theorem ppPass_scope (cfg : Cfg) (wd : Path) (src : Str) (le : Str) (first : Bool) (fs0 fs1 : FS) (A : Path → Prop)
    (lines : List Str) (readOk : Bool) (hI : Scope fs0 A fs1)
    (hA : ∀ p, TempTarget cfg fs0 wd lines p → A p) :
    PassPost (Scope fs0 A) (ppPass (fileWorld cfg wd src) cfg.mode le first cfg.trailing fs1 lines readOk) := by
  cases readOk with
  | false => simp [ppPass, PassPost]
  | true =>
    unfold ppPass
    simp only [Bool.not_true, Bool.false_eq_true, if_false]
    cases hm : machine (txtppSem (fileWorld cfg wd src) cfg.mode le) cfg.trailing
        ⟨TagState.empty, if first then .firstExec else .exec, fs1⟩ lines with
    | none => simp [PassPost]
    | some r =>
      obtain ⟨s, out⟩ := r
      have hs : Scope fs0 A s.w := by
        apply Refine.machine_inv_mem (txtppSem (fileWorld cfg wd src) cfg.mode le) (fun s => Scope fs0 A s.w)
          cfg.trailing _ lines s out ?_ ?_ hI hm
        · intro bs s d e s' o hpar hmem hj he
          rw [parse_eq_srcBlocks] at hpar
          refine execDirective_inv_at (fileWorld cfg wd src) cfg.mode (Scope fs0 A) le s s' d ?_ o hj he
          apply fileWorld_scope
          intro t body p hty hargs hnt hres
          exact hA p ⟨bs, d, e, t, body, hpar, hmem, hty, hargs, hnt, hres⟩
        · intro s l hj
          simp only [txtppSem]
          split <;> exact hj
      simp only
      cases s.pm with
      | collect deps => exact hs
      | firstExec => by_cases hb : (s.tags.hasTags && cfg.mode != .clean) = true <;> simp [hb, PassPost] <;> exact hs
      | exec => by_cases hb : (s.tags.hasTags && cfg.mode != .clean) = true <;> simp [hb, PassPost] <;> exact hs

theorem sinkStart_scope (mode : Mode) (fs0 fs fs1 : FS) (A : Path → Prop) (o : Path) (h : Scope fs0 A fs) (ho : A o)
    (hs : sinkStart mode fs o = some fs1) : Scope fs0 A fs1 := by
  cases mode <;> simp only [sinkStart] at hs
  · split at hs
    · simp at hs
    · cases hs; exact Scope.write fs0 A fs _ _ h ho
  · cases hs; exact h
  · split at hs
    · cases hs; exact Scope.remove fs0 A fs _ h ho
    · split at hs
      · simp at hs
      · cases hs; exact h
  · split at hs
    · cases hs; exact h
    · simp at hs

theorem sinkEnd_scope (mode : Mode) (fs0 fs2 : FS) (A : Path → Prop) (o : Path) (new : ByteArray) (h : Scope fs0 A fs2) (ho : A o) :
    Scope fs0 A (sinkEnd mode fs2 o new).2 := by
  cases mode <;> simp only [sinkEnd]
  · exact Scope.write fs0 A fs2 _ _ h ho
  · split
    · exact h
    · split
      · exact h
      · exact Scope.write fs0 A fs2 _ _ h ho
  · exact h
  · split <;> exact h

/-- what a pass over the source `src` with bytes `content` may touch: its output path and the
    resolved targets of the `temp` blocks of its text -/
def PassScope (cfg : Cfg) (fs : FS) (src : Path) (content : ByteArray) (p : Path) : Prop :=
  outputPath src = some p ∨ TempTarget cfg fs src.dropLast (decodeLines (byteLines content.toList)).1 p

def PassAllowed (cfg : Cfg) (fs : FS) (src : Path) (p : Path) : Prop :=
  ∃ content, fs.file? src = some content ∧ PassScope cfg fs src content p

theorem Scope.refl (fs : FS) (A : Path → Prop) : Scope fs A fs := ⟨rfl, fun _ h => Or.inl h, fun _ _ => rfl⟩

/-- one pass, any mode, any outcome: directories unchanged, and the touch set grew only by the
    pass scope of the source as it was read -/
theorem runPass_scope (cfg : Cfg) (fs : FS) (src : Path) (first : Bool) :
    Scope fs (PassAllowed cfg fs src) (runPass cfg fs src first).2 := by
  unfold runPass
  split
  · rename_i content o hfile hout
    have hAo : PassAllowed cfg fs src o :=
      ⟨content, hfile, Or.inl hout⟩
    unfold runPassAt
    split
    · exact Scope.refl fs _
    · rename_i fs1 hstart
      have h1 := sinkStart_scope cfg.mode fs fs fs1 (PassAllowed cfg fs src) o (Scope.refl fs _) hAo hstart
      have hpass := ppPass_scope cfg src.dropLast (joinPath src) (sniffLE content.toList) first fs fs1 (PassAllowed cfg fs src)
        (decodeLines (byteLines content.toList)).1 (decodeLines (byteLines content.toList)).2 h1
        (fun p hp => ⟨content, hfile, Or.inr hp⟩)
      split
      · exact h1
      · rename_i deps fs2 hr; rw [hr] at hpass; exact hpass
      · rename_i out fs2 hr
        rw [hr] at hpass
        exact sinkEnd_scope cfg.mode fs fs2 _ o _ hpass hAo
  · exact Scope.refl fs _

theorem TempTarget_dirs (cfg : Cfg) (fs fs' : FS) (wd : Path) (lines : List Str) (p : Path) (h : fs'.dirs = fs.dirs)
    (ht : TempTarget cfg fs' wd lines p) : TempTarget cfg fs wd lines p := by
  obtain ⟨bs, d, e, t, body, h1, h2, h3, h4, h5, h6⟩ := ht
  exact ⟨bs, d, e, t, body, h1, h2, h3, h4, h5, by rw [← resolve_dirs fs fs' cfg wd t h]; exact h6⟩

/-- the whole-run invariant: relative to the initial file system `fs0`, everything touched is in
    the pass scope of a source whose bytes are the initial ones, or of a source the run itself wrote -/
def RunScope (cfg : Cfg) (fs0 fs : FS) : Prop :=
  Untouched fs0 fs ∧ fs.dirs = fs0.dirs ∧
  ∀ p ∈ fs.touched, p ∈ fs0.touched ∨
    ∃ src content, PassScope cfg fs0 src content p ∧ (fs0.file? src = some content ∨ src ∈ fs.touched)

theorem runPass_runScope (cfg : Cfg) (fs0 fs : FS) (src : Path) (first : Bool) (h : RunScope cfg fs0 fs) :
    RunScope cfg fs0 (runPass cfg fs src first).2 := by
  obtain ⟨hu, hd, ht⟩ := h
  have hu2 := runPass_untouched cfg fs src first
  have hs := runPass_scope cfg fs src first
  refine ⟨Untouched.trans fs0 fs _ hu hu2, hs.1.trans hd, fun p hp => ?_⟩
  rcases hs.2.1 p hp with hold | ⟨content, hfile, hsc⟩
  · rcases ht p hold with h0 | ⟨s, c, hps, hsrc⟩
    · exact Or.inl h0
    · exact Or.inr ⟨s, c, hps, hsrc.imp id (fun hm => hu2.2 s hm)⟩
  · refine Or.inr ⟨src, content, ?_, ?_⟩
    · rcases hsc with ho | htt
      · exact Or.inl ho
      · exact Or.inr (TempTarget_dirs cfg fs0 fs _ _ p hd htt)
    · by_cases hm : src ∈ fs.touched
      · exact Or.inr (hu2.2 src hm)
      · exact Or.inl (by rw [← hu.1 src hm]; exact hfile)

theorem runProject_runScope (cfg : Cfg) (fs : FS) (inputs : List Str) : RunScope cfg fs (runProject cfg fs inputs).2 :=
  runProject_inv cfg (RunScope cfg fs) (fun fs1 src first h => runPass_runScope cfg fs fs1 src first h) fs inputs
    ⟨Untouched.refl fs, rfl, fun _ h => Or.inl h⟩

end Txt

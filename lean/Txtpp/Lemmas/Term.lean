import Txtpp.Lemmas.WorkerTop
/-! Scratch prototype: termination bound for the coordinator (C03) by step counting. -/
namespace Coord

def isFirst : Task → Bool | .pp _ b => b
def nFirst (l : List Task) : Nat := l.countP isFirst

theorem nFirst_append (a b : List Task) : nFirst (a ++ b) = nFirst a + nFirst b := by simp [nFirst, List.countP_append]

theorem execFile_first_count (s : St) (f : File) :
    nFirst (execFile s f true).pool + s.seen.length = nFirst s.pool + (execFile s f true).seen.length := by
  unfold execFile
  split
  · rfl
  · simp [nFirst_append, nFirst, isFirst]; omega

theorem execFiles_first_count (s : St) (fs : List File) :
    nFirst (execFiles s fs true).pool + s.seen.length = nFirst s.pool + (execFiles s fs true).seen.length := by
  induction fs generalizing s with
  | nil => rfl
  | cons f fs ih =>
    rw [execFiles_cons]
    have h1 := execFile_first_count s f
    have h2 := ih (execFile s f true)
    omega

theorem execFile_second_count (s : St) (f : File) :
    nFirst (execFile s f false).pool = nFirst s.pool ∧ (execFile s f false).seen = s.seen := by
  simp [execFile, nFirst_append, nFirst, isFirst]

theorem execFiles_second_count (s : St) (fs : List File) :
    nFirst (execFiles s fs false).pool = nFirst s.pool ∧ (execFiles s fs false).seen = s.seen := by
  induction fs generalizing s with
  | nil => exact ⟨rfl, rfl⟩
  | cons f fs ih =>
    rw [execFiles_cons]
    have h1 := execFile_second_count s f
    have h2 := ih (execFile s f false)
    exact ⟨h2.1.trans h1.1, h2.2.trans h1.2⟩

theorem nFirst_erase (l : List Task) (t : Task) (ht : t ∈ l) :
    nFirst (l.erase t) + (if isFirst t then 1 else 0) = nFirst l := by
  induction l with
  | nil => simp at ht
  | cons x xs ih =>
    by_cases hx : x = t
    · subst hx; simp [nFirst, List.countP_cons]
    · have : t ∈ xs := by simp at ht; rcases ht with h | h; exact absurd h.symm hx; exact h
      have := ih this
      rw [List.erase_cons_tail (by simpa using hx)]
      simp only [nFirst, List.countP_cons] at this ⊢
      omega

/-- number of deliveries so far -/
inductive ReachN (w : World) (inputs : List File) : Nat → St → Prop where
  | init : ReachN w inputs 0 (init inputs)
  | step (n s s') : ReachN w inputs n s → Step w s s' → ReachN w inputs (n + 1) s'

theorem reachN_reach (w : World) (inputs n s) (h : ReachN w inputs n s) : Reach w inputs s := by
  induction h with
  | init => exact Reach.init
  | step n s s' _ hs ih => exact Reach.step s s' ih hs

/-- every delivery is paid for by a file becoming seen or finished -/
theorem delivery_budget (w : World) (inputs n s) (h : ReachN w inputs n s) :
    n + nFirst s.pool ≤ s.seen.length + s.dm.fin.length := by
  induction h with
  | init =>
    have := execFiles_first_count ⟨[], 0, 0, ⟨fun _ => none, fun _ => [], []⟩, []⟩ inputs
    have h0 : nFirst ([] : List Task) = 0 := rfl
    simp only [List.length_nil, h0] at this
    simp only [init]; omega
  | step n s s' hr hs ih =>
    have hI := reach_inv w inputs s (reachN_reach w inputs n s hr)
    cases hs with
    | deliver t ht h =>
      have he := nFirst_erase s.pool t ht
      cases hres : w.result t with
      | err => rw [hres] at h; simp [handle] at h
      | ok a =>
        rw [hres] at h
        have hfin := handle_ok_fin _ _ _ h
        simp only [handle] at h
        split at h
        · simp at h
        · injection h with h; subst h
          have := execFiles_second_count { seen := s.seen, total := s.total, done := s.done + 1, dm := ‹DepMgr›, pool := s.pool.erase t } ‹List File›
          simp only at this hfin
          rw [this.1, this.2, hfin]; simp; split at he <;> omega
      | hasDeps a ds =>
        rw [hres] at h
        have hfin := handle_hasDeps_fin _ _ _ _ h
        -- only a first pass reports dependencies
        have hfirst : isFirst t = true := by
          cases t with
          | pp f b => cases b
                      · simp [World.result] at hres; split at hres <;> simp at hres
                      · rfl
        simp only [hfirst, if_true] at he
        simp only [handle] at h
        split at h
        · injection h with h; subst h
          have := execFiles_first_count { seen := s.seen, total := s.total, done := s.done + 1, dm := (addDependency s.dm a ds).1, pool := s.pool.erase t } ds
          simp only at this hfin
          rw [hfin]; omega
        · injection h with h; subst h
          have := execFile_second_count { seen := s.seen, total := s.total, done := s.done + 1, dm := (addDependency s.dm a ds).1, pool := s.pool.erase t } a
          simp only at this hfin
          rw [this.1, this.2, hfin]; omega

/-- C03: over a finite universe `U` that contains the inputs and is closed under dependencies,
    no execution has more than `2·|U|` deliveries -/
theorem terminates (w : World) (inputs U : List File) (n : Nat) (s : St) (h : ReachN w inputs n s)
    (hseen : s.seen.length ≤ U.length) : n ≤ 2 * U.length := by
  have hb := delivery_budget w inputs n s h
  have hI := reach_inv w inputs s (reachN_reach w inputs n s h)
  have : s.dm.fin.length ≤ s.seen.length :=
    hI.finND.length_le_of_subset (fun f hf => hI.finSeen f hf)
  omega

end Coord

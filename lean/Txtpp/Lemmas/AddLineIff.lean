import Txtpp.Model.Text
namespace Txt

theorem utf8Len_ge_length (s : Str) : s.length ≤ utf8Len s := by
  induction s with
  | nil => simp [utf8Len]
  | cons c cs ih =>
    have := Char.utf8Size_pos c
    simp only [utf8Len, List.map_cons, List.sum_cons, List.length_cons] at ih ⊢; omega

theorem utf8Len_spaces (n : Nat) : utf8Len (spaces n) = n := by
  induction n with
  | zero => rfl
  | succ n ih =>
    have h1 : ' '.utf8Size = 1 := by decide
    simp only [utf8Len, spaces, List.replicate_succ, List.map_cons, List.sum_cons, h1] at ih ⊢
    omega

theorem trimEnd_length_le (s : Str) : (trimEnd s).length ≤ s.length := by
  unfold trimEnd
  simp only [List.length_reverse]
  have := (List.dropWhile_sublist (l := s.reverse) isWs).length_le
  simpa using this

/-- a prefix of a block of spaces is a block of spaces -/
theorem prefix_spaces (p : Str) (n : Nat) (h : p <+: spaces n) : p = spaces p.length := by
  have hs : ∀ c ∈ p, c = ' ' := fun c hc => by
    have := h.subset hc
    simpa [spaces] using (List.mem_replicate.1 this).2
  exact List.eq_replicate_iff.2 ⟨rfl, hs⟩

theorem addLine_sound (d d' : Directive) (line : Str) (h : addLine d line = some d') :
    d.ty.multi = true ∧ ∃ a, Continues d line a ∧ d' = d.push a := by
  unfold addLine at h
  split at h
  · simp at h
  · rename_i hm
    refine ⟨by simpa using hm, ?_⟩
    split at h
    · rename_i hws
      have hline : line = d.ws ++ line.drop d.ws.length :=
        (List.prefix_iff_eq_append.1 (List.isPrefixOf_iff_prefix.1 hws)).symm
      simp only at h
      split at h
      · rename_i h1
        simp only [Option.some.injEq] at h
        exact ⟨[], ⟨_, hline, Or.inl ⟨h1, rfl⟩⟩, h.symm⟩
      · split at h
        · rename_i h2
          simp only [Option.some.injEq] at h
          have := (List.prefix_iff_eq_append.1 (List.isPrefixOf_iff_prefix.1 h2)).symm
          exact ⟨_, ⟨_, hline, Or.inr (Or.inl ⟨_, this, rfl⟩)⟩, h.symm⟩
        · split at h
          · rename_i h3
            simp only [Option.some.injEq] at h
            have := (List.prefix_iff_eq_append.1 (List.isPrefixOf_iff_prefix.1 h3)).symm
            simp only [spaces, List.length_replicate] at this
            exact ⟨_, ⟨_, hline, Or.inr (Or.inr ⟨_, this, rfl⟩)⟩, h.symm⟩
          · simp at h
    · simp at h

theorem addLine_complete (d : Directive) (line a : Str) (hm : d.ty.multi = true) (h : Continues d line a) :
    addLine d line = some (d.push a) := by
  obtain ⟨rest, hline, hc⟩ := h
  subst hline
  have hws : d.ws.isPrefixOf (d.ws ++ rest) = true := List.isPrefixOf_iff_prefix.2 (List.prefix_append _ _)
  have hdrop : (d.ws ++ rest).drop d.ws.length = rest := by simp
  unfold addLine
  simp only [hm, Bool.not_true, Bool.false_eq_true, if_false, hws, if_true, hdrop]
  rcases hc with ⟨h1, ha⟩ | ⟨r, hr, ha⟩ | ⟨r, hr, ha⟩
  · subst ha; simp [h1]
  · subst ha; subst hr
    by_cases h1 : d.pre ++ r = trimEnd d.pre
    · have hl := trimEnd_length_le d.pre
      have : (d.pre ++ r).length = (trimEnd d.pre).length := by rw [h1]
      simp only [List.length_append] at this
      have hr0 : r = [] := List.eq_nil_of_length_eq_zero (by omega)
      subst hr0
      simp [h1, trimEnd]
    · have hp : d.pre.isPrefixOf (d.pre ++ r) = true := List.isPrefixOf_iff_prefix.2 (List.prefix_append _ _)
      simp [h1, hp]
  · subst ha; subst hr
    have hge := utf8Len_ge_length d.pre
    by_cases h1 : spaces (utf8Len d.pre) ++ r = trimEnd d.pre
    · have hl := trimEnd_length_le d.pre
      have : (spaces (utf8Len d.pre) ++ r).length = (trimEnd d.pre).length := by rw [h1]
      simp only [List.length_append, spaces, List.length_replicate] at this
      have hr0 : r = [] := List.eq_nil_of_length_eq_zero (by omega)
      subst hr0
      simp [h1, trimEnd]
    · simp only [h1, if_false]
      by_cases h2 : d.pre.isPrefixOf (spaces (utf8Len d.pre) ++ r) = true
      · -- then the prefix consists of spaces only, so both readings drop the same text
        have hpre : d.pre <+: spaces (utf8Len d.pre) :=
          List.prefix_of_prefix_length_le (List.isPrefixOf_iff_prefix.1 h2) (List.prefix_append _ _)
            (by simpa [spaces] using hge)
        have hsp := prefix_spaces _ _ hpre
        have hlen : utf8Len d.pre = d.pre.length := by
          have := utf8Len_spaces d.pre.length
          rw [← hsp] at this; exact this
        simp only [h2, if_true]
        rw [hlen]
        simp [spaces]
      · have hs : (spaces (utf8Len d.pre)).isPrefixOf (spaces (utf8Len d.pre) ++ r) = true :=
          List.isPrefixOf_iff_prefix.2 (List.prefix_append _ _)
        have h2' : d.pre.isPrefixOf (spaces (utf8Len d.pre) ++ r) = false := Bool.eq_false_iff.2 h2
        simp only [h2', hs, if_true, Bool.false_eq_true, if_false]
        simp [spaces]

/-- C15, second sentence: `add_line` accepts exactly the continuation lines the grammar describes,
    and appends exactly the right-trimmed remainder. -/
theorem addLine_iff (d d' : Directive) (line : Str) :
    addLine d line = some d' ↔ d.ty.multi = true ∧ ∃ a, Continues d line a ∧ d' = d.push a := by
  constructor
  · exact addLine_sound d d' line
  · rintro ⟨hm, a, hc, rfl⟩
    exact addLine_complete d line a hm hc

/-- the three continuation forms never disagree about the argument -/
theorem continues_functional (d : Directive) (line a b : Str) (hm : d.ty.multi = true)
    (ha : Continues d line a) (hb : Continues d line b) : a = b := by
  have h1 := addLine_complete d line a hm ha
  have h2 := addLine_complete d line b hm hb
  rw [h1] at h2
  simp only [Option.some.injEq, Directive.push] at h2
  have : d.args ++ [a] = d.args ++ [b] := by
    have := congrArg Directive.args h2; simpa using this
  simpa using this

end Txt

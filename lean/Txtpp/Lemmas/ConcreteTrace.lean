import Txtpp.Lemmas.ConcreteCoord
import Txtpp.Lemmas.FreeMore
import Txtpp.Model.ProjectTrace
/-! The trace of the concrete run is an execution of the coordinator with free results; what the verdicts mean (C03, C05). -/
namespace Txt
open Coord (FReach WellTyped)

/-- the traced loop is the loop: same final file system; it is an execution of the coordinator with free
    results; and the verdict says where it stopped -/
theorem runLoopT_spec (cfg : Cfg) (inputs : List Coord.File) : ∀ (fuel : Nat) (s : PSt) (h : List (Coord.Task × Coord.Res)),
    FReach inputs s.st h → (∀ f ∈ s.st.seen, f < s.names.length) →
    FReach inputs (runLoopT cfg fuel s h).1.st (runLoopT cfg fuel s h).2 ∧
    (∀ f ∈ (runLoopT cfg fuel s h).1.st.seen, f < (runLoopT cfg fuel s h).1.names.length) ∧
    (runLoopT cfg fuel s h).1.fs = (runLoop cfg fuel s).2 ∧
    ((runLoop cfg fuel s).1 = .ok → (runLoopT cfg fuel s h).1.st.pool = [] ∧ remaining (runLoopT cfg fuel s h).1 = false) ∧
    ((runLoop cfg fuel s).1 = .circular → (runLoopT cfg fuel s h).1.st.pool = [] ∧ remaining (runLoopT cfg fuel s h).1 = true) ∧
    ((runLoop cfg fuel s).1 = .outOfFuel → (runLoopT cfg fuel s h).2.length = h.length + fuel) := by
  intro fuel
  induction fuel with
  | zero =>
    intro s h hF hB
    simp only [runLoopT, runLoop]
    exact ⟨hF, hB, trivial, fun h => by simp at h, fun h => by simp at h, fun _ => rfl⟩
  | succ fuel ih =>
    intro s h hF hB
    unfold runLoopT runLoop
    cases hpool : s.st.pool with
    | nil =>
      simp only
      refine ⟨hF, hB, trivial, ?_, ?_, ?_⟩
      · intro hv; cases hr : remaining s <;> simp [hr] at hv ⊢; exact hpool
      · intro hv; cases hr : remaining s <;> simp [hr] at hv ⊢; exact hpool
      · intro hv; split at hv <;> simp at hv
    | cons t rest =>
      cases t with
      | pp f first =>
        simp only
        have hmem : Coord.Task.pp f first ∈ s.st.pool := by rw [hpool]; exact List.mem_cons_self
        have herase : ({ s.st with pool := rest } : Coord.St) = { s.st with pool := s.st.pool.erase (Coord.Task.pp f first) } := by
          rw [hpool]; simp
        cases hoc : (runPass cfg s.fs (s.names.getD f []) first).1 with
        | err => exact ⟨hF, hB, rfl, fun h => by simp at h, fun h => by simp at h, fun h => by simp at h⟩
        | ok =>
          simp only
          have hty : WellTyped (Coord.Task.pp f first) (Coord.Res.ok f) := by simp [WellTyped]
          cases hh : Coord.handle { s.st with pool := rest } (.ok f) with
          | fail => exact ⟨hF, hB, rfl, fun h => by simp at h, fun h => by simp at h, fun h => by simp at h⟩
          | panic => exact ⟨hF, hB, rfl, fun h => by simp at h, fun h => by simp at h, fun h => by simp at h⟩
          | cont st' =>
            simp only
            have hB' : ∀ x ∈ st'.seen, x < s.names.length := by
              intro x hx
              rcases Coord.handle_seen _ st' _ hh x hx with h1 | ⟨a, deps, he, _⟩
              · exact hB x h1
              · cases he
            rw [herase] at hh
            obtain ⟨i1, i2, i3, i4, i5, i6⟩ := ih { s with st := st', fs := (runPass cfg s.fs (s.names.getD f []) first).2 }
              (h ++ [(.pp f first, .ok f)]) (FReach.step s.st st' h _ _ hF hmem hty hh) hB'
            exact ⟨i1, i2, i3, i4, i5, fun hv => by rw [i6 hv, List.length_append]; simp; omega⟩
        | hasDeps deps =>
          simp only
          obtain ⟨hfirst, hne⟩ := runPass_hasDeps cfg s.fs _ first deps hoc
          subst hfirst
          have hidx : (indexAll s.names (deps.map (fun d => (splitOn '/' d)))).2 ≠ [] :=
            indexAll_ne_nil _ _ (by simpa using hne)
          have hty : WellTyped (Coord.Task.pp f true) (Coord.Res.hasDeps f (indexAll s.names (deps.map (fun d => (splitOn '/' d)))).2) := by
            simp [WellTyped, hidx]
          cases hh : Coord.handle { s.st with pool := rest }
              (.hasDeps f (indexAll s.names (deps.map (fun d => (splitOn '/' d)))).2) with
          | fail => exact ⟨hF, hB, rfl, fun h => by simp at h, fun h => by simp at h, fun h => by simp at h⟩
          | panic => exact ⟨hF, hB, rfl, fun h => by simp at h, fun h => by simp at h, fun h => by simp at h⟩
          | cont st' =>
            simp only
            have hB' : ∀ x ∈ st'.seen, x < (indexAll s.names (deps.map (fun d => (splitOn '/' d)))).1.length := by
              intro x hx
              rcases Coord.handle_seen _ st' _ hh x hx with h1 | ⟨a, ds, he, hx'⟩
              · exact Nat.lt_of_lt_of_le (hB x h1) (indexAll_names_le _ _)
              · simp only [Coord.Res.hasDeps.injEq] at he
                obtain ⟨_, rfl⟩ := he
                exact indexAll_bound _ _ x hx'
            rw [herase] at hh
            obtain ⟨i1, i2, i3, i4, i5, i6⟩ := ih
              { names := (indexAll s.names (deps.map (fun d => (splitOn '/' d)))).1, st := st', fs := (runPass cfg s.fs (s.names.getD f []) true).2 }
              (h ++ [(.pp f true, .hasDeps f (indexAll s.names (deps.map (fun d => (splitOn '/' d)))).2)])
              (FReach.step s.st st' h _ _ hF hmem hty hh) hB'
            exact ⟨i1, i2, i3, i4, i5, fun hv => by rw [i6 hv, List.length_append]; simp; omega⟩

theorem nodup_bounded_length (l : List Nat) (n : Nat) (hnd : l.Nodup) (hb : ∀ x ∈ l, x < n) : l.length ≤ n := by
  have := hnd.length_le_of_subset (l₂ := List.range n) (fun x hx => List.mem_range.2 (hb x hx))
  simpa using this

/-- the trace of the whole run is an execution of the coordinator (with the results the real passes gave)
    from the resolved inputs, and ends in the file system `runProject` returns -/
theorem runProjectT_freach (cfg : Cfg) (fs : FS) (inputs : List Str) (idx : List Coord.File) (s : PSt)
    (hist : List (Coord.Task × Coord.Res)) (ht : runProjectT cfg fs inputs = some (idx, s, hist)) :
    FReach idx s.st hist ∧ (∀ f ∈ s.st.seen, f < s.names.length) ∧ s.fs = (runProject cfg fs inputs).2 ∧
    ((runProject cfg fs inputs).1 = .ok → s.st.pool = [] ∧ remaining s = false) ∧
    ((runProject cfg fs inputs).1 = .circular → s.st.pool = [] ∧ remaining s = true) ∧
    ((runProject cfg fs inputs).1 = .outOfFuel → hist.length = 4 * (fs.files.length + 4)) := by
  unfold runProjectT at ht
  unfold runProject
  cases hres : resolveInputs cfg fs inputs with
  | none => rw [hres] at ht; simp at ht
  | some fd =>
    obtain ⟨files, dirs⟩ := fd
    rw [hres] at ht
    simp only [Option.some.injEq, Prod.mk.injEq] at ht
    obtain ⟨rfl, rfl, rfl⟩ := ht
    simp only
    have hB0 : ∀ f ∈ (Coord.init (indexAll [] (files ++ scanAll fs cfg.recursive (fs.dirs.length + dirs.length + 2) dirs [])).2).seen,
        f < (indexAll [] (files ++ scanAll fs cfg.recursive (fs.dirs.length + dirs.length + 2) dirs [])).1.length := by
      intro f hf
      rcases Coord.execFiles_seen _ _ true f hf with h1 | ⟨_, h1⟩
      · simp at h1
      · exact indexAll_bound _ _ f h1
    obtain ⟨i1, i2, i3, i4, i5, i6⟩ := runLoopT_spec cfg _ (4 * (fs.files.length + 4))
      { names := (indexAll [] (files ++ scanAll fs cfg.recursive (fs.dirs.length + dirs.length + 2) dirs [])).1,
        st := Coord.init (indexAll [] (files ++ scanAll fs cfg.recursive (fs.dirs.length + dirs.length + 2) dirs [])).2, fs := fs }
      [] FReach.init hB0
    exact ⟨i1, i2, i3, i4, i5, fun hv => by simpa using i6 hv⟩

/-- every run that resolves its inputs has a trace -/
theorem runProjectT_some (cfg : Cfg) (fs : FS) (inputs : List Str) (h : (runProject cfg fs inputs).1 ≠ .err) :
    ∃ idx s hist, runProjectT cfg fs inputs = some (idx, s, hist) := by
  unfold runProjectT
  unfold runProject at h
  cases hres : resolveInputs cfg fs inputs with
  | none => rw [hres] at h; simp at h
  | some fd => exact ⟨_, _, _, rfl⟩

/-- **success means completion (C03, concrete run)**: at the end of a run with verdict `ok` nothing is in
    flight, every resolved input is known, every file the coordinator ever heard of has a delivery
    `(pass, ok)` in the trace of this very run, every dependency list in the trace lies within those files,
    and no task was delivered twice -/
theorem trace_ok_complete (cfg : Cfg) (fs : FS) (inputs : List Str) (idx : List Coord.File) (s : PSt)
    (hist : List (Coord.Task × Coord.Res)) (ht : runProjectT cfg fs inputs = some (idx, s, hist))
    (h : (runProject cfg fs inputs).1 = .ok) :
    s.st.pool = [] ∧ (∀ i ∈ idx, i ∈ s.st.seen) ∧
    (∀ f ∈ s.st.seen, ∃ b, (Coord.Task.pp f b, Coord.Res.ok f) ∈ hist) ∧
    (∀ f deps, (Coord.Task.pp f true, Coord.Res.hasDeps f deps) ∈ hist → ∀ d ∈ deps, d ∈ s.st.seen) ∧
    (hist.map Prod.fst).Nodup := by
  obtain ⟨hF, hB, _, hok, _, _⟩ := runProjectT_freach cfg fs inputs idx s hist ht
  obtain ⟨hq, hnr⟩ := hok h
  obtain ⟨w, hw, hH⟩ := Coord.freach_world _ s.st hist hF
  have hR : Coord.Reach w _ s.st := Coord.freach_replay w _ s.st hist hF hw
  have hI := Coord.reach_inv w _ s.st hR
  have hno : ¬ Coord.Leftover s.st := by
    rintro ⟨d, a, ha⟩
    have hd : d ∈ s.st.seen := (hI.edge d a ha).2.2.1
    have hlt := hB d hd
    unfold remaining at hnr
    have := List.any_eq_false.1 hnr d (List.mem_range.2 hlt)
    simp only [Bool.not_eq_true'] at this
    have hne : s.st.dm.inE d = [] := by simpa using this
    rw [hne] at ha; simp at ha
  refine ⟨hq, Coord.inputs_seen w _ s.st hR, ?_, ?_, Coord.freach_each_task_once _ s.st hist hF⟩
  · intro f hf
    rcases Coord.quiescent_cover w _ s.st hR hq f hf with ⟨d, hd⟩ | hfin
    · exact absurd ⟨d, f, hd⟩ hno
    · exact hH.finHist f hfin
  · intro f deps hm d hd
    have hwr := hw _ _ hm
    have hdeps : w.deps f = deps := by
      by_cases he : w.deps f = []
      · simp only [Coord.World.result, he, if_true] at hwr
        split at hwr <;> simp at hwr
      · rw [Coord.result_first_deps w f he] at hwr
        split at hwr
        · simp at hwr
        · simp only [Coord.Res.hasDeps.injEq] at hwr; exact hwr.2
    have hfs : f ∈ s.st.seen := (hH.first f _ hm).1
    rcases Coord.quiescent_cover w _ s.st hR hq f hfs with ⟨d', hd'⟩ | hfin
    · exact absurd ⟨d', f, hd'⟩ hno
    · exact hI.finSeen d (hI.finDeps f hfin d (by rw [hdeps]; exact hd))

/-- **a circular verdict is justified (C05, concrete run)**: some file is still waiting at the end, and in
    the world that tabulates exactly the deliveries of this run's trace it reaches a dependency cycle -/
theorem trace_circular_has_cycle (cfg : Cfg) (fs : FS) (inputs : List Str) (idx : List Coord.File) (s : PSt)
    (hist : List (Coord.Task × Coord.Res)) (ht : runProjectT cfg fs inputs = some (idx, s, hist))
    (h : (runProject cfg fs inputs).1 = .circular) :
    s.st.pool = [] ∧ ∃ w : Coord.World, (∀ t r, (t, r) ∈ hist → w.result t = r) ∧
      ∃ f, (∃ d, f ∈ s.st.dm.inE d) ∧ Coord.ReachesCycle w.deps f := by
  obtain ⟨hF, _, _, _, hc, _⟩ := runProjectT_freach cfg fs inputs idx s hist ht
  obtain ⟨hq, hr⟩ := hc h
  obtain ⟨w, hR, hw⟩ := Coord.freach_reach _ s.st hist hF
  unfold remaining at hr
  obtain ⟨d, _, hd⟩ := List.any_eq_true.1 hr
  have hne : s.st.dm.inE d ≠ [] := by
    intro he; rw [he] at hd; simp at hd
  obtain ⟨a, ha⟩ := List.exists_mem_of_ne_nil _ hne
  exact ⟨hq, w, hw, a, ⟨d, ha⟩, Coord.waiting_reaches_cycle w _ s.st hR hq a ⟨d, ha⟩⟩

/-- **budget (C03, concrete run)**: whatever the verdict, the run delivered at most two passes per file it
    named, each task once; the fuel of the reference model runs out only if the run named at least twice as many
    distinct paths as the tree had files -/
theorem trace_budget (cfg : Cfg) (fs : FS) (inputs : List Str) (idx : List Coord.File) (s : PSt)
    (hist : List (Coord.Task × Coord.Res)) (ht : runProjectT cfg fs inputs = some (idx, s, hist)) :
    hist.length ≤ 2 * s.names.length ∧ (hist.map Prod.fst).Nodup ∧
    ((runProject cfg fs inputs).1 = .outOfFuel → 2 * (fs.files.length + 4) ≤ s.names.length) := by
  obtain ⟨hF, hB, _, _, _, hfuel⟩ := runProjectT_freach cfg fs inputs idx s hist ht
  have hbud := Coord.freach_budget _ s.st hist hF
  obtain ⟨w, hw, _⟩ := Coord.freach_world _ s.st hist hF
  have hI := Coord.reach_inv w _ s.st (Coord.freach_replay w _ s.st hist hF hw)
  have hseen := nodup_bounded_length s.st.seen s.names.length hI.seenND hB
  refine ⟨by omega, Coord.freach_each_task_once _ s.st hist hF, fun hv => ?_⟩
  have := hfuel hv
  omega

end Txt

import Txtpp.Lemmas.TagInject
/-! C14: the decomposition form of `inject_tags`: which occurrences are substituted (leftmost
    first, first occurrence of each stored name, overlapped ones skipped), what the result looks
    like, and which tags disappear. -/
namespace Txt

/-- the occurrences that are substituted: scan the position-sorted matches left to right and
    keep those that start at or after the end of the previous kept one -/
def select : List Match → Nat → List Match
  | [], _ => []
  | (i, k, v) :: ms, e => if i < e then select ms e else (i, k, v) :: select ms (i + k.length)

/-- the resulting text: pieces of the line between the selected occurrences, each occurrence
    replaced by its normalised value, values never scanned again -/
def substOut (norm : Str → Str) (line : Str) : List Match → Nat → Str
  | [], e => line.drop e
  | (i, k, v) :: ms, e => (line.drop e).take (i - e) ++ norm v ++ substOut norm line ms (i + k.length)

theorem injLoop_eq (norm : Str → Str) (line : Str) (ms : List Match) (e : Nat) (acc : Str) (rem : List Str) :
    injLoop norm line ms e acc rem =
      (acc ++ substOut norm line (select ms e) e, ((select ms e).map (·.2.1)).reverse ++ rem) := by
  induction ms generalizing e acc rem with
  | nil => simp [injLoop, select, substOut]
  | cons m ms ih =>
    obtain ⟨i, k, v⟩ := m
    simp only [injLoop, select]
    split
    · exact ih e acc rem
    · rw [ih]; simp [substOut, List.append_assoc]

/-- selected occurrences start at or after `e`, in increasing order, and do not overlap -/
theorem select_nonoverlap (ms : List Match) (e : Nat) :
    (∀ m ∈ select ms e, e ≤ m.1) ∧ (select ms e).Pairwise (fun a b => a.1 + a.2.1.length ≤ b.1) := by
  induction ms generalizing e with
  | nil => simp [select]
  | cons m ms ih =>
    obtain ⟨i, k, v⟩ := m
    simp only [select]
    split
    · exact ih e
    · rename_i hlt
      obtain ⟨h1, h2⟩ := ih (i + k.length)
      refine ⟨?_, ?_⟩
      · intro m hm
        simp only [List.mem_cons] at hm
        rcases hm with rfl | hm
        · simp; omega
        · have := h1 m hm; omega
      · rw [List.pairwise_cons]
        exact ⟨fun b hb => h1 b hb, h2⟩

theorem select_sub (ms : List Match) (e : Nat) : ∀ m ∈ select ms e, m ∈ ms := by
  induction ms generalizing e with
  | nil => simp [select]
  | cons m ms ih =>
    obtain ⟨i, k, v⟩ := m
    intro x hx
    simp only [select] at hx
    split at hx
    · exact List.mem_cons_of_mem _ (ih e x hx)
    · simp only [List.mem_cons] at hx
      rcases hx with rfl | hx
      · exact List.mem_cons_self
      · exact List.mem_cons_of_mem _ (ih _ x hx)

/-- leftmost-first: in a position-sorted list every occurrence that is *not* selected starts before
    `e` or inside an earlier selected occurrence (it is overlapped by an earlier substitution) -/
theorem unselected_overlapped (ms : List Match) (e : Nat) (hs : SortedM ms) :
    ∀ m ∈ ms, m ∉ select ms e → m.1 < e ∨ ∃ s ∈ select ms e, s.1 ≤ m.1 ∧ m.1 < s.1 + s.2.1.length := by
  induction ms generalizing e with
  | nil => simp
  | cons m0 ms ih =>
    obtain ⟨i, k, v⟩ := m0
    unfold SortedM at hs
    rw [List.pairwise_cons] at hs
    intro m hm hns
    simp only [select] at hns ⊢
    by_cases hlt : i < e
    · simp only [hlt, if_true] at hns ⊢
      simp only [List.mem_cons] at hm
      rcases hm with rfl | hm
      · exact Or.inl hlt
      · exact ih e hs.2 m hm hns
    · simp only [hlt, if_false] at hns ⊢
      simp only [List.mem_cons, not_or] at hns hm
      rcases hm with rfl | hm
      · exact absurd rfl hns.1
      · rcases ih (i + k.length) hs.2 m hm hns.2 with h | ⟨s, hs1, hs2, hs3⟩
        · right
          exact ⟨(i, k, v), by simp, hs.1 m hm, h⟩
        · right
          exact ⟨s, by simp [hs1], hs2, hs3⟩

/-- every match is the first occurrence of a stored name in the line, with that name's content -/
theorem match_is_first_occurrence (stored : List (Str × Str)) (line : Str) (m : Match) (h : m ∈ matchesOf stored line) :
    (m.2.1, m.2.2) ∈ stored ∧ m.2.1 <+: line.drop m.1 ∧ ∀ j, j < m.1 → ¬ m.2.1 <+: line.drop j := by
  simp only [matchesOf, List.mem_filterMap, Option.map_eq_some_iff] at h
  obtain ⟨kv, hkv, i, hi, rfl⟩ := h
  refine ⟨hkv, findIdx_prefix _ _ _ hi, ?_⟩
  unfold findIdx at hi
  cases hf : findSub kv.1 line with
  | none => simp [hf] at hi
  | some r =>
    obtain ⟨a, b⟩ := r
    simp [hf] at hi; subst hi
    exact (findSub_some _ _ _ _ hf).2.2

/-- `inject_tags`, declaratively -/
theorem inject_spec (t : TagState) (norm : Str → Str) (line : Str) :
    let ms := sortM (matchesOf t.stored line)
    let sel := select ms 0
    (t.inject norm line).1 = substOut norm line sel 0 ∧
    (t.inject norm line).2.stored = t.stored.filter (fun kv => !(sel.map (·.2.1)).contains kv.1) ∧
    (t.inject norm line).2.listening = t.listening ∧
    (∀ m ∈ sel, (m.2.1, m.2.2) ∈ t.stored ∧ m.2.1 <+: line.drop m.1 ∧ ∀ j, j < m.1 → ¬ m.2.1 <+: line.drop j) ∧
    sel.Pairwise (fun a b => a.1 + a.2.1.length ≤ b.1) ∧
    (∀ m ∈ ms, m ∉ sel → ∃ s ∈ sel, s.1 ≤ m.1 ∧ m.1 < s.1 + s.2.1.length) := by
  intro ms sel
  have heq := injLoop_eq norm line ms 0 [] []
  refine ⟨?_, ?_, rfl, ?_, (select_nonoverlap ms 0).2, ?_⟩
  · simp only [TagState.inject]; rw [heq]; simp [sel]
  · simp only [TagState.inject]; rw [heq]
    congr 1
    funext kv
    simp [sel]
  · intro m hm
    have hm1 : m ∈ ms := select_sub ms 0 m hm
    have hm2 : m ∈ matchesOf t.stored line := (sortM_perm _).subset hm1
    exact match_is_first_occurrence t.stored line m hm2
  · intro m hm hns
    rcases unselected_overlapped ms 0 (sortM_sorted _) m hm hns with h | h
    · omega
    · exact h

end Txt

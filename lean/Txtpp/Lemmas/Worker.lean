import Txtpp.Lemmas.Cycle
/-! Scratch prototype: the worker layer on top of the coordinator (4.7): phases, output store,
    and the refinement "concurrent run = sequential build in dependency order". -/
namespace Coord

inductive Phase where | queued | running | sent
deriving DecidableEq

inductive OutState (C : Type) where
  | stale (b : C) | part | complete (b : C)

variable {C : Type}

def valOf (junk : C) : OutState C → C
  | .stale b => b
  | .part => junk
  | .complete b => b

def fileOf : Task → File | .pp f _ => f

def isFinal (w : World) : Task → Bool
  | .pp _ false => true
  | .pp f true => decide (w.deps f = [])

def isOk : Res → Bool | .ok _ => true | _ => false

structure WSt (C : Type) where
  st : St
  ph : Task → Phase
  outp : File → OutState C

/-- what a pass of `f` computes from the outputs of the files it includes -/
structure Sem (C : Type) where
  render : File → (File → C) → C
  junk : C

def RenderLocal (w : World) (R : Sem C) : Prop :=
  ∀ f v1 v2, (∀ d ∈ w.deps f, v1 d = v2 d) → R.render f v1 = R.render f v2

/-- sequential build along a list (head = last built) -/
def seqVal (R : Sem C) : List File → File → C
  | [] => fun _ => R.junk
  | a :: l => upd (seqVal R l) a (R.render a (seqVal R l))

inductive WStep (w : World) (R : Sem C) : WSt C → WSt C → Prop where
  | begin (x : WSt C) (t : Task) (ht : t ∈ x.st.pool) (hq : x.ph t = .queued) :
      WStep w R x { x with ph := fun u => if u = t then .running else x.ph u,
                           outp := upd x.outp (fileOf t) .part }
  | finish (x : WSt C) (t : Task) (ht : t ∈ x.st.pool) (hr : x.ph t = .running) :
      WStep w R x { x with ph := fun u => if u = t then .sent else x.ph u,
                           outp := if isFinal w t && isOk (w.result t)
                                   then upd x.outp (fileOf t) (.complete (R.render (fileOf t) (fun d => valOf R.junk (x.outp d))))
                                   else x.outp }
  | deliver (x : WSt C) (t : Task) (s' : St) (ht : t ∈ x.st.pool) (hs : x.ph t = .sent)
      (h : handle { x.st with pool := x.st.pool.erase t } (w.result t) = .cont s') :
      WStep w R x { st := s', ph := fun u => if u ∈ x.st.pool.erase t then x.ph u else .queued, outp := x.outp }

def TopoSorted (deps : File → List File) : List File → Prop
  | [] => True
  | a :: l => (∀ d ∈ deps a, d ∈ l) ∧ TopoSorted deps l

structure WInv (w : World) (R : Sem C) (x : WSt C) : Prop where
  inv : Inv w x.st
  topo : TopoSorted w.deps x.st.dm.fin
  finOut : ∀ f ∈ x.st.dm.fin, x.outp f = .complete (seqVal R x.st.dm.fin f)
  sentOut : ∀ t ∈ x.st.pool, x.ph t = .sent → isFinal w t = true → isOk (w.result t) = true →
    x.outp (fileOf t) = .complete (R.render (fileOf t) (seqVal R x.st.dm.fin))

/-! facts about what a delivery does to `fin` -/
theorem handle_ok_fin (s s' : St) (a : File) (h : handle s (.ok a) = .cont s') : s'.dm.fin = a :: s.dm.fin := by
  simp only [handle] at h
  split at h
  · simp at h
  · rename_i dm rel hn
    injection h with h; subst h
    rw [execFiles_dm]
    simp only [notifyFinish] at hn
    split at hn
    · simp at hn
    · simp at hn; obtain ⟨h1, _⟩ := hn; subst h1; rfl

theorem addDependency_fin (m : DepMgr) (a : File) (ds : List File) : (addDependency m a ds).1.fin = m.fin := by
  unfold addDependency; split <;> rfl

theorem handle_hasDeps_fin (s s' : St) (a : File) (ds : List File) (h : handle s (.hasDeps a ds) = .cont s') :
    s'.dm.fin = s.dm.fin := by
  simp only [handle] at h
  split at h
  · injection h with h; subst h; rw [execFiles_dm]; exact addDependency_fin _ _ _
  · injection h with h; subst h; rw [execFile_dm]; exact addDependency_fin _ _ _

theorem task_file_not_fin (w : World) (s : St) (hI : Inv w s) (t : Task) (ht : t ∈ s.pool) : fileOf t ∉ s.dm.fin := by
  cases t with
  | pp f b => cases b
              · exact (hI.ex2 f ht).2
              · exact (hI.ex1 f ht).2.2

theorem same_file_same_task (w : World) (s : St) (hI : Inv w s) (t u : Task) (ht : t ∈ s.pool) (hu : u ∈ s.pool)
    (hf : fileOf t = fileOf u) : t = u := by
  cases t with
  | pp f b => cases u with
    | pp g c =>
      simp [fileOf] at hf; subst hf
      cases b <;> cases c
      · rfl
      · exact absurd ht (hI.ex1 f hu).1
      · exact absurd hu (hI.ex1 f ht).1
      · rfl

theorem final_deps_fin (w : World) (s : St) (hI : Inv w s) (t : Task) (ht : t ∈ s.pool) (hf : isFinal w t = true) :
    ∀ d ∈ w.deps (fileOf t), d ∈ s.dm.fin := by
  cases t with
  | pp f b => cases b
              · exact hI.secondDeps f ht
              · simp [isFinal] at hf; simp [fileOf, hf]

theorem seqVal_cons_ne (R : Sem C) (a : File) (l : List File) (g : File) (h : g ≠ a) :
    seqVal R (a :: l) g = seqVal R l g := by simp [seqVal, upd_other _ _ _ _ h]

theorem wstep_preserves (w : World) (R : Sem C) (hR : RenderLocal w R) (x y : WSt C)
    (hI : WInv w R x) (h : WStep w R x y) : WInv w R y := by
  cases h with
  | begin t ht hq =>
    have hnf := task_file_not_fin w x.st hI.inv t ht
    refine ⟨hI.inv, hI.topo, ?_, ?_⟩
    · intro f hf
      have : f ≠ fileOf t := fun e => hnf (e ▸ hf)
      simp only [upd_other _ _ _ _ this]; exact hI.finOut f hf
    · intro u hu hs hfin hok
      simp only at hs
      have hut : u ≠ t := by intro e; subst e; simp at hs
      simp only [hut, if_false] at hs
      have : fileOf u ≠ fileOf t := fun e => hut (same_file_same_task w x.st hI.inv u t hu ht e)
      simp only [upd_other _ _ _ _ this]; exact hI.sentOut u hu hs hfin hok
  | finish t ht hr =>
    have hnf := task_file_not_fin w x.st hI.inv t ht
    by_cases hc : (isFinal w t && isOk (w.result t)) = true
    · simp only [hc, if_true]
      have hfin : isFinal w t = true := by simp at hc; exact hc.1
      have hrender : R.render (fileOf t) (fun d => valOf R.junk (x.outp d)) = R.render (fileOf t) (seqVal R x.st.dm.fin) := by
        apply hR
        intro d hd
        have := final_deps_fin w x.st hI.inv t ht hfin d hd
        rw [hI.finOut d this]; rfl
      refine ⟨hI.inv, hI.topo, ?_, ?_⟩
      · intro f hf
        have : f ≠ fileOf t := fun e => hnf (e ▸ hf)
        simp only [upd_other _ _ _ _ this]; exact hI.finOut f hf
      · intro u hu hs hfu hok
        by_cases hut : u = t
        · subst hut; simp only [upd_same, hrender]
        · simp only [hut, if_false] at hs
          have : fileOf u ≠ fileOf t := fun e => hut (same_file_same_task w x.st hI.inv u t hu ht e)
          simp only [upd_other _ _ _ _ this]; exact hI.sentOut u hu hs hfu hok
    · simp only [hc]
      refine ⟨hI.inv, hI.topo, hI.finOut, ?_⟩
      intro u hu hs hfu hok
      by_cases hut : u = t
      · subst hut; simp [hfu, hok] at hc
      · simp only [hut, if_false] at hs
        simpa using hI.sentOut u hu hs hfu hok
  | deliver t s' ht hs h =>
    have hI' : Inv w s' := step_preserves w x.st s' hI.inv (Step.deliver _ _ t ht h)
    have hold : ∀ u, u ∈ s'.pool → (if u ∈ x.st.pool.erase t then x.ph u else Phase.queued) = Phase.sent →
        u ∈ x.st.pool ∧ x.ph u = .sent := by
      intro u _ hph
      by_cases hm : u ∈ x.st.pool.erase t
      · simp only [hm, if_true] at hph
        exact ⟨((mem_erase_nodup hI.inv.poolND t u).1 hm).2, hph⟩
      · simp [hm] at hph
    -- case analysis on the delivered result
    cases hres : w.result t with
    | err => rw [hres] at h; simp [handle] at h
    | hasDeps a ds =>
      rw [hres] at h
      have hfin := handle_hasDeps_fin _ _ _ _ h
      simp only at hfin
      refine ⟨hI', by rw [hfin]; exact hI.topo, ?_, ?_⟩
      · intro f hf; simp only at hf ⊢; rw [hfin] at hf ⊢; exact hI.finOut f hf
      · intro u hu hph hfu hok
        obtain ⟨hu', hph'⟩ := hold u hu hph
        simp only; rw [hfin]; exact hI.sentOut u hu' hph' hfu hok
    | ok a =>
      rw [hres] at h
      have hfin := handle_ok_fin _ _ _ h
      simp only at hfin
      -- `t` is a final, successful pass of `a`
      have hta : fileOf t = a ∧ isFinal w t = true := by
        cases t with
        | pp f b =>
          cases b
          · simp only [World.result] at hres; split at hres <;> simp at hres; exact ⟨hres, rfl⟩
          · simp only [World.result] at hres
            split at hres
            · rename_i hd; split at hres <;> simp at hres; exact ⟨hres, by simp [isFinal, hd]⟩
            · split at hres <;> simp at hres
      have haF : a ∉ x.st.dm.fin := hta.1 ▸ task_file_not_fin w x.st hI.inv t ht
      have hdeps : ∀ d ∈ w.deps a, d ∈ x.st.dm.fin := hta.1 ▸ final_deps_fin w x.st hI.inv t ht hta.2
      have hout : x.outp a = .complete (R.render a (seqVal R x.st.dm.fin)) := by
        have := hI.sentOut t ht hs hta.2 (by simp [hres, isOk]); rwa [hta.1] at this
      refine ⟨hI', ?_, ?_, ?_⟩
      · rw [hfin]; exact ⟨hdeps, hI.topo⟩
      · intro f hf; simp only at hf ⊢; rw [hfin] at hf ⊢
        simp at hf
        rcases hf with rfl | hf
        · rw [hout]; simp [seqVal]
        · have : f ≠ a := fun e => haF (e ▸ hf)
          rw [seqVal_cons_ne R a _ f this]; exact hI.finOut f hf
      · intro u hu hph hfu hok
        obtain ⟨hu', hph'⟩ := hold u hu hph
        simp only; rw [hfin]
        rw [hI.sentOut u hu' hph' hfu hok]
        congr 1
        apply hR
        intro d hd
        have hdf := final_deps_fin w x.st hI.inv u hu' hfu d hd
        have : d ≠ a := fun e => haF (e ▸ hdf)
        rw [seqVal_cons_ne R a _ d this]

end Coord

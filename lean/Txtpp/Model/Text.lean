/-! Text primitives and the directive grammar (DESIGN 4.1): models of `directive_from.rs`,
`directive_add_line.rs`, `directive/mod.rs` -/
namespace Txt

abbrev Str := List Char

/-- Rust `char::is_whitespace` (Unicode White_Space). -/
def isWs (c : Char) : Bool :=
  let n := c.toNat
  (9 ≤ n && n ≤ 13) || n == 0x20 || n == 0x85 || n == 0xA0 || n == 0x1680 ||
  (0x2000 ≤ n && n ≤ 0x200A) || n == 0x2028 || n == 0x2029 || n == 0x202F || n == 0x205F || n == 0x3000

def hash : Str := ['T', 'X', 'T', 'P', 'P', '#']

/-- `str::find(pat)`: split at the first occurrence: (before, from the match on) -/
def findSub (pat : Str) : Str → Option (Str × Str)
  | [] => if pat.isPrefixOf [] then some ([], []) else none
  | c :: cs =>
    if pat.isPrefixOf (c :: cs) then some ([], c :: cs)
    else match findSub pat cs with
      | some (a, b) => some (c :: a, b)
      | none => none

/-- `pat` occurs in `s` at offset `i` -/
def OccursAt (pat s : Str) (i : Nat) : Prop := pat <+: s.drop i ∧ i ≤ s.length

theorem findSub_some (pat s a b : Str) (h : findSub pat s = some (a, b)) :
    s = a ++ b ∧ pat <+: b ∧ ∀ j, j < a.length → ¬ pat <+: s.drop j := by
  induction s generalizing a b with
  | nil =>
    simp only [findSub] at h
    split at h
    · rename_i hp
      simp only [Option.some.injEq, Prod.mk.injEq] at h
      obtain ⟨ha, hb⟩ := h; subst ha; subst hb
      exact ⟨rfl, List.isPrefixOf_iff_prefix.1 hp, by simp⟩
    · simp at h
  | cons c cs ih =>
    simp only [findSub] at h
    split at h
    · rename_i hp
      simp only [Option.some.injEq, Prod.mk.injEq] at h
      obtain ⟨ha, hb⟩ := h; subst ha; subst hb
      exact ⟨rfl, List.isPrefixOf_iff_prefix.1 hp, by simp⟩
    · rename_i hp
      split at h
      · rename_i a' b' heq
        simp only [Option.some.injEq, Prod.mk.injEq] at h
        obtain ⟨ha, hb⟩ := h; subst ha; subst hb
        obtain ⟨h1, h2, h3⟩ := ih a' b' heq
        refine ⟨by rw [h1]; rfl, h2, ?_⟩
        intro j hj
        cases j with
        | zero => simpa [List.isPrefixOf_iff_prefix] using hp
        | succ j => simp at hj ⊢; exact h3 j hj
      · simp at h

theorem findSub_none (pat s : Str) (h : findSub pat s = none) : ∀ j, j ≤ s.length → ¬ pat <+: s.drop j := by
  induction s with
  | nil =>
    simp only [findSub] at h
    split at h
    · simp at h
    · rename_i hp; intro j hj; simp at hj; subst hj; simpa [List.isPrefixOf_iff_prefix] using hp
  | cons c cs ih =>
    simp only [findSub] at h
    split at h
    · simp at h
    · rename_i hp
      split at h
      · simp at h
      · rename_i heq
        intro j hj
        cases j with
        | zero => simpa [List.isPrefixOf_iff_prefix] using hp
        | succ j => simp at hj ⊢; exact ih heq j hj

/-- `str::split_once(' ')` -/
def splitOnceSpace : Str → Option (Str × Str)
  | [] => none
  | c :: cs => if c = ' ' then some ([], cs) else
      match splitOnceSpace cs with
      | some (a, b) => some (c :: a, b)
      | none => none

theorem splitOnceSpace_some (s a b : Str) (h : splitOnceSpace s = some (a, b)) :
    s = a ++ ' ' :: b ∧ ' ' ∉ a := by
  induction s generalizing a b with
  | nil => simp [splitOnceSpace] at h
  | cons c cs ih =>
    simp only [splitOnceSpace] at h
    split at h
    · rename_i hc
      simp only [Option.some.injEq, Prod.mk.injEq] at h
      obtain ⟨ha, hb⟩ := h; subst ha; subst hb; simp [hc]
    · rename_i hc
      split at h
      · rename_i a' b' heq
        simp only [Option.some.injEq, Prod.mk.injEq] at h
        obtain ⟨ha, hb⟩ := h; subst ha; subst hb
        obtain ⟨h1, h2⟩ := ih a' b' heq
        refine ⟨by rw [h1]; rfl, ?_⟩
        simp only [List.mem_cons, not_or]; exact ⟨fun e => hc e.symm, h2⟩
      · simp at h

theorem splitOnceSpace_none (s : Str) (h : splitOnceSpace s = none) : ' ' ∉ s := by
  induction s with
  | nil => simp
  | cons c cs ih =>
    simp only [splitOnceSpace] at h
    split at h
    · simp at h
    · rename_i hc
      split at h
      · simp at h
      · rename_i heq; simp [ih heq]; exact fun e => hc e.symm

def trimStart (s : Str) : Str := s.dropWhile isWs
def trimEnd (s : Str) : Str := (s.reverse.dropWhile isWs).reverse
def trim (s : Str) : Str := trimEnd (trimStart s)

inductive DType where
  | empty | include | after | run | tag | temp | write
deriving DecidableEq, Repr

def DType.ofName (n : Str) : Option DType :=
  if n = [] then some .empty
  else if n = "include".toList then some .include
  else if n = "run".toList then some .run
  else if n = "tag".toList then some .tag
  else if n = "temp".toList then some .temp
  else if n = "write".toList then some .write
  else if n = "after".toList then some .after
  else none

def DType.multi : DType → Bool
  | .after | .include | .tag => false
  | _ => true

structure Directive where
  ws : Str
  pre : Str
  ty : DType
  args : List Str
deriving DecidableEq, Repr

/-- `Directive::detect_from` -/
def detectFrom (line : Str) : Option Directive :=
  let ws := line.takeWhile isWs
  match findSub hash (line.dropWhile isWs) with
  | none => none
  | some (pre, fromHash) =>
    let afterHash := fromHash.drop hash.length
    match splitOnceSpace afterHash with
    | some (n, a) => (DType.ofName n).map (fun ty => ⟨ws, pre, ty, [trim a]⟩)
    | none => (DType.ofName afterHash).map (fun ty => ⟨ws, pre, ty, [[]]⟩)

/-- The sentence of property C15, first half. -/
def IsDirectiveLine (line : Str) (d : Directive) : Prop :=
  ∃ rest after name,
    -- leading whitespace, maximal
    line = d.ws ++ rest ∧ (∀ c ∈ d.ws, isWs c = true) ∧ (∀ c, rest.head? = some c → isWs c = false) ∧
    -- the first `TXTPP#` of the rest, the text before it is the prefix
    rest = d.pre ++ hash ++ after ∧ (∀ j, j < d.pre.length → ¬ hash <+: rest.drop j) ∧
    -- immediately followed by a name, then end of line or a space; the trimmed rest is the argument
    ((after = name ∧ ' ' ∉ name ∧ d.args = [[]]) ∨ (∃ r, after = name ++ ' ' :: r ∧ ' ' ∉ name ∧ d.args = [trim r])) ∧
    DType.ofName name = some d.ty

theorem takeWhile_append_dropWhile' (p : Char → Bool) (l : Str) : l = l.takeWhile p ++ l.dropWhile p :=
  (List.takeWhile_append_dropWhile).symm

theorem head_dropWhile_not (p : Char → Bool) (l : Str) (c : Char) (h : (l.dropWhile p).head? = some c) : p c = false := by
  induction l with
  | nil => simp at h
  | cons x xs ih =>
    simp only [List.dropWhile_cons] at h
    split at h
    · exact ih h
    · simp at h; subst h; simp_all

theorem mem_takeWhile_imp' (p : Char → Bool) (l : Str) (c : Char) (h : c ∈ l.takeWhile p) : p c = true := by
  induction l with
  | nil => simp at h
  | cons x xs ih =>
    simp only [List.takeWhile_cons] at h
    split at h
    · simp at h; rcases h with rfl | h; assumption; exact ih h
    · simp at h

theorem detectFrom_sound (line : Str) (d : Directive) (h : detectFrom line = some d) : IsDirectiveLine line d := by
  unfold detectFrom at h
  simp only at h
  split at h
  · simp at h
  · rename_i pre fromHash hf
    obtain ⟨f1, f2, f3⟩ := findSub_some _ _ _ _ hf
    obtain ⟨after, rfl⟩ := f2
    have hdrop : (hash ++ after).drop hash.length = after := by simp
    rw [hdrop] at h
    have hws : ∀ c ∈ line.takeWhile isWs, isWs c = true := fun c hc => mem_takeWhile_imp' _ _ _ hc
    split at h
    · rename_i n a hs
      obtain ⟨s1, s2⟩ := splitOnceSpace_some _ _ _ hs
      cases hty : DType.ofName n with
      | none => simp [hty] at h
      | some ty =>
        simp [hty] at h; subst h
        exact ⟨line.dropWhile isWs, after, n, takeWhile_append_dropWhile' _ _, hws, head_dropWhile_not _ _,
          by rw [f1, List.append_assoc], f3, Or.inr ⟨a, s1, s2, rfl⟩, hty⟩
    · rename_i hs
      cases hty : DType.ofName after with
      | none => simp [hty] at h
      | some ty =>
        simp [hty] at h; subst h
        exact ⟨line.dropWhile isWs, after, after, takeWhile_append_dropWhile' _ _, hws, head_dropWhile_not _ _,
          by rw [f1, List.append_assoc], f3, Or.inl ⟨rfl, splitOnceSpace_none _ hs, rfl⟩, hty⟩


/-- UTF-8 length in bytes (`str::len`) -/
def utf8Len (s : Str) : Nat := (s.map Char.utf8Size).sum

def spaces (n : Nat) : Str := List.replicate n ' '

def Directive.push (d : Directive) (a : Str) : Directive := { d with args := d.args ++ [a] }

/-- `Directive::add_line`; `none` = `Err(())` -/
def addLine (d : Directive) (line : Str) : Option Directive :=
  if !d.ty.multi then none
  else if d.ws.isPrefixOf line then
    let rest := line.drop d.ws.length
    if rest = trimEnd d.pre then some (d.push [])
    else if d.pre.isPrefixOf rest then some (d.push (trimEnd (rest.drop d.pre.length)))
    else if (spaces (utf8Len d.pre)).isPrefixOf rest then some (d.push (trimEnd (rest.drop (utf8Len d.pre))))
    else none
  else none

/-- The sentence of property C15, second half: `line` continues `d` with next argument `a`. -/
def Continues (d : Directive) (line : Str) (a : Str) : Prop :=
  ∃ rest, line = d.ws ++ rest ∧
    ((rest = trimEnd d.pre ∧ a = []) ∨
     (∃ r, rest = d.pre ++ r ∧ a = trimEnd r) ∨
     (∃ r, rest = spaces (utf8Len d.pre) ++ r ∧ a = trimEnd r))

end Txt

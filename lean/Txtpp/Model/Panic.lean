import Txtpp.Model.Tag
import Txtpp.Model.CoordLoops
/-! Panic audit layer (DESIGN 4.8): byte-offset-faithful renderings of the partial operations of
    the code (`&s[a..b]` panics unless `a ≤ b ≤ len` and both are char boundaries; `v[i]`;
    `unwrap`; `assert!`), and for each site a theorem that it cannot fail. -/
namespace Txt

/-- `s.split_at(n)` / `&s[..n]`, `&s[n..]`: defined only if byte offset `n` is a char boundary ≤ len -/
def byteSplit : Str → Nat → Option (Str × Str)
  | s, 0 => some ([], s)
  | [], _ + 1 => none
  | c :: cs, n + 1 =>
    if c.utf8Size ≤ n + 1 then
      (byteSplit cs (n + 1 - c.utf8Size)).map (fun r => (c :: r.1, r.2))
    else none

theorem utf8Len_cons (c : Char) (cs : Str) : utf8Len (c :: cs) = c.utf8Size + utf8Len cs := by
  simp [utf8Len]

theorem utf8Len_append (a b : Str) : utf8Len (a ++ b) = utf8Len a + utf8Len b := by
  induction a with
  | nil => simp [utf8Len]
  | cons c cs ih => simp only [List.cons_append, utf8Len_cons, ih]; omega

/-- slicing at the byte length of a known prefix never panics and yields that prefix -/
theorem byteSplit_append (a b : Str) : byteSplit (a ++ b) (utf8Len a) = some (a, b) := by
  induction a with
  | nil => cases b <;> simp [byteSplit, utf8Len]
  | cons c cs ih =>
    have hpos := Char.utf8Size_pos c
    rw [utf8Len_cons]
    obtain ⟨k, hk⟩ : ∃ k, c.utf8Size + utf8Len cs = k + 1 := ⟨c.utf8Size + utf8Len cs - 1, by omega⟩
    rw [hk]
    simp only [List.cons_append, byteSplit]
    have h1 : c.utf8Size ≤ k + 1 := by omega
    have h2 : k + 1 - c.utf8Size = utf8Len cs := by omega
    simp [h1, h2, ih]

/-! ### `Directive::detect_from` (directive_from.rs:17-30): three slices -/

/-- site 1: `&line[..first_non_whitespace]` / `&line[first_non_whitespace..]` -/
theorem detect_site_ws (line : Str) :
    byteSplit line (utf8Len (line.takeWhile isWs)) = some (line.takeWhile isWs, line.dropWhile isWs) := by
  have := byteSplit_append (line.takeWhile isWs) (line.dropWhile isWs)
  rwa [List.takeWhile_append_dropWhile] at this

/-- site 2: `&line[..i]`, `&line[i..]` with `i = line.find("TXTPP#")` -/
theorem detect_site_find (rest pre fromHash : Str) (h : findSub hash rest = some (pre, fromHash)) :
    byteSplit rest (utf8Len pre) = some (pre, fromHash) := by
  obtain ⟨h1, _, _⟩ := findSub_some _ _ _ _ h
  rw [h1]; exact byteSplit_append pre fromHash

/-- site 3: `&line[TXTPP_HASH.len()..]` where `line` starts with the marker -/
theorem detect_site_marker (rest pre fromHash : Str) (h : findSub hash rest = some (pre, fromHash)) :
    ∃ after, byteSplit fromHash (utf8Len hash) = some (hash, after) := by
  obtain ⟨_, ⟨after, h2⟩, _⟩ := findSub_some _ _ _ _ h
  exact ⟨after, by rw [← h2]; exact byteSplit_append hash after⟩

/-! ### `Directive::add_line` (directive_add_line.rs:18,25) -/

/-- site 4: `&line[self.whitespaces.len()..]` after `line.starts_with(&self.whitespaces)` -/
theorem addline_site_ws (ws line : Str) (h : ws.isPrefixOf line = true) :
    byteSplit line (utf8Len ws) = some (ws, line.drop ws.length) := by
  have := List.prefix_iff_eq_append.1 (List.isPrefixOf_iff_prefix.1 h)
  rw [← this]; simpa using byteSplit_append ws (line.drop ws.length)

/-- site 5: `line[self.prefix.len()..]` after `starts_with(prefix)` **or** after
    `starts_with(" ".repeat(prefix.len()))`: in both cases the offset is a boundary -/
theorem addline_site_prefix (pre rest : Str)
    (h : pre.isPrefixOf rest = true ∨ (spaces (utf8Len pre)).isPrefixOf rest = true) :
    ∃ a b, byteSplit rest (utf8Len pre) = some (a, b) := by
  rcases h with h | h
  · have := List.prefix_iff_eq_append.1 (List.isPrefixOf_iff_prefix.1 h)
    exact ⟨pre, rest.drop pre.length, by rw [← this]; simpa using byteSplit_append pre (rest.drop pre.length)⟩
  · have := List.prefix_iff_eq_append.1 (List.isPrefixOf_iff_prefix.1 h)
    have hl : utf8Len (spaces (utf8Len pre)) = utf8Len pre := by
      induction (utf8Len pre) with
      | zero => rfl
      | succ n ih =>
        have h1 : ' '.utf8Size = 1 := by decide
        simp only [spaces, List.replicate_succ, utf8Len_cons, h1] at ih ⊢; omega
    refine ⟨spaces (utf8Len pre), rest.drop (spaces (utf8Len pre)).length, ?_⟩
    have h3 := byteSplit_append (spaces (utf8Len pre)) (rest.drop (spaces (utf8Len pre)).length)
    rw [hl, this] at h3
    exact h3

/-! ### `impl Display for Directive` (directive/mod.rs:41-45): `self.args[0]` -/

/-- every directive produced by `detect_from` / `add_line` has at least one argument -/
theorem detect_args_nonempty (line : Str) (d : Directive) (h : detectFrom line = some d) : d.args ≠ [] := by
  unfold detectFrom at h
  simp only at h
  split at h
  · simp at h
  · split at h
    · simp only [Option.map_eq_some_iff] at h
      obtain ⟨t, _, rfl⟩ := h; simp
    · simp only [Option.map_eq_some_iff] at h
      obtain ⟨t, _, rfl⟩ := h; simp

theorem addLine_args_nonempty (d d' : Directive) (line : Str) (h : addLine d line = some d') : d'.args ≠ [] := by
  unfold addLine at h
  split at h
  · simp at h
  · split at h
    · simp only at h
      split at h
      · cases h; simp [Directive.push]
      · split at h
        · cases h; simp [Directive.push]
        · split at h
          · cases h; simp [Directive.push]
          · simp at h
    · simp at h

/-! ### `TagState::inject_tags` (tag_state.rs:69): `assert!(!output.ends_with('\n'))` -/

/-- lines produced by `str::lines` never end in a newline -/
theorem rustLines_no_trailing_nl (s : Str) : ∀ l ∈ rustLines s, endsNl l = false := by
  fun_induction rustLines s with
  | case1 => simp
  | case2 cs ih => intro l hl; simp at hl; rcases hl with rfl | hl; simp [endsNl]; exact ih l hl
  | case3 cs ih => intro l hl; simp at hl; rcases hl with rfl | hl; simp [endsNl]; exact ih l hl
  | case4 c cs hn _ hnil ih =>
    intro l hl; simp at hl; subst hl
    have : c ≠ '\n' := fun e => hn (e ▸ rfl)
    simp [endsNl, this]
  | case5 c cs hn _ l ls hcons ih =>
    intro l' hl'; simp at hl'
    rcases hl' with rfl | hl'
    · have hl := ih l (by simp [hcons])
      cases l with
      | nil =>
        have : c ≠ '\n' := fun e => hn (e ▸ rfl)
        simp [endsNl, this]
      | cons x xs => simpa [endsNl, List.getLast?_cons_cons] using hl
    · exact ih l' (by simp [hcons, hl'])

end Txt

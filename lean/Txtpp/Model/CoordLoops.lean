import Txtpp.Model.Coord
namespace Coord

/-! ### specification of the three loops -/

theorem addDepLoop_spec (a : File) (deps : List File) (inE : File → List File) (fin : List File) (c : Nat) (added : Bool) :
    let r := addDepLoop a deps inE fin c added
    (∀ d, r.1 d = if d ∈ deps ∧ d ∉ fin ∧ a ∉ inE d then a :: inE d else inE d) ∧
    (r.2.2 = (added || deps.any (fun d => decide (d ∉ fin)))) ∧
    (∃ L : List File, L.Nodup ∧ (∀ d, d ∈ L ↔ (d ∈ deps ∧ d ∉ fin ∧ a ∉ inE d)) ∧ r.2.1 = c + L.length) := by
  induction deps generalizing inE c added with
  | nil => simp [addDepLoop]
  | cons d ds ih =>
    simp only [addDepLoop]
    by_cases hf : d ∈ fin
    · simp only [hf, if_true]
      obtain ⟨h1, h2, L, hL, hmem, hlen⟩ := ih inE c added
      refine ⟨?_, ?_, L, hL, ?_, hlen⟩
      · intro x; rw [h1 x]; by_cases hx : x = d <;> simp [hx, hf]
      · rw [h2]; simp [hf]
      · intro x; rw [hmem x]; by_cases hx : x = d <;> simp [hx, hf]
    · simp only [hf, if_false]
      by_cases ha : a ∈ inE d
      · simp only [ha, if_true]
        obtain ⟨h1, h2, L, hL, hmem, hlen⟩ := ih inE c true
        refine ⟨?_, ?_, L, hL, ?_, hlen⟩
        · intro x; rw [h1 x]; by_cases hx : x = d <;> simp [hx, ha]
        · rw [h2]; simp [hf]
        · intro x; rw [hmem x]; by_cases hx : x = d <;> simp [hx, ha]
      · simp only [ha, if_false]
        obtain ⟨h1, h2, L, hL, hmem, hlen⟩ := ih (upd inE d (a :: inE d)) (c + 1) true
        refine ⟨?_, ?_, d :: L, ?_, ?_, ?_⟩
        · intro x; rw [h1 x]
          by_cases hx : x = d
          · subst hx; simp [hf, ha]
          · simp [hx, upd_other]
        · rw [h2]; simp [hf]
        · refine List.nodup_cons.2 ⟨?_, hL⟩
          rw [hmem d]; simp
        · intro x
          by_cases hx : x = d
          · subst hx; simp [hf, ha]
          · simp [hx, hmem x, upd_other]
        · simp [hlen]; omega

/-- result of the release loop on a duplicate-free list whose members all have a counter -/
theorem releaseLoop_spec (as : List File) (cnt : File → Option Nat) (out : List File)
    (hnd : as.Nodup) (hdef : ∀ a ∈ as, ∃ k, cnt a = some k) :
    ∃ cnt' out', releaseLoop as cnt out = some (cnt', out') ∧
      (∀ x, x ∉ as → cnt' x = cnt x) ∧
      (∀ a ∈ as, ∀ k, cnt a = some k → (k ≤ 1 → cnt' a = none ∧ a ∈ out') ∧ (1 < k → cnt' a = some (k - 1) ∧ a ∉ out' ∨ a ∈ out)) ∧
      (∀ x, x ∈ out' ↔ x ∈ out ∨ (x ∈ as ∧ ∃ k, cnt x = some k ∧ k ≤ 1)) := by
  induction as generalizing cnt out with
  | nil => exact ⟨cnt, out, rfl, by simp, by simp, by simp⟩
  | cons a as ih =>
    obtain ⟨k, hk⟩ := hdef a (by simp)
    have hnd' := (List.nodup_cons.1 hnd)
    simp only [releaseLoop, hk]
    by_cases hle : k ≤ 1
    · simp only [hle, if_true]
      have hdef' : ∀ x ∈ as, ∃ k, upd cnt a none x = some k := by
        intro x hx
        have : x ≠ a := fun h => hnd'.1 (h ▸ hx)
        simpa [upd_other _ _ _ _ this] using hdef x (by simp [hx])
      obtain ⟨cnt', out', hr, h1, h2, h3⟩ := ih (upd cnt a none) (a :: out) hnd'.2 hdef'
      refine ⟨cnt', out', hr, ?_, ?_, ?_⟩
      · intro x hx
        simp at hx
        rw [h1 x hx.2, upd_other _ _ _ _ hx.1]
      · intro x hx k' hk'
        simp at hx
        rcases hx with rfl | hx
        · rw [hk] at hk'; cases hk'
          refine ⟨fun _ => ⟨?_, ?_⟩, fun h => by omega⟩
          · rw [h1 x hnd'.1]; simp
          · rw [h3]; simp
        · have hne : x ≠ a := fun h => hnd'.1 (h ▸ hx)
          have := h2 x hx k' (by simpa [upd_other _ _ _ _ hne] using hk')
          refine ⟨this.1, fun h => ?_⟩
          rcases this.2 h with h' | h'
          · exact Or.inl h'
          · simp [hne] at h'; exact Or.inr h'
      · intro x
        rw [h3]
        constructor
        · rintro (h | ⟨hx, k', hk', hle'⟩)
          · simp at h; rcases h with rfl | h
            · exact Or.inr ⟨by simp, k, hk, hle⟩
            · exact Or.inl h
          · have hne : x ≠ a := fun h => hnd'.1 (h ▸ hx)
            exact Or.inr ⟨by simp [hx], k', by simpa [upd_other _ _ _ _ hne] using hk', hle'⟩
        · rintro (h | ⟨hx, k', hk', hle'⟩)
          · exact Or.inl (by simp [h])
          · simp at hx; rcases hx with rfl | hx
            · exact Or.inl (by simp)
            · have hne : x ≠ a := fun h => hnd'.1 (h ▸ hx)
              exact Or.inr ⟨hx, k', by simpa [upd_other _ _ _ _ hne] using hk', hle'⟩
    · simp only [hle, if_false]
      have hdef' : ∀ x ∈ as, ∃ k', upd cnt a (some (k - 1)) x = some k' := by
        intro x hx
        have : x ≠ a := fun h => hnd'.1 (h ▸ hx)
        simpa [upd_other _ _ _ _ this] using hdef x (by simp [hx])
      obtain ⟨cnt', out', hr, h1, h2, h3⟩ := ih (upd cnt a (some (k - 1))) out hnd'.2 hdef'
      refine ⟨cnt', out', hr, ?_, ?_, ?_⟩
      · intro x hx
        simp at hx
        rw [h1 x hx.2, upd_other _ _ _ _ hx.1]
      · intro x hx k' hk'
        simp at hx
        rcases hx with rfl | hx
        · rw [hk] at hk'; cases hk'
          refine ⟨fun h => absurd h hle, fun _ => ?_⟩
          by_cases hxo : x ∈ out
          · exact Or.inr hxo
          · refine Or.inl ⟨?_, ?_⟩
            · rw [h1 x hnd'.1]; simp
            · rw [h3]; simp [hxo, hnd'.1]
        · have hne : x ≠ a := fun h => hnd'.1 (h ▸ hx)
          exact h2 x hx k' (by simpa [upd_other _ _ _ _ hne] using hk')
      · intro x
        rw [h3]
        constructor
        · rintro (h | ⟨hx, k', hk', hle'⟩)
          · exact Or.inl h
          · have hne : x ≠ a := fun h => hnd'.1 (h ▸ hx)
            exact Or.inr ⟨by simp [hx], k', by simpa [upd_other _ _ _ _ hne] using hk', hle'⟩
        · rintro (h | ⟨hx, k', hk', hle'⟩)
          · exact Or.inl h
          · simp at hx; rcases hx with rfl | hx
            · rw [hk] at hk'; cases hk'; exact absurd hle' hle
            · have hne : x ≠ a := fun h => hnd'.1 (h ▸ hx)
              exact Or.inr ⟨hx, k', by simpa [upd_other _ _ _ _ hne] using hk', hle'⟩

end Coord

import Txtpp.Model.Lines
/-! The tag store (DESIGN 4.4): model of `core/util/tag_state.rs` and `core/util/string.rs` -/
namespace Txt

/-- char index of the first occurrence of `k` in `s` -/
def findIdx (k : Str) (s : Str) : Option Nat := (findSub k s).map (fun r => r.1.length)

structure TagState where
  listening : Option Str
  stored : List (Str × Str)      -- stands for the HashMap

def related (a b : Str) : Bool := a.isPrefixOf b || b.isPrefixOf a

/-- `TagState::create` -/
def TagState.create (t : TagState) (tag : Str) : Option TagState :=
  if t.listening.isSome then none
  else if t.stored.any (fun kv => related kv.1 tag) then none
  else some { t with listening := some tag }

/-- `TagState::try_store` (`HashMap::insert` replaces an existing key) -/
def TagState.tryStore (t : TagState) (content : Str) : Option TagState :=
  match t.listening with
  | some tag => some ⟨none, (tag, content) :: t.stored.filter (fun kv => kv.1 != tag)⟩
  | none => none

def TagState.hasTags (t : TagState) : Bool := t.listening.isSome || !t.stored.isEmpty

/-- no key is a prefix of another one (in particular keys are distinct) -/
def PrefixFree (l : List (Str × Str)) : Prop := l.Pairwise (fun a b => related a.1 b.1 = false)

theorem create_err_iff (t : TagState) (tag : Str) :
    t.create tag = none ↔ (t.listening.isSome ∨ ∃ kv ∈ t.stored, kv.1 <+: tag ∨ tag <+: kv.1) := by
  unfold TagState.create
  by_cases h1 : t.listening.isSome
  · simp [h1]
  · simp only [h1, if_false, Bool.false_eq_true, false_or]
    by_cases h2 : t.stored.any (fun kv => related kv.1 tag)
    · simp only [h2, if_true, true_iff]
      simp only [List.any_eq_true, related, Bool.or_eq_true, List.isPrefixOf_iff_prefix] at h2
      exact h2
    · simp only [h2, if_false]
      simp only [List.any_eq_true, related, Bool.or_eq_true, List.isPrefixOf_iff_prefix, not_exists, not_and] at h2
      simp
      intro a b hab; exact not_or.1 (h2 (a, b) hab)

theorem related_symm (a b : Str) : related a b = related b a := by simp [related, Bool.or_comm]

/-- the invariant `create`/`tryStore` maintain: stored keys are prefix-free and the listening
    tag is unrelated to every stored key -/
def TagInv (t : TagState) : Prop :=
  PrefixFree t.stored ∧ ∀ tag, t.listening = some tag → ∀ kv ∈ t.stored, related kv.1 tag = false

theorem create_inv (t t' : TagState) (tag : Str) (hI : TagInv t) (h : t.create tag = some t') : TagInv t' := by
  unfold TagState.create at h
  split at h
  · simp at h
  · split at h
    · simp at h
    · rename_i h2
      simp at h; subst h
      refine ⟨hI.1, ?_⟩
      intro tg htg kv hkv
      simp at htg; subst htg
      simp only [List.any_eq_true, not_exists, not_and, Bool.not_eq_true] at h2
      exact h2 kv hkv

theorem tryStore_inv (t t' : TagState) (c : Str) (hI : TagInv t) (h : t.tryStore c = some t') : TagInv t' := by
  unfold TagState.tryStore at h
  split at h
  · rename_i tag htag
    simp at h; subst h
    refine ⟨?_, by simp⟩
    unfold PrefixFree
    rw [List.pairwise_cons]
    refine ⟨?_, hI.1.sublist List.filter_sublist⟩
    intro kv hkv
    have := hI.2 tag htag kv (List.mem_filter.1 hkv).1
    rw [related_symm]; exact this
  · simp at h

abbrev Match := Nat × Str × Str

def matchesOf (stored : List (Str × Str)) (line : Str) : List Match :=
  stored.filterMap (fun kv => (findIdx kv.1 line).map (fun i => (i, kv.1, kv.2)))

/-- stable insertion sort by match position (`to_inject.sort_by(|a, b| a.0.cmp(&b.0))`) -/
def insertM (a : Match) : List Match → List Match
  | [] => [a]
  | b :: bs => if a.1 ≤ b.1 then a :: b :: bs else b :: insertM a bs

def sortM (l : List Match) : List Match := l.foldr insertM []

/-- the `for (i, key, value) in &to_inject` loop of `inject_tags`; `norm` = `replace_line_ending(le, false)` -/
def injLoop (norm : Str → Str) (line : Str) : List Match → Nat → Str → List Str → Str × List Str
  | [], lastEnd, acc, rem => (acc ++ line.drop lastEnd, rem)
  | (i, k, v) :: ms, lastEnd, acc, rem =>
    if i < lastEnd then injLoop norm line ms lastEnd acc rem
    else injLoop norm line ms (i + k.length) (acc ++ (line.drop lastEnd).take (i - lastEnd) ++ norm v) (k :: rem)

def TagState.inject (t : TagState) (norm : Str → Str) (line : Str) : Str × TagState :=
  let r := injLoop norm line (sortM (matchesOf t.stored line)) 0 [] []
  (r.1, { t with stored := t.stored.filter (fun kv => !r.2.contains kv.1) })


/-- the model of `TagState::inject_tags(line, le)` -/
def TagState.injectLE (t : TagState) (le : Str) (line : Str) : Str × TagState := t.inject (replaceLE le) line

def TagState.empty : TagState := ⟨none, []⟩

end Txt

import Txtpp.Model.Machine
import Txtpp.Model.Tag
import Txtpp.Model.PathName
/-! The concrete per-file pass: model of `Pp::run` (pp/mod.rs) for all four modes and both passes,
    as an instance of the generic machine of `Model/Machine.lean`, over an abstract `World`
    (file system + shell as seen from one source file). -/
namespace Txt
open Refine (Sem machine spec)

inductive Mode where
  | build | inMemory | clean | verify
deriving DecidableEq, Repr

/-- What one pass of one source file can do to / observe of the outside world.
    `W` is the world state (file system, marker log …); all operations are relative to the
    directory of the source file. `none` = the operation fails (an `Err` in the code). -/
structure World (W : Type) where
  /-- `work_dir.try_resolve(arg, false)` + `fs::read_to_string` -/
  readInclude : W → Str → Option Str
  /-- `work_dir.join(arg).get_txtpp_file()` + `share_base`: the `.txtpp` source that generates `arg`, if any.
      `some none` = no source; `none` = error resolving it -/
  depOf : W → Str → Option (Option Str)
  /-- `Shell::run(command)`: stdout (lossily decoded) or failure, and the world after the command -/
  run : W → Str → Option Str × W
  /-- `IOCtx::write_temp_file(target, contents)` outside clean mode -/
  writeTemp : W → Str → Str → Option W
  /-- `IOCtx::write_temp_file(target, "")` in clean mode -/
  removeTemp : W → Str → Option W

inductive PpMode where
  | firstExec | exec | collect (deps : List Str)
deriving DecidableEq, Repr

def PpMode.isExecute : PpMode → Bool
  | .collect _ => false
  | _ => true

structure PpState (W : Type) where
  tags : TagState
  pm : PpMode
  w : W

/-- the file-name part of a path argument (`Path::file_name` semantics are only needed for the
    extension test: text after the last `/`) -/
def lastComponent (p : Str) : Str := (p.reverse.takeWhile (· != '/')).reverse

/-- `PathBuf::from(arg).is_txtpp_file()` -/
def isTxtppPath (p : Str) : Bool := PathName.isTxtppFile (lastComponent ((p.reverse.dropWhile (· == '/')).reverse))

def badStart (d : Directive) : Bool := d.ty.multi && d.pre.isEmpty

variable {W : Type}

/-- `execute_directive_temp` -/
def execTemp (Wd : World W) (le : Str) (w : W) (args : List Str) (isClean : Bool) : Option W :=
  match args with
  | [] => none
  | target :: body =>
    if isTxtppPath target then none
    else if isClean then Wd.removeTemp w target
    else Wd.writeTemp w target (joinWith le body)

/-- what happens to raw directive output: diverted to a listening tag, or formatted -/
def routeOutput (le : Str) (s : PpState W) (ws raw : Str) : PpState W × Option Str :=
  match s.tags.tryStore raw with
  | some t' => ({ s with tags := t' }, none)
  | none => (s, some (formatOutput le ws raw))

/-- `execute_directive` (with `execute_in_clean_mode`, `execute_in_collect_deps_mode`) -/
def execDirective (Wd : World W) (mode : Mode) (le : Str) (s : PpState W) (d : Directive) :
    Option (PpState W × Option Str) :=
  if mode = .clean then
    -- errors are ignored in clean mode
    match d.ty with
    | .temp => (match execTemp Wd le s.w d.args true with
        | some w' => some ({ s with w := w' }, none)
        | none => some (s, none))
    | _ => some (s, none)
  else
    let arg := d.args.headD []
    -- dependency collection (never in the final pass)
    let collected : Option (Option (PpState W)) :=
      if s.pm = .exec then some none
      else if d.ty = .include || d.ty = .after then
        match Wd.depOf s.w arg with
        | none => none                                  -- could not resolve: error
        | some (some dep) =>
          (match s.pm with
           | .collect deps => some (some { s with pm := .collect (deps ++ [dep]) })
           | _ => some (some { s with pm := .collect [dep] }))
        | some none => some none
      else some none
    match collected with
    | none => none
    | some (some s') => some (s', none)
    | some none =>
      if !s.pm.isExecute then some (s, none)
      else match d.ty with
        | .empty | .after => some (s, none)
        | .run =>
          (match Wd.run s.w (joinWith [' '] d.args) with
           | (none, _) => none
           | (some out, w') => some (routeOutput le { s with w := w' } d.ws out))
        | .include =>
          (match Wd.readInclude s.w arg with
           | none => none
           | some c => some (routeOutput le s d.ws c))
        | .temp =>
          (match execTemp Wd le s.w d.args false with
           | none => none
           | some w' => some ({ s with w := w' }, none))
        | .tag =>
          (match s.tags.create arg with
           | none => none
           | some t' => some ({ s with tags := t' }, none))
        | .write => some (routeOutput le s d.ws (joinWith ['\n'] d.args))

/-- the directive semantics of txtpp, as an instance of the generic `Sem` -/
def txtppSem (Wd : World W) (mode : Mode) (le : Str) : Sem Directive (PpState W) where
  detect l := match detectFrom l with
    | some d => if mode = .clean && badStart d then none else some d    -- `ignore_err_if_cleaning`: treated as a text line
    | none => none
  badStart := badStart
  addLine := addLine
  exec := execDirective Wd mode le
  text s l :=
    if s.pm.isExecute then
      let r := s.tags.injectLE le l
      ({ s with tags := r.2 }, some r.1)
    else (s, none)
  le := le

inductive PassResult (W : Type) where
  | ok (out : Str) (w : W)
  | hasDeps (deps : List Str) (w : W)
  | err
deriving Repr

/-- `Pp::run_internal`: the machine, then the end-of-file checks. The sink (`CtxOut`) is applied
    to `out` by the caller. `readOk = false` models a read error (invalid UTF-8) after `lines`. -/
def ppPass (Wd : World W) (mode : Mode) (le : Str) (firstPass trailing : Bool) (w : W)
    (lines : List Str) (readOk : Bool) : PassResult W :=
  let s0 : PpState W := ⟨TagState.empty, if firstPass then .firstExec else .exec, w⟩
  if !readOk then .err else
  match machine (txtppSem Wd mode le) trailing s0 lines with
  | none => .err
  | some (s, out) =>
    match s.pm with
    | .collect deps => .hasDeps deps s.w
    | _ => if s.tags.hasTags && mode != .clean then .err else .ok out s.w

end Txt

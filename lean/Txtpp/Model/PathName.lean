/-! std::path file-name algebra (`extension`, `file_stem`, `set_extension`) and the txtpp naming
    rules of `fs/path/mod.rs` (DESIGN 4.6) -/
namespace PathName
abbrev Str := List Char

/-- split at the last '.', none if there is no '.' -/
def splitLastDot (n : Str) : Option (Str × Str) :=
  let r := n.reverse
  if '.' ∈ r then some ((r.dropWhile (· != '.')).tail.reverse, (r.takeWhile (· != '.')).reverse) else none

def dotdot : Str := ['.', '.']
def txtpp : Str := ['t', 'x', 't', 'p', 'p']

/-- `Path::extension` on a file name -/
def extension (n : Str) : Option Str :=
  if n = dotdot then none else
  match splitLastDot n with
  | none => none
  | some (b, a) => if b = [] then none else some a

/-- `Path::file_stem` on a file name -/
def fileStem (n : Str) : Str :=
  if n = dotdot then n else
  match splitLastDot n with
  | none => n
  | some (b, _) => if b = [] then n else b

/-- `PathBuf::set_extension` on a file name -/
def setExtension (n ext : Str) : Str := fileStem n ++ (if ext = [] then [] else '.' :: ext)

def isTxtppFile (n : Str) : Bool :=
  match extension n with
  | none => false
  | some e => e == txtpp || (match extension (setExtension n []) with | some e2 => e2 == txtpp | none => false)

def removeTxtpp (n : Str) : Option Str :=
  if !isTxtppFile n then none else
  let p := setExtension n []
  if extension p == some txtpp then
    match extension n with
    | some e => some (setExtension p [] ++ '.' :: e)   -- FIXED: append, do not replace
    | none => none
  else some p

def getTxtppFile (ex : Str → Bool) (n : Str) : Option Str :=
  if isTxtppFile n then none else
  match extension n with
  | some e =>
    let p1 := setExtension n (e ++ '.' :: txtpp)
    if ex p1 then some p1 else
    let p2 := setExtension (setExtension p1 []) (txtpp ++ '.' :: e)
    if ex p2 then some p2 else none
  | none =>
    let p := setExtension n txtpp
    if ex p then some p else none

end PathName

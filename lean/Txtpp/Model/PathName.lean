/-! Scratch prototype: std::path file-name algebra and txtpp naming (4.6) -/
namespace PathName
abbrev Str := List Char

/-- split at the last '.', none if there is no '.' -/
def splitLastDot (n : Str) : Option (Str × Str) :=
  let r := n.reverse
  if '.' ∈ r then some ((r.dropWhile (· != '.')).tail.reverse, (r.takeWhile (· != '.')).reverse) else none

def dotdot : Str := ['.', '.']
def txtpp : Str := "txtpp".toList

/-- `Path::extension` on a file name -/
def extension (n : Str) : Option Str :=
  if n = dotdot then none else
  match splitLastDot n with
  | none => none
  | some (b, a) => if b = [] then none else some a

/-- `Path::file_stem` on a file name -/
def fileStem (n : Str) : Str :=
  if n = dotdot then n else
  match splitLastDot n with
  | none => n
  | some (b, _) => if b = [] then n else b

/-- `PathBuf::set_extension` on a file name -/
def setExtension (n ext : Str) : Str := fileStem n ++ (if ext = [] then [] else '.' :: ext)

def isTxtppFile (n : Str) : Bool :=
  match extension n with
  | none => false
  | some e => e == txtpp || (match extension (setExtension n []) with | some e2 => e2 == txtpp | none => false)

def removeTxtpp (n : Str) : Option Str :=
  if !isTxtppFile n then none else
  let p := setExtension n []
  if extension p == some txtpp then
    match extension n with
    | some e => some (setExtension p [] ++ '.' :: e)   -- FIXED: append, do not replace
    | none => none
  else some p

def getTxtppFile (ex : Str → Bool) (n : Str) : Option Str :=
  if isTxtppFile n then none else
  match extension n with
  | some e =>
    let p1 := setExtension n (e ++ '.' :: txtpp)
    if ex p1 then some p1 else
    let p2 := setExtension (setExtension p1 []) (txtpp ++ '.' :: e)
    if ex p2 then some p2 else none
  | none =>
    let p := setExtension n txtpp
    if ex p then some p else none

def s (x : String) : Str := x.toList
#eval [s "foo.txtpp", s "foo.bar.txtpp", s "foo.txtpp.bar", s "foo.bar", s "foo", s "txtpp", s ".txtpp", s "a.txtpp.b.c"].map isTxtppFile
#eval [s "foo", s "foo.bar", s "foo.bar.txtpp", s "foo.txtpp.bar", s "foo.txtpp", s "foo.txtpp.txtpp", s ".hidden.txtpp", s "a..txtpp"].map (fun n => (removeTxtpp n).map String.ofList)

-- brute force: all names over tokens, check the round trip get → remove
def toks : List Str := [s "a", s ".", s "txtpp", s "b"]
def names : Nat → List Str
  | 0 => [[]]
  | k + 1 => (names k) ++ (names k).flatMap (fun n => toks.map (fun t => n ++ t))

def check (n : Str) : List (String × String × String) :=
  -- candidates the code would probe
  let cands := match extension n with
    | some e => [setExtension n (e ++ '.' :: txtpp), setExtension (setExtension (setExtension n (e ++ '.' :: txtpp)) []) (txtpp ++ '.' :: e)]
    | none => [setExtension n txtpp]
  cands.filterMap (fun c =>
    match getTxtppFile (fun x => x == c) n with
    | some src => if removeTxtpp src == some n then none else some (String.ofList n, String.ofList src, toString ((removeTxtpp src).map String.ofList))
    | none => none)

#eval ((names 5).eraseDups.filter (· ≠ [])).length
#eval ((names 5).eraseDups.filter (· ≠ [])).flatMap check |>.take 40
end PathName
namespace PathName
def hasDotDot : Str → Bool
  | '.' :: '.' :: _ => true
  | _ :: cs => hasDotDot cs
  | [] => false
def wellDotted (n : Str) : Bool := !hasDotDot n && n.getLast? != some '.'
#eval ((names 6).eraseDups.filter (fun n => n ≠ [] && wellDotted n)).length
#eval ((names 6).eraseDups.filter (fun n => n ≠ [] && wellDotted n)).flatMap check |>.take 20
-- outputs of the three shapes
#eval [s "foo.ext.txtpp", s "foo.txtpp.ext", s "foo.txtpp", s "a.b.ext.txtpp", s ".hid.txtpp", s ".txtpp.ext"].map (fun n => (removeTxtpp n).map String.ofList)
end PathName
namespace PathName
def check2 (src : Str) : Option (String × String) :=
  if isTxtppFile src && wellDotted src then
    match removeTxtpp src with
    | none => some (String.ofList src, "remove=none")
    | some n =>
      if isTxtppFile n then none   -- x.txtpp.txtpp: outside the domain
      else match getTxtppFile (fun x => x == src) n with
        | some s' => if s' == src then none else some (String.ofList src, String.ofList s')
        | none => some (String.ofList src, "notfound via " ++ String.ofList n)
  else none
#eval ((names 6).eraseDups.filter (· ≠ [])).filterMap check2 |>.take 20
end PathName

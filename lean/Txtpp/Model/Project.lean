import Txtpp.Model.Fs
import Txtpp.Model.Coord
/-! Whole-run reference model: `resolve_inputs`, `scan_dir`, and the coordinator of `Model/Coord.lean`
    driven sequentially (single worker, FIFO) with real passes over the model file system.
    By the C02 theorems every other schedule gives the same verdict and files. -/
namespace Txt

inductive Verdict where
  | ok | err | circular | panic | outOfFuel
deriving Repr, DecidableEq

/-- `resolve_inputs`: (files, directories), `none` = error -/
def resolveInputs (cfg : Cfg) (fs : FS) : List Str → Option (List Path × List Path)
  | [] => some ([], [])
  | inp :: rest =>
    match resolveInputs cfg fs rest with
    | none => none
    | some (files, dirs) =>
      match argComps cfg [] inp with
      | none => none
      | some (start, comps) =>
        match fs.walk start comps with
        | some p =>
          if fs.isDir p then some (files, p :: dirs)
          else
            let lex := comps.filter (fun c => c != [] && c != dot)
            match lex.getLast? with
            | none => none
            | some name =>
              if PathName.isTxtppFile name then (if fs.isFile p then some (p :: files, dirs) else none)
              else match fs.depOf cfg [] inp with
                | some s => some (s :: files, dirs)
                | none => none
        | none => none

/-- `scan_dir` -/
def scanDir (fs : FS) (recursive : Bool) (d : Path) : List Path × List Path :=
  let files := (fs.files.filter (fun kv => kv.1.dropLast == d && kv.1 != [] &&
      (match kv.1.getLast? with | some n => PathName.isTxtppFile n | none => false))).map (·.1)
  let subs := if recursive then fs.dirs.filter (fun p => p != [] && p.dropLast == d) else []
  (files, subs)

/-- all files found by scanning `dirs` (recursively if asked), each directory once -/
def scanAll (fs : FS) (recursive : Bool) : Nat → List Path → List Path → List Path
  | 0, _, _ => []
  | _, [], _ => []
  | fuel + 1, d :: ds, seen =>
    if seen.contains d then scanAll fs recursive fuel ds seen
    else
      let (files, subs) := scanDir fs recursive d
      files ++ scanAll fs recursive fuel (ds ++ subs) (d :: seen)

structure PSt where
  names : List Path
  st : Coord.St
  fs : FS

def indexOf (names : List Path) (p : Path) : List Path × Nat :=
  match names.findIdx? (· == p) with
  | some i => (names, i)
  | none => (names ++ [p], names.length)

def indexAll : List Path → List Path → List Path × List Nat
  | names, [] => (names, [])
  | names, p :: ps =>
    let (n1, i) := indexOf names p
    let (n2, is) := indexAll n1 ps
    (n2, i :: is)

def remaining (s : PSt) : Bool := (List.range s.names.length).any (fun d => !(s.st.dm.inE d).isEmpty)

/-- the coordinator loop with one worker: receive the oldest task's result -/
def runLoop (cfg : Cfg) : Nat → PSt → Verdict × FS
  | 0, s => (.outOfFuel, s.fs)
  | fuel + 1, s =>
    match s.st.pool with
    | [] => (if remaining s then .circular else .ok, s.fs)
    | .pp f first :: rest =>
      let src := s.names.getD f []
      let (oc, fs') := runPass cfg s.fs src first
      let st := { s.st with pool := rest }
      match oc with
      | .err => (.err, fs')
      | .ok =>
        (match Coord.handle st (.ok f) with
         | .cont st' => runLoop cfg fuel { s with st := st', fs := fs' }
         | .fail => (.err, fs')
         | .panic => (.panic, fs'))
      | .hasDeps deps =>
        let (names', idx) := indexAll s.names (deps.map (fun d => (splitOn '/' d)))
        (match Coord.handle st (.hasDeps f idx) with
         | .cont st' => runLoop cfg fuel { names := names', st := st', fs := fs' }
         | .fail => (.err, fs')
         | .panic => (.panic, fs'))

def dedup : List Path → List Path
  | [] => []
  | p :: ps => let r := dedup ps; if r.contains p then r else p :: r

/-- `Txtpp::run` -/
def runProject (cfg : Cfg) (fs : FS) (inputs : List Str) : Verdict × FS :=
  match resolveInputs cfg fs inputs with
  | none => (.err, fs)
  | some (files, dirs) =>
    let scanned := scanAll fs cfg.recursive (fs.dirs.length + dirs.length + 2) dirs []
    let (names, idx) := indexAll [] (files ++ scanned)
    let st := Coord.init idx
    runLoop cfg (4 * (fs.files.length + 4)) { names := names, st := st, fs := fs }

end Txt

import Txtpp.Model.CoordLoops
namespace Coord

theorem releaseLoop_spec0 (as : List File) (cnt : File → Option Nat)
    (hnd : as.Nodup) (hdef : ∀ a ∈ as, ∃ k, cnt a = some k) :
    ∃ cnt' out', releaseLoop as cnt [] = some (cnt', out') ∧
      (∀ x, x ∉ as → cnt' x = cnt x) ∧
      (∀ x, x ∈ out' ↔ (x ∈ as ∧ ∃ k, cnt x = some k ∧ k ≤ 1)) ∧
      (∀ a ∈ as, ∀ k, cnt a = some k → 1 < k → cnt' a = some (k - 1)) := by
  obtain ⟨cnt', out', hr, h1, h2, h3⟩ := releaseLoop_spec as cnt [] hnd hdef
  refine ⟨cnt', out', hr, h1, by simpa using h3, ?_⟩
  intro a ha k hk hlt
  rcases (h2 a ha k hk).2 hlt with h | h
  · exact h.1
  · simp at h

/-! ### execFile / execFiles -/

theorem execFile_dm (s : St) (f b) : (execFile s f b).dm = s.dm := by unfold execFile; split <;> rfl
theorem execFile_done (s : St) (f b) : (execFile s f b).done = s.done := by unfold execFile; split <;> rfl
theorem execFiles_dm (s : St) (fs b) : (execFiles s fs b).dm = s.dm := by
  induction fs generalizing s with
  | nil => rfl
  | cons f fs ih => simp only [execFiles, List.foldl_cons] at ih ⊢; rw [ih, execFile_dm]
theorem execFiles_done (s : St) (fs b) : (execFiles s fs b).done = s.done := by
  induction fs generalizing s with
  | nil => rfl
  | cons f fs ih => simp only [execFiles, List.foldl_cons] at ih ⊢; rw [ih, execFile_done]

theorem execFile_acct (s : St) (f : File) (b : Bool) (h : s.total = s.done + s.pool.length) :
    (execFile s f b).total = (execFile s f b).done + (execFile s f b).pool.length := by
  unfold execFile; split <;> simp_all <;> omega

theorem execFiles_acct (s : St) (fs : List File) (b : Bool) (h : s.total = s.done + s.pool.length) :
    (execFiles s fs b).total = (execFiles s fs b).done + (execFiles s fs b).pool.length := by
  induction fs generalizing s with
  | nil => simpa [execFiles]
  | cons f fs ih => simp only [execFiles, List.foldl_cons]; exact ih _ (execFile_acct s f b h)

theorem execFiles_cons (s : St) (f fs b) : execFiles s (f :: fs) b = execFiles (execFile s f b) fs b := rfl
theorem execFiles_nil (s : St) (b) : execFiles s [] b = s := rfl

theorem nodup_snoc {α} (l : List α) (a : α) (h : l.Nodup) (ha : a ∉ l) : (l ++ [a]).Nodup := by
  rw [List.nodup_append]
  refine ⟨h, by simp, ?_⟩
  intro x hx y hy
  simp at hy; subst hy
  exact fun e => ha (e ▸ hx)

/-- first-pass scheduling of a list of files -/
theorem execFiles_first (s : St) (fs : List File)
    (hs : s.seen.Nodup) (hp : s.pool.Nodup) (hps : ∀ f b, Task.pp f b ∈ s.pool → f ∈ s.seen) :
    (execFiles s fs true).seen.Nodup ∧ (execFiles s fs true).pool.Nodup ∧
    (∀ x, x ∈ (execFiles s fs true).seen ↔ x ∈ s.seen ∨ x ∈ fs) ∧
    (∀ t, t ∈ (execFiles s fs true).pool ↔ t ∈ s.pool ∨ ∃ f ∈ fs, f ∉ s.seen ∧ t = Task.pp f true) ∧
    (∀ f b, Task.pp f b ∈ (execFiles s fs true).pool → f ∈ (execFiles s fs true).seen) := by
  induction fs generalizing s with
  | nil => simp only [execFiles_nil]; exact ⟨hs, hp, by simp, by simp, hps⟩
  | cons f fs ih =>
    rw [execFiles_cons]
    by_cases hf : f ∈ s.seen
    · have he : execFile s f true = s := by simp [execFile, hf]
      rw [he]
      obtain ⟨a1, a2, a3, a4, a5⟩ := ih s hs hp hps
      refine ⟨a1, a2, ?_, ?_, a5⟩
      · intro x; rw [a3 x]; grind
      · intro t; rw [a4 t]; grind
    · let s1 : St := { s with seen := f :: s.seen, total := s.total + 1, pool := s.pool ++ [Task.pp f true] }
      have he : execFile s f true = s1 := by simp [execFile, hf, s1]
      rw [he]
      have hnp : Task.pp f true ∉ s.pool := fun h => hf (hps f true h)
      have h1 : s1.seen.Nodup := List.nodup_cons.2 ⟨hf, hs⟩
      have h2 : s1.pool.Nodup := nodup_snoc _ _ hp hnp
      have h3 : ∀ g b, Task.pp g b ∈ s1.pool → g ∈ s1.seen := by
        intro g b hg; simp [s1] at hg ⊢; grind
      obtain ⟨a1, a2, a3, a4, a5⟩ := ih s1 h1 h2 h3
      refine ⟨a1, a2, ?_, ?_, a5⟩
      · intro x; rw [a3 x]; simp [s1]; grind
      · intro t; rw [a4 t]; simp only [s1, List.mem_append, List.mem_singleton, List.mem_cons]; grind

/-- second-pass scheduling of a duplicate-free list of released files -/
theorem execFiles_second (s : St) (fs : List File) (hfs : fs.Nodup)
    (hp : s.pool.Nodup) (hnp : ∀ f ∈ fs, Task.pp f false ∉ s.pool) :
    (execFiles s fs false).seen = s.seen ∧ (execFiles s fs false).pool.Nodup ∧
    (∀ t, t ∈ (execFiles s fs false).pool ↔ t ∈ s.pool ∨ ∃ f ∈ fs, t = Task.pp f false) := by
  induction fs generalizing s with
  | nil => refine ⟨rfl, hp, ?_⟩; simp [execFiles_nil]
  | cons f fs ih =>
    rw [execFiles_cons]
    let s1 : St := { s with total := s.total + 1, pool := s.pool ++ [Task.pp f false] }
    have he : execFile s f false = s1 := by simp [execFile, s1]
    rw [he]
    have hnd := List.nodup_cons.1 hfs
    have hnpf := hnp f (by simp)
    have h2 : s1.pool.Nodup := nodup_snoc _ _ hp hnpf
    have h3 : ∀ g ∈ fs, Task.pp g false ∉ s1.pool := by
      intro g hg; simp [s1]; exact ⟨hnp g (by simp [hg]), fun h => hnd.1 (h ▸ hg)⟩
    obtain ⟨a1, a2, a3⟩ := ih s1 hnd.2 h2 h3
    refine ⟨a1, a2, ?_⟩
    intro t; rw [a3 t]; simp only [s1, List.mem_append, List.mem_singleton, List.mem_cons]; grind

end Coord

import Txtpp.Model.Text
/-! `str::lines`, `BufRead::lines`, `replace_line_ending`, `format_directive_output`; line-ending conformance (C12) -/
namespace Txt

/-- Rust `str::lines()` -/
def rustLines : Str → List Str
  | [] => []
  | '\n' :: cs => [] :: rustLines cs
  | '\r' :: '\n' :: cs => [] :: rustLines cs
  | c :: cs => match rustLines cs with
      | [] => [[c]]
      | l :: ls => (c :: l) :: ls


/-- `[String]::join` -/
def joinWith (sep : Str) : List Str → Str
  | [] => []
  | [l] => l
  | l :: ls => l ++ sep ++ joinWith sep ls

/-- `str::ends_with('\n')` -/
def endsNl (s : Str) : Bool := s.getLast? = some '\n'

/-- `ReplaceLineEnding::replace_line_ending(le, false)` -/
def replaceLE (le s : Str) : Str := joinWith le (rustLines s) ++ (if endsNl s then le else [])

/-- `Pp::format_directive_output(ws, raw.lines(), raw.ends_with('\n'))` -/
def formatOutput (le ws raw : Str) : Str :=
  joinWith le ((rustLines raw).map (ws ++ ·)) ++ (if endsNl raw then le else [])

/-- every `\r` is immediately followed by `\n` -/
def crDom : Str → Bool
  | [] => true
  | '\r' :: '\n' :: cs => crDom cs
  | '\r' :: _ => false
  | _ :: cs => crDom cs

def Clean (l : Str) : Prop := '\r' ∉ l ∧ '\n' ∉ l

theorem crDom_cr (cs : Str) (h : crDom ('\r' :: cs) = true) : ∃ ds, cs = '\n' :: ds := by
  cases cs with
  | nil => simp [crDom] at h
  | cons d ds =>
    by_cases hd : d = '\n'
    · exact ⟨ds, by rw [hd]⟩
    · rw [crDom] at h
      · simp at h
      · intro cs' hcs'; simp at hcs'; exact hd hcs'.1

theorem crDom_tail (c : Char) (cs : Str) (hc : c ≠ '\r') (h : crDom (c :: cs) = true) : crDom cs = true := by
  rw [crDom] at h
  · exact h
  · intro cs' hcs' _; exact hc hcs'
  · intro x; exact hc x

theorem rustLines_clean (s : Str) (h : crDom s = true) : ∀ l ∈ rustLines s, Clean l := by
  fun_induction rustLines s with
  | case1 => simp
  | case2 cs ih =>
    have : crDom cs = true := crDom_tail _ _ (by decide) h
    intro l hl; simp at hl
    rcases hl with rfl | hl
    · simp [Clean]
    · exact ih this l hl
  | case3 cs ih =>
    have : crDom cs = true := by simpa [crDom] using h
    intro l hl; simp at hl
    rcases hl with rfl | hl
    · simp [Clean]
    · exact ih this l hl
  | case4 c cs hn hrn hnil ih =>
    have hc : c ≠ '\r' := by
      rintro rfl
      obtain ⟨ds, rfl⟩ := crDom_cr cs h
      exact hrn ds rfl rfl
    have hcn : c ≠ '\n' := fun e => hn (e ▸ rfl)
    intro l hl; simp at hl; subst hl
    simp [Clean]; exact ⟨fun e => hc e.symm, fun e => hcn e.symm⟩
  | case5 c cs hn hrn l ls hcons ih =>
    have hc : c ≠ '\r' := by
      rintro rfl
      obtain ⟨ds, rfl⟩ := crDom_cr cs h
      exact hrn ds rfl rfl
    have hcn : c ≠ '\n' := fun e => hn (e ▸ rfl)
    have hcs : crDom cs = true := crDom_tail c cs hc h
    intro l' hl'; simp at hl'
    rcases hl' with rfl | hl'
    · have := ih hcs l (by simp [hcons])
      simp [Clean] at this ⊢
      exact ⟨⟨fun e => hc e.symm, this.1⟩, ⟨fun e => hcn e.symm, this.2⟩⟩
    · exact ih hcs l' (by simp [hcons, hl'])

end Txt
